(* C16/Lemmas.v — proofs about the model of template evaluation and subscriptions. *)
From Common Require Import Prelude.
From Coq Require Import QArith.
From C16 Require Import Model.
Open Scope Z_scope.

(* ---- the translated tables against the language's operators ----------------------------------
   These are the lemmas that break when an entry of OPERATORS / COMPARISONS / BOOL_OPERATORS or of
   _eval_methods in placeholder_manager.py is swapped, dropped or replaced (gen/Tables.v is
   regenerated on every run). *)
Lemma operators_bin_ok : forall o, supported_bin o = true ->
  exists p, operators o = Some p /\ forall a b, prim_call2 p a b = py_binop o a b.
Proof. destruct o; cbn; intro H; try discriminate; eexists; split; try reflexivity; intros; reflexivity. Qed.

Lemma operators_un_ok : forall o, supported_un o = true ->
  exists p, operators o = Some p /\ forall a, prim_call1 p a = py_unop o a.
Proof. destruct o; cbn; intro H; try discriminate; eexists; split; try reflexivity; intros; reflexivity. Qed.

Lemma comparisons_ok : forall o, supported_cmp o = true ->
  exists p, comparisons o = Some p /\ forall a b, prim_call2 p a b = py_cmp o a b.
Proof. destruct o; cbn; intro H; try discriminate; eexists; split; try reflexivity; intros; reflexivity. Qed.

Lemma bool_operators_ok : forall o,
  exists p, bool_operators o = Some p /\ forall a b, bprim_call p a b = py_boolop o a b.
Proof. destruct o; cbn; eexists; split; try reflexivity; intros; reflexivity. Qed.

(* every node class of the supported grammar is dispatched to its own walker *)
Lemma d_constant r : dispatch NConstant M_eval_constant r = r. Proof. reflexivity. Qed.
Lemma d_name r : dispatch NName M_eval_name r = r. Proof. reflexivity. Qed.
Lemma d_attribute r : dispatch NAttribute M_eval_attribute r = r. Proof. reflexivity. Qed.
Lemma d_subscript r : dispatch NSubscript M_eval_subscript r = r. Proof. reflexivity. Qed.
Lemma d_bin_op r : dispatch NBinOp M_eval_bin_op r = r. Proof. reflexivity. Qed.
Lemma d_unary_op r : dispatch NUnaryOp M_eval_unary_op r = r. Proof. reflexivity. Qed.
Lemma d_compare r : dispatch NCompare M_eval_compare r = r. Proof. reflexivity. Qed.
Lemma d_bool_op r : dispatch NBoolOp M_eval_bool_op r = r. Proof. reflexivity. Qed.
Lemma d_if r : dispatch NIfExp M_eval_if r = r. Proof. reflexivity. Qed.
Lemma d_tuple r : dispatch NTuple M_eval_tuple r = r. Proof. reflexivity. Qed.
Global Hint Rewrite d_constant d_name d_attribute d_subscript d_bin_op d_unary_op d_compare d_bool_op d_if d_tuple : disp.

Lemma dispatch_table_ok :
  forall k m, In (k, m) [(NConstant, M_eval_constant); (NName, M_eval_name); (NAttribute, M_eval_attribute);
                         (NSubscript, M_eval_subscript); (NBinOp, M_eval_bin_op); (NUnaryOp, M_eval_unary_op);
                         (NCompare, M_eval_compare); (NBoolOp, M_eval_bool_op); (NIfExp, M_eval_if);
                         (NTuple, M_eval_tuple)] ->
  forall r, dispatch k m r = r.
Proof.
  intros k m H r. cbn in H.
  repeat (destruct H as [H | H]; [inversion H; subst; reflexivity|]). destruct H.
Qed.

(* the walk with the dispatch wrappers removed *)
Lemma read_node_eq sub en r :
  dispatch NName M_eval_name
    (dispatch NAttribute M_eval_attribute
       (match r with
        | RPlayerN _ _ => dispatch NSubscript M_eval_subscript (dispatch NConstant M_eval_constant (read_walk sub en r))
        | _ => read_walk sub en r
        end)) = read_walk sub en r.
Proof. destruct r; autorewrite with disp; reflexivity. Qed.

Lemma read_match_eq {A} (r : rdesc) (X : A) : match r with RPlayerN _ _ => X | _ => X end = X.
Proof. destruct r; reflexivity. Qed.

(* ---- MPF's walk against Python's evaluation -------------------------------------------------- *)
Definition expected (sub : bool) (p : pres) : tres :=
  match p with
  | PVal v => TVal v
  | PTypeErr => TEvalErr
  | PZeroDiv | PIndexErr => TCrash
  | PNameErr => TValueErr
  | PReadErr => if sub then TEvalErr else TValueErr
  | PCrash => TCrash
  | PUnsup => TUnsup
  end.

Lemma fst_of_res sub r s : fst (of_res r s) = expected sub (pres_of r).
Proof. destruct r; reflexivity. Qed.

Lemma fst_with_subs s r : fst (with_subs s r) = fst r.
Proof. destruct r as [[] ?]; reflexivity. Qed.

Lemma expected_val sub p v : expected sub p = TVal v -> p = PVal v.
Proof. destruct p, sub; cbn; intro H; try discriminate; congruence. Qed.

(* evaluation of two operands, shared by BinOp / Compare / BoolOp / Tuple / Subscript *)
Lemma two_operands sub en a b (k : value -> value -> list loc -> tres * list loc) (kp : value -> value -> pres) :
  fst (tmpl_eval sub en a) = expected sub (py_eval en a) ->
  fst (tmpl_eval sub en b) = expected sub (py_eval en b) ->
  (forall va vb s, fst (k va vb s) = expected sub (kp va vb)) ->
  fst (tbind (tmpl_eval sub en a) (fun va sa => tbind (tmpl_eval sub en b) (fun vb sb => k va vb (sa ++ sb))))
  = expected sub (pbind (py_eval en a) (fun va => pbind (py_eval en b) (fun vb => kp va vb))).
Proof.
  intros Ha Hb Hk.
  destruct (tmpl_eval sub en a) as [ta sa]; cbn [fst] in Ha; subst ta.
  destruct (tmpl_eval sub en b) as [tb sb]; cbn [fst] in Hb; subst tb.
  destruct (py_eval en a) as [va| | | | | | |]; cbn; try reflexivity; try (destruct sub; reflexivity).
  destruct (py_eval en b) as [vb| | | | | | |]; cbn; try reflexivity; try (destruct sub; reflexivity).
  apply Hk.
Qed.

Definition subs_ok (sub : bool) (e : expr) : Prop := sub = false \/ subscribable e = true.

Lemma subs_ok_2 sub a b : sub = false \/ subscribable a && subscribable b = true -> subs_ok sub a /\ subs_ok sub b.
Proof.
  intros [H | H]; [split; left; assumption|].
  apply andb_true_iff in H as [Ha Hb]. split; right; assumption.
Qed.

Lemma read_walk_matches sub en r : supported_read r = true -> (sub = false \/ unsubscribable r = false) ->
  fst (read_walk sub en r) =
  expected sub (match rread en r with RVal v => PVal v | RValErr => PReadErr | RCrash => PCrash end).
Proof.
  intros S G.
  destruct r as [l | x | i x].
  - destruct l; cbn [supported_read] in S; try discriminate.
    + cbn. destruct (lookup_loc _ _) as [[]|]; cbn; try reflexivity; destruct sub; reflexivity.
    + cbn. destruct (lookup_loc _ _) as [[]|]; cbn; try reflexivity; destruct sub; reflexivity.
    + cbn. destruct (lookup_loc _ _) as [[]|]; cbn; try reflexivity; destruct sub; reflexivity.
    + destruct G as [-> | G]; [|discriminate].
      cbn. destruct (lookup_loc _ _) as [[]|]; reflexivity.
    + destruct G as [-> | G]; [|discriminate].
      cbn. destruct (game en); [|reflexivity]. destruct (lookup_loc _ _) as [[]|]; reflexivity.
  - unfold read_walk. destruct (rread en (RCur x)); cbn; try reflexivity; destruct sub; reflexivity.
  - unfold read_walk. destruct (rread en (RPlayerN i x)); cbn; try reflexivity; destruct sub; reflexivity.
Qed.

Lemma tmpl_matches_python : forall sub en e, supported e = true -> subs_ok sub e ->
  fst (tmpl_eval sub en e) = expected sub (py_eval en e).
Proof.
  intros sub en e. induction e; intros S G; cbn [supported] in S; unfold subs_ok in G; cbn [subscribable] in G.
  - reflexivity.
  - reflexivity.
  - reflexivity.
  - reflexivity.
  - reflexivity.
  - cbn. autorewrite with disp. destruct (assoc_z x (params en)); reflexivity.
  - cbn [tmpl_eval py_eval]. rewrite read_node_eq. apply read_walk_matches; [assumption|].
    destruct G as [G | G]; [left; assumption | right]. destruct (unsubscribable r); [discriminate | reflexivity].
  - apply andb_true_iff in S as [S Sb]. apply andb_true_iff in S as [So Sa].
    destruct (subs_ok_2 _ _ _ G) as [Ga Gb].
    destruct (operators_bin_ok o So) as [p [Hp Hc]].
    cbn [tmpl_eval py_eval]. autorewrite with disp. rewrite Hp.
    apply (two_operands sub en e1 e2 (fun va vb s => of_res (prim_call2 p va vb) s)
                        (fun va vb => pres_of (py_binop o va vb))); auto.
    intros. rewrite Hc. apply fst_of_res.
  - apply andb_true_iff in S as [So Sa].
    destruct (operators_un_ok o So) as [p [Hp Hc]].
    cbn [tmpl_eval py_eval]. autorewrite with disp. rewrite Hp. specialize (IHe Sa G).
    destruct (tmpl_eval sub en e) as [ta sa]; cbn [fst] in IHe; subst ta.
    destruct (py_eval en e); cbn; try reflexivity; try (destruct sub; reflexivity).
    rewrite Hc. apply fst_of_res.
  - apply andb_true_iff in S as [S Sb]. apply andb_true_iff in S as [So Sa].
    destruct (subs_ok_2 _ _ _ G) as [Ga Gb].
    destruct (comparisons_ok o So) as [p [Hp Hc]].
    cbn [tmpl_eval py_eval]. autorewrite with disp. rewrite Hp.
    apply (two_operands sub en e1 e2 (fun va vb s => of_res (prim_call2 p va vb) s)
                        (fun va vb => pres_of (py_cmp o va vb))); auto.
    intros. rewrite Hc. apply fst_of_res.
  - apply andb_true_iff in S as [Sa Sb].
    destruct (subs_ok_2 _ _ _ G) as [Ga Gb].
    destruct (bool_operators_ok o) as [p [Hp Hc]].
    cbn [tmpl_eval py_eval]. autorewrite with disp. rewrite Hp.
    apply (two_operands sub en e1 e2 (fun va vb s => (TVal (bprim_call p va vb), s))
                        (fun va vb => PVal (py_boolop o va vb))); auto.
    intros. cbn. rewrite Hc. reflexivity.
  - apply andb_true_iff in S as [S Sb]. apply andb_true_iff in S as [Sc Sa].
    assert (Gc : subs_ok sub e1 /\ subs_ok sub e2 /\ subs_ok sub e3).
    { destruct G as [G | G]; [repeat split; left; assumption|].
      apply andb_true_iff in G as [G G3]. apply andb_true_iff in G as [G1 G2]. repeat split; right; assumption. }
    destruct Gc as [G1 [G2 G3]].
    cbn [tmpl_eval py_eval]. autorewrite with disp.
    specialize (IHe1 Sc G1). specialize (IHe2 Sa G2). specialize (IHe3 Sb G3).
    destruct (tmpl_eval sub en e1) as [tc sc]; cbn [fst] in IHe1; subst tc.
    destruct (py_eval en e1) as [vc| | | | | | |]; cbn; try reflexivity; try (destruct sub; reflexivity).
    rewrite fst_with_subs. destruct (truthy vc); assumption.
  - reflexivity.
  - apply andb_true_iff in S as [S Sb]. apply andb_true_iff in S as [St Sa].
    destruct (subs_ok_2 _ _ _ G) as [Ga Gb].
    cbn [tmpl_eval py_eval]. autorewrite with disp.
    apply (two_operands sub en e1 e2
             (fun va vr s => match vr with VTuple l => (TVal (VTuple (va :: l)), s) | _ => (TUnsup, []) end)
             (fun va vr => match vr with VTuple l => PVal (VTuple (va :: l)) | _ => PUnsup end)); auto.
    intros va vr s. destruct vr; reflexivity.
  - apply andb_true_iff in S as [Sa Sb].
    destruct (subs_ok_2 _ _ _ G) as [Ga Gb].
    cbn [tmpl_eval py_eval]. autorewrite with disp.
    apply (two_operands sub en e1 e2 (fun va vi s => of_res (py_getitem va vi) s)
                        (fun va vi => pres_of (py_getitem va vi))); auto.
    intros. apply fst_of_res.
Qed.

Lemma eval_equals_python_allops_l : forall sub en e v, supported e = true -> subs_ok sub e ->
  py_eval en e = PVal v -> fst (tmpl_eval sub en e) = TVal v.
Proof. intros. rewrite tmpl_matches_python by assumption. rewrite H1. reflexivity. Qed.

(* the value a typed template must deliver for a Python value *)
Definition deliver (k : kind) (dflt : value) (v : value) : outcome :=
  match v with VNone => OVal dflt | _ => convert k v end.

Lemma evaluate_equals_python_l : forall k d en e v, supported e = true ->
  py_eval en e = PVal v -> evaluate k d en e = deliver k d v.
Proof.
  intros. unfold evaluate. rewrite (eval_equals_python_allops_l false en e v) by (auto; left; reflexivity).
  destruct v; reflexivity.
Qed.

Lemma type_error_gives_default_l : forall k d en e, supported e = true ->
  (py_eval en e = PTypeErr \/ py_eval en e = PNameErr \/ py_eval en e = PReadErr) ->
  evaluate k d en e = OVal d.
Proof.
  intros k d en e S H. unfold evaluate. rewrite tmpl_matches_python by (auto; left; reflexivity).
  destruct H as [H | [H | H]]; rewrite H; reflexivity.
Qed.

Definition outcome_of (k : kind) (d : value) (t : tres) : outcome :=
  match t with
  | TVal VNone | TEvalErr => convert k d
  | TVal v => convert k v
  | TValueErr | TCrash => OAssert
  | TUnsup => OUnsup
  end.

Lemma eas_fst k d en e : fst (evaluate_and_subscribe k d en e) = outcome_of k d (fst (tmpl_eval true en e)).
Proof. unfold evaluate_and_subscribe. destruct (tmpl_eval true en e) as [[v| | | |] s]; try destruct v; reflexivity. Qed.

(* complete characterisation of evaluate_and_subscribe by Python's result *)
Lemma subscribed_outcome_l : forall k d en e, supported e = true -> subscribable e = true ->
  fst (evaluate_and_subscribe k d en e) = outcome_of k d (expected true (py_eval en e)).
Proof. intros. rewrite eas_fst. rewrite tmpl_matches_python by (auto; right; assumption). reflexivity. Qed.

Lemma type_error_gives_default_subscribed_l : forall k d en e, supported e = true -> subscribable e = true ->
  (py_eval en e = PTypeErr \/ py_eval en e = PReadErr) ->
  fst (evaluate_and_subscribe k d en e) = convert k d.
Proof.
  intros k d en e S G H. rewrite subscribed_outcome_l by assumption.
  destruct H as [H | H]; rewrite H; reflexivity.
Qed.

Lemma subscribed_equals_python_l : forall k d en e v, supported e = true -> subscribable e = true ->
  py_eval en e = PVal v ->
  fst (evaluate_and_subscribe k d en e) = match v with VNone => convert k d | _ => convert k v end.
Proof.
  intros k d en e v S G H. rewrite subscribed_outcome_l by assumption. rewrite H. destruct v; reflexivity.
Qed.

(* a missing parameter while subscribing: AssertionError (by design of evaluate_and_subscribe_template) *)
Lemma missing_parameter_subscribed_l : forall k d en e, supported e = true -> subscribable e = true ->
  py_eval en e = PNameErr -> fst (evaluate_and_subscribe k d en e) = OAssert.
Proof. intros k d en e S G H. rewrite subscribed_outcome_l by assumption. rewrite H. reflexivity. Qed.

(* mode.* and game.* cannot be subscribed: evaluate_and_subscribe raises, it never returns a value *)
Lemma unsubscribable_read_raises_l : forall k d en r, unsubscribable r = true ->
  evaluate_and_subscribe k d en (ERead r) = (OAssert, []).
Proof.
  intros k d en r U. unfold evaluate_and_subscribe. cbn [tmpl_eval]. rewrite read_node_eq.
  destruct r as [l | |]; try discriminate. destruct l; try discriminate; cbn.
  - reflexivity.
  - destruct (game en); reflexivity.
Qed.

(* ---- a value returned by the walk is Python's value (no guard on mode / game needed) ------------- *)
Lemma tbind_val r k v s : tbind r k = (TVal v, s) -> exists va sa, r = (TVal va, sa) /\ k va sa = (TVal v, s).
Proof. destruct r as [[] sa]; cbn; intro H; try discriminate. eauto. Qed.

Lemma of_res_val r s v s' : of_res r s = (TVal v, s') -> r = Val v /\ s' = s.
Proof. destruct r; cbn; intro H; inversion H; auto. Qed.

Lemma with_subs_val s r v s' : with_subs s r = (TVal v, s') -> exists s2, r = (TVal v, s2) /\ s' = s ++ s2.
Proof. destruct r as [[] s2]; cbn; intro H; inversion H; subst; eauto. Qed.

Lemma read_walk_val sub en r v s : read_walk sub en r = (TVal v, s) ->
  rread en r = RVal v /\ s = (if sub then rsubs r else []) /\ (sub = true -> unsubscribable r = false).
Proof.
  intro H.
  assert (G : forall r', (unsubscribable r' = false) ->
     (match rread en r' with
      | RVal v => (TVal v, if sub then rsubs r' else [])
      | RValErr => if sub then (TEvalErr, rsubs r') else (TValueErr, [])
      | RCrash => (TCrash, [])
      end) = (TVal v, s) ->
     rread en r' = RVal v /\ s = (if sub then rsubs r' else []) /\ (sub = true -> unsubscribable r' = false)).
  { intros r' U. destruct (rread en r'); intro E; try (destruct sub; discriminate); inversion E; subst. auto. }
  destruct r as [l | x | i x]; [|apply G; auto|apply G; auto].
  destruct l; try (apply G; auto; fail).
  - (* LMode *) unfold read_walk in H. destruct sub; [discriminate|].
    destruct (rread en (RCell (LMode m a))); inversion H; subst. repeat split. intro Q; discriminate Q.
  - (* LGame *) unfold read_walk, rread in H |- *. destruct (game en); [|discriminate].
    destruct sub; [discriminate|].
    destruct (sread en (LGame a)); inversion H; subst. repeat split. intro Q; discriminate Q.
Qed.

Lemma val_inv : forall sub en e v s, supported e = true -> tmpl_eval sub en e = (TVal v, s) -> py_eval en e = PVal v.
Proof.
  intros sub en e. induction e; intros v ss S H; cbn [supported] in S; cbn [tmpl_eval] in H; autorewrite with disp in H;
    cbn [py_eval].
  - inversion H; reflexivity.
  - inversion H; reflexivity.
  - inversion H; reflexivity.
  - inversion H; reflexivity.
  - inversion H; reflexivity.
  - destruct (assoc_z x (params en)); inversion H; reflexivity.
  - rewrite read_match_eq in H. apply read_walk_val in H as [-> _]. reflexivity.
  - apply andb_true_iff in S as [S Sb]. apply andb_true_iff in S as [So Sa].
    apply tbind_val in H as [va [sa [Ha H]]]. apply tbind_val in H as [vb [sb [Hb H]]].
    rewrite (IHe1 _ _ Sa Ha), (IHe2 _ _ Sb Hb). cbn.
    destruct (operators_bin_ok o So) as [p [Hp Hc]]. rewrite Hp in H.
    apply of_res_val in H as [H _]. rewrite <- Hc, H. reflexivity.
  - apply andb_true_iff in S as [So Sa].
    apply tbind_val in H as [va [sa [Ha H]]].
    rewrite (IHe _ _ Sa Ha). cbn.
    destruct (operators_un_ok o So) as [p [Hp Hc]]. rewrite Hp in H.
    apply of_res_val in H as [H _]. rewrite <- Hc, H. reflexivity.
  - apply andb_true_iff in S as [S Sb]. apply andb_true_iff in S as [So Sa].
    apply tbind_val in H as [va [sa [Ha H]]]. apply tbind_val in H as [vb [sb [Hb H]]].
    rewrite (IHe1 _ _ Sa Ha), (IHe2 _ _ Sb Hb). cbn.
    destruct (comparisons_ok o So) as [p [Hp Hc]]. rewrite Hp in H.
    apply of_res_val in H as [H _]. rewrite <- Hc, H. reflexivity.
  - apply andb_true_iff in S as [Sa Sb].
    apply tbind_val in H as [va [sa [Ha H]]]. apply tbind_val in H as [vb [sb [Hb H]]].
    rewrite (IHe1 _ _ Sa Ha), (IHe2 _ _ Sb Hb). cbn.
    destruct (bool_operators_ok o) as [p [Hp Hc]]. rewrite Hp in H.
    inversion H; subst. rewrite Hc. reflexivity.
  - apply andb_true_iff in S as [S Sb]. apply andb_true_iff in S as [Sc Sa].
    apply tbind_val in H as [vc [sc [Hc H]]].
    rewrite (IHe1 _ _ Sc Hc). cbn.
    apply with_subs_val in H as [s2 [H _]].
    destruct (truthy vc); [eapply IHe2 | eapply IHe3]; eauto.
  - inversion H; reflexivity.
  - apply andb_true_iff in S as [S Sb]. apply andb_true_iff in S as [St Sa].
    apply tbind_val in H as [va [sa [Ha H]]]. apply tbind_val in H as [vb [sb [Hb H]]].
    rewrite (IHe1 _ _ Sa Ha), (IHe2 _ _ Sb Hb). cbn.
    destruct vb; inversion H; reflexivity.
  - apply andb_true_iff in S as [Sa Sb].
    apply tbind_val in H as [va [sa [Ha H]]]. apply tbind_val in H as [vb [sb [Hb H]]].
    rewrite (IHe1 _ _ Sa Ha), (IHe2 _ _ Sb Hb). cbn.
    apply of_res_val in H as [H _]. rewrite H. reflexivity.
Qed.

(* ---- subscriptions cover reads ------------------------------------------------------------------ *)
Definition covered (cells : list loc) (s : list loc) : Prop := forall l, In l cells -> In (chan_of l) s.

Lemma covered_app c1 c2 s1 s2 : covered c1 s1 -> covered c2 s2 -> covered (c1 ++ c2) (s1 ++ s2).
Proof.
  intros H1 H2 l I. apply in_app_or in I as [I | I]; apply in_or_app; [left; apply H1 | right; apply H2]; assumption.
Qed.

Lemma covered_l c s1 s2 : covered c s1 -> covered c (s1 ++ s2).
Proof. intros H l I. apply in_or_app; left; apply H; assumption. Qed.

Lemma rcells_covered en r : supported_read r = true -> unsubscribable r = false -> covered (rcells en r) (rsubs r).
Proof.
  intros S U l I. destruct r as [c | x | i x].
  - destruct c; try discriminate; cbn in *; destruct I as [<- | []]; left; reflexivity.
  - cbn in I. destruct I as [<- | I]; [left; reflexivity|].
    destruct (game en) as [[c n]|]; [|destruct I]. destruct I as [<- | []]. right; left; reflexivity.
  - cbn in I. destruct I as [<- | I]; [left; reflexivity|].
    destruct (game en) as [[c n]|]; [|destruct I].
    destruct ((0 <=? i) && (i <? n)); [|destruct I]. destruct I as [<- | []]. right; left; reflexivity.
Qed.

Lemma subscriptions_cover_reads_l : forall en e v ss, supported e = true ->
  tmpl_eval true en e = (TVal v, ss) -> covered (reads en e) ss.
Proof.
  intros en e. induction e; intros v ss S H; cbn [supported] in S; cbn [reads];
    cbn [tmpl_eval] in H; autorewrite with disp in H;
    try (intros y Hy; solve [destruct Hy]).
  - (* ERead *)
    rewrite read_match_eq in H. apply read_walk_val in H as [_ [-> U]].
    apply rcells_covered; auto.
  - (* EBin *)
    apply andb_true_iff in S as [S Sb]. apply andb_true_iff in S as [So Sa].
    apply tbind_val in H as [va [sa [Ha H]]]. apply tbind_val in H as [vb [sb [Hb H]]].
    rewrite (val_inv _ _ _ _ _ Sa Ha).
    destruct (operators o); [|discriminate]. apply of_res_val in H as [_ ->].
    apply covered_app; eauto.
  - (* EUn *)
    apply andb_true_iff in S as [So Sa].
    apply tbind_val in H as [va [sa [Ha H]]].
    destruct (operators o); [|discriminate]. apply of_res_val in H as [_ ->]. eauto.
  - (* ECmp *)
    apply andb_true_iff in S as [S Sb]. apply andb_true_iff in S as [So Sa].
    apply tbind_val in H as [va [sa [Ha H]]]. apply tbind_val in H as [vb [sb [Hb H]]].
    rewrite (val_inv _ _ _ _ _ Sa Ha).
    destruct (comparisons o); [|discriminate]. apply of_res_val in H as [_ ->].
    apply covered_app; eauto.
  - (* EBool *)
    apply andb_true_iff in S as [Sa Sb].
    apply tbind_val in H as [va [sa [Ha H]]]. apply tbind_val in H as [vb [sb [Hb H]]].
    rewrite (val_inv _ _ _ _ _ Sa Ha).
    destruct (bool_operators o); [|discriminate]. inversion H; subst.
    apply covered_app; eauto.
  - (* EIf *)
    apply andb_true_iff in S as [S Sb]. apply andb_true_iff in S as [Sc Sa].
    apply tbind_val in H as [vc [sc [Hc H]]].
    rewrite (val_inv _ _ _ _ _ Sc Hc).
    apply with_subs_val in H as [s2 [H ->]].
    apply covered_app; [eauto|].
    destruct (truthy vc); [eapply IHe2 | eapply IHe3]; eauto.
  - (* ETupCons *)
    apply andb_true_iff in S as [S Sb]. apply andb_true_iff in S as [St Sa].
    apply tbind_val in H as [va [sa [Ha H]]]. apply tbind_val in H as [vb [sb [Hb H]]].
    rewrite (val_inv _ _ _ _ _ Sa Ha).
    destruct vb; inversion H; subst. apply covered_app; eauto.
  - (* EIndex *)
    apply andb_true_iff in S as [Sa Sb].
    apply tbind_val in H as [va [sa [Ha H]]]. apply tbind_val in H as [vb [sb [Hb H]]].
    rewrite (val_inv _ _ _ _ _ Sa Ha).
    apply of_res_val in H as [_ ->]. apply covered_app; eauto.
Qed.

(* ---- the outcome can only change when a cell behind a subscribed channel changes ---------------- *)
Definition agree_on (s : list loc) (en en' : env) : Prop :=
  params en = params en' /\ forall l, In (chan_of l) s -> sread en l = sread en' l.

Definition tres_ok (r : tres) : bool := match r with TVal _ | TEvalErr => true | _ => false end.

Lemma agree_app_l s1 s2 en en' : agree_on (s1 ++ s2) en en' -> agree_on s1 en en'.
Proof. intros [P H]; split; auto. intros; apply H; apply in_or_app; auto. Qed.
Lemma agree_app_r s1 s2 en en' : agree_on (s1 ++ s2) en en' -> agree_on s2 en en'.
Proof. intros [P H]; split; auto. intros; apply H; apply in_or_app; auto. Qed.

Lemma of_res_ok r s r' s' : of_res r s = (r', s') -> tres_ok r' = true -> s' = s.
Proof. destruct r; cbn; intros H O; inversion H; subst; try reflexivity; discriminate. Qed.

(* what a name reads is determined by the cells behind the channels it subscribes to *)
Lemma rread_agree en en' r : supported_read r = true -> unsubscribable r = false ->
  agree_on (rsubs r) en en' -> rread en r = rread en' r.
Proof.
  intros S U [_ A]. destruct r as [l | x | i x].
  - destruct l; try discriminate; cbn [rread]; apply A; left; reflexivity.
  - cbn [rread].
    pose proof (A LTurn (or_introl eq_refl)) as T. cbn [sread] in T.
    destruct (game en) as [[c n]|], (game en') as [[c' n']|]; try discriminate; [|reflexivity].
    inversion T; subst. rewrite H0. apply A. right; left; reflexivity.
  - cbn [rread].
    pose proof (A LPlayers (or_introl eq_refl)) as T. cbn [sread] in T.
    destruct (game en) as [[c n]|], (game en') as [[c' n']|]; try discriminate; [|reflexivity].
    inversion T; subst. rewrite H0.
    destruct ((0 <=? i) && (i <? n')); [|reflexivity]. apply A. right; left; reflexivity.
Qed.

Lemma read_walk_determined en en' r res ss : supported_read r = true ->
  read_walk true en r = (res, ss) -> tres_ok res = true -> agree_on ss en en' ->
  read_walk true en' r = (res, ss).
Proof.
  intros S H O A.
  assert (U : unsubscribable r = false).
  { destruct r as [l | |]; try reflexivity. destruct l; try reflexivity; cbn in H.
    - inversion H; subst; discriminate.
    - destruct (game en); inversion H; subst; discriminate. }
  assert (G : read_walk true en r = match rread en r with
                                    | RVal v => (TVal v, rsubs r)
                                    | RValErr => (TEvalErr, rsubs r)
                                    | RCrash => (TCrash, [])
                                    end).
  { destruct r as [l | |]; try reflexivity. destruct l; try reflexivity; discriminate. }
  assert (G' : read_walk true en' r = match rread en' r with
                                      | RVal v => (TVal v, rsubs r)
                                      | RValErr => (TEvalErr, rsubs r)
                                      | RCrash => (TCrash, [])
                                      end).
  { destruct r as [l | |]; try reflexivity. destruct l; try reflexivity; discriminate. }
  rewrite G in H. rewrite G'.
  assert (ss = rsubs r) as ->.
  { destruct (rread en r); inversion H; subst; try reflexivity; discriminate. }
  rewrite <- (rread_agree en en' r S U A). exact H.
Qed.

(* shape of a two-operand node whose callee [k] is environment independent *)
Lemma two_operands_determined en en' a b (k : value -> value -> list loc -> tres * list loc) r s :
  (forall r s, tmpl_eval true en a = (r, s) -> tres_ok r = true -> agree_on s en en' ->
      fst (tmpl_eval true en' a) = r \/ tres_ok (fst (tmpl_eval true en' a)) = false) ->
  (forall r s, tmpl_eval true en b = (r, s) -> tres_ok r = true -> agree_on s en en' ->
      fst (tmpl_eval true en' b) = r \/ tres_ok (fst (tmpl_eval true en' b)) = false) ->
  (forall va vb s1 r s, k va vb s1 = (r, s) -> tres_ok r = true -> s = s1) ->
  (forall va vb s1 s2, fst (k va vb s1) = fst (k va vb s2)) ->
  tbind (tmpl_eval true en a) (fun va sa => tbind (tmpl_eval true en b) (fun vb sb => k va vb (sa ++ sb))) = (r, s) ->
  tres_ok r = true -> agree_on s en en' ->
  let r' := fst (tbind (tmpl_eval true en' a)
                       (fun va sa => tbind (tmpl_eval true en' b) (fun vb sb => k va vb (sa ++ sb)))) in
  r' = r \/ tres_ok r' = false.
Proof.
  intros IHa IHb Hk Hk2 H O A. cbn zeta.
  destruct (tmpl_eval true en a) as [ta sa] eqn:Ea.
  destruct ta as [va| | | |]; cbn [tbind] in H; try (inversion H; subst; discriminate).
  - destruct (tmpl_eval true en b) as [tb sb] eqn:Eb.
    destruct tb as [vb| | | |]; cbn [tbind] in H; try (inversion H; subst; discriminate).
    + pose proof (Hk _ _ _ _ _ H O) as ->.
      destruct (IHa _ _ eq_refl eq_refl (agree_app_l _ _ _ _ A)) as [Ha' | Ha'].
      * destruct (tmpl_eval true en' a) as [ta' sa']; cbn [fst] in Ha'; subst ta'. cbn [tbind].
        destruct (IHb _ _ eq_refl eq_refl (agree_app_r _ _ _ _ A)) as [Hb' | Hb'].
        -- destruct (tmpl_eval true en' b) as [tb' sb']; cbn [fst] in Hb'; subst tb'. cbn [tbind].
           left. rewrite (Hk2 va vb (sa' ++ sb') (sa ++ sb)). rewrite H. reflexivity.
        -- right. destruct (tmpl_eval true en' b) as [[] sb']; cbn in *; try discriminate; reflexivity.
      * right. destruct (tmpl_eval true en' a) as [[] sa']; cbn in *; try discriminate; reflexivity.
    + (* the right operand failed: only its subscriptions are carried by the exception *)
      inversion H; subst r s.
      destruct (IHb _ _ eq_refl eq_refl A) as [Hb' | Hb'].
      * destruct (tmpl_eval true en' a) as [[] sa']; cbn; auto.
        destruct (tmpl_eval true en' b) as [tb' sb']; cbn [fst] in Hb'; subst tb'. cbn. auto.
      * destruct (tmpl_eval true en' a) as [[] sa']; cbn; auto.
        destruct (tmpl_eval true en' b) as [[] sb']; cbn in *; try discriminate; auto.
  - inversion H; subst r s.
    destruct (IHa _ _ eq_refl eq_refl A) as [Ha' | Ha'].
    + destruct (tmpl_eval true en' a) as [ta' sa']; cbn [fst] in Ha'; subst ta'. cbn. auto.
    + destruct (tmpl_eval true en' a) as [[] sa']; cbn in *; try discriminate; auto.
Qed.

Lemma outcome_determined_by_subscriptions_l : forall e en en' r ss, supported e = true ->
  tmpl_eval true en e = (r, ss) -> tres_ok r = true -> agree_on ss en en' ->
  fst (tmpl_eval true en' e) = r \/ tres_ok (fst (tmpl_eval true en' e)) = false.
Proof.
  induction e as [z|n d|s0| |b|x|rd|o e1 IHe1 e2 IHe2|o e IHe|o e1 IHe1 e2 IHe2|o e1 IHe1 e2 IHe2
                  |e1 IHe1 e2 IHe2 e3 IHe3| |e1 IHe1 e2 IHe2|e1 IHe1 e2 IHe2];
    intros en en' r ss S H O A; cbn [supported] in S;
    cbn [tmpl_eval] in H |- *; autorewrite with disp in H |- *.
  - inversion H; subst; left; reflexivity.
  - inversion H; subst; left; reflexivity.
  - inversion H; subst; left; reflexivity.
  - inversion H; subst; left; reflexivity.
  - inversion H; subst; left; reflexivity.
  - destruct A as [P _]. rewrite <- P.
    destruct (assoc_z x (params en)); inversion H; subst; auto.
  - rewrite read_match_eq in H |- *. left.
    rewrite (read_walk_determined en en' rd r ss S H O A). reflexivity.
  - apply andb_true_iff in S as [S Sb]. apply andb_true_iff in S as [So Sa].
    destruct (operators o) as [p|].
    + eapply (two_operands_determined en en' e1 e2 (fun va vb s => of_res (prim_call2 p va vb) s)); eauto.
      * intros. eapply of_res_ok; eauto.
      * intros. destruct (prim_call2 p va vb); reflexivity.
    + eapply (two_operands_determined en en' e1 e2 (fun va vb s => (TCrash, []))); eauto.
      intros ? ? ? ? ? E O'. inversion E; subst; discriminate.
  - apply andb_true_iff in S as [So Sa].
    destruct (tmpl_eval true en e) as [ta sa] eqn:Ea.
    destruct ta as [va| | | |]; cbn [tbind] in H; try (inversion H; subst; discriminate).
    + assert (ss = sa) as ->.
      { destruct (operators o); [eapply of_res_ok; eauto | inversion H; subst; discriminate]. }
      destruct (IHe _ en' _ _ Sa Ea eq_refl A) as [Ha' | Ha'].
      * destruct (tmpl_eval true en' e) as [ta' sa']; cbn [fst] in Ha'; subst ta'. cbn [tbind].
        left. destruct (operators o); [|inversion H; subst; reflexivity].
        destruct (prim_call1 p va); cbn in *; inversion H; subst; reflexivity.
      * right. destruct (tmpl_eval true en' e) as [[] sa']; cbn in *; try discriminate; reflexivity.
    + inversion H; subst r ss.
      destruct (IHe _ en' _ _ Sa Ea eq_refl A) as [Ha' | Ha'].
      * destruct (tmpl_eval true en' e) as [ta' sa']; cbn [fst] in Ha'; subst ta'. cbn. auto.
      * destruct (tmpl_eval true en' e) as [[] sa']; cbn in *; try discriminate; auto.
  - apply andb_true_iff in S as [S Sb]. apply andb_true_iff in S as [So Sa].
    destruct (comparisons o) as [p|].
    + eapply (two_operands_determined en en' e1 e2 (fun va vb s => of_res (prim_call2 p va vb) s)); eauto.
      * intros. eapply of_res_ok; eauto.
      * intros. destruct (prim_call2 p va vb); reflexivity.
    + eapply (two_operands_determined en en' e1 e2 (fun va vb s => (TCrash, []))); eauto.
      intros ? ? ? ? ? E O'. inversion E; subst; discriminate.
  - apply andb_true_iff in S as [Sa Sb].
    destruct (bool_operators o) as [p|].
    + eapply (two_operands_determined en en' e1 e2 (fun va vb s => (TVal (bprim_call p va vb), s))); eauto.
      intros ? ? ? ? ? E O'. inversion E; subst; reflexivity.
    + eapply (two_operands_determined en en' e1 e2 (fun va vb s => (TCrash, []))); eauto.
      intros ? ? ? ? ? E O'. inversion E; subst; discriminate.
  - apply andb_true_iff in S as [S Sb]. apply andb_true_iff in S as [Sc Sa].
    destruct (tmpl_eval true en e1) as [tc sc] eqn:Ec.
    destruct tc as [vc| | | |]; cbn [tbind] in H; try (inversion H; subst; discriminate).
    + set (br := if truthy vc then e2 else e3).
      assert (Sbr : supported br = true) by (subst br; destruct (truthy vc); assumption).
      assert (Hbr : with_subs sc (tmpl_eval true en br) = (r, ss)).
      { subst br. destruct (truthy vc); exact H. }
      destruct (tmpl_eval true en br) as [tb sb] eqn:Eb.
      assert (ss = sc ++ sb /\ tb = r) as [-> ->].
      { destruct tb; cbn in Hbr; inversion Hbr; subst; try discriminate; auto. }
      destruct (IHe1 _ en' _ _ Sc Ec eq_refl (agree_app_l _ _ _ _ A)) as [Hc' | Hc'].
      * destruct (tmpl_eval true en' e1) as [tc' sc']; cbn [fst] in Hc'; subst tc'. cbn [tbind].
        rewrite fst_with_subs.
        assert (IHbr : fst (tmpl_eval true en' br) = r \/ tres_ok (fst (tmpl_eval true en' br)) = false).
        { subst br. destruct (truthy vc); [eapply IHe2 | eapply IHe3]; eauto using agree_app_r. }
        subst br. destruct (truthy vc); exact IHbr.
      * right. destruct (tmpl_eval true en' e1) as [[] sc']; cbn in *; try discriminate; reflexivity.
    + inversion H; subst r ss.
      destruct (IHe1 _ en' _ _ Sc Ec eq_refl A) as [Hc' | Hc'].
      * destruct (tmpl_eval true en' e1) as [tc' sc']; cbn [fst] in Hc'; subst tc'. cbn. auto.
      * destruct (tmpl_eval true en' e1) as [[] sc']; cbn in *; try discriminate; auto.
  - inversion H; subst; left; reflexivity.
  - apply andb_true_iff in S as [S Sb]. apply andb_true_iff in S as [St Sa].
    eapply (two_operands_determined en en' e1 e2
              (fun va vr s => match vr with VTuple l => (TVal (VTuple (va :: l)), s) | _ => (TUnsup, []) end)); eauto.
    + intros va vb s1 r1 s2 E O'. destruct vb; inversion E; subst; try discriminate. reflexivity.
    + intros va vb s1 s2. destruct vb; reflexivity.
  - apply andb_true_iff in S as [Sa Sb].
    eapply (two_operands_determined en en' e1 e2 (fun va vi s => of_res (py_getitem va vi) s)); eauto.
    + intros. eapply of_res_ok; eauto.
    + intros. destruct (py_getitem va vb); reflexivity.
Qed.

(* ---- structural equality ----------------------------------------------------------------------- *)
Fixpoint value_ind2 (P : value -> Prop) (HNone : P VNone) (HBool : forall b, P (VBool b))
         (HInt : forall z, P (VInt z)) (HStr : forall s, P (VStr s)) (HFloat : forall n d, P (VFloat n d))
         (HTuple : forall l, Forall P l -> P (VTuple l)) (v : value) {struct v} : P v :=
  match v with
  | VNone => HNone
  | VBool b => HBool b
  | VInt z => HInt z
  | VStr s => HStr s
  | VFloat n d => HFloat n d
  | VTuple l =>
      HTuple l ((fix go (l : list value) : Forall P l :=
                   match l with
                   | [] => Forall_nil P
                   | x :: l' => Forall_cons x (value_ind2 P HNone HBool HInt HStr HFloat HTuple x) (go l')
                   end) l)
  end.

Lemma value_eqb_eq : forall a b, value_eqb a b = true -> a = b.
Proof.
  intro a. induction a using value_ind2; intros b' E; destruct b'; cbn in E; try discriminate; try reflexivity.
  - apply Bool.eqb_prop in E. congruence.
  - apply Z.eqb_eq in E. congruence.
  - apply zs_eqb_spec in E. congruence.
  - apply andb_true_iff in E as [E1 E2]. apply Z.eqb_eq in E1. apply Pos.eqb_eq in E2. congruence.
  - f_equal. revert l0 E. induction H as [|x l Hx Hl IH]; intros [|y m] E; try discriminate; try reflexivity.
    apply andb_true_iff in E as [E1 E2]. f_equal; [apply Hx; exact E1 | apply IH; exact E2].
Qed.

Lemma loc_eqb_eq x y : loc_eqb x y = true <-> x = y.
Proof.
  split.
  - destruct x, y; cbn; intro H; try discriminate; try reflexivity;
      repeat (apply andb_true_iff in H as [H ?]);
      repeat match goal with
             | E : zs_eqb _ _ = true |- _ => apply zs_eqb_spec in E
             | E : (_ =? _) = true |- _ => apply Z.eqb_eq in E
             end; congruence.
  - intros <-. destruct x; cbn; try reflexivity; repeat (apply andb_true_iff; split);
      try (apply zs_eqb_spec; reflexivity); apply Z.eqb_refl.
Qed.

Lemma loc_eqb_refl x : loc_eqb x x = true.
Proof. apply loc_eqb_eq. reflexivity. Qed.

Lemma loc_eqb_neq x y : x <> y -> loc_eqb x y = false.
Proof. intro N. destruct (loc_eqb x y) eqn:E; [apply loc_eqb_eq in E; contradiction | reflexivity]. Qed.

Definition rd_eqb (a b : rd) : bool :=
  match a, b with
  | RVal x, RVal y => value_eqb x y
  | RValErr, RValErr | RCrash, RCrash => true
  | _, _ => false
  end.
Lemma rd_eqb_eq a b : rd_eqb a b = true -> a = b.
Proof. destruct a, b; cbn; intro H; try discriminate; try reflexivity. apply value_eqb_eq in H. congruence. Qed.

Lemma existsb_loc_in l s : existsb (loc_eqb l) s = true <-> In l s.
Proof.
  split.
  - intro H. apply existsb_exists in H as [y [I E]]. apply loc_eqb_eq in E. subst. exact I.
  - intro I. apply existsb_exists. exists l. split; auto. apply loc_eqb_refl.
Qed.

(* ---- frame: a change leaves every cell outside changed_locs as it was ---------------------------- *)
Lemma lookup_app_other l w s : ~ In l (map fst w) -> lookup_loc l (w ++ s) = lookup_loc l s.
Proof.
  induction w as [|[k v] w IH]; cbn; intro N; [reflexivity|].
  rewrite loc_eqb_neq by (intro Q; apply N; left; symmetry; exact Q).
  apply IH. intro I. apply N. right. exact I.
Qed.

Lemma lookup_remove_other l l' s : l' <> l -> lookup_loc l' (remove_loc l s) = lookup_loc l' s.
Proof.
  intro N. induction s as [|[k v] s IH]; cbn; [reflexivity|].
  destruct (loc_eqb l k) eqn:E.
  - apply loc_eqb_eq in E. subst k. rewrite (loc_eqb_neq _ _ N). exact IH.
  - cbn. rewrite IH. reflexivity.
Qed.

Lemma store_apply en c :
  store (apply_change en c) = match c with
                              | CRemoveMachine n => remove_loc (LMachine n) (store en)
                              | _ => writes en c ++ store en
                              end.
Proof. unfold apply_change. destruct (new_game en c). reflexivity. Qed.

Lemma params_apply en c : params (apply_change en c) = params en.
Proof. unfold apply_change. destruct (new_game en c). reflexivity. Qed.

Lemma game_apply en c : (games (apply_change en c), game (apply_change en c)) = new_game en c.
Proof. unfold apply_change. destruct (new_game en c). reflexivity. Qed.

Definition lifecycle (c : change) : bool :=
  match c with CStartGame | CAddPlayer | CNextTurn | CEndGame _ => true | _ => false end.

Lemma new_game_other en c : lifecycle c = false -> new_game en c = (games en, game en).
Proof. destruct c; cbn; intro H; try discriminate; reflexivity. Qed.

Lemma lookup_apply_other en c l : ~ In l (changed_locs en c) ->
  lookup_loc l (store (apply_change en c)) = lookup_loc l (store en).
Proof.
  intro N. rewrite store_apply.
  destruct c; try (apply lookup_app_other; intro I; apply N; cbn [changed_locs]; auto; right; right; exact I).
  apply lookup_remove_other. intro Q. apply N. left. symmetry. exact Q.
Qed.

Lemma sread_apply_other en c l : ~ In l (changed_locs en c) -> sread (apply_change en c) l = sread en l.
Proof.
  intro N. pose proof (lookup_apply_other en c l N) as L.
  destruct l; cbn [sread]; try (rewrite L; reflexivity); try reflexivity.
  - (* LTurn *)
    destruct (lifecycle c) eqn:Lc.
    + exfalso. apply N. destruct c; try discriminate; left; reflexivity.
    + pose proof (game_apply en c) as G. rewrite (new_game_other en c Lc) in G. inversion G. reflexivity.
  - (* LPlayers *)
    destruct (lifecycle c) eqn:Lc.
    + exfalso. apply N. destruct c; try discriminate; right; left; reflexivity.
    + pose proof (game_apply en c) as G. rewrite (new_game_other en c Lc) in G. inversion G. reflexivity.
Qed.

(* ---- change histories: the subscriber never holds a stale value --------------------------------- *)
(* a change is honest when every cell it alters keeps its content or is announced on its channel *)
Definition honest_gen (ann : env -> change -> list loc) (en : env) (c : change) : bool :=
  forallb (fun l => rd_eqb (sread (apply_change en c) l) (sread en l) || existsb (loc_eqb (chan_of l)) (ann en c))
          (changed_locs en c).
Definition honest := honest_gen announced.

Fixpoint honest_run_gen (ann : env -> change -> list loc) (en : env) (cs : list change) : bool :=
  match cs with
  | [] => true
  | c :: cs' => honest_gen ann en c && honest_run_gen ann (apply_change en c) cs'
  end.
Definition honest_run := honest_run_gen announced.

Fixpoint hfinal_gen (ann : env -> change -> list loc) (k : kind) (d : value) (e : expr) (st : env * subscriber)
         (cs : list change) : env * subscriber :=
  match cs with
  | [] => st
  | c :: cs' => hfinal_gen ann k d e (fst (hstep_gen ann k d e st c)) cs'
  end.
Definition hfinal := hfinal_gen announced.

Lemma eas_snd k d en e r s : tmpl_eval true en e = (r, s) -> tres_ok r = true ->
  snd (evaluate_and_subscribe k d en e) = s.
Proof. unfold evaluate_and_subscribe. intros -> O. destruct r as [v| | | |]; try destruct v; try discriminate; reflexivity. Qed.

Lemma outcome_of_not_ok k d t : tres_ok t = false -> forall v, outcome_of k d t <> OVal v.
Proof. destruct t; cbn; intros H w; try discriminate. Qed.

Definition fresh (k : kind) (d : value) (e : expr) (en : env) (sb : subscriber) : Prop :=
  (exists en0 r, tmpl_eval true en0 e = (r, subs sb) /\ tres_ok r = true /\
                 last sb = outcome_of k d r /\ agree_on (subs sb) en0 en)
  \/ (forall v, last sb <> OVal v).

Lemma agree_refl s en : agree_on s en en.
Proof. split; auto. Qed.

Lemma fresh_subscribe_now k d e en : fresh k d e en (subscribe_now k d en e).
Proof.
  unfold subscribe_now.
  destruct (evaluate_and_subscribe k d en e) as [o s] eqn:E.
  pose proof (eas_fst k d en e) as F. rewrite E in F. cbn [fst] in F.
  destruct (tmpl_eval true en e) as [r s0] eqn:T. cbn [fst] in F.
  destruct (tres_ok r) eqn:O.
  - left. exists en, r. cbn [subs last].
    pose proof (eas_snd k d en e r s0 T O) as Sn. rewrite E in Sn. cbn [snd] in Sn. subst s.
    repeat split; auto.
  - right. cbn [last]. subst o. apply outcome_of_not_ok; assumption.
Qed.

Lemma woken_false ann sb a : woken ann sb = false -> In a ann -> ~ In a sb.
Proof.
  unfold woken. intros W Ia Is.
  assert (existsb (fun a => existsb (loc_eqb a) sb) ann = true); [|congruence].
  apply existsb_exists. exists a. split; auto. apply existsb_loc_in. exact Is.
Qed.

Lemma fresh_step ann k d e en sb c : fresh k d e en sb -> honest_gen ann en c = true ->
  fresh k d e (fst (fst (hstep_gen ann k d e (en, sb) c))) (snd (fst (hstep_gen ann k d e (en, sb) c))).
Proof.
  intros F Hc. unfold hstep_gen.
  destruct (woken (ann en c) (subs sb)) eqn:Fire; cbn [fst snd].
  - apply fresh_subscribe_now.
  - destruct F as [[en0 [r [T [O [L [P A]]]]]] | D]; [|right; assumption].
    left. exists en0, r. split; [exact T|]. split; [exact O|]. split; [exact L|].
    split; [rewrite P; symmetry; apply params_apply|].
    intros l I. rewrite (A l I). symmetry.
    destruct (existsb (loc_eqb l) (changed_locs en c)) eqn:E.
    + apply existsb_loc_in in E.
      unfold honest_gen in Hc. rewrite forallb_forall in Hc. specialize (Hc l E).
      apply orb_true_iff in Hc as [Hc | Hc]; [apply rd_eqb_eq; exact Hc|].
      exfalso. apply existsb_loc_in in Hc. exact (woken_false _ _ _ Fire Hc I).
    + apply sread_apply_other. intro Q. apply existsb_loc_in in Q. congruence.
Qed.

Lemma hstep_env ann k d e en sb c : fst (fst (hstep_gen ann k d e (en, sb) c)) = apply_change en c.
Proof. unfold hstep_gen. destruct (woken _ _); reflexivity. Qed.

Lemma fresh_run ann k d e : forall cs en sb, fresh k d e en sb -> honest_run_gen ann en cs = true ->
  fresh k d e (fst (hfinal_gen ann k d e (en, sb) cs)) (snd (hfinal_gen ann k d e (en, sb) cs)).
Proof.
  induction cs as [|c cs IH]; intros en sb F H; cbn [hfinal_gen honest_run_gen] in *.
  - exact F.
  - apply andb_true_iff in H as [Hc Hr].
    pose proof (fresh_step ann k d e en sb c F Hc) as F'.
    pose proof (hstep_env ann k d e en sb c) as Ee.
    destruct (hstep_gen ann k d e (en, sb) c) as [[en' sb'] fired]. cbn [fst snd] in *. subst en'.
    apply IH; assumption.
Qed.

Lemma no_stale_value_gen : forall ann k d e en cs, supported e = true -> honest_run_gen ann en cs = true ->
  let st := hfinal_gen ann k d e (en, subscribe_now k d en e) cs in
  (forall v, last (snd st) <> OVal v)                                             (* the loop died with an exception *)
  \/ fst (evaluate_and_subscribe k d (fst st) e) = last (snd st)                 (* delivered value is current *)
  \/ (forall v, fst (evaluate_and_subscribe k d (fst st) e) <> OVal v).          (* evaluating now raises *)
Proof.
  intros ann k d e en cs S H. cbn zeta.
  pose proof (fresh_run ann k d e cs en _ (fresh_subscribe_now k d e en) H) as F.
  destruct (hfinal_gen ann k d e (en, subscribe_now k d en e) cs) as [en' sb']. cbn [fst snd] in *.
  destruct F as [[en0 [r [T [O [L A]]]]] | D]; [|left; assumption].
  right. rewrite eas_fst.
  destruct (outcome_determined_by_subscriptions_l e en0 en' r (subs sb') S T O A) as [E | E].
  - left. rewrite E. symmetry. exact L.
  - right. apply outcome_of_not_ok. exact E.
Qed.

Lemma no_stale_value_l : forall k d e en cs, supported e = true -> honest_run en cs = true ->
  let st := hfinal k d e (en, subscribe_now k d en e) cs in
  (forall v, last (snd st) <> OVal v)
  \/ fst (evaluate_and_subscribe k d (fst st) e) = last (snd st)
  \/ (forall v, fst (evaluate_and_subscribe k d (fst st) e) <> OVal v).
Proof. intros. apply (no_stale_value_gen announced); assumption. Qed.

(* ---- which changes can be unannounced ------------------------------------------------------------
   Game-lifecycle changes (with the fix) and removals are always honest; only a value written to a
   variable / attribute can go unannounced. *)
Lemma value_eqb_refl_int z : value_eqb (VInt z) (VInt z) = true.
Proof. cbn. apply Z.eqb_refl. Qed.

Lemma lifecycle_honest : forall en c, lifecycle c = true -> honest en c = true.
Proof.
  intros en c Lc. unfold honest, honest_gen.
  destruct c; try discriminate; clear Lc.
  - (* CStartGame *)
    unfold announced, announced_gen, changed_locs, writes.
    destruct (game en) as [[c n]|] eqn:G.
    + cbn [map forallb]. pose proof (game_apply en CStartGame) as Ga. cbn [new_game] in Ga. rewrite G in Ga.
      inversion Ga as [[Hg Hgm]]. cbn [sread]. rewrite Hgm, Hg, G. cbn. rewrite !Z.eqb_refl. reflexivity.
    + cbn [map fst forallb chan_of existsb]. rewrite !loc_eqb_refl. cbn. rewrite !orb_true_r. reflexivity.
  - (* CAddPlayer *)
    unfold announced, announced_gen, changed_locs, writes.
    destruct (game en) as [[c n]|] eqn:G.
    + cbn [map fst forallb chan_of existsb]. rewrite !loc_eqb_refl.
      pose proof (game_apply en CAddPlayer) as Ga. cbn [new_game] in Ga. rewrite G in Ga.
      inversion Ga as [[Hg Hgm]]. cbn [sread]. rewrite Hgm, Hg, G. cbn. rewrite !Z.eqb_refl. cbn.
      rewrite !orb_true_r. reflexivity.
    + cbn [map forallb]. pose proof (game_apply en CAddPlayer) as Ga. cbn [new_game] in Ga. rewrite G in Ga.
      inversion Ga as [[Hg Hgm]]. cbn [sread]. rewrite Hgm, G. reflexivity.
  - (* CNextTurn *)
    unfold announced, announced_gen, changed_locs, writes.
    destruct (game en) as [[c n]|] eqn:G.
    + cbn [map fst forallb chan_of existsb]. rewrite !loc_eqb_refl.
      pose proof (game_apply en CNextTurn) as Ga. cbn [new_game] in Ga. rewrite G in Ga.
      inversion Ga as [[Hg Hgm]]. cbn [sread]. rewrite Hgm, Hg, G. cbn. rewrite !Z.eqb_refl. cbn.
      rewrite !orb_true_r. reflexivity.
    + cbn [map forallb]. pose proof (game_apply en CNextTurn) as Ga. cbn [new_game] in Ga. rewrite G in Ga.
      inversion Ga as [[Hg Hgm]]. cbn [sread]. rewrite Hgm, G. reflexivity.
  - (* CEndGame *)
    unfold announced, announced_gen, changed_locs, writes.
    destruct (game en) as [[c n]|] eqn:G.
    + cbn [map fst forallb chan_of existsb]. rewrite !loc_eqb_refl. cbn. rewrite !orb_true_r. reflexivity.
    + cbn [map forallb]. pose proof (game_apply en (CEndGame slow)) as Ga. cbn [new_game] in Ga. rewrite G in Ga.
      inversion Ga as [[Hg Hgm]]. cbn [sread]. rewrite Hgm, G. reflexivity.
Qed.

Lemma lookup_remove_same l s : lookup_loc l (remove_loc l s) = None.
Proof.
  induction s as [|[k v] s IH]; cbn; [reflexivity|].
  destruct (loc_eqb l k) eqn:E; [exact IH|]. cbn. rewrite E. exact IH.
Qed.

Lemma remove_honest : forall en n, honest en (CRemoveMachine n) = true.
Proof.
  intros en n. unfold honest, honest_gen. cbn [changed_locs forallb chan_of announced announced_gen].
  destruct (lookup_loc (LMachine n) (store en)) eqn:L.
  - cbn [existsb]. rewrite loc_eqb_refl. rewrite !orb_true_r. reflexivity.
  - cbn [sread]. rewrite store_apply. rewrite lookup_remove_same, L. reflexivity.
Qed.

(* ---- int / str valued stores: every change is announced or changes nothing ------------------------ *)
Definition plain_val (v : value) : bool := match v with VInt _ | VStr _ => true | _ => false end.
Definition plain_rd (r : rd) : bool := match r with RVal v => plain_val v | _ => true end.
Definition plain_store (en : env) : bool := forallb (fun p => plain_rd (snd p)) (store en).
Definition plain_change (c : change) : bool :=
  match c with
  | CSetMachine _ v | CSetSetting _ v | CSetDevice _ _ _ v | CSetPlayerVar _ _ v => plain_val v
  | _ => true
  end.

Lemma plain_lookup en l r : plain_store en = true -> lookup_loc l (store en) = Some r -> plain_rd r = true.
Proof.
  unfold plain_store. induction (store en) as [|[k v] s IH]; cbn; intros P L; [discriminate|].
  apply andb_true_iff in P as [Pv Ps].
  destruct (loc_eqb l k); [inversion L; subst; exact Pv | apply IH; assumption].
Qed.

Lemma change_truthy_plain p v : plain_val p = true -> plain_val v = true -> change_truthy p v = false -> v = p.
Proof.
  destruct p, v; cbn; intros Pp Pv H; try discriminate.
  - apply negb_false_iff in H. apply Z.eqb_eq in H. f_equal. lia.
  - apply negb_false_iff in H. apply zs_eqb_spec in H. congruence.
Qed.

Lemma py_eqb_plain p v : plain_val p = true -> plain_val v = true -> py_eqb p v = true -> v = p.
Proof.
  destruct p, v; cbn; intros Pp Pv H; try discriminate.
  - unfold Qeq_bool in H. cbn in H. apply Zeq_is_eq_bool in H. f_equal. lia.
  - apply zs_eqb_spec in H. congruence.
Qed.

Lemma value_eqb_refl_plain v : plain_val v = true -> value_eqb v v = true.
Proof. destruct v; cbn; intro P; try discriminate; [apply Z.eqb_refl | apply zs_eqb_spec; reflexivity]. Qed.

Lemma lookup_apply_head en c l r rest : lifecycle c = false -> (forall n, c <> CRemoveMachine n) ->
  writes en c = (l, r) :: rest -> lookup_loc l (store (apply_change en c)) = Some r.
Proof.
  intros Lc Nr W. rewrite store_apply.
  destruct c; try discriminate; try (exfalso; eapply Nr; reflexivity); rewrite W; cbn; rewrite loc_eqb_refl; reflexivity.
Qed.

(* a single written cell: honest as soon as "not announced" implies "same content" *)
Lemma honest_single en c l v : lifecycle c = false -> (forall n, c <> CRemoveMachine n) ->
  writes en c = [(l, RVal v)] -> changed_locs en c = [l] ->
  (match l with LTurn | LPlayers | LPlayerEv _ => False | _ => True end) ->
  (In (chan_of l) (announced en c) \/ lookup_loc l (store en) = Some (RVal v)) ->
  honest en c = true.
Proof.
  intros Lc Nr W C Hl H. unfold honest, honest_gen. rewrite C. cbn [forallb]. rewrite andb_true_r.
  destruct H as [H | H].
  - apply orb_true_iff. right. apply existsb_loc_in. exact H.
  - apply orb_true_iff. left.
    pose proof (lookup_apply_head en c l (RVal v) [] Lc Nr W) as L'.
    destruct l; try contradiction; cbn [sread]; rewrite L', H; cbn.
    all: try (clear; induction v using value_ind2; cbn; try reflexivity;
              [apply Bool.eqb_reflx | apply Z.eqb_refl | apply zs_eqb_spec; reflexivity
              | rewrite Z.eqb_refl, Pos.eqb_refl; reflexivity
              | induction H as [|x l Hx Hl IH]; [reflexivity | rewrite Hx, IH; reflexivity]]).
Qed.

Lemma plain_honest : forall en c, plain_store en = true -> plain_change c = true -> honest en c = true.
Proof.
  intros en c Ps Pc.
  destruct (lifecycle c) eqn:Lc; [apply lifecycle_honest; exact Lc|].
  destruct c; try discriminate; cbn [plain_change] in Pc.
  - (* CSetMachine *)
    apply (honest_single en _ (LMachine n) v); [reflexivity | discriminate | reflexivity | reflexivity | exact I |].
    cbn [chan_of announced announced_gen].
    destruct (lookup_loc (LMachine n) (store en)) as [[p| |]|] eqn:L; try (left; left; reflexivity).
    destruct (change_truthy p v) eqn:Ct; [left; left; reflexivity|].
    right. f_equal. f_equal. symmetry. apply change_truthy_plain; auto.
    apply (plain_lookup en _ _ Ps L).
  - (* CRemoveMachine *) apply remove_honest.
  - (* CSetSetting *)
    apply (honest_single en _ (LSetting n) v); [reflexivity | discriminate | reflexivity | reflexivity | exact I |].
    cbn [chan_of announced announced_gen].
    destruct (lookup_loc (LSetting n) (store en)) as [[p| |]|] eqn:L; try (left; left; reflexivity).
    destruct (change_truthy p v) eqn:Ct; [left; left; reflexivity|].
    right. f_equal. f_equal. symmetry. apply change_truthy_plain; auto.
    apply (plain_lookup en _ _ Ps L).
  - (* CSetDevice *)
    apply (honest_single en _ (LDevice c d a) v); [reflexivity | discriminate | reflexivity | reflexivity | exact I |].
    cbn [chan_of announced announced_gen sread].
    destruct (lookup_loc (LDevice c d a) (store en)) as [[p| |]|] eqn:L; cbn [rd_py_eqb]; try (left; left; reflexivity).
    destruct (py_eqb p v) eqn:Pe; [|left; left; reflexivity].
    right. f_equal. f_equal. symmetry. apply py_eqb_plain; auto.
    apply (plain_lookup en _ _ Ps L).
  - (* CSetPlayerVar *)
    destruct (game en) as [[cu n]|] eqn:G.
    + destruct ((0 <=? i) && (i <? n)) eqn:V.
      * eapply (honest_single en _ (LPlayerI (games en) i x) v).
        -- reflexivity.
        -- discriminate.
        -- cbn [writes]. rewrite G, V. reflexivity.
        -- cbn [changed_locs writes]. rewrite G, V. reflexivity.
        -- exact I.
        -- cbn [chan_of announced announced_gen]. rewrite G, V.
           assert (Ev : event_type v = true) by (destruct v; try discriminate; reflexivity). rewrite Ev, andb_true_r.
           destruct (lookup_loc (LPlayerI (games en) i x) (store en)) as [[p| |]|] eqn:L; try (left; left; reflexivity).
           destruct (change_truthy p v) eqn:Ct; [left; left; reflexivity|].
           right. f_equal. f_equal. symmetry. apply change_truthy_plain; auto.
           apply (plain_lookup en _ _ Ps L).
      * unfold honest, honest_gen. cbn [changed_locs writes]. rewrite G, V. reflexivity.
    + unfold honest, honest_gen. cbn [changed_locs writes]. rewrite G. reflexivity.
Qed.

Lemma plain_remove l s : forallb (fun p : loc * rd => plain_rd (snd p)) s = true ->
  forallb (fun p : loc * rd => plain_rd (snd p)) (remove_loc l s) = true.
Proof.
  induction s as [|[k v] s IH]; cbn; intro P; [reflexivity|].
  apply andb_true_iff in P as [Pv Ps]. destruct (loc_eqb l k); [apply IH; exact Ps|].
  cbn. rewrite Pv. apply IH. exact Ps.
Qed.

Lemma plain_preserved : forall en c, plain_store en = true -> plain_change c = true ->
  plain_store (apply_change en c) = true.
Proof.
  intros en c Ps Pc. unfold plain_store in *. rewrite store_apply.
  destruct c; cbn [plain_change] in Pc; try (apply plain_remove; exact Ps);
    rewrite forallb_app; apply andb_true_iff; split; try exact Ps; cbn [writes].
  - cbn. rewrite Pc. reflexivity.
  - cbn. rewrite Pc. reflexivity.
  - cbn. rewrite Pc. reflexivity.
  - destruct (game en) as [[cu n]|]; [|reflexivity]. destruct ((0 <=? i) && (i <? n)); [|reflexivity].
    cbn. rewrite Pc. reflexivity.
  - destruct (game en); reflexivity.
  - destruct (game en) as [[cu n]|]; reflexivity.
  - destruct (game en) as [[cu n]|]; reflexivity.
  - reflexivity.
Qed.

Lemma plain_run_honest : forall cs en, plain_store en = true -> forallb plain_change cs = true ->
  honest_run en cs = true.
Proof.
  induction cs as [|c cs IH]; intros en Ps Pc; [reflexivity|].
  cbn [forallb] in Pc. apply andb_true_iff in Pc as [Pc Pcs].
  unfold honest_run. cbn [honest_run_gen]. apply andb_true_iff. split.
  - apply plain_honest; assumption.
  - apply IH; [apply plain_preserved; assumption | assumption].
Qed.

Lemma no_stale_value_plain_l : forall k d e en cs, supported e = true ->
  plain_store en = true -> forallb plain_change cs = true ->
  let st := hfinal k d e (en, subscribe_now k d en e) cs in
  (forall v, last (snd st) <> OVal v)
  \/ fst (evaluate_and_subscribe k d (fst st) e) = last (snd st)
  \/ (forall v, fst (evaluate_and_subscribe k d (fst st) e) <> OVal v).
Proof. intros. apply no_stale_value_l; [assumption | apply plain_run_honest; assumption]. Qed.

(* ---- every subscription is a channel (never a mode / game attribute or a bare player cell) -------- *)
Definition is_channel (l : loc) : bool :=
  match l with LMode _ _ | LGame _ | LPlayerI _ _ _ => false | _ => true end.

Lemma read_walk_channels sub en r t s : supported_read r = true -> read_walk sub en r = (t, s) ->
  forallb is_channel s = true.
Proof.
  intros S H. destruct r as [l | x | i x].
  - destruct l; try discriminate; cbn in H;
      repeat match type of H with
             | context [match ?X with _ => _ end] => destruct X
             | context [if ?X then _ else _] => destruct X
             end; inversion H; reflexivity.
  - unfold read_walk in H. destruct (rread en _), sub; inversion H; reflexivity.
  - unfold read_walk in H. destruct (rread en _), sub; inversion H; reflexivity.
Qed.

Lemma tbind_channels r k : forallb is_channel (snd r) = true ->
  (forall v s, forallb is_channel s = true -> forallb is_channel (snd (k v s)) = true) ->
  forallb is_channel (snd (tbind r k)) = true.
Proof. destruct r as [[] s]; cbn; auto. Qed.

Lemma of_res_channels r s : forallb is_channel s = true -> forallb is_channel (snd (of_res r s)) = true.
Proof. destruct r; cbn; auto. Qed.

Lemma subs_are_channels_l : forall sub en e, supported e = true ->
  forallb is_channel (snd (tmpl_eval sub en e)) = true.
Proof.
  intros sub en e. induction e; intro S; cbn [supported] in S; cbn [tmpl_eval]; autorewrite with disp;
    try reflexivity.
  - destruct (assoc_z x (params en)); reflexivity.
  - rewrite read_match_eq. destruct (read_walk sub en r) as [t s] eqn:E. cbn [snd].
    eapply read_walk_channels; eauto.
  - apply andb_true_iff in S as [S Sb]. apply andb_true_iff in S as [So Sa].
    apply tbind_channels; [auto|]. intros va sa Ha. apply tbind_channels; [auto|]. intros vb sb Hb.
    destruct (operators o); [|reflexivity]. apply of_res_channels. rewrite forallb_app, Ha, Hb. reflexivity.
  - apply andb_true_iff in S as [So Sa].
    apply tbind_channels; [auto|]. intros va sa Ha.
    destruct (operators o); [|reflexivity]. apply of_res_channels. exact Ha.
  - apply andb_true_iff in S as [S Sb]. apply andb_true_iff in S as [So Sa].
    apply tbind_channels; [auto|]. intros va sa Ha. apply tbind_channels; [auto|]. intros vb sb Hb.
    destruct (comparisons o); [|reflexivity]. apply of_res_channels. rewrite forallb_app, Ha, Hb. reflexivity.
  - apply andb_true_iff in S as [Sa Sb].
    apply tbind_channels; [auto|]. intros va sa Ha. apply tbind_channels; [auto|]. intros vb sb Hb.
    destruct (bool_operators o); [|reflexivity]. cbn. rewrite forallb_app, Ha, Hb. reflexivity.
  - apply andb_true_iff in S as [S Sb]. apply andb_true_iff in S as [Sc Sa].
    apply tbind_channels; [auto|]. intros vc sc Hc.
    assert (B : forallb is_channel (snd (if truthy vc then tmpl_eval sub en e2 else tmpl_eval sub en e3)) = true)
      by (destruct (truthy vc); auto).
    destruct (if truthy vc then tmpl_eval sub en e2 else tmpl_eval sub en e3) as [[] sb]; cbn in *;
      try exact B; rewrite forallb_app, Hc, B; reflexivity.
  - apply andb_true_iff in S as [S Sb]. apply andb_true_iff in S as [St Sa].
    apply tbind_channels; [auto|]. intros va sa Ha. apply tbind_channels; [auto|]. intros vb sb Hb.
    destruct vb; try reflexivity. cbn. rewrite forallb_app, Ha, Hb. reflexivity.
  - apply andb_true_iff in S as [Sa Sb].
    apply tbind_channels; [auto|]. intros va sa Ha. apply tbind_channels; [auto|]. intros vb sb Hb.
    apply of_res_channels. rewrite forallb_app, Ha, Hb. reflexivity.
Qed.

(* a subscribed evaluation that returns a value has read only cells that have a channel *)
Lemma subscribed_value_reads_subscribable_l : forall en e v ss, supported e = true ->
  tmpl_eval true en e = (TVal v, ss) -> forall l, In l (reads en e) -> is_channel (chan_of l) = true.
Proof.
  intros en e v ss S H l I.
  pose proof (subscriptions_cover_reads_l en e v ss S H l I) as C.
  pose proof (subs_are_channels_l true en e S) as A. rewrite H in A. cbn [snd] in A.
  rewrite forallb_forall in A. apply A. exact C.
Qed.

(* ---- witnesses ----------------------------------------------------------------------------------- *)
(* an unannounced change makes the subscriber stale: setting a player variable to None posts no event *)
Definition stale_witness_env := mkEnv [] [] 1 (Some (0, 1)).
Definition stale_witness_changes := [CSetPlayerVar 0 [112] (VInt 5); CSetPlayerVar 0 [112] VNone].
Lemma stale_after_unannounced_change_refuted_l :
  let e := ERead (RCur [112]) in
  let st := hfinal KRaw (VInt 77) e (stale_witness_env, subscribe_now KRaw (VInt 77) stale_witness_env e) stale_witness_changes in
  supported e = true /\ honest_run stale_witness_env stale_witness_changes = false /\
  last (snd st) = OVal (VInt 5) /\ fst (evaluate_and_subscribe KRaw (VInt 77) (fst st) e) = OVal (VInt 77).
Proof. vm_compute. repeat split. Qed.

Lemma stale_after_unannounced_change_refuted_ex :
  exists k d e en cs,
    let st := hfinal k d e (en, subscribe_now k d en e) cs in
    supported e = true /\ honest_run en cs = false /\
    last (snd st) = OVal (VInt 5) /\ fst (evaluate_and_subscribe k d (fst st) e) = OVal (VInt 77).
Proof.
  exists KRaw, (VInt 77), (ERead (RCur [112])), stale_witness_env, stale_witness_changes.
  exact stale_after_unannounced_change_refuted_l.
Qed.

(* the code WITHOUT fixes/C16-player-placeholder-game-end.patch: after the game has ended a template on
   current_player.score keeps the last score (70) although it now evaluates to its default (77); with the
   fix the same history delivers 77 *)
Definition game_end_changes (slow : bool) := [CSetPlayerVar 0 s_score (VInt 70); CEndGame slow].
Lemma stale_after_game_end_unfixed_refuted_ex :
  exists k d e en cs,
    let st := hfinal_gen announced_unfixed k d e (en, subscribe_now k d en e) cs in
    supported e = true /\ forallb plain_change cs = true /\ plain_store en = true /\
    last (snd st) = OVal (VInt 70) /\ fst (evaluate_and_subscribe k d (fst st) e) = OVal (VInt 77) /\
    last (snd (hfinal k d e (en, subscribe_now k d en e) cs)) = OVal (VInt 77).
Proof.
  exists KRaw, (VInt 77), (ERead (RCur s_score)), stale_witness_env, (game_end_changes false).
  vm_compute. repeat split.
Qed.
(* ... and players[0].score when a queue handler delays mode_game_stopping *)
Lemma stale_players_after_slow_game_end_unfixed :
  let e := ERead (RPlayerN 0 s_score) in
  let st := hfinal_gen announced_unfixed KRaw (VInt 77) e
              (stale_witness_env, subscribe_now KRaw (VInt 77) stale_witness_env e) (game_end_changes true) in
  last (snd st) = OVal (VInt 70) /\ fst (evaluate_and_subscribe KRaw (VInt 77) (fst st) e) = OVal (VInt 77).
Proof. vm_compute. repeat split. Qed.

(* examples: the hypotheses are satisfiable on non-trivial inputs *)
Definition ex_env := mkEnv [([112], VInt 3)] [(LMachine [97], RVal (VInt 4)); (LSetting [115], RVal (VStr [108;111]))] 0 None.
(* (machine.a + p) * 2 if settings.s == "lo" else -machine.b *)
Definition ex_expr :=
  EIf (ECmp CEq (ERead (RCell (LSetting [115]))) (EStr [108;111]))
      (EBin KMult (EBin KAdd (ERead (RCell (LMachine [97]))) (EName [112])) (ENum 2))
      (EUn KUSub (ERead (RCell (LMachine [98])))).
Lemma ex_supported : supported ex_expr = true /\ subscribable ex_expr = true. Proof. split; reflexivity. Qed.
Lemma ex_value : py_eval ex_env ex_expr = PVal (VInt 14). Proof. vm_compute. reflexivity. Qed.
Lemma ex_tmpl : tmpl_eval true ex_env ex_expr = (TVal (VInt 14), [LSetting [115]; LMachine [97]]).
Proof. vm_compute. reflexivity. Qed.
(* -machine.b with b unset: TypeError in Python *)
Lemma ex_type_error : py_eval ex_env (EUn KUSub (ERead (RCell (LMachine [98])))) = PTypeErr. Proof. vm_compute. reflexivity. Qed.
(* floats, tuples, subscripts:  0.1 + 0.2 == 0.30000000000000004  and  (1, "a", 5 / 2)[-1] == 2.5 *)
Lemma ex_float : py_eval ex_env (EBin KAdd (EFlt 3602879701896397 36028797018963968) (EFlt 3602879701896397 18014398509481984))
                 = PVal (VFloat 1351079888211149 4503599627370496).
Proof. vm_compute. reflexivity. Qed.
Definition ex_tuple_expr :=
  EIndex (ETupCons (ENum 1) (ETupCons (EStr [97]) (ETupCons (EBin KDiv (ENum 5) (ENum 2)) ETupNil))) (EUn KUSub (ENum 1)).
Lemma ex_tuple : supported ex_tuple_expr = true /\ py_eval ex_env ex_tuple_expr = PVal (VFloat 5 2) /\
                 tmpl_eval true ex_env ex_tuple_expr = (TVal (VFloat 5 2), []).
Proof. vm_compute. repeat split. Qed.
Lemma ex_missing_parameter :
  supported (EName [122]) = true /\ subscribable (EName [122]) = true /\ py_eval ex_env (EName [122]) = PNameErr /\
  fst (evaluate_and_subscribe KRaw (VInt 77) ex_env (EName [122])) = OAssert /\
  evaluate KRaw (VInt 77) ex_env (EName [122]) = OVal (VInt 77).
Proof. vm_compute. repeat split. Qed.

Definition ex_changes := [CSetMachine [97] (VInt 5); CSetSetting [115] (VStr [104;105]); CSetMachine [98] (VInt 9);
                          CRemoveMachine [98]; CSetMachine [97] (VInt 5)].
Lemma ex_honest : honest_run ex_env ex_changes = true. Proof. vm_compute. reflexivity. Qed.
Lemma ex_history : hrun KRaw (VInt 77) ex_expr (ex_env, subscribe_now KRaw (VInt 77) ex_env ex_expr) ex_changes
  = [(true, OVal (VInt 16)); (true, OVal (VInt 77)); (true, OVal (VInt (-9))); (true, OVal (VInt 77)); (false, OVal (VInt 77))].
Proof. vm_compute. reflexivity. Qed.

(* a game: current_player.score + (1000 if players[1].score > 0 else machine.a) over start / add player /
   next turn / end of game *)
Definition game_env := mkEnv [] [(LMachine [97], RVal (VInt 4))] 0 None.
Definition game_expr :=
  EBin KAdd (ERead (RCur s_score))
       (EIf (ECmp CGt (ERead (RPlayerN 1 s_score)) (ENum 0)) (ENum 1000) (ERead (RCell (LMachine [97])))).
Definition game_changes := [CStartGame; CSetPlayerVar 0 s_score (VInt 100); CAddPlayer; CSetPlayerVar 1 s_score (VInt 5);
                            CNextTurn; CSetMachine [97] (VInt 4); CEndGame true].
Lemma ex_game : supported game_expr = true /\ plain_store game_env = true /\ forallb plain_change game_changes = true /\
  hrun KRaw (VInt 77) game_expr (game_env, subscribe_now KRaw (VInt 77) game_env game_expr) game_changes
  = [(true, OVal (VInt 77)); (true, OVal (VInt 77)); (true, OVal (VInt 104)); (true, OVal (VInt 1100));
     (true, OVal (VInt 1005)); (false, OVal (VInt 1005)); (true, OVal (VInt 77))].
Proof. vm_compute. repeat split. Qed.

Lemma lifecycle_and_removal_honest :
  forall en c, (lifecycle c = true \/ exists n, c = CRemoveMachine n) -> honest en c = true.
Proof.
  intros en c [H | [n ->]]; [exact (lifecycle_honest en c H) | exact (remove_honest en n)].
Qed.

Lemma missing_parameter_subscribed_refuted_ex :
  exists k d en e, supported e = true /\ subscribable e = true /\ py_eval en e = PNameErr /\
    fst (evaluate_and_subscribe k d en e) = OAssert /\ evaluate k d en e = OVal d.
Proof. exists KRaw, (VInt 77), ex_env, (EName [122]). exact ex_missing_parameter. Qed.
