From Common Require Import Prelude.
From C16 Require Import Model.
