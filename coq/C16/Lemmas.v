(* C16/Lemmas.v — proofs about the model of template evaluation and subscriptions. *)
From Common Require Import Prelude.
From C16 Require Import Model.
Open Scope Z_scope.

(* ---- the translated tables against the language's operators ----------------------------------
   These are the lemmas that break when an entry of OPERATORS / COMPARISONS / BOOL_OPERATORS in
   placeholder_manager.py is swapped, dropped or replaced (gen/Tables.v is regenerated on every run). *)
Lemma operators_bin_ok : forall o, supported_bin o = true ->
  exists p, operators o = Some p /\ forall a b, prim_call2 p a b = py_binop o a b.
Proof. destruct o; cbn; intro H; try discriminate; eexists; split; try reflexivity; intros; reflexivity. Qed.

Lemma operators_un_ok : forall o, supported_un o = true ->
  exists p, operators o = Some p /\ forall a, prim_call1 p a = py_unop o a.
Proof. destruct o; cbn; intro H; try discriminate; eexists; split; try reflexivity; intros; reflexivity. Qed.

Lemma comparisons_ok : forall o, supported_cmp o = true ->
  exists p, comparisons o = Some p /\ forall a b, prim_call2 p a b = py_cmp o a b.
Proof. destruct o; cbn; intro H; try discriminate; eexists; split; try reflexivity; intros; reflexivity. Qed.

Lemma bool_operators_ok : forall o,
  exists p, bool_operators o = Some p /\ forall a b, bprim_call p a b = py_boolop o a b.
Proof. destruct o; cbn; eexists; split; try reflexivity; intros; reflexivity. Qed.

(* ---- MPF's walk against Python's evaluation -------------------------------------------------- *)
Definition expected (sub : bool) (p : pres) : tres :=
  match p with
  | PVal v => TVal v
  | PTypeErr => TEvalErr
  | PZeroDiv => TCrash
  | PNameErr => TValueErr
  | PReadErr => if sub then TEvalErr else TValueErr
  | PCrash => TCrash
  | PUnsup => TUnsup
  end.

Lemma fst_of_res sub r s : fst (of_res r s) = expected sub (pres_of r).
Proof. destruct r; reflexivity. Qed.

Lemma fst_with_subs s r : fst (with_subs s r) = fst r.
Proof. destruct r as [[] ?]; reflexivity. Qed.

Lemma tbind_fst_not_val r k : (forall v, fst r <> TVal v) -> tbind r k = r.
Proof. destruct r as [[] ?]; cbn; intro H; try reflexivity. exfalso; eapply H; reflexivity. Qed.

Lemma expected_val sub p v : expected sub p = TVal v -> p = PVal v.
Proof. destruct p, sub; cbn; intro H; try discriminate; congruence. Qed.

Lemma expected_not_val sub p : (forall v, p <> PVal v) -> forall v, expected sub p <> TVal v.
Proof. intros H v E. apply expected_val in E. eapply H; eauto. Qed.

(* evaluation of two operands, shared by BinOp / Compare / BoolOp *)
Lemma two_operands sub en a b (k : value -> value -> list loc -> tres * list loc) (kp : value -> value -> pres) :
  fst (tmpl_eval sub en a) = expected sub (py_eval en a) ->
  fst (tmpl_eval sub en b) = expected sub (py_eval en b) ->
  (forall va vb s, fst (k va vb s) = expected sub (kp va vb)) ->
  fst (tbind (tmpl_eval sub en a) (fun va sa => tbind (tmpl_eval sub en b) (fun vb sb => k va vb (sa ++ sb))))
  = expected sub (pbind (py_eval en a) (fun va => pbind (py_eval en b) (fun vb => kp va vb))).
Proof.
  intros Ha Hb Hk.
  destruct (tmpl_eval sub en a) as [ta sa]; cbn [fst] in Ha; subst ta.
  destruct (tmpl_eval sub en b) as [tb sb]; cbn [fst] in Hb; subst tb.
  destruct (py_eval en a) as [va| | | | | |]; cbn; try reflexivity; try (destruct sub; reflexivity).
  destruct (py_eval en b) as [vb| | | | | |]; cbn; try reflexivity; try (destruct sub; reflexivity).
  apply Hk.
Qed.

Lemma tmpl_matches_python : forall sub en e, supported e = true ->
  fst (tmpl_eval sub en e) = expected sub (py_eval en e).
Proof.
  intros sub en e. induction e; intro S; cbn [supported] in S.
  - reflexivity.
  - reflexivity.
  - reflexivity.
  - reflexivity.
  - cbn. destruct (assoc_z x (params en)); reflexivity.
  - cbn. destruct (sread en l); cbn; try reflexivity. destruct sub; reflexivity.
  - apply andb_true_iff in S as [S Sb]. apply andb_true_iff in S as [So Sa].
    destruct (operators_bin_ok o So) as [p [Hp Hc]].
    cbn [tmpl_eval py_eval]. rewrite Hp.
    apply (two_operands sub en e1 e2 (fun va vb s => of_res (prim_call2 p va vb) s)
                        (fun va vb => pres_of (py_binop o va vb))); auto.
    intros. rewrite Hc. apply fst_of_res.
  - apply andb_true_iff in S as [So Sa].
    destruct (operators_un_ok o So) as [p [Hp Hc]].
    cbn [tmpl_eval py_eval]. rewrite Hp. specialize (IHe Sa).
    destruct (tmpl_eval sub en e) as [ta sa]; cbn [fst] in IHe; subst ta.
    destruct (py_eval en e); cbn; try reflexivity; try (destruct sub; reflexivity).
    rewrite Hc. apply fst_of_res.
  - apply andb_true_iff in S as [S Sb]. apply andb_true_iff in S as [So Sa].
    destruct (comparisons_ok o So) as [p [Hp Hc]].
    cbn [tmpl_eval py_eval]. rewrite Hp.
    apply (two_operands sub en e1 e2 (fun va vb s => of_res (prim_call2 p va vb) s)
                        (fun va vb => pres_of (py_cmp o va vb))); auto.
    intros. rewrite Hc. apply fst_of_res.
  - apply andb_true_iff in S as [Sa Sb].
    destruct (bool_operators_ok o) as [p [Hp Hc]].
    cbn [tmpl_eval py_eval]. rewrite Hp.
    apply (two_operands sub en e1 e2 (fun va vb s => (TVal (bprim_call p va vb), s))
                        (fun va vb => PVal (py_boolop o va vb))); auto.
    intros. cbn. rewrite Hc. reflexivity.
  - apply andb_true_iff in S as [S Sb]. apply andb_true_iff in S as [Sc Sa].
    cbn [tmpl_eval py_eval]. specialize (IHe1 Sc). specialize (IHe2 Sa). specialize (IHe3 Sb).
    destruct (tmpl_eval sub en e1) as [tc sc]; cbn [fst] in IHe1; subst tc.
    destruct (py_eval en e1) as [vc| | | | | |]; cbn; try reflexivity; try (destruct sub; reflexivity).
    rewrite fst_with_subs. destruct (truthy vc); assumption.
Qed.

Lemma eval_equals_python_allops_l : forall sub en e v, supported e = true ->
  py_eval en e = PVal v -> fst (tmpl_eval sub en e) = TVal v.
Proof. intros. rewrite tmpl_matches_python by assumption. rewrite H0. reflexivity. Qed.

(* the value a typed template must deliver for a Python value *)
Definition deliver (k : kind) (dflt : value) (v : value) : outcome :=
  match v with VNone => OVal dflt | _ => convert k v end.

Lemma evaluate_equals_python_l : forall k d en e v, supported e = true ->
  py_eval en e = PVal v -> evaluate k d en e = deliver k d v.
Proof.
  intros. unfold evaluate. rewrite (eval_equals_python_allops_l false en e v) by assumption.
  destruct v; reflexivity.
Qed.

Lemma type_error_gives_default_l : forall k d en e, supported e = true ->
  (py_eval en e = PTypeErr \/ py_eval en e = PNameErr \/ py_eval en e = PReadErr) ->
  evaluate k d en e = OVal d.
Proof.
  intros k d en e S H. unfold evaluate. rewrite tmpl_matches_python by assumption.
  destruct H as [H | [H | H]]; rewrite H; reflexivity.
Qed.

Lemma type_error_gives_default_subscribed_l : forall k d en e, supported e = true ->
  (py_eval en e = PTypeErr \/ py_eval en e = PReadErr) ->
  fst (evaluate_and_subscribe k d en e) = convert k d.
Proof.
  intros k d en e S H. unfold evaluate_and_subscribe.
  pose proof (tmpl_matches_python true en e S) as M.
  destruct (tmpl_eval true en e) as [t s]; cbn [fst] in M; subst t.
  destruct H as [H | H]; rewrite H; reflexivity.
Qed.

Lemma subscribed_equals_python_l : forall k d en e v, supported e = true ->
  py_eval en e = PVal v ->
  fst (evaluate_and_subscribe k d en e) = match v with VNone => convert k d | _ => convert k v end.
Proof.
  intros k d en e v S H. unfold evaluate_and_subscribe.
  pose proof (tmpl_matches_python true en e S) as M.
  destruct (tmpl_eval true en e) as [t s]; cbn [fst] in M; subst t.
  rewrite H. destruct v; reflexivity.
Qed.

(* ---- subscriptions cover reads ------------------------------------------------------------------ *)
Lemma val_inv sub en e v s : supported e = true -> tmpl_eval sub en e = (TVal v, s) -> py_eval en e = PVal v.
Proof.
  intros S H. pose proof (tmpl_matches_python sub en e S) as M. rewrite H in M. cbn in M.
  symmetry in M. eapply expected_val; eauto.
Qed.

Lemma tbind_val r k v s : tbind r k = (TVal v, s) -> exists va sa, r = (TVal va, sa) /\ k va sa = (TVal v, s).
Proof. destruct r as [[] sa]; cbn; intro H; try discriminate. eauto. Qed.

Lemma of_res_val r s v s' : of_res r s = (TVal v, s') -> s' = s.
Proof. destruct r; cbn; intro H; inversion H; reflexivity. Qed.

Lemma with_subs_val s r v s' : with_subs s r = (TVal v, s') -> exists s2, r = (TVal v, s2) /\ s' = s ++ s2.
Proof. destruct r as [[] s2]; cbn; intro H; inversion H; subst; eauto. Qed.

Lemma subscriptions_cover_reads_l : forall en e v ss, supported e = true ->
  tmpl_eval true en e = (TVal v, ss) -> incl (reads en e) ss.
Proof.
  intros en e. induction e; intros v ss S H; cbn [supported] in S; cbn [reads];
    try (intros y Hy; solve [destruct Hy]).
  - (* ERead *) cbn in H. destruct (sread en l); inversion H; subst. intros y Hy. exact Hy.
  - (* EBin *)
    apply andb_true_iff in S as [S Sb]. apply andb_true_iff in S as [So Sa].
    cbn [tmpl_eval] in H. apply tbind_val in H as [va [sa [Ha H]]]. apply tbind_val in H as [vb [sb [Hb H]]].
    rewrite (val_inv _ _ _ _ _ Sa Ha).
    destruct (operators o); [|discriminate]. apply of_res_val in H. subst ss.
    apply incl_app; [apply incl_appl; eapply IHe1 | apply incl_appr; eapply IHe2]; eauto.
  - (* EUn *)
    apply andb_true_iff in S as [So Sa].
    cbn [tmpl_eval] in H. apply tbind_val in H as [va [sa [Ha H]]].
    destruct (operators o); [|discriminate]. apply of_res_val in H. subst ss. eapply IHe; eauto.
  - (* ECmp *)
    apply andb_true_iff in S as [S Sb]. apply andb_true_iff in S as [So Sa].
    cbn [tmpl_eval] in H. apply tbind_val in H as [va [sa [Ha H]]]. apply tbind_val in H as [vb [sb [Hb H]]].
    rewrite (val_inv _ _ _ _ _ Sa Ha).
    destruct (comparisons o); [|discriminate]. apply of_res_val in H. subst ss.
    apply incl_app; [apply incl_appl; eapply IHe1 | apply incl_appr; eapply IHe2]; eauto.
  - (* EBool *)
    apply andb_true_iff in S as [Sa Sb].
    cbn [tmpl_eval] in H. apply tbind_val in H as [va [sa [Ha H]]]. apply tbind_val in H as [vb [sb [Hb H]]].
    rewrite (val_inv _ _ _ _ _ Sa Ha).
    destruct (bool_operators o); [|discriminate]. inversion H; subst.
    apply incl_app; [apply incl_appl; eapply IHe1 | apply incl_appr; eapply IHe2]; eauto.
  - (* EIf *)
    apply andb_true_iff in S as [S Sb]. apply andb_true_iff in S as [Sc Sa].
    cbn [tmpl_eval] in H. apply tbind_val in H as [vc [sc [Hc H]]].
    rewrite (val_inv _ _ _ _ _ Sc Hc).
    apply with_subs_val in H as [s2 [H ->]].
    apply incl_app; [apply incl_appl; eapply IHe1; eauto | apply incl_appr].
    destruct (truthy vc); [eapply IHe2 | eapply IHe3]; eauto.
Qed.

(* ---- the outcome can only change when a subscribed location changes ---------------------------- *)
Definition agree_on (s : list loc) (en en' : env) : Prop :=
  params en = params en' /\ forall l, In l s -> sread en l = sread en' l.

Definition tres_ok (r : tres) : bool := match r with TVal _ | TEvalErr => true | _ => false end.

Lemma agree_app_l s1 s2 en en' : agree_on (s1 ++ s2) en en' -> agree_on s1 en en'.
Proof. intros [P H]; split; auto. intros; apply H; apply in_or_app; auto. Qed.
Lemma agree_app_r s1 s2 en en' : agree_on (s1 ++ s2) en en' -> agree_on s2 en en'.
Proof. intros [P H]; split; auto. intros; apply H; apply in_or_app; auto. Qed.

Lemma of_res_ok r s r' s' : of_res r s = (r', s') -> tres_ok r' = true -> s' = s.
Proof. destruct r; cbn; intros H O; inversion H; subst; try reflexivity; discriminate. Qed.

(* shape of a two-operand node whose callee [k] is environment independent *)
Lemma two_operands_determined en en' a b (k : value -> value -> list loc -> tres * list loc) r s :
  (forall r s, tmpl_eval true en a = (r, s) -> tres_ok r = true -> agree_on s en en' ->
      fst (tmpl_eval true en' a) = r \/ tres_ok (fst (tmpl_eval true en' a)) = false) ->
  (forall r s, tmpl_eval true en b = (r, s) -> tres_ok r = true -> agree_on s en en' ->
      fst (tmpl_eval true en' b) = r \/ tres_ok (fst (tmpl_eval true en' b)) = false) ->
  (forall va vb s1 r s, k va vb s1 = (r, s) -> tres_ok r = true -> s = s1) ->
  (forall va vb s1 s2, fst (k va vb s1) = fst (k va vb s2)) ->
  tbind (tmpl_eval true en a) (fun va sa => tbind (tmpl_eval true en b) (fun vb sb => k va vb (sa ++ sb))) = (r, s) ->
  tres_ok r = true -> agree_on s en en' ->
  let r' := fst (tbind (tmpl_eval true en' a)
                       (fun va sa => tbind (tmpl_eval true en' b) (fun vb sb => k va vb (sa ++ sb)))) in
  r' = r \/ tres_ok r' = false.
Proof.
  intros IHa IHb Hk Hk2 H O A. cbn zeta.
  destruct (tmpl_eval true en a) as [ta sa] eqn:Ea.
  destruct ta as [va| | | |]; cbn [tbind] in H; try (inversion H; subst; discriminate).
  - destruct (tmpl_eval true en b) as [tb sb] eqn:Eb.
    destruct tb as [vb| | | |]; cbn [tbind] in H; try (inversion H; subst; discriminate).
    + pose proof (Hk _ _ _ _ _ H O) as ->.
      destruct (IHa _ _ eq_refl eq_refl (agree_app_l _ _ _ _ A)) as [Ha' | Ha'].
      * destruct (tmpl_eval true en' a) as [ta' sa']; cbn [fst] in Ha'; subst ta'. cbn [tbind].
        destruct (IHb _ _ eq_refl eq_refl (agree_app_r _ _ _ _ A)) as [Hb' | Hb'].
        -- destruct (tmpl_eval true en' b) as [tb' sb']; cbn [fst] in Hb'; subst tb'. cbn [tbind].
           left. rewrite (Hk2 va vb (sa' ++ sb') (sa ++ sb)). rewrite H. reflexivity.
        -- right. destruct (tmpl_eval true en' b) as [[] sb']; cbn in *; try discriminate; reflexivity.
      * right. destruct (tmpl_eval true en' a) as [[] sa']; cbn in *; try discriminate; reflexivity.
    + (* the right operand failed: only its subscriptions are carried by the exception *)
      inversion H; subst r s.
      destruct (IHb _ _ eq_refl eq_refl A) as [Hb' | Hb'].
      * destruct (tmpl_eval true en' a) as [[] sa']; cbn; auto.
        destruct (tmpl_eval true en' b) as [tb' sb']; cbn [fst] in Hb'; subst tb'. cbn. auto.
      * destruct (tmpl_eval true en' a) as [[] sa']; cbn; auto.
        destruct (tmpl_eval true en' b) as [[] sb']; cbn in *; try discriminate; auto.
  - inversion H; subst r s.
    destruct (IHa _ _ eq_refl eq_refl A) as [Ha' | Ha'].
    + destruct (tmpl_eval true en' a) as [ta' sa']; cbn [fst] in Ha'; subst ta'. cbn. auto.
    + destruct (tmpl_eval true en' a) as [[] sa']; cbn in *; try discriminate; auto.
Qed.

Lemma outcome_determined_by_subscriptions_l : forall e en en' r ss,
  tmpl_eval true en e = (r, ss) -> tres_ok r = true -> agree_on ss en en' ->
  fst (tmpl_eval true en' e) = r \/ tres_ok (fst (tmpl_eval true en' e)) = false.
Proof.
  induction e; intros en en' r ss H O A.
  - inversion H; subst; left; reflexivity.
  - inversion H; subst; left; reflexivity.
  - inversion H; subst; left; reflexivity.
  - inversion H; subst; left; reflexivity.
  - cbn in *. destruct A as [P _]. rewrite <- P.
    destruct (assoc_z x (params en)); inversion H; subst; auto.
  - cbn in *. destruct A as [_ A].
    destruct (sread en l) eqn:E; inversion H; subst; try discriminate;
      rewrite <- (A l (or_introl eq_refl)); rewrite E; auto.
  - cbn [tmpl_eval] in *. destruct (operators o) as [p|].
    + eapply (two_operands_determined en en' e1 e2 (fun va vb s => of_res (prim_call2 p va vb) s)); eauto.
      * intros. eapply of_res_ok; eauto.
      * intros. destruct (prim_call2 p va vb); reflexivity.
    + eapply (two_operands_determined en en' e1 e2 (fun va vb s => (TCrash, []))); eauto.
      intros ? ? ? ? ? E O'. inversion E; subst; discriminate.
  - cbn [tmpl_eval] in *.
    destruct (tmpl_eval true en e) as [ta sa] eqn:Ea.
    destruct ta as [va| | | |]; cbn [tbind] in H; try (inversion H; subst; discriminate).
    + assert (ss = sa) as ->.
      { destruct (operators o); [eapply of_res_ok; eauto | inversion H; subst; discriminate]. }
      destruct (IHe _ en' _ _ Ea eq_refl A) as [Ha' | Ha'].
      * destruct (tmpl_eval true en' e) as [ta' sa']; cbn [fst] in Ha'; subst ta'. cbn [tbind].
        left. destruct (operators o); [|inversion H; subst; reflexivity].
        destruct (prim_call1 p va); cbn in *; inversion H; subst; reflexivity.
      * right. destruct (tmpl_eval true en' e) as [[] sa']; cbn in *; try discriminate; reflexivity.
    + inversion H; subst r ss.
      destruct (IHe _ en' _ _ Ea eq_refl A) as [Ha' | Ha'].
      * destruct (tmpl_eval true en' e) as [ta' sa']; cbn [fst] in Ha'; subst ta'. cbn. auto.
      * destruct (tmpl_eval true en' e) as [[] sa']; cbn in *; try discriminate; auto.
  - cbn [tmpl_eval] in *. destruct (comparisons o) as [p|].
    + eapply (two_operands_determined en en' e1 e2 (fun va vb s => of_res (prim_call2 p va vb) s)); eauto.
      * intros. eapply of_res_ok; eauto.
      * intros. destruct (prim_call2 p va vb); reflexivity.
    + eapply (two_operands_determined en en' e1 e2 (fun va vb s => (TCrash, []))); eauto.
      intros ? ? ? ? ? E O'. inversion E; subst; discriminate.
  - cbn [tmpl_eval] in *. destruct (bool_operators o) as [p|].
    + eapply (two_operands_determined en en' e1 e2 (fun va vb s => (TVal (bprim_call p va vb), s))); eauto.
      intros ? ? ? ? ? E O'. inversion E; subst; reflexivity.
    + eapply (two_operands_determined en en' e1 e2 (fun va vb s => (TCrash, []))); eauto.
      intros ? ? ? ? ? E O'. inversion E; subst; discriminate.
  - cbn [tmpl_eval] in *.
    destruct (tmpl_eval true en e1) as [tc sc] eqn:Ec.
    destruct tc as [vc| | | |]; cbn [tbind] in H; try (inversion H; subst; discriminate).
    + set (br := if truthy vc then e2 else e3).
      assert (Hbr : with_subs sc (tmpl_eval true en br) = (r, ss)).
      { subst br. destruct (truthy vc); exact H. }
      destruct (tmpl_eval true en br) as [tb sb] eqn:Eb.
      assert (ss = sc ++ sb /\ tb = r) as [-> ->].
      { destruct tb; cbn in Hbr; inversion Hbr; subst; try discriminate; auto. }
      destruct (IHe1 _ en' _ _ Ec eq_refl (agree_app_l _ _ _ _ A)) as [Hc' | Hc'].
      * destruct (tmpl_eval true en' e1) as [tc' sc']; cbn [fst] in Hc'; subst tc'. cbn [tbind].
        rewrite fst_with_subs.
        assert (IHbr : fst (tmpl_eval true en' br) = r \/ tres_ok (fst (tmpl_eval true en' br)) = false).
        { subst br. destruct (truthy vc); [eapply IHe2 | eapply IHe3]; eauto using agree_app_r. }
        subst br. destruct (truthy vc); exact IHbr.
      * right. destruct (tmpl_eval true en' e1) as [[] sc']; cbn in *; try discriminate; reflexivity.
    + inversion H; subst r ss.
      destruct (IHe1 _ en' _ _ Ec eq_refl A) as [Hc' | Hc'].
      * destruct (tmpl_eval true en' e1) as [tc' sc']; cbn [fst] in Hc'; subst tc'. cbn. auto.
      * destruct (tmpl_eval true en' e1) as [[] sc']; cbn in *; try discriminate; auto.
Qed.

(* ---- change histories: the subscriber never holds a stale value --------------------------------- *)
Lemma value_eqb_eq a b : value_eqb a b = true -> a = b.
Proof.
  destruct a, b; cbn; intro H; try discriminate; try reflexivity.
  - apply Bool.eqb_prop in H. congruence.
  - apply Z.eqb_eq in H. congruence.
  - apply zs_eqb_spec in H. congruence.
Qed.

Lemma loc_eqb_eq x y : loc_eqb x y = true <-> x = y.
Proof.
  split.
  - destruct x, y; cbn; intro H; try discriminate;
      repeat (apply andb_true_iff in H as [H ?]);
      repeat match goal with E : zs_eqb _ _ = true |- _ => apply zs_eqb_spec in E end; congruence.
  - intros <-. destruct x; cbn; repeat (apply andb_true_iff; split); apply zs_eqb_spec; reflexivity.
Qed.

Lemma loc_eqb_neq x y : x <> y -> loc_eqb x y = false.
Proof. intro N. destruct (loc_eqb x y) eqn:E; [apply loc_eqb_eq in E; contradiction | reflexivity]. Qed.

Lemma sread_set_other en l r l' : l' <> l -> sread (set_store l r en) l' = sread en l'.
Proof.
  intro N. unfold sread, set_store. cbn [store in_game lookup_loc].
  rewrite (loc_eqb_neq _ _ N). reflexivity.
Qed.

Lemma lookup_remove_other l l' s : l' <> l -> lookup_loc l' (remove_loc l s) = lookup_loc l' s.
Proof.
  intro N. induction s as [|[k v] s IH]; cbn; [reflexivity|].
  destruct (loc_eqb l k) eqn:E.
  - apply loc_eqb_eq in E. subst k. rewrite (loc_eqb_neq _ _ N). exact IH.
  - cbn. rewrite IH. reflexivity.
Qed.

Lemma sread_apply_other en c l : l <> changed_loc c -> sread (apply_change en c) l = sread en l.
Proof.
  intro N. destruct c; try (apply sread_set_other; exact N).
  cbn in N. unfold sread, apply_change. cbn [store in_game].
  rewrite (lookup_remove_other _ _ _ N). reflexivity.
Qed.

Definition rd_eqb (a b : rd) : bool :=
  match a, b with
  | RVal x, RVal y => value_eqb x y
  | RValErr, RValErr | RCrash, RCrash => true
  | _, _ => false
  end.
Lemma rd_eqb_eq a b : rd_eqb a b = true -> a = b.
Proof. destruct a, b; cbn; intro H; try discriminate; try reflexivity. apply value_eqb_eq in H. congruence. Qed.

(* a change is honest when it is announced or leaves what a template reads at that location as it was *)
Definition honest (en : env) (c : change) : bool :=
  announces en c || rd_eqb (sread (apply_change en c) (changed_loc c)) (sread en (changed_loc c)).

Fixpoint honest_run (en : env) (cs : list change) : bool :=
  match cs with
  | [] => true
  | c :: cs' => honest en c && honest_run (apply_change en c) cs'
  end.

Fixpoint hfinal (k : kind) (d : value) (e : expr) (st : env * subscriber) (cs : list change) : env * subscriber :=
  match cs with
  | [] => st
  | c :: cs' => hfinal k d e (fst (hstep k d e st c)) cs'
  end.

Definition outcome_of (k : kind) (d : value) (t : tres) : outcome :=
  match t with
  | TVal VNone | TEvalErr => convert k d
  | TVal v => convert k v
  | TValueErr | TCrash => OAssert
  | TUnsup => OUnsup
  end.

Lemma eas_fst k d en e : fst (evaluate_and_subscribe k d en e) = outcome_of k d (fst (tmpl_eval true en e)).
Proof. unfold evaluate_and_subscribe. destruct (tmpl_eval true en e) as [[v| | | |] s]; try destruct v; reflexivity. Qed.

Lemma eas_snd k d en e r s : tmpl_eval true en e = (r, s) -> tres_ok r = true ->
  snd (evaluate_and_subscribe k d en e) = s.
Proof. unfold evaluate_and_subscribe. intros -> O. destruct r as [v| | | |]; try destruct v; try discriminate; reflexivity. Qed.

Lemma outcome_of_not_ok k d t : tres_ok t = false -> forall v, outcome_of k d t <> OVal v.
Proof. destruct t; cbn; intros H w; try discriminate. Qed.

Definition fresh (k : kind) (d : value) (e : expr) (en : env) (sb : subscriber) : Prop :=
  (exists en0 r, tmpl_eval true en0 e = (r, subs sb) /\ tres_ok r = true /\
                 last sb = outcome_of k d r /\ agree_on (subs sb) en0 en)
  \/ (forall v, last sb <> OVal v).

Lemma agree_refl s en : agree_on s en en.
Proof. split; auto. Qed.

Lemma fresh_subscribe_now k d e en : fresh k d e en (subscribe_now k d en e).
Proof.
  unfold subscribe_now.
  destruct (evaluate_and_subscribe k d en e) as [o s] eqn:E.
  pose proof (eas_fst k d en e) as F. rewrite E in F. cbn [fst] in F.
  destruct (tmpl_eval true en e) as [r s0] eqn:T. cbn [fst] in F.
  destruct (tres_ok r) eqn:O.
  - left. exists en, r. cbn [subs last].
    pose proof (eas_snd k d en e r s0 T O) as Sn. rewrite E in Sn. cbn [snd] in Sn. subst s.
    repeat split; auto.
  - right. cbn [last]. subst o. apply outcome_of_not_ok; assumption.
Qed.

Lemma existsb_loc_in l s : existsb (loc_eqb l) s = false -> ~ In l s.
Proof.
  intros H I. assert (existsb (loc_eqb l) s = true); [|congruence].
  apply existsb_exists. exists l. split; auto. apply loc_eqb_eq. reflexivity.
Qed.

Lemma fresh_step k d e en sb c : fresh k d e en sb -> honest en c = true ->
  fresh k d e (fst (fst (hstep k d e (en, sb) c))) (snd (fst (hstep k d e (en, sb) c))).
Proof.
  intros F Hc. unfold hstep.
  destruct (announces en c && existsb (loc_eqb (changed_loc c)) (subs sb)) eqn:Fire; cbn [fst snd].
  - apply fresh_subscribe_now.
  - destruct F as [[en0 [r [T [O [L [P A]]]]]] | D]; [|right; assumption].
    left. exists en0, r. split; [exact T|]. split; [exact O|]. split; [exact L|].
    split; [rewrite P; destruct c; reflexivity|].
    intros l I. rewrite (A l I).
    destruct (loc_eqb l (changed_loc c)) eqn:E.
    + apply loc_eqb_eq in E. subst l.
      apply andb_false_iff in Fire as [Fa | Fe].
      * unfold honest in Hc. rewrite Fa in Hc. cbn in Hc. apply rd_eqb_eq in Hc. symmetry. exact Hc.
      * exfalso. eapply existsb_loc_in; eauto.
    + symmetry. apply sread_apply_other.
      intro Q. subst l. rewrite (proj2 (loc_eqb_eq _ _) eq_refl) in E. discriminate.
Qed.

Lemma fresh_run k d e : forall cs en sb, fresh k d e en sb -> honest_run en cs = true ->
  fresh k d e (fst (hfinal k d e (en, sb) cs)) (snd (hfinal k d e (en, sb) cs)).
Proof.
  induction cs as [|c cs IH]; intros en sb F H; cbn [hfinal honest_run] in *.
  - exact F.
  - apply andb_true_iff in H as [Hc Hr].
    pose proof (fresh_step k d e en sb c F Hc) as F'.
    destruct (hstep k d e (en, sb) c) as [[en' sb'] fired] eqn:E. cbn [fst snd] in *.
    assert (en' = apply_change en c) as ->.
    { unfold hstep in E. destruct (announces en c && _); inversion E; reflexivity. }
    apply IH; assumption.
Qed.

Lemma no_stale_value_l : forall k d e en cs, honest_run en cs = true ->
  let st := hfinal k d e (en, subscribe_now k d en e) cs in
  (forall v, last (snd st) <> OVal v)                                             (* the loop died with an exception *)
  \/ fst (evaluate_and_subscribe k d (fst st) e) = last (snd st)                 (* delivered value is current *)
  \/ (forall v, fst (evaluate_and_subscribe k d (fst st) e) <> OVal v).          (* evaluating now raises *)
Proof.
  intros k d e en cs H. cbn zeta.
  pose proof (fresh_run k d e cs en _ (fresh_subscribe_now k d e en) H) as F.
  destruct (hfinal k d e (en, subscribe_now k d en e) cs) as [en' sb']. cbn [fst snd] in *.
  destruct F as [[en0 [r [T [O [L A]]]]] | D]; [|left; assumption].
  right. rewrite eas_fst.
  destruct (outcome_determined_by_subscriptions_l e en0 en' r (subs sb') T O A) as [E | E].
  - left. rewrite E. symmetry. exact L.
  - right. apply outcome_of_not_ok. exact E.
Qed.

(* an unannounced change makes the subscriber stale: setting a player variable to None posts no event *)
Definition stale_witness_env := mkEnv [] [] true.
Definition stale_witness_changes := [CSetPlayer [112] (VInt 5); CSetPlayer [112] VNone].
Lemma stale_after_unannounced_change_refuted_l :
  let e := ERead (LPlayer [112]) in
  let st := hfinal KRaw (VInt 77) e (stale_witness_env, subscribe_now KRaw (VInt 77) stale_witness_env e) stale_witness_changes in
  honest_run stale_witness_env stale_witness_changes = false /\
  last (snd st) = OVal (VInt 5) /\ fst (evaluate_and_subscribe KRaw (VInt 77) (fst st) e) = OVal (VInt 77).
Proof. vm_compute. repeat split. Qed.

(* examples: the hypotheses are satisfiable on non-trivial inputs *)
Definition ex_env := mkEnv [([112], VInt 3)] [(LMachine [97], RVal (VInt 4)); (LSetting [115], RVal (VStr [108;111]))] false.
(* (machine.a + p) * 2 if settings.s == "lo" else -machine.b *)
Definition ex_expr :=
  EIf (ECmp CEq (ERead (LSetting [115])) (EStr [108;111]))
      (EBin KMult (EBin KAdd (ERead (LMachine [97])) (EName [112])) (ENum 2))
      (EUn KUSub (ERead (LMachine [98]))).
Lemma ex_supported : supported ex_expr = true. Proof. reflexivity. Qed.
Lemma ex_value : py_eval ex_env ex_expr = PVal (VInt 14). Proof. vm_compute. reflexivity. Qed.
Lemma ex_tmpl : tmpl_eval true ex_env ex_expr = (TVal (VInt 14), [LSetting [115]; LMachine [97]]).
Proof. vm_compute. reflexivity. Qed.
(* -machine.b with b unset: TypeError in Python *)
Lemma ex_type_error : py_eval ex_env (EUn KUSub (ERead (LMachine [98]))) = PTypeErr. Proof. vm_compute. reflexivity. Qed.
Definition ex_changes := [CSetMachine [97] (VInt 5); CSetSetting [115] (VStr [104;105]); CSetMachine [98] (VInt 9);
                          CRemoveMachine [98]; CSetMachine [97] (VInt 5)].
Lemma ex_honest : honest_run ex_env ex_changes = true. Proof. vm_compute. reflexivity. Qed.
Lemma ex_history : hrun KRaw (VInt 77) ex_expr (ex_env, subscribe_now KRaw (VInt 77) ex_env ex_expr) ex_changes
  = [(true, OVal (VInt 16)); (true, OVal (VInt 77)); (true, OVal (VInt (-9))); (true, OVal (VInt 77)); (false, OVal (VInt 77))].
Proof. vm_compute. reflexivity. Qed.

Lemma stale_after_unannounced_change_refuted_ex :
  exists k d e en cs,
    let st := hfinal k d e (en, subscribe_now k d en e) cs in
    honest_run en cs = false /\
    last (snd st) = OVal (VInt 5) /\ fst (evaluate_and_subscribe k d (fst st) e) = OVal (VInt 77).
Proof.
  exists KRaw, (VInt 77), (ERead (LPlayer [112])), stale_witness_env, stale_witness_changes.
  exact stale_after_unannounced_change_refuted_l.
Qed.
