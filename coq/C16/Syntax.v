(* C16/Syntax.v — values, operator keys, the functions of Python's [operator] module that the
   three tables of mpf/core/placeholder_manager.py may name ("prims"), and the reference
   semantics of Python's operators on the value domain None / bool / int / str.

   Floats are NOT in the proved domain: an operation whose Python result is a float
   (true division, ** with a negative exponent) or that is string formatting ('...%d' % x)
   yields [Unsup]; the correspondence run never feeds such cases to the model (they are
   counted) and the float behaviour is covered by the oracle-only suite of harness/props/c16.py.

   Strings are lists of Unicode code points (Python compares strings by code point).
   Definitions only. *)
From Common Require Import Prelude.
Open Scope Z_scope.

Definition str := list Z.

Inductive value := VNone | VBool (b : bool) | VInt (z : Z) | VStr (s : str).

(* result of applying one Python operator *)
Inductive res := Val (v : value) | TypeErr | ZeroDiv | Unsup.

(* ---- AST node classes used as dictionary keys ------------------------------------------- *)
Inductive opkey :=                       (* ast.operator and ast.unaryop *)
  | KAdd | KSub | KMult | KDiv | KFloorDiv | KMod | KPow | KBitXor
  | KBitAnd | KBitOr | KLShift | KRShift | KMatMult
  | KUSub | KNot | KUAdd | KInvert.
Inductive cmpkey := CEq | CNotEq | CLt | CLtE | CGt | CGtE | CIs | CIsNot | CIn | CNotIn.
Inductive boolkey := BAnd | BOr.

(* ---- functions of the [operator] module (values of the dictionaries) --------------------- *)
Inductive prim :=
  | P_add | P_sub | P_mul | P_truediv | P_floordiv | P_mod | P_pow | P_xor | P_and_ | P_or_
  | P_neg | P_not_ | P_pos | P_invert
  | P_eq | P_ne | P_lt | P_le | P_gt | P_ge.
(* lambda a, b: <a|b> and/or <a|b> *)
Inductive bprim := B_and | B_or | B_and_flip | B_or_flip.

(* ---- Python semantics ----------------------------------------------------------------------- *)
Definition b2z (b : bool) : Z := if b then 1 else 0.

Definition as_num (v : value) : option Z :=
  match v with VBool b => Some (b2z b) | VInt z => Some z | _ => None end.

Definition truthy (v : value) : bool :=
  match v with
  | VNone => false
  | VBool b => b
  | VInt z => negb (z =? 0)
  | VStr s => match s with [] => false | _ => true end
  end.

Definition str_repeat (s : str) (n : Z) : str :=
  if n <=? 0 then [] else concat (repeat s (Z.to_nat n)).

Fixpoint str_lt (s t : str) : bool :=
  match s, t with
  | _, [] => false
  | [], _ :: _ => true
  | x :: s', y :: t' => if x <? y then true else if y <? x then false else str_lt s' t'
  end.

Definition py_add (a b : value) : res :=
  match as_num a, as_num b with
  | Some x, Some y => Val (VInt (x + y))
  | _, _ => match a, b with VStr s, VStr t => Val (VStr (s ++ t)) | _, _ => TypeErr end
  end.

Definition py_sub (a b : value) : res :=
  match as_num a, as_num b with Some x, Some y => Val (VInt (x - y)) | _, _ => TypeErr end.

Definition py_mul (a b : value) : res :=
  match as_num a, as_num b with
  | Some x, Some y => Val (VInt (x * y))
  | Some n, None => match b with VStr s => Val (VStr (str_repeat s n)) | _ => TypeErr end
  | None, Some n => match a with VStr s => Val (VStr (str_repeat s n)) | _ => TypeErr end
  | None, None => TypeErr
  end.

(* int / int is a float in Python: outside the modelled domain unless it raises *)
Definition py_truediv (a b : value) : res :=
  match as_num a, as_num b with
  | Some x, Some y => if y =? 0 then ZeroDiv else Unsup
  | _, _ => TypeErr
  end.

(* Coq's Z.div / Z.modulo are floor division and the remainder with the sign of the divisor,
   i.e. Python's // and % on ints *)
Definition py_floordiv (a b : value) : res :=
  match as_num a, as_num b with
  | Some x, Some y => if y =? 0 then ZeroDiv else Val (VInt (x / y))
  | _, _ => TypeErr
  end.

Definition py_mod (a b : value) : res :=
  match a with
  | VStr s => if existsb (Z.eqb 37) s then Unsup else TypeErr   (* 'abc' % x: not all arguments converted *)
  | _ => match as_num a, as_num b with
         | Some x, Some y => if y =? 0 then ZeroDiv else Val (VInt (x mod y))
         | _, _ => TypeErr
         end
  end.

Definition py_pow (a b : value) : res :=
  match as_num a, as_num b with
  | Some x, Some y => if 0 <=? y then Val (VInt (x ^ y))
                      else if x =? 0 then ZeroDiv else Unsup     (* float result *)
  | _, _ => TypeErr
  end.

Definition py_bitop (fb : bool -> bool -> bool) (fz : Z -> Z -> Z) (a b : value) : res :=
  match a, b with
  | VBool x, VBool y => Val (VBool (fb x y))
  | _, _ => match as_num a, as_num b with Some x, Some y => Val (VInt (fz x y)) | _, _ => TypeErr end
  end.
Definition py_xor := py_bitop xorb Z.lxor.
Definition py_and_ := py_bitop andb Z.land.
Definition py_or_ := py_bitop orb Z.lor.

Definition py_neg (a : value) : res := match as_num a with Some x => Val (VInt (- x)) | None => TypeErr end.
Definition py_pos (a : value) : res := match as_num a with Some x => Val (VInt x) | None => TypeErr end.
Definition py_invert (a : value) : res := match as_num a with Some x => Val (VInt (- x - 1)) | None => TypeErr end.
Definition py_not (a : value) : res := Val (VBool (negb (truthy a))).

Definition py_eqb (a b : value) : bool :=
  match as_num a, as_num b with
  | Some x, Some y => x =? y
  | _, _ => match a, b with
            | VNone, VNone => true
            | VStr s, VStr t => zs_eqb s t
            | _, _ => false
            end
  end.
Definition py_eq (a b : value) : res := Val (VBool (py_eqb a b)).
Definition py_ne (a b : value) : res := Val (VBool (negb (py_eqb a b))).

Definition py_order (fz : Z -> Z -> bool) (fs : str -> str -> bool) (a b : value) : res :=
  match as_num a, as_num b with
  | Some x, Some y => Val (VBool (fz x y))
  | _, _ => match a, b with VStr s, VStr t => Val (VBool (fs s t)) | _, _ => TypeErr end
  end.
Definition py_lt := py_order Z.ltb str_lt.
Definition py_le := py_order Z.leb (fun s t => negb (str_lt t s)).
Definition py_gt := py_order Z.gtb (fun s t => str_lt t s).
Definition py_ge := py_order Z.geb (fun s t => negb (str_lt s t)).

Definition py_and (a b : value) : value := if truthy a then b else a.   (* a and b *)
Definition py_or (a b : value) : value := if truthy a then a else b.    (* a or b *)

(* ---- the language's own operators, by AST node class (the REFERENCE) ---------------------------
   Operators outside the supported grammar of the property are [Unsup]. *)
Definition py_binop (o : opkey) (a b : value) : res :=
  match o with
  | KAdd => py_add a b | KSub => py_sub a b | KMult => py_mul a b | KDiv => py_truediv a b
  | KFloorDiv => py_floordiv a b | KMod => py_mod a b | KPow => py_pow a b | KBitXor => py_xor a b
  | _ => Unsup
  end.
Definition py_unop (o : opkey) (a : value) : res :=
  match o with KUSub => py_neg a | KNot => py_not a | _ => Unsup end.
Definition py_cmp (o : cmpkey) (a b : value) : res :=
  match o with
  | CEq => py_eq a b | CNotEq => py_ne a b | CLt => py_lt a b | CLtE => py_le a b
  | CGt => py_gt a b | CGtE => py_ge a b | _ => Unsup
  end.
Definition py_boolop (o : boolkey) (a b : value) : value :=
  match o with BAnd => py_and a b | BOr => py_or a b end.

(* the supported grammar of the property (fixed here, NOT derived from the tables) *)
Definition supported_bin (o : opkey) : bool :=
  match o with KAdd | KSub | KMult | KDiv | KFloorDiv | KMod | KPow | KBitXor => true | _ => false end.
Definition supported_un (o : opkey) : bool := match o with KUSub | KNot => true | _ => false end.
Definition supported_cmp (o : cmpkey) : bool :=
  match o with CEq | CNotEq | CLt | CLtE | CGt | CGtE => true | _ => false end.

(* ---- calling a function of the operator module with two / one positional arguments ----------- *)
Definition prim_call2 (p : prim) (a b : value) : res :=
  match p with
  | P_add => py_add a b | P_sub => py_sub a b | P_mul => py_mul a b | P_truediv => py_truediv a b
  | P_floordiv => py_floordiv a b | P_mod => py_mod a b | P_pow => py_pow a b | P_xor => py_xor a b
  | P_and_ => py_and_ a b | P_or_ => py_or_ a b
  | P_eq => py_eq a b | P_ne => py_ne a b | P_lt => py_lt a b | P_le => py_le a b
  | P_gt => py_gt a b | P_ge => py_ge a b
  | P_neg | P_not_ | P_pos | P_invert => TypeErr          (* takes exactly one argument *)
  end.
Definition prim_call1 (p : prim) (a : value) : res :=
  match p with
  | P_neg => py_neg a | P_not_ => py_not a | P_pos => py_pos a | P_invert => py_invert a
  | _ => TypeErr                                           (* expected 2 arguments, got 1 *)
  end.
Definition bprim_call (p : bprim) (a b : value) : value :=
  match p with
  | B_and => py_and a b | B_or => py_or a b | B_and_flip => py_and b a | B_or_flip => py_or b a
  end.

(* ---- decidable equality used by the correspondence files ---------------------------------------- *)
Definition value_eqb (a b : value) : bool :=
  match a, b with
  | VNone, VNone => true
  | VBool x, VBool y => Bool.eqb x y
  | VInt x, VInt y => x =? y
  | VStr s, VStr t => zs_eqb s t
  | _, _ => false
  end.
Definition res_eqb (a b : res) : bool :=
  match a, b with
  | Val x, Val y => value_eqb x y
  | TypeErr, TypeErr | ZeroDiv, ZeroDiv => true
  | _, _ => false                                          (* Unsup never equals an observation *)
  end.
