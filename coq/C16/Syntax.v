(* C16/Syntax.v — values, operator keys, the functions of Python's [operator] module that the
   three tables of mpf/core/placeholder_manager.py may name ("prims"), and the reference
   semantics of Python's operators on the value domain None / bool / int / float / str / tuple.

   FLOATS are finite IEEE-754 binary64 numbers carried as the exact rational they denote, in lowest
   terms ([VFloat n d] = n/d, -0.0 is 0).  Every float operation is the exact rational operation
   followed by an explicit round-to-nearest-even to 53 significant bits ([rnd53], the definition of
   coq/C12/Base.v copied here), normal range only: a result of magnitude outside [2^-1000, 2^1000)
   (overflow to inf / OverflowError, subnormals), inf and nan are [Unsup].  float ** and int ** negative
   (C pow(), not correctly rounded by specification) and '%' string formatting are [Unsup] as well.
   The correspondence run never feeds an [Unsup] case to the model (counted; the oracle-only part of
   harness/props/c16.py exercises them on the implementation).

   Strings are lists of Unicode code points (Python compares strings by code point).
   Definitions only. *)
From Common Require Import Prelude.
From Coq Require Import QArith Qround Qabs.
Open Scope Z_scope.

Definition str := list Z.

Inductive value :=
  | VNone | VBool (b : bool) | VInt (z : Z) | VStr (s : str)
  | VFloat (n : Z) (d : positive)          (* the finite double n/d, lowest terms *)
  | VTuple (l : list value).

(* result of applying one Python operator *)
Inductive res := Val (v : value) | TypeErr | ZeroDiv | IndexErr | Unsup.

(* ---- AST node classes used as dictionary keys ------------------------------------------- *)
Inductive opkey :=                       (* ast.operator and ast.unaryop *)
  | KAdd | KSub | KMult | KDiv | KFloorDiv | KMod | KPow | KBitXor
  | KBitAnd | KBitOr | KLShift | KRShift | KMatMult
  | KUSub | KNot | KUAdd | KInvert.
Inductive cmpkey := CEq | CNotEq | CLt | CLtE | CGt | CGtE | CIs | CIsNot | CIn | CNotIn.
Inductive boolkey := BAnd | BOr.

(* ast node classes that are keys of BasePlaceholderManager._eval_methods, and the walker methods *)
Inductive nodekey :=
  | NNum | NStr | NNameConstant | NConstant | NBinOp | NUnaryOp | NCompare | NBoolOp | NAttribute
  | NSubscript | NName | NIfExp | NTuple | NList | NDict | NCall | NSet | NLambda | NJoinedStr.
Inductive method :=
  | M_eval_num | M_eval_str | M_eval_constant | M_eval_bin_op | M_eval_unary_op | M_eval_compare
  | M_eval_bool_op | M_eval_attribute | M_eval_subscript | M_eval_name | M_eval_if | M_eval_tuple.
Definition method_eqb (a b : method) : bool :=
  match a, b with
  | M_eval_num, M_eval_num | M_eval_str, M_eval_str | M_eval_constant, M_eval_constant
  | M_eval_bin_op, M_eval_bin_op | M_eval_unary_op, M_eval_unary_op | M_eval_compare, M_eval_compare
  | M_eval_bool_op, M_eval_bool_op | M_eval_attribute, M_eval_attribute
  | M_eval_subscript, M_eval_subscript | M_eval_name, M_eval_name | M_eval_if, M_eval_if
  | M_eval_tuple, M_eval_tuple => true
  | _, _ => false
  end.

(* ---- functions of the [operator] module (values of the dictionaries) --------------------- *)
Inductive prim :=
  | P_add | P_sub | P_mul | P_truediv | P_floordiv | P_mod | P_pow | P_xor | P_and_ | P_or_
  | P_neg | P_not_ | P_pos | P_invert
  | P_eq | P_ne | P_lt | P_le | P_gt | P_ge | P_contains.
(* lambda a, b: <a|b> and/or <a|b> *)
Inductive bprim := B_and | B_or | B_and_flip | B_or_flip.

(* ---- binary64 rounding on exact rationals (copied from coq/C12/Base.v) -------------------------- *)
Definition two_pow (e : Z) : Q :=
  if 0 <=? e then inject_Z (2 ^ e) else Qmake 1 (Z.to_pos (2 ^ (- e))).

Definition round_half_even (q : Q) : Z :=
  let f := Qfloor q in
  match Qcompare (q - inject_Z f)%Q (1 # 2)%Q with
  | Lt => f
  | Gt => f + 1
  | Eq => if Z.even f then f else f + 1
  end.

Definition try_exp (a : Q) (e : Z) : option Q :=
  let x := (a / two_pow e)%Q in
  let m := Qfloor x in
  if (2 ^ 52 <=? m) && (m <? 2 ^ 53)
  then Some (inject_Z (round_half_even x) * two_pow e)%Q
  else None.

Definition rnd53_pos (a : Q) : Q :=
  let e0 := Z.log2 (Qnum a) - Z.log2 (Zpos (Qden a)) - 52 in
  match try_exp a e0 with
  | Some r => r
  | None =>
      match try_exp a (e0 - 1) with
      | Some r => r
      | None => match try_exp a (e0 + 1) with Some r => r | None => a end
      end
  end.

(* IEEE-754 binary64 round-to-nearest-even of an exact rational (normal range) *)
Definition rnd53 (q : Q) : Q :=
  match Qcompare q 0%Q with
  | Eq => 0%Q
  | Gt => rnd53_pos q
  | Lt => (- rnd53_pos (- q))%Q
  end.

Definition in_fl_range (q : Q) : bool :=
  Qle_bool (two_pow (-1000)) (Qabs q) && negb (Qle_bool (two_pow 1000) (Qabs q)).

(* the double nearest to q, as a reduced rational; None outside the normal range *)
Definition fl_round (q : Q) : option Q :=
  if Qeq_bool q 0%Q then Some 0%Q
  else if in_fl_range q then Some (Qred (rnd53 q)) else None.

Definition mkfloat (q : Q) : res :=
  match fl_round q with Some r => Val (VFloat (Qnum r) (Qden r)) | None => Unsup end.

Definition Qtrunc (q : Q) : Z := if Qle_bool 0%Q q then Qfloor q else Qceiling q.
Definition qneg (q : Q) : bool := match Qcompare q 0%Q with Lt => true | _ => false end.
Definition qzero (q : Q) : bool := Qeq_bool q 0%Q.

Definition obind {A B} (o : option A) (f : A -> option B) : option B :=
  match o with Some a => f a | None => None end.

(* C fmod: exact, sign of x *)
Definition qfmod (x y : Q) : Q := Qred (x - inject_Z (Qtrunc (x / y)) * y)%Q.

(* CPython Objects/floatobject.c _float_div_mod (wx <> 0): every C double operation is the exact
   operation followed by fl_round; returns (floordiv, mod) *)
Definition float_divmod (vx wx : Q) : option (Q * Q) :=
  let mod0 := qfmod vx wx in
  obind (fl_round (vx - mod0)%Q) (fun t =>
  obind (fl_round (t / wx)%Q) (fun div0 =>
  obind (if qzero mod0 then Some (0%Q, div0)
         else if xorb (qneg wx) (qneg mod0)
              then obind (fl_round (mod0 + wx)%Q) (fun m =>
                   obind (fl_round (div0 - 1)%Q) (fun d => Some (m, d)))
              else Some (mod0, div0)) (fun md =>
  let '(md, div) := md in
  if qzero div then Some (0%Q, md)
  else let f := inject_Z (Qfloor div) in
       obind (fl_round (div - f)%Q) (fun diff =>
       match Qcompare (1 # 2)%Q diff with
       | Lt => obind (fl_round (f + 1)%Q) (fun f' => Some (f', md))
       | _ => Some (f, md)
       end)))).

(* ---- Python semantics ----------------------------------------------------------------------- *)
Definition b2z (b : bool) : Z := if b then 1 else 0.

Inductive num := NI (z : Z) | NF (q : Q).

Definition as_num (v : value) : option num :=
  match v with
  | VBool b => Some (NI (b2z b))
  | VInt z => Some (NI z)
  | VFloat n d => Some (NF (n # d))
  | _ => None
  end.

Definition num_q (x : num) : Q := match x with NI z => inject_Z z | NF q => q end.   (* exact value *)
Definition num_fl (x : num) : option Q :=                                              (* float(x) *)
  match x with NI z => fl_round (inject_Z z) | NF q => Some q end.

Definition truthy (v : value) : bool :=
  match v with
  | VNone => false
  | VBool b => b
  | VInt z => negb (z =? 0)
  | VStr s => match s with [] => false | _ => true end
  | VFloat n _ => negb (n =? 0)
  | VTuple l => match l with [] => false | _ => true end
  end.

Definition seq_repeat {A} (s : list A) (n : Z) : list A :=
  if n <=? 0 then [] else concat (repeat s (Z.to_nat n)).

(* int op int stays int; anything with a float converts both operands to float and rounds the result *)
Definition arith (fz : Z -> Z -> Z) (fq : Q -> Q -> Q) (a b : value) : option res :=
  match as_num a, as_num b with
  | Some (NI x), Some (NI y) => Some (Val (VInt (fz x y)))
  | Some x, Some y =>
      Some (match num_fl x, num_fl y with
            | Some p, Some q => mkfloat (fq p q)
            | _, _ => Unsup
            end)
  | _, _ => None
  end.

Definition py_add (a b : value) : res :=
  match arith Z.add Qplus a b with
  | Some r => r
  | None => match a, b with
            | VStr s, VStr t => Val (VStr (s ++ t))
            | VTuple l, VTuple m => Val (VTuple (l ++ m))
            | _, _ => TypeErr
            end
  end.

Definition py_sub (a b : value) : res :=
  match arith Z.sub Qminus a b with Some r => r | None => TypeErr end.

Definition seq_times (s : value) (n : num) : res :=
  match n, s with
  | NI k, VStr t => Val (VStr (seq_repeat t k))
  | NI k, VTuple l => Val (VTuple (seq_repeat l k))
  | _, _ => TypeErr
  end.

Definition py_mul (a b : value) : res :=
  match arith Z.mul Qmult a b with
  | Some r => r
  | None => match as_num a, as_num b with
            | Some n, None => seq_times b n
            | None, Some n => seq_times a n
            | _, _ => TypeErr
            end
  end.

(* int / int is the correctly rounded quotient of the exact integers *)
Definition py_truediv (a b : value) : res :=
  match as_num a, as_num b with
  | Some (NI x), Some (NI y) => if y =? 0 then ZeroDiv else mkfloat (inject_Z x / inject_Z y)%Q
  | Some x, Some y =>
      match num_fl x, num_fl y with
      | Some p, Some q => if qzero q then ZeroDiv else mkfloat (p / q)%Q
      | _, _ => Unsup
      end
  | _, _ => TypeErr
  end.

Definition float_dm (pick : Q * Q -> Q) (x y : num) : res :=
  match num_fl x, num_fl y with
  | Some p, Some q =>
      if qzero q then ZeroDiv
      else match float_divmod p q with Some r => mkfloat (pick r) | None => Unsup end
  | _, _ => Unsup
  end.

(* Coq's Z.div / Z.modulo are floor division and the remainder with the sign of the divisor,
   i.e. Python's // and % on ints *)
Definition py_floordiv (a b : value) : res :=
  match as_num a, as_num b with
  | Some (NI x), Some (NI y) => if y =? 0 then ZeroDiv else Val (VInt (x / y))
  | Some x, Some y => float_dm fst x y
  | _, _ => TypeErr
  end.

Definition py_mod (a b : value) : res :=
  match a with
  | VStr s => if existsb (Z.eqb 37) s then Unsup               (* string formatting *)
              else match b with VTuple [] => Val a | _ => TypeErr end   (* 'abc' % x: not all arguments converted, unless x = () *)
  | _ => match as_num a, as_num b with
         | Some (NI x), Some (NI y) => if y =? 0 then ZeroDiv else Val (VInt (x mod y))
         | Some x, Some y => float_dm snd x y
         | _, _ => TypeErr
         end
  end.

Definition py_pow (a b : value) : res :=
  match as_num a, as_num b with
  | Some (NI x), Some (NI y) => if 0 <=? y then Val (VInt (x ^ y))
                                else if x =? 0 then ZeroDiv else Unsup     (* float result *)
  | Some _, Some _ => Unsup                                                (* C pow() *)
  | _, _ => TypeErr
  end.

Definition py_bitop (fb : bool -> bool -> bool) (fz : Z -> Z -> Z) (a b : value) : res :=
  match a, b with
  | VBool x, VBool y => Val (VBool (fb x y))
  | _, _ => match as_num a, as_num b with
            | Some (NI x), Some (NI y) => Val (VInt (fz x y))
            | _, _ => TypeErr
            end
  end.
Definition py_xor := py_bitop xorb Z.lxor.
Definition py_and_ := py_bitop andb Z.land.
Definition py_or_ := py_bitop orb Z.lor.

Definition py_neg (a : value) : res :=
  match a with
  | VFloat n d => Val (VFloat (- n) d)
  | _ => match as_num a with Some (NI x) => Val (VInt (- x)) | _ => TypeErr end
  end.
Definition py_pos (a : value) : res :=
  match a with
  | VFloat n d => Val a
  | _ => match as_num a with Some (NI x) => Val (VInt x) | _ => TypeErr end
  end.
Definition py_invert (a : value) : res :=
  match as_num a with Some (NI x) => Val (VInt (- x - 1)) | _ => TypeErr end.
Definition py_not (a : value) : res := Val (VBool (negb (truthy a))).

(* == : numbers by exact value (an int and a float are compared without rounding), tuples elementwise *)
Fixpoint py_eqb (a b : value) {struct a} : bool :=
  match as_num a, as_num b with
  | Some x, Some y => Qeq_bool (num_q x) (num_q y)
  | _, _ =>
      match a, b with
      | VNone, VNone => true
      | VStr s, VStr t => zs_eqb s t
      | VTuple l, VTuple m =>
          (fix go (l m : list value) : bool :=
             match l, m with
             | [], [] => true
             | x :: l', y :: m' => py_eqb x y && go l' m'
             | _, _ => false
             end) l m
      | _, _ => false
      end
  end.
Definition py_eq (a b : value) : res := Val (VBool (py_eqb a b)).
Definition py_ne (a b : value) : res := Val (VBool (negb (py_eqb a b))).

Fixpoint str_compare (s t : str) : comparison :=
  match s, t with
  | [], [] => Eq
  | [], _ :: _ => Lt
  | _ :: _, [] => Gt
  | x :: s', y :: t' => match x ?= y with Eq => str_compare s' t' | c => c end
  end.

(* three-way comparison; None = TypeError.  Tuples: the first pair of elements that are not ==
   decides (and may raise), otherwise the lengths (CPython tuplerichcompare). *)
Fixpoint py_compare (a b : value) {struct a} : option comparison :=
  match as_num a, as_num b with
  | Some x, Some y => Some (Qcompare (num_q x) (num_q y))
  | _, _ =>
      match a, b with
      | VStr s, VStr t => Some (str_compare s t)
      | VTuple l, VTuple m =>
          (fix go (l m : list value) : option comparison :=
             match l, m with
             | [], [] => Some Eq
             | [], _ :: _ => Some Lt
             | _ :: _, [] => Some Gt
             | x :: l', y :: m' => if py_eqb x y then go l' m' else py_compare x y
             end) l m
      | _, _ => None
      end
  end.

Definition py_order (ok : comparison -> bool) (a b : value) : res :=
  match py_compare a b with Some c => Val (VBool (ok c)) | None => TypeErr end.
Definition py_lt := py_order (fun c => match c with Lt => true | _ => false end).
Definition py_le := py_order (fun c => match c with Gt => false | _ => true end).
Definition py_gt := py_order (fun c => match c with Gt => true | _ => false end).
Definition py_ge := py_order (fun c => match c with Lt => false | _ => true end).

Definition py_and (a b : value) : value := if truthy a then b else a.   (* a and b *)
Definition py_or (a b : value) : value := if truthy a then a else b.    (* a or b *)

(* a[i] on str / tuple with an int (or bool) index; negative indices count from the end *)
Definition norm_index (i len : Z) : option Z :=
  let j := if i <? 0 then i + len else i in
  if (0 <=? j) && (j <? len) then Some j else None.

Definition py_getitem (a i : value) : res :=
  match a with
  | VStr s =>
      match as_num i with
      | Some (NI k) => match norm_index k (Z.of_nat (length s)) with
                       | Some j => Val (VStr [nth (Z.to_nat j) s 0])
                       | None => IndexErr
                       end
      | _ => TypeErr
      end
  | VTuple l =>
      match as_num i with
      | Some (NI k) => match norm_index k (Z.of_nat (length l)) with
                       | Some j => Val (nth (Z.to_nat j) l VNone)
                       | None => IndexErr
                       end
      | _ => TypeErr
      end
  | _ => TypeErr
  end.

(* a in b *)
Fixpoint zs_infix (s t : str) : bool :=
  zs_prefixb s t || match t with [] => false | _ :: t' => zs_infix s t' end.
Definition py_in (a b : value) : res :=
  match b with
  | VTuple l => Val (VBool (existsb (py_eqb a) l))
  | VStr t => match a with VStr s => Val (VBool (zs_infix s t)) | _ => TypeErr end
  | _ => TypeErr
  end.
Definition py_not_in (a b : value) : res :=
  match py_in a b with Val (VBool r) => Val (VBool (negb r)) | r => r end.

(* ---- the language's own operators, by AST node class (the REFERENCE) ---------------------------
   Operators outside the supported grammar of the property are [Unsup], except in / not in, whose
   Python meaning is given although the code does not support them (see [supported_cmp]). *)
Definition py_binop (o : opkey) (a b : value) : res :=
  match o with
  | KAdd => py_add a b | KSub => py_sub a b | KMult => py_mul a b | KDiv => py_truediv a b
  | KFloorDiv => py_floordiv a b | KMod => py_mod a b | KPow => py_pow a b | KBitXor => py_xor a b
  | _ => Unsup
  end.
Definition py_unop (o : opkey) (a : value) : res :=
  match o with KUSub => py_neg a | KNot => py_not a | _ => Unsup end.
Definition py_cmp (o : cmpkey) (a b : value) : res :=
  match o with
  | CEq => py_eq a b | CNotEq => py_ne a b | CLt => py_lt a b | CLtE => py_le a b
  | CGt => py_gt a b | CGtE => py_ge a b
  | CIn => py_in a b | CNotIn => py_not_in a b
  | _ => Unsup
  end.
Definition py_boolop (o : boolkey) (a b : value) : value :=
  match o with BAnd => py_and a b | BOr => py_or a b end.

(* the supported grammar of the property (fixed here, NOT derived from the tables) *)
Definition supported_bin (o : opkey) : bool :=
  match o with KAdd | KSub | KMult | KDiv | KFloorDiv | KMod | KPow | KBitXor => true | _ => false end.
Definition supported_un (o : opkey) : bool := match o with KUSub | KNot => true | _ => false end.
Definition supported_cmp (o : cmpkey) : bool :=
  match o with CEq | CNotEq | CLt | CLtE | CGt | CGtE => true | _ => false end.

(* ---- calling a function of the operator module with two / one positional arguments ----------- *)
Definition prim_call2 (p : prim) (a b : value) : res :=
  match p with
  | P_add => py_add a b | P_sub => py_sub a b | P_mul => py_mul a b | P_truediv => py_truediv a b
  | P_floordiv => py_floordiv a b | P_mod => py_mod a b | P_pow => py_pow a b | P_xor => py_xor a b
  | P_and_ => py_and_ a b | P_or_ => py_or_ a b
  | P_eq => py_eq a b | P_ne => py_ne a b | P_lt => py_lt a b | P_le => py_le a b
  | P_gt => py_gt a b | P_ge => py_ge a b
  | P_contains => py_in b a                                 (* operator.contains(a, b) is  b in a *)
  | P_neg | P_not_ | P_pos | P_invert => TypeErr          (* takes exactly one argument *)
  end.
Definition prim_call1 (p : prim) (a : value) : res :=
  match p with
  | P_neg => py_neg a | P_not_ => py_not a | P_pos => py_pos a | P_invert => py_invert a
  | _ => TypeErr                                           (* expected 2 arguments, got 1 *)
  end.
Definition bprim_call (p : bprim) (a b : value) : value :=
  match p with
  | B_and => py_and a b | B_or => py_or a b | B_and_flip => py_and b a | B_or_flip => py_or b a
  end.

(* ---- decidable (structural) equality used by the correspondence files --------------------------- *)
Fixpoint value_eqb (a b : value) {struct a} : bool :=
  match a, b with
  | VNone, VNone => true
  | VBool x, VBool y => Bool.eqb x y
  | VInt x, VInt y => x =? y
  | VStr s, VStr t => zs_eqb s t
  | VFloat n d, VFloat n' d' => (n =? n') && (Pos.eqb d d')
  | VTuple l, VTuple m =>
      (fix go (l m : list value) : bool :=
         match l, m with
         | [], [] => true
         | x :: l', y :: m' => value_eqb x y && go l' m'
         | _, _ => false
         end) l m
  | _, _ => false
  end.
Definition res_eqb (a b : res) : bool :=
  match a, b with
  | Val x, Val y => value_eqb x y
  | TypeErr, TypeErr | ZeroDiv, ZeroDiv | IndexErr, IndexErr => true
  | _, _ => false                                          (* Unsup never equals an observation *)
  end.
