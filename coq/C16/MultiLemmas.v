(* C16/MultiLemmas.v — proofs about several concurrently living condition-driven entries (Multi.v). *)
From Common Require Import Prelude.
From C16 Require Import Model Lemmas Multi.
Open Scope Z_scope.

Lemma flat_map_map {A B C} (f : A -> B) (g : B -> list C) l : flat_map g (map f l) = flat_map (fun x => g (f x)) l.
Proof. induction l as [|x l IH]; cbn; [reflexivity|]. rewrite IH. reflexivity. Qed.

(* ---- the entries do not interact ------------------------------------------------------------------ *)
Lemma mfinal_split k d : forall ss en ms,
  fst (mfinal k d (en, ms) ss) = fst (mfinal k d (en, []) ss) /\
  snd (mfinal k d (en, ms) ss) = flat_map (fun m => snd (mfinal k d (en, [m]) ss)) ms.
Proof.
  induction ss as [|s r IH]; intros en ms; cbn [mfinal].
  - cbn [fst snd]. split; [reflexivity|]. induction ms as [|m ms IHm]; cbn; [reflexivity|]. f_equal. exact IHm.
  - unfold mstep_all. cbn [fst snd map].
    destruct (IH (menv_step en s) (map (fun m => fst (msub_step k d en s m)) ms)) as [E1 E2].
    split; [exact E1|]. rewrite E2. rewrite flat_map_map. reflexivity.
Qed.

Lemma entries_independent_l k d ss en ms1 m ms2 :
  snd (mfinal k d (en, ms1 ++ m :: ms2) ss) =
  snd (mfinal k d (en, ms1) ss) ++ snd (mfinal k d (en, [m]) ss) ++ snd (mfinal k d (en, ms2) ss).
Proof.
  rewrite (proj2 (mfinal_split k d ss en (ms1 ++ m :: ms2))).
  rewrite (proj2 (mfinal_split k d ss en ms1)), (proj2 (mfinal_split k d ss en ms2)).
  rewrite flat_map_app. cbn [flat_map]. reflexivity.
Qed.

(* a lone entry: steps that name only other entries leave it alone *)
Lemma other_ids_ignored k d en ids m : mem_z (ms_id m) ids = false ->
  msub_step k d en (MStart ids) m = (m, false) /\ msub_step k d en (MCancel ids) m = (m, false).
Proof. intro N. cbn [msub_step]. rewrite N. split; reflexivity. Qed.

(* ---- no living entry holds a stale value ---------------------------------------------------------- *)
Fixpoint mhonest (en : env) (ss : list mstep) : bool :=
  match ss with
  | [] => true
  | MChange c :: r => honest en c && mhonest (apply_change en c) r
  | _ :: r => mhonest en r
  end.

Definition minv (k : kind) (d : value) (en : env) (ms : list msub) : Prop :=
  forall m, In m ms -> ms_alive m = true -> fresh k d (ms_expr m) en (ms_sub m).

Lemma msub_step_expr k d en s m : ms_expr (fst (msub_step k d en s m)) = ms_expr m.
Proof.
  destruct s; cbn [msub_step].
  - destruct (ms_alive m); [|reflexivity].
    destruct (hstep k d (ms_expr m) (en, ms_sub m) c) as [[e' sb'] f]. reflexivity.
  - destruct (mem_z (ms_id m) ids); reflexivity.
  - destruct (mem_z (ms_id m) ids); reflexivity.
Qed.

Lemma minv_step k d en ms s : minv k d en ms ->
  match s with MChange c => honest en c = true | _ => True end ->
  minv k d (menv_step en s) (map (fun m => fst (msub_step k d en s m)) ms).
Proof.
  intros I H m' Im A. apply in_map_iff in Im as [m [E Im]]. subst m'.
  destruct s as [c|ids|ids]; cbn [msub_step menv_step] in *.
  - destruct (ms_alive m) eqn:Al.
    + pose proof (fresh_step announced k d (ms_expr m) en (ms_sub m) c (I m Im Al) H) as F.
      pose proof (hstep_env announced k d (ms_expr m) en (ms_sub m) c) as Ee.
      unfold hstep. destruct (hstep_gen announced k d (ms_expr m) (en, ms_sub m) c) as [[e' sb'] f].
      cbn [fst snd ms_expr ms_sub] in *. subst e'. exact F.
    + cbn [fst] in A. congruence.
  - destruct (mem_z (ms_id m) ids).
    + cbn [fst ms_expr ms_sub]. apply fresh_subscribe_now.
    + cbn [fst] in *. apply I; assumption.
  - destruct (mem_z (ms_id m) ids).
    + cbn [fst ms_alive] in A. discriminate.
    + cbn [fst] in *. apply I; assumption.
Qed.

Lemma minv_run k d : forall ss en ms, minv k d en ms -> mhonest en ss = true ->
  minv k d (fst (mfinal k d (en, ms) ss)) (snd (mfinal k d (en, ms) ss)).
Proof.
  induction ss as [|s r IH]; intros en ms I H; cbn [mfinal]; [exact I|].
  unfold mstep_all. cbn [fst snd]. apply IH.
  - apply minv_step; [exact I|]. destruct s; cbn [mhonest] in H; auto. apply andb_true_iff in H. tauto.
  - destruct s; cbn [mhonest menv_step] in *; auto. apply andb_true_iff in H. tauto.
Qed.

Lemma fresh_not_stale k d e en sb : supported e = true -> fresh k d e en sb ->
  (forall v, last sb <> OVal v)
  \/ fst (evaluate_and_subscribe k d en e) = last sb
  \/ (forall v, fst (evaluate_and_subscribe k d en e) <> OVal v).
Proof.
  intros S [[en0 [r [T [O [L A]]]]] | D]; [|left; assumption].
  right. rewrite eas_fst.
  destruct (outcome_determined_by_subscriptions_l e en0 en r (subs sb) S T O A) as [E | E].
  - left. rewrite E. symmetry. exact L.
  - right. apply outcome_of_not_ok. exact E.
Qed.

Lemma mfinal_exprs k d : forall ss en ms,
  map ms_expr (snd (mfinal k d (en, ms) ss)) = map ms_expr ms.
Proof.
  induction ss as [|s r IH]; intros en ms; cbn [mfinal]; [reflexivity|].
  unfold mstep_all. cbn [fst snd]. rewrite IH. rewrite map_map.
  apply map_ext. intro m. apply msub_step_expr.
Qed.

Lemma no_stale_entries_l k d ss en ms :
  forallb (fun m => supported (ms_expr m)) ms = true ->
  forallb (fun m => negb (ms_alive m)) ms = true ->
  mhonest en ss = true ->
  let st := mfinal k d (en, ms) ss in
  forall m, In m (snd st) -> ms_alive m = true ->
    (forall v, last (ms_sub m) <> OVal v)
    \/ fst (evaluate_and_subscribe k d (fst st) (ms_expr m)) = last (ms_sub m)
    \/ (forall v, fst (evaluate_and_subscribe k d (fst st) (ms_expr m)) <> OVal v).
Proof.
  intros S D H st m Im Al.
  assert (minv k d en ms) as I0.
  { intros m0 I0 A0. rewrite forallb_forall in D. specialize (D m0 I0). rewrite A0 in D. discriminate. }
  pose proof (minv_run k d ss en ms I0 H) as I.
  apply fresh_not_stale; [|apply I; assumption].
  assert (In (ms_expr m) (map ms_expr (snd st))) as Ie by (apply in_map; exact Im).
  unfold st in Ie. rewrite mfinal_exprs in Ie. apply in_map_iff in Ie as [m0 [E I0']].
  rewrite forallb_forall in S. rewrite <- E. apply S. exact I0'.
Qed.

(* stores and written values that are ints or strings: every change is honest, no guard on the history *)
Fixpoint mplain (ss : list mstep) : bool :=
  match ss with
  | [] => true
  | MChange c :: r => plain_change c && mplain r
  | _ :: r => mplain r
  end.

Lemma mplain_honest : forall ss en, plain_store en = true -> mplain ss = true -> mhonest en ss = true.
Proof.
  induction ss as [|s r IH]; intros en P M; [reflexivity|].
  destruct s as [c|ids|ids]; cbn [mplain mhonest] in *; try (apply IH; assumption).
  apply andb_true_iff in M as [Mc Mr]. apply andb_true_iff. split.
  - apply plain_honest; assumption.
  - apply IH; [apply plain_preserved; assumption|exact Mr].
Qed.

Lemma no_stale_entries_plain_l k d ss en ms :
  forallb (fun m => supported (ms_expr m)) ms = true ->
  forallb (fun m => negb (ms_alive m)) ms = true ->
  plain_store en = true -> mplain ss = true ->
  let st := mfinal k d (en, ms) ss in
  forall m, In m (snd st) -> ms_alive m = true ->
    (forall v, last (ms_sub m) <> OVal v)
    \/ fst (evaluate_and_subscribe k d (fst st) (ms_expr m)) = last (ms_sub m)
    \/ (forall v, fst (evaluate_and_subscribe k d (fst st) (ms_expr m)) <> OVal v).
Proof. intros S D P M. apply no_stale_entries_l; auto. apply mplain_honest; assumption. Qed.

(* ---- satisfiability ------------------------------------------------------------------------------- *)
Definition mx_env := mkEnv [] [(LDevice [99] [100] [118], RVal (VInt 0))] 0 None.
Definition mx_read := ERead (RCell (LDevice [99] [100] [118])).
Definition mx_entries := [(0, ECmp CGtE mx_read (ENum 2)); (1, ECmp CGtE mx_read (ENum 1))].
Definition mx_steps := [MStart [0]; MStart [1]; MChange (CSetDevice [99] [100] [118] (VInt 1)); MCancel [1];
                        MChange (CSetDevice [99] [100] [118] (VInt 2))].
Lemma ex_multi :
  multi_run (mx_env, mx_entries, mx_steps)
  = [[(0, Some (true, OVal (VBool false))); (1, None)];
     [(0, Some (false, OVal (VBool false))); (1, Some (true, OVal (VBool false)))];
     [(0, Some (true, OVal (VBool false))); (1, Some (true, OVal (VBool true)))];
     [(0, Some (false, OVal (VBool false))); (1, None)];
     [(0, Some (true, OVal (VBool true))); (1, None)]]
  /\ mplain mx_steps = true /\ plain_store mx_env = true.
Proof. vm_compute. repeat split; reflexivity. Qed.
