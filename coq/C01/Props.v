(* C01/Props.v — property theorems only.  Each is closed by [exact] of a lemma from Lemmas.v and
   followed by Print Assumptions (parsed by the check: must be "Closed under the global context").

   Property C01 (properties.jsonl):
     (a) every event posted to the bus is delivered exactly once to each handler that is registered for it
         when its dispatch begins (and whose condition holds), in descending priority order, handler kwargs
         overriding posted ones; handlers of different events never nest or interleave;
     (b) events posted while an event is handled are dispatched after that event's remaining handlers and
         before any event that was already waiting;
     (c) an event's completion callback runs exactly once, only after its handlers and everything they
         transitively posted have been dispatched.

   All theorems hold for every script (handler programs are data), every state and both settings of [fast].
   [fast = true] is the code (events.py _post has a fast path that drops a post that has neither a callback
   nor a registered handler at post time).  "Every posted event" in (a) is therefore FALSE of the faithful
   model in one recorded class (fastpath_drop_refuted: known finding fastpath-drop-late-registration,
   reproduced on the implementation on every run); the positive statement is proved for every QUEUED post
   (every_queued_event_dispatched_once_partial) together with the exact condition under which a post is
   queued (post_enqueues_iff).

   Theorems about complete runs carry the guard [oof = false] ("the run did not stop on fuel"); the
   correspondence run checks that guard on every generated case (FUEL = 4000).  A closed-form fuel bound
   (DESIGN.md fuel_sufficient) is not proved (NOTES.md says why); dfs_fuel_monotone is what the other proofs need.

   Round 2: programs may call DelayManager.add/reset/remove/run_now and SwitchController.process_switch from inside a
   handler (inline_calls_never_dispatch), expiring delays are contexts (every_context_is_drained), posted _min_priority
   with blocking facilities (in handlers_once_in_priority_order and the min_priority theorems), remove_handler_by_event /
   remove_all_handlers_for_event (covered by the registry invariant and the snapshot theorems), queue events
   (the queue_ theorems). *)
From Common Require Import Prelude.
From Coq Require Import Sorting.Sorted Sorting.Permutation.
From C01 Require Import Model Lemmas.
Open Scope Z_scope.

(* ---- (a) handlers of one dispatch -------------------------------------------------------------- *)

(* One dispatch of a plain event in a reachable state: the handler invocations it adds are exactly the handlers
   registered when it begins (the snapshot: handlers added during the dispatch are not called, handlers
   removed during it still are), minus the handlers with a blocking facility whose priority is below the posted
   _min_priority, filtered by their condition on the merged kwargs, in list order; that list is strictly sorted by
   (priority descending, registration order) and has no duplicates.  The only other observations of the dispatch
   are callbacks that a handler runs inline (run_now, process_switch).
   [script_plain sc]: no handler returns {'_min_priority': ...} (then the kwargs of a plain event are the posted ones
   for the whole dispatch).  For every script and every event type see dispatch_calls_subsequence_of_snapshot. *)
Theorem handlers_once_in_priority_order :
  forall fast sc p s, script_plain sc = true -> reg_ok s -> q_ty p = TNone ->
    let snap := snapshot (q_ev p) s in
    (exists o, out (process fast sc p s) = out s ++ o /\ Forall (is_invoke (q_ev p)) o /\
               invokes o = expected_invocations (q_ev p) (q_kw p) snap) /\
    sorted_ps snap /\ NoDup snap.
Proof. exact handlers_once_l. Qed.
Print Assumptions handlers_once_in_priority_order.

Example handlers_once_hypotheses_satisfiable :
  reg_ok ex_state /\ q_ty ex_post = TNone /\ map h_key (snapshot (q_ev ex_post) ex_state) = [3; 1].
Proof. exact ex_handlers_hyp. Qed.
Print Assumptions handlers_once_hypotheses_satisfiable.

Example handlers_once_script_plain_satisfiable : script_plain ex_script = true /\ script_plain mp_script = true.
Proof. split; reflexivity. Qed.
Print Assumptions handlers_once_script_plain_satisfiable.

(* EVERY event type (plain, boolean with abort, relay, queue) and EVERY script (also handlers that return
   _min_priority): the handlers called in one dispatch are a subsequence of the snapshot taken when it begins - each at
   most once, in list order, i.e. (with registry_sorted_invariant) in descending priority *)
Theorem dispatch_calls_subsequence_of_snapshot :
  forall fast sc p s,
    exists o called, out (process fast sc p s) = out s ++ o /\
                     sublist called (snapshot (q_ev p) s) /\ map okey (invokes o) = map h_key called.
Proof. exact process_sub. Qed.
Print Assumptions dispatch_calls_subsequence_of_snapshot.

(* [reg_ok] (every handler list strictly sorted, sequence numbers below the counter) is an invariant *)
Theorem registry_sorted_invariant :
  forall fast sc f turns, reg_ok (run_turns fast sc f turns init).
Proof. exact registry_sorted_invariant_l. Qed.
Print Assumptions registry_sorted_invariant.

Theorem registry_sorted_preserved_by_dispatch :
  forall fast sc f pending s, reg_ok s -> reg_ok (dfs fast sc f pending s).
Proof. exact dfs_ok. Qed.
Print Assumptions registry_sorted_preserved_by_dispatch.

(* add_handler (append, then list.sort(key=priority, reverse=True)) = stable insertion: the new handler
   goes behind every handler of greater or equal priority and before the first one of smaller priority *)
Theorem add_handler_is_stable_insert :
  forall key e pid prio hk c bf s, reg_ok s ->
    let h := mkH key pid prio (kw_norm hk) c bf (nseq s) in
    exists a b, snapshot e s = a ++ b /\
                snapshot e (add_handler key e pid prio hk c bf s) = a ++ h :: b /\
                Forall (fun x => h_prio h <= h_prio x) a /\
                match b with [] => True | y :: _ => h_prio y < h_prio h end.
Proof. exact add_handler_is_stable_insert_l. Qed.

Example add_handler_hypotheses_satisfiable :
  reg_ok ex_state /\ map h_key (snapshot 1 ex_state) = [3; 1] /\
  map h_key (snapshot 1 (add_handler 9 1 1 2 [] None 0 ex_state)) = [3; 9; 1].
Proof. exact ex_add_hyp. Qed.
Print Assumptions add_handler_hypotheses_satisfiable.
Print Assumptions add_handler_is_stable_insert.

(* remove_handler(method): whatever the registry was, afterwards no registration of that procedure is left in any
   event (also when the same procedure was registered several times, adjacent in one list), and no event is left
   with an empty list *)
Theorem remove_by_method_leaves_no_registration :
  forall pid s e l, In (e, l) (reg (remove_by_method pid s)) ->
    Forall (fun h => h_pid h <> pid) l /\ l <> [].
Proof. exact remove_by_method_complete. Qed.
Print Assumptions remove_by_method_leaves_no_registration.

Theorem remove_by_method_snapshot_clean :
  forall pid s e l, reg_get e (reg (remove_by_method pid s)) = Some l ->
    Forall (fun h => h_pid h <> pid) l /\ l <> [].
Proof. exact remove_by_method_snapshot. Qed.
Print Assumptions remove_by_method_snapshot_clean.

Example remove_by_method_on_repeated_registrations :
  map h_key (snapshot 1 rm_state) = [1; 2; 3; 4] /\
  map h_key (snapshot 1 (remove_by_method 7 rm_state)) = [4] /\
  reg_get 2 (reg (remove_by_method 7 rm_state)) = None.
Proof. exact ex_remove_method. Qed.
Print Assumptions remove_by_method_on_repeated_registrations.

(* any event type: during a dispatch only handlers of that event run, and callbacks they run inline (serial: no
   nesting of dispatches, no interleaving); for a queue event nothing runs inside process_event_queue *)
Theorem dispatch_is_one_segment :
  forall fast sc p s, exists o, out (process fast sc p s) = out s ++ o /\ Forall (is_invoke (q_ev p)) o.
Proof. exact dispatch_is_segment_l. Qed.
Print Assumptions dispatch_is_one_segment.

(* ---- the queue stack --------------------------------------------------------------------------- *)

(* the invariant "an empty deque has only empty deques below it" is kept by one iteration of the inner loop
   (pop when the current deque ran empty; push when the event posted) ... *)
Theorem stack_invariant_preserved :
  forall rest stack (new : list posted), stack_ok stack ->
    let '(n1, s1) := pop_if_empty rest stack in
    n1 ++ concat s1 = rest ++ concat stack /\ stack_ok (n1 :: s1) /\
    (new <> [] -> stack_ok (new :: n1 :: s1)).
Proof. exact stack_invariant_preserved_l. Qed.
Print Assumptions stack_invariant_preserved.

(* ... and the literal loop equals the specification "one pending list, new posts in front"; when the loop
   exits (not on fuel) every stacked deque is empty: no queued event is lost *)
Theorem no_event_lost :
  forall fast sc f next stack s, stack_ok (next :: stack) ->
    fst (inner fast sc f next stack s) = dfs fast sc f (next ++ concat stack) s /\
    (oof (fst (inner fast sc f next stack s)) = false -> all_nil (snd (inner fast sc f next stack s))).
Proof. exact inner_dfs. Qed.
Print Assumptions no_event_lost.

Example no_event_lost_hypotheses_satisfiable :
  stack_ok ([ex_post] :: [[ex_post; ex_post]; []; []]) /\
  oof (fst (inner true ex_script 50 [ex_post] [[ex_post; ex_post]; []; []] ex_state)) = false.
Proof. exact ex_stack_hyp. Qed.
Print Assumptions no_event_lost_hypotheses_satisfiable.

(* process_event_queue as a whole = "dispatch everything (transitively), then ONE callback, repeat" *)
Theorem dispatch_refines_dfs :
  forall fast sc f stack s, all_nil stack -> outer fast sc f stack s = drain fast sc f s.
Proof. exact outer_drain. Qed.
Print Assumptions dispatch_refines_dfs.

(* ---- (b) order of dispatch ----------------------------------------------------------------------- *)

(* dispatching p with [waiting] behind it = all handlers of p (process), then everything p posted and,
   transitively, everything that posts (the inner dfs), and only then the events that were waiting *)
Theorem posts_before_waiting :
  forall fast sc f p waiting s,
    oof (dfs fast sc (S f) (p :: waiting) s) = false ->
    let s1 := process fast sc p s in
    dfs fast sc (S f) (p :: waiting) s =
      dfs fast sc f waiting (dfs fast sc f (evq s1) (set_evq [] s1)) /\
    oof (dfs fast sc f (evq s1) (set_evq [] s1)) = false.
Proof. exact posts_before_waiting_l. Qed.
Print Assumptions posts_before_waiting.

Example posts_before_waiting_hypotheses_satisfiable :
  let s := fst (invoke true ex_script 10 (emit (Ctx 10) init)) in
  match evq s with
  | p :: waiting => waiting <> [] /\ oof (dfs true ex_script 50 (p :: waiting) (set_evq [] s)) = false /\
                    evq (process true ex_script p (set_evq [] s)) <> []
  | [] => False
  end.
Proof. exact ex_waiting_hyp. Qed.
Print Assumptions posts_before_waiting_hypotheses_satisfiable.

Theorem dfs_fuel_monotone :
  forall fast sc f pending s, oof (dfs fast sc f pending s) = false ->
    forall f', (f <= f')%nat -> dfs fast sc f' pending s = dfs fast sc f pending s.
Proof. exact dfs_mono. Qed.
Print Assumptions dfs_fuel_monotone.

(* ---- (c) completion callbacks -------------------------------------------------------------------- *)

(* while pending events (and everything they post) are dispatched no callback runs, and queued callbacks
   stay queued *)
Theorem no_callback_during_dispatch :
  forall fast sc f pending s,
    exists o l, out (dfs fast sc f pending s) = out s ++ o /\ cbids o = [] /\
                cbq (dfs fast sc f pending s) = l ++ cbq s.
Proof. exact dfs_only_invokes. Qed.
Print Assumptions no_callback_during_dispatch.

(* after p and everything p transitively posted has been dispatched, p's callback is still waiting;
   by dispatch_refines_dfs it is popped only when a whole dfs has finished *)
Theorem callback_after_closure :
  forall fast sc f p cb s, q_cb p = Some cb -> q_ty p <> TQueue ->
    exists k l o, cbq (dfs fast sc (S f) [p] s) = l ++ (q_id p, cb, k) :: cbq s /\
                  out (dfs fast sc (S f) [p] s) = out s ++ o /\ cbids o = [].
Proof. exact callback_after_closure_l. Qed.
Print Assumptions callback_after_closure.

(* Whole runs (any number of posting contexts).  Full statement of (a)/(c) "every POSTED event ...": false, see
   fastpath_drop_refuted.  Proved: every QUEUED post is dispatched exactly once (disp is a permutation of enq),
   every callback that was queued ran exactly once (the Callback observations are a permutation of pushed), and
   both queues are empty at the end.  Missing w.r.t. the full statement: posts taken by _post's fast path. *)
Theorem every_queued_event_dispatched_once_partial :
  forall fast sc f turns,
    let s := run_turns fast sc f turns init in
    oof s = false ->
    Permutation (disp s) (enq s) /\ Permutation (cbids (out s)) (pushed s) /\ evq s = [] /\ cbq s = [].
Proof. exact every_event_once_l. Qed.
Print Assumptions every_queued_event_dispatched_once_partial.

Example run_completes_on_posting_tree :
  let s := run_turns true ex_script 50 [TRun 10] init in
  oof s = false /\
  out s = [Quiet 0 0; Ctx 10;
           Invoke 3 3 1 [(1, VZ 1)]; Invoke 1 1 1 [(1, VZ 1)]; Invoke 2 2 1 [(1, VZ 7)];
           Invoke 4 4 2 [];
           Invoke 5 5 3 [(2, VB true)];
           Invoke 5 5 3 [];
           Callback 0 20 [(1, VZ 1)]] /\ evq s = [] /\ cbq s = [].
Proof. exact ex_run. Qed.
Print Assumptions run_completes_on_posting_tree.

(* a post is queued unless it has no callback and no handler is registered for the event at post time *)
Theorem post_is_queued_iff :
  forall fast e ty cb k s,
    enq (post fast e ty cb k s) = enq s ++ [npost s] <->
    ~ (fast = true /\ cb = None /\ reg_get e (reg s) = None).
Proof. exact post_enqueues_iff. Qed.
Print Assumptions post_is_queued_iff.

(* the recorded finding: post(e) followed by add_handler(e, h) in one context; when the queue is drained h is
   registered, yet it is never called (fast = true, the code); without the fast path it is *)
Theorem fastpath_drop_refuted :
  let s := run_turns true fp_script 10 [TRun 1] init in
  let s' := run_turns false fp_script 10 [TRun 1] init in
  oof s = false /\ oof s' = false /\
  map h_key (snapshot 1 s) = [1] /\
  In (Invoke 1 2 1 []) (out s') /\ ~ In (Invoke 1 2 1 []) (out s).
Proof. exact fastpath_drop_refuted_l. Qed.
Print Assumptions fastpath_drop_refuted.

(* ---- round 2 -------------------------------------------------------------------------------------- *)

(* Calls into the other anchored APIs from inside a program (a handler, a completion callback, a context):
   DelayManager.add / reset / remove / run_now and SwitchController.process_switch, nested to any depth.  Whatever the
   program does, nothing is dispatched (disp unchanged), no completion callback is queued or run (cbq, pushed
   unchanged), posts are only appended to event_queue, and the only observations are the callbacks run inline.  So the
   callback that run_now runs, and what it posts, can never overtake the remaining handlers of the current event. *)
Theorem inline_calls_never_dispatch :
  forall fast sc pid s, exists o, hgrows s (fst (invoke fast sc pid s)) o /\ Forall is_sub o.
Proof. exact invoke_grows. Qed.
Print Assumptions inline_calls_never_dispatch.

Example run_now_inside_handler :
  let s := run_turns true rn_script 50 [TRun 10; TFire 7] init in
  oof s = false /\ dly s = [] /\
  out s = [Quiet 0 0; Ctx 10; Invoke 1 1 1 []; Invoke 2 2 2 []; Sub 9; Invoke 3 3 2 []; Invoke 4 4 3 [];
           Invoke 5 5 4 []; Callback 0 20 []; Ctx (-1)].
Proof. exact ex_run_now. Qed.
Print Assumptions run_now_inside_handler.

(* Every context - a scripted one or an expiring delay - that completes leaves event_queue and callback_queue empty:
   everything it posted, transitively, including completion callbacks and what they post, has been dispatched before
   the next callback of the loop (the next context) runs; in whatever state it started. *)
Theorem every_context_is_drained :
  forall fast sc f pid s,
    oof (ctx fast sc f pid s) = false -> evq (ctx fast sc f pid s) = [] /\ cbq (ctx fast sc f pid s) = [].
Proof. exact ctx_drained_l. Qed.
Print Assumptions every_context_is_drained.

Theorem every_turn_is_drained :
  forall fast sc f t s, evq s = [] -> cbq s = [] -> oof (turn fast sc f t s) = false ->
    evq (turn fast sc f t s) = [] /\ cbq (turn fast sc f t s) = [].
Proof. exact turn_drained_l. Qed.
Print Assumptions every_turn_is_drained.

(* an expiring delay is a context like any other; its entry is dropped before the callback runs *)
Theorem expiring_delay_is_a_context :
  forall fast sc f n pid s, assoc n (dly s) = Some pid ->
    turn fast sc f (TFire n) s = ctx fast sc f pid (set_dly (dly_del n (dly s)) s).
Proof. exact fire_spec_l. Qed.
Print Assumptions expiring_delay_is_a_context.

(* _min_priority: exactly the handlers with a blocking facility and a priority below kwargs['_min_priority']['all'] or
   below the entry of their own facility are skipped; nothing changes without the kwarg or without a facility *)
Theorem min_priority_blocks_iff :
  forall kwargs h m, kw_get KEY_MINPRIO kwargs = Some (VMap m) ->
    (blocked kwargs h = true <->
     h_bf h <> 0 /\ ((exists a, zz_get 0 m = Some a /\ h_prio h < a) \/
                     (exists a, zz_get (h_bf h) m = Some a /\ h_prio h < a))).
Proof. exact blocked_iff. Qed.
Print Assumptions min_priority_blocks_iff.

Theorem min_priority_absent_changes_nothing :
  forall e kwargs hs, kw_get KEY_MINPRIO kwargs = None ->
    expected_invocations e kwargs hs =
    map (fun h => Invoke (h_key h) (h_pid h) e (merge kwargs (h_kw h)))
        (filter (fun h => cond_holds (h_cond h) (merge kwargs (h_kw h))) hs).
Proof. exact expected_without_min_priority. Qed.
Print Assumptions min_priority_absent_changes_nothing.

Theorem min_priority_ignores_handlers_without_facility :
  forall kwargs h, h_bf h = 0 -> blocked kwargs h = false.
Proof. exact blocked_no_facility. Qed.
Print Assumptions min_priority_ignores_handlers_without_facility.

Example min_priority_returned_by_a_handler :
  let s := run_turns true mpr_script 50 [TRun 10] init in
  oof s = false /\ script_plain mpr_script = false /\
  out s = [Quiet 0 0; Ctx 10; Invoke 1 1 1 []; Invoke 2 2 1 [(KEY_MINPRIO, VMap [(0, 3)])];
           Invoke 4 4 1 [(KEY_MINPRIO, VMap [(0, 3)])]; Callback 0 20 [(KEY_MINPRIO, VMap [(0, 3)])]].
Proof. exact ex_min_priority_ret. Qed.
Print Assumptions min_priority_returned_by_a_handler.

Example min_priority_example :
  let s := run_turns true mp_script 50 [TRun 10] init in
  oof s = false /\
  out s = [Quiet 0 0; Ctx 10; Invoke 1 1 1 [(KEY_MINPRIO, VMap [(0, 2); (1, 5)])];
           Invoke 3 3 1 [(KEY_MINPRIO, VMap [(0, 2); (1, 5)])]; Invoke 5 5 1 [(KEY_MINPRIO, VMap [(0, 2); (1, 5)])]].
Proof. exact ex_min_priority. Qed.
Print Assumptions min_priority_example.

(* queue events: the handlers from any point of the list on, until one waits or the list is done: the invocations so
   far followed by what is still to be done are exactly the handlers of the list whose condition holds on the merged
   kwargs (handler kwargs winning), each once, in list order; nothing is dispatched meanwhile *)
Theorem queue_handlers_once_in_order :
  forall fast sc e hs kwargs s,
    exists o, hgrows s (fst (run_seq fast sc e hs kwargs s)) o /\ Forall (is_invoke e) o /\
              invokes o ++ expected_queue e kwargs (rest_of (snd (run_seq fast sc e hs kwargs s))) =
              expected_queue e kwargs hs.
Proof. exact run_seq_spec. Qed.
Print Assumptions queue_handlers_once_in_order.

(* one step of the task of a queue event: it ends in a wait (no callback; the rest of the list is kept) or it ends the
   task, and then the completion callback runs exactly once, after all remaining handlers, with the posted kwargs.
   The handler list is the snapshot taken when the task starts (sorted: registry_sorted_invariant). *)
Theorem queue_callback_after_all_waits :
  forall fast sc tk s,
    let hs := match t_todo tk with Some l => l | None => snapshot (t_ev tk) s end in
    let s' := fst (task_step fast sc tk s) in
    disp s' = disp s /\ cbq s' = cbq s /\
    exists o, Forall (is_invoke (t_ev tk)) o /\
      match snd (task_step fast sc tk s) with
      | Some tk' =>
          out s' = out s ++ o /\ t_wait tk' = true /\ t_id tk' = t_id tk /\ t_ev tk' = t_ev tk /\
          t_cb tk' = t_cb tk /\ t_kw tk' = t_kw tk /\
          exists tl, t_todo tk' = Some tl /\
                     invokes o ++ expected_queue (t_ev tk) (t_kw tk) tl = expected_queue (t_ev tk) (t_kw tk) hs
      | None =>
          invokes o = expected_queue (t_ev tk) (t_kw tk) hs /\
          match t_cb tk with
          | Some cb => exists o2, out s' = out s ++ o ++ Callback (t_id tk) cb (t_kw tk) :: o2 /\ Forall is_sub o2
          | None => out s' = out s ++ o
          end
      end.
Proof. exact task_step_spec. Qed.
Print Assumptions queue_callback_after_all_waits.

Example queue_event_with_a_wait :
  let s := qrun_turns true q_script 50 [TRun 10; TRun 11] init in
  oof s = false /\ tasks s = [] /\
  out s = [Quiet 0 0; Ctx 10; Invoke 1 1 1 [(1, VZ 7); (2, VZ 2)]; Invoke 2 2 1 [(1, VZ 1); (2, VZ 2)];
           Invoke 4 4 2 [];
           Quiet 0 0; Ctx 11; Invoke 3 3 1 [(1, VZ 1); (2, VZ 2)]; Callback 0 20 [(1, VZ 1); (2, VZ 2)]].
Proof. exact ex_queue. Qed.
Print Assumptions queue_event_with_a_wait.

Example queue_task_step_hypotheses_satisfiable :
  let s := fst (invoke true q_script 10 init) in
  map h_key (snapshot 1 s) = [1; 2; 3] /\
  match snd (task_step true q_script q_task s) with Some tk' => map h_key (rest_of (t_todo tk')) = [3] | None => False end.
Proof. exact ex_task_step_hyp. Qed.
Print Assumptions queue_task_step_hypotheses_satisfiable.
