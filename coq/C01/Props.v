From Common Require Import Prelude.
From C01 Require Import Model Lemmas.
Open Scope Z_scope.
