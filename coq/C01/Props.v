(* C01/Props.v — property theorems only.  Each is closed by [exact] of a lemma from Lemmas.v and
   followed by Print Assumptions (parsed by the check: must be "Closed under the global context").

   Property C01 (properties.jsonl):
     (a) every event posted to the bus is delivered exactly once to each handler that is registered for it
         when its dispatch begins (and whose condition holds), in descending priority order, handler kwargs
         overriding posted ones; handlers of different events never nest or interleave;
     (b) events posted while an event is handled are dispatched after that event's remaining handlers and
         before any event that was already waiting;
     (c) an event's completion callback runs exactly once, only after its handlers and everything they
         transitively posted have been dispatched.

   All theorems hold for every script (handler programs are data), every state and both settings of [fast].
   [fast = true] is the code (events.py _post has a fast path that drops a post that has neither a callback
   nor a registered handler at post time).  "Every posted event" in (a) is therefore FALSE of the faithful
   model in one recorded class (fastpath_drop_refuted: known finding fastpath-drop-late-registration,
   reproduced on the implementation on every run); the positive statement is proved for every QUEUED post
   (every_queued_event_dispatched_once_partial) together with the exact condition under which a post is
   queued (post_enqueues_iff).

   Theorems about complete runs carry the guard [oof = false] ("the run did not stop on fuel"); the
   correspondence run checks that guard on every generated case (FUEL = 4000).  A closed-form fuel bound
   (DESIGN.md fuel_sufficient) is not proved; dfs_fuel_monotone is what the other proofs need. *)
From Common Require Import Prelude.
From Coq Require Import Sorting.Sorted Sorting.Permutation.
From C01 Require Import Model Lemmas.
Open Scope Z_scope.

(* ---- (a) handlers of one dispatch -------------------------------------------------------------- *)

(* One dispatch of a plain event in a reachable state: the observations it adds are exactly the handlers
   registered when it begins (the snapshot: handlers added during the dispatch are not called, handlers
   removed during it still are), filtered by their condition on the merged kwargs, in list order; that
   list is strictly sorted by (priority descending, registration order) and has no duplicates. *)
Theorem handlers_once_in_priority_order :
  forall fast sc p s, reg_ok s -> q_ty p = TNone ->
    let snap := snapshot (q_ev p) s in
    out (process fast sc p s) = out s ++ expected_invocations (q_ev p) (q_kw p) snap /\
    sorted_ps snap /\ NoDup snap.
Proof. exact handlers_once_l. Qed.
Print Assumptions handlers_once_in_priority_order.

Example handlers_once_hypotheses_satisfiable :
  reg_ok ex_state /\ q_ty ex_post = TNone /\ map h_key (snapshot (q_ev ex_post) ex_state) = [3; 1].
Proof. exact ex_handlers_hyp. Qed.
Print Assumptions handlers_once_hypotheses_satisfiable.

(* [reg_ok] (every handler list strictly sorted, sequence numbers below the counter) is an invariant *)
Theorem registry_sorted_invariant :
  forall fast sc f turns, reg_ok (run_turns fast sc f turns init).
Proof. exact registry_sorted_invariant_l. Qed.
Print Assumptions registry_sorted_invariant.

Theorem registry_sorted_preserved_by_dispatch :
  forall fast sc f pending s, reg_ok s -> reg_ok (dfs fast sc f pending s).
Proof. exact dfs_ok. Qed.
Print Assumptions registry_sorted_preserved_by_dispatch.

(* add_handler (append, then list.sort(key=priority, reverse=True)) = stable insertion: the new handler
   goes behind every handler of greater or equal priority and before the first one of smaller priority *)
Theorem add_handler_is_stable_insert :
  forall key e pid prio hk c s, reg_ok s ->
    let h := mkH key pid prio (kw_norm hk) c (nseq s) in
    exists a b, snapshot e s = a ++ b /\
                snapshot e (add_handler key e pid prio hk c s) = a ++ h :: b /\
                Forall (fun x => h_prio h <= h_prio x) a /\
                match b with [] => True | y :: _ => h_prio y < h_prio h end.
Proof. exact add_handler_is_stable_insert_l. Qed.

Example add_handler_hypotheses_satisfiable :
  reg_ok ex_state /\ map h_key (snapshot 1 ex_state) = [3; 1] /\
  map h_key (snapshot 1 (add_handler 9 1 1 2 [] None ex_state)) = [3; 9; 1].
Proof. exact ex_add_hyp. Qed.
Print Assumptions add_handler_hypotheses_satisfiable.
Print Assumptions add_handler_is_stable_insert.

(* remove_handler(method): whatever the registry was, afterwards no registration of that procedure is left in any
   event (also when the same procedure was registered several times, adjacent in one list), and no event is left
   with an empty list *)
Theorem remove_by_method_leaves_no_registration :
  forall pid s e l, In (e, l) (reg (remove_by_method pid s)) ->
    Forall (fun h => h_pid h <> pid) l /\ l <> [].
Proof. exact remove_by_method_complete. Qed.
Print Assumptions remove_by_method_leaves_no_registration.

Theorem remove_by_method_snapshot_clean :
  forall pid s e l, reg_get e (reg (remove_by_method pid s)) = Some l ->
    Forall (fun h => h_pid h <> pid) l /\ l <> [].
Proof. exact remove_by_method_snapshot. Qed.
Print Assumptions remove_by_method_snapshot_clean.

Example remove_by_method_on_repeated_registrations :
  map h_key (snapshot 1 rm_state) = [1; 2; 3; 4] /\
  map h_key (snapshot 1 (remove_by_method 7 rm_state)) = [4] /\
  reg_get 2 (reg (remove_by_method 7 rm_state)) = None.
Proof. exact ex_remove_method. Qed.
Print Assumptions remove_by_method_on_repeated_registrations.

(* any event type: during a dispatch only handlers of that event run (serial: no nesting, no interleaving) *)
Theorem dispatch_is_one_segment :
  forall fast sc p s, exists o, out (process fast sc p s) = out s ++ o /\ Forall (is_invoke (q_ev p)) o.
Proof. exact dispatch_is_segment_l. Qed.
Print Assumptions dispatch_is_one_segment.

(* ---- the queue stack --------------------------------------------------------------------------- *)

(* the invariant "an empty deque has only empty deques below it" is kept by one iteration of the inner loop
   (pop when the current deque ran empty; push when the event posted) ... *)
Theorem stack_invariant_preserved :
  forall rest stack (new : list posted), stack_ok stack ->
    let '(n1, s1) := pop_if_empty rest stack in
    n1 ++ concat s1 = rest ++ concat stack /\ stack_ok (n1 :: s1) /\
    (new <> [] -> stack_ok (new :: n1 :: s1)).
Proof. exact stack_invariant_preserved_l. Qed.
Print Assumptions stack_invariant_preserved.

(* ... and the literal loop equals the specification "one pending list, new posts in front"; when the loop
   exits (not on fuel) every stacked deque is empty: no queued event is lost *)
Theorem no_event_lost :
  forall fast sc f next stack s, stack_ok (next :: stack) ->
    fst (inner fast sc f next stack s) = dfs fast sc f (next ++ concat stack) s /\
    (oof (fst (inner fast sc f next stack s)) = false -> all_nil (snd (inner fast sc f next stack s))).
Proof. exact inner_dfs. Qed.
Print Assumptions no_event_lost.

Example no_event_lost_hypotheses_satisfiable :
  stack_ok ([ex_post] :: [[ex_post; ex_post]; []; []]) /\
  oof (fst (inner true ex_script 50 [ex_post] [[ex_post; ex_post]; []; []] ex_state)) = false.
Proof. exact ex_stack_hyp. Qed.
Print Assumptions no_event_lost_hypotheses_satisfiable.

(* process_event_queue as a whole = "dispatch everything (transitively), then ONE callback, repeat" *)
Theorem dispatch_refines_dfs :
  forall fast sc f stack s, all_nil stack -> outer fast sc f stack s = drain fast sc f s.
Proof. exact outer_drain. Qed.
Print Assumptions dispatch_refines_dfs.

(* ---- (b) order of dispatch ----------------------------------------------------------------------- *)

(* dispatching p with [waiting] behind it = all handlers of p (process), then everything p posted and,
   transitively, everything that posts (the inner dfs), and only then the events that were waiting *)
Theorem posts_before_waiting :
  forall fast sc f p waiting s,
    oof (dfs fast sc (S f) (p :: waiting) s) = false ->
    let s1 := process fast sc p s in
    dfs fast sc (S f) (p :: waiting) s =
      dfs fast sc f waiting (dfs fast sc f (evq s1) (set_evq [] s1)) /\
    oof (dfs fast sc f (evq s1) (set_evq [] s1)) = false.
Proof. exact posts_before_waiting_l. Qed.
Print Assumptions posts_before_waiting.

Example posts_before_waiting_hypotheses_satisfiable :
  let s := fst (invoke true ex_script 10 (emit (Ctx 10) init)) in
  match evq s with
  | p :: waiting => waiting <> [] /\ oof (dfs true ex_script 50 (p :: waiting) (set_evq [] s)) = false /\
                    evq (process true ex_script p (set_evq [] s)) <> []
  | [] => False
  end.
Proof. exact ex_waiting_hyp. Qed.
Print Assumptions posts_before_waiting_hypotheses_satisfiable.

Theorem dfs_fuel_monotone :
  forall fast sc f pending s, oof (dfs fast sc f pending s) = false ->
    forall f', (f <= f')%nat -> dfs fast sc f' pending s = dfs fast sc f pending s.
Proof. exact dfs_mono. Qed.
Print Assumptions dfs_fuel_monotone.

(* ---- (c) completion callbacks -------------------------------------------------------------------- *)

(* while pending events (and everything they post) are dispatched no callback runs, and queued callbacks
   stay queued *)
Theorem no_callback_during_dispatch :
  forall fast sc f pending s,
    exists o l, out (dfs fast sc f pending s) = out s ++ o /\ cbids o = [] /\
                cbq (dfs fast sc f pending s) = l ++ cbq s.
Proof. exact dfs_only_invokes. Qed.
Print Assumptions no_callback_during_dispatch.

(* after p and everything p transitively posted has been dispatched, p's callback is still waiting;
   by dispatch_refines_dfs it is popped only when a whole dfs has finished *)
Theorem callback_after_closure :
  forall fast sc f p cb s, q_cb p = Some cb ->
    exists k l o, cbq (dfs fast sc (S f) [p] s) = l ++ (q_id p, cb, k) :: cbq s /\
                  out (dfs fast sc (S f) [p] s) = out s ++ o /\ cbids o = [].
Proof. exact callback_after_closure_l. Qed.
Print Assumptions callback_after_closure.

(* Whole runs (any number of posting contexts).  Full statement of (a)/(c) "every POSTED event ...": false, see
   fastpath_drop_refuted.  Proved: every QUEUED post is dispatched exactly once (disp is a permutation of enq),
   every callback that was queued ran exactly once (the Callback observations are a permutation of pushed), and
   both queues are empty at the end.  Missing w.r.t. the full statement: posts taken by _post's fast path. *)
Theorem every_queued_event_dispatched_once_partial :
  forall fast sc f turns,
    let s := run_turns fast sc f turns init in
    oof s = false ->
    Permutation (disp s) (enq s) /\ Permutation (cbids (out s)) (pushed s) /\ evq s = [] /\ cbq s = [].
Proof. exact every_event_once_l. Qed.
Print Assumptions every_queued_event_dispatched_once_partial.

Example run_completes_on_posting_tree :
  let s := run_turns true ex_script 50 [10] init in
  oof s = false /\
  out s = [Ctx 10;
           Invoke 3 3 1 [(1, VZ 1)]; Invoke 1 1 1 [(1, VZ 1)]; Invoke 2 2 1 [(1, VZ 7)];
           Invoke 4 4 2 [];
           Invoke 5 5 3 [(2, VB true)];
           Invoke 5 5 3 [];
           Callback 0 20 [(1, VZ 1)];
           Quiet 0 0].
Proof. exact ex_run. Qed.
Print Assumptions run_completes_on_posting_tree.

(* a post is queued unless it has no callback and no handler is registered for the event at post time *)
Theorem post_is_queued_iff :
  forall fast e ty cb k s,
    enq (post fast e ty cb k s) = enq s ++ [npost s] <->
    ~ (fast = true /\ cb = None /\ reg_get e (reg s) = None).
Proof. exact post_enqueues_iff. Qed.
Print Assumptions post_is_queued_iff.

(* the recorded finding: post(e) followed by add_handler(e, h) in one context; when the queue is drained h is
   registered, yet it is never called (fast = true, the code); without the fast path it is *)
Theorem fastpath_drop_refuted :
  let s := run_turns true fp_script 10 [1] init in
  let s' := run_turns false fp_script 10 [1] init in
  oof s = false /\ oof s' = false /\
  map h_key (snapshot 1 s) = [1] /\
  In (Invoke 1 2 1 []) (out s') /\ ~ In (Invoke 1 2 1 []) (out s).
Proof. exact fastpath_drop_refuted_l. Qed.
Print Assumptions fastpath_drop_refuted.
