(* C01/Lemmas.v — proofs about the model of the event bus (Model.v). *)
From Common Require Import Prelude.
From Coq Require Import Sorting.Sorted Sorting.Permutation.
From C01 Require Import Model.
Open Scope Z_scope.

(* ========================================================================================== *)
(* A. add_handler: append + stable descending sort = insertion behind every handler of greater or
      equal priority                                                                             *)

(* a comes strictly before b: greater priority, or equal priority and registered earlier *)
Definition hbefore (a b : handler) : Prop :=
  h_prio a > h_prio b \/ (h_prio a = h_prio b /\ h_seq a < h_seq b).
Definition sorted_ps (l : list handler) : Prop := StronglySorted hbefore l.

(* where a new registration ends up *)
Fixpoint place (h : handler) (l : list handler) : list handler :=
  match l with
  | [] => [h]
  | y :: t => if h_prio y <? h_prio h then h :: y :: t else y :: place h t
  end.

Lemma hbefore_prio a b : hbefore a b -> h_prio b <= h_prio a.
Proof. unfold hbefore; lia. Qed.

Lemma insert_desc_head a m :
  match m with [] => True | z :: _ => h_prio z <= h_prio a end -> insert_desc a m = a :: m.
Proof.
  destruct m as [|z m]; cbn; [reflexivity|]. intro H.
  destruct (h_prio z <=? h_prio a) eqn:E; [reflexivity|]. apply Z.leb_gt in E. lia.
Qed.

Lemma place_head h l a :
  h_prio h <= h_prio a -> Forall (hbefore a) l ->
  match place h l with [] => True | z :: _ => h_prio z <= h_prio a end.
Proof.
  intros Hh Hl. destruct l as [|y t]; cbn; [exact Hh|].
  destruct (h_prio y <? h_prio h); [exact Hh|]. inversion Hl; subst. now apply hbefore_prio.
Qed.

Lemma place_all_smaller h l :
  Forall (fun x => h_prio x < h_prio h) l -> place h l = h :: l.
Proof.
  destruct l as [|y t]; cbn; [reflexivity|]. intro H. inversion H; subst.
  destruct (h_prio y <? h_prio h) eqn:E; [reflexivity|]. apply Z.ltb_ge in E. lia.
Qed.

Lemma sort_app_last h l :
  sorted_ps l -> sort_desc (l ++ [h]) = place h l.
Proof.
  unfold sort_desc. induction l as [|a l IH]; intro S; [reflexivity|].
  inversion S as [|? ? Sl Ha]; subst. cbn [app fold_right]. rewrite (IH Sl). cbn [place].
  destruct (h_prio a <? h_prio h) eqn:E.
  - apply Z.ltb_lt in E.
    assert (Hs : Forall (fun x => h_prio x < h_prio h) l).
    { eapply Forall_impl; [|exact Ha]. intros x Hx. apply hbefore_prio in Hx. lia. }
    rewrite (place_all_smaller _ _ Hs). cbn [insert_desc].
    destruct (h_prio h <=? h_prio a) eqn:E2; [apply Z.leb_le in E2; lia|].
    f_equal. apply insert_desc_head. destruct l as [|z l']; [exact I|].
    inversion Ha; subst. now apply hbefore_prio.
  - apply Z.ltb_ge in E. apply insert_desc_head. now apply place_head.
Qed.

Lemma place_In h l x : In x (place h l) -> x = h \/ In x l.
Proof.
  induction l as [|y t IH]; cbn.
  - intros [E|[]]; auto.
  - destruct (h_prio y <? h_prio h); cbn.
    + intros [E|[E|E]]; auto.
    + intros [E|E]; auto. destruct (IH E); auto.
Qed.

Lemma place_sorted h l :
  sorted_ps l -> Forall (fun x => h_seq x < h_seq h) l -> sorted_ps (place h l).
Proof.
  induction l as [|y t IH]; intros S F; cbn.
  - constructor; constructor.
  - inversion S as [|? ? St Hy]; subst. inversion F as [|? ? Fy Ft]; subst.
    destruct (h_prio y <? h_prio h) eqn:E.
    + apply Z.ltb_lt in E. constructor; [exact S|]. constructor; [left; lia|].
      eapply Forall_impl; [|exact Hy]. intros x Hx. apply hbefore_prio in Hx. left; lia.
    + apply Z.ltb_ge in E. constructor; [apply IH; assumption|].
      apply Forall_forall. intros x Hx. apply place_In in Hx as [->|Hx].
      * unfold hbefore. destruct (Z.eq_dec (h_prio y) (h_prio h)); [right; split; assumption|left; lia].
      * rewrite Forall_forall in Hy. now apply Hy.
Qed.

Lemma place_Forall (P : handler -> Prop) h l : P h -> Forall P l -> Forall P (place h l).
Proof.
  intros Hh Hl. apply Forall_forall. intros x Hx. apply place_In in Hx as [->|Hx]; [exact Hh|].
  rewrite Forall_forall in Hl. now apply Hl.
Qed.

Lemma filter_sorted f l : sorted_ps l -> sorted_ps (filter f l).
Proof.
  induction l as [|a l IH]; intro S; cbn; [constructor|].
  inversion S as [|? ? Sl Ha]; subst. destruct (f a); [|now apply IH].
  constructor; [now apply IH|]. apply Forall_forall. intros x Hx. apply filter_In in Hx as [Hx _].
  rewrite Forall_forall in Ha. now apply Ha.
Qed.

Lemma filter_Forall {A} (P : A -> Prop) f l : Forall P l -> Forall P (filter f l).
Proof.
  intro H. apply Forall_forall. intros x Hx. apply filter_In in Hx as [Hx _].
  rewrite Forall_forall in H. now apply H.
Qed.

(* strict sortedness gives: no registration occurs twice in a handler list *)
Lemma sorted_ps_NoDup l : sorted_ps l -> NoDup l.
Proof.
  induction l as [|a l IH]; intro S; [constructor|].
  inversion S as [|? ? Sl Ha]; subst. constructor; [|now apply IH].
  intro Hin. rewrite Forall_forall in Ha. specialize (Ha a Hin). unfold hbefore in Ha. lia.
Qed.

(* ========================================================================================== *)
(* B. the registry invariant                                                                    *)

Lemma reg_get_del_same e r : reg_get e (reg_del e r) = None.
Proof.
  induction r as [|[e' l] t IH]; cbn; [reflexivity|].
  destruct (e =? e') eqn:E; [exact IH|]. cbn. now rewrite E.
Qed.
Lemma reg_get_del_other e e' r : e' <> e -> reg_get e' (reg_del e r) = reg_get e' r.
Proof.
  intro N. induction r as [|[e2 l] t IH]; cbn; [reflexivity|].
  destruct (e =? e2) eqn:E.
  - apply Z.eqb_eq in E; subst. destruct (e' =? e2) eqn:E2; [apply Z.eqb_eq in E2; congruence|exact IH].
  - cbn. now rewrite IH.
Qed.
Lemma reg_get_put_same e l r : reg_get e (reg_put e l r) = Some l.
Proof. unfold reg_put; cbn. now rewrite Z.eqb_refl. Qed.
Lemma reg_get_put_other e e' l r : e' <> e -> reg_get e' (reg_put e l r) = reg_get e' r.
Proof.
  intro N. unfold reg_put; cbn. destruct (e' =? e) eqn:E; [apply Z.eqb_eq in E; congruence|].
  now apply reg_get_del_other.
Qed.

Lemma reg_get_In e l r : reg_get e r = Some l -> In (e, l) r.
Proof.
  induction r as [|[e' l'] t IH]; cbn; [discriminate|].
  destruct (e =? e') eqn:E.
  - apply Z.eqb_eq in E; subst. intro H; inversion H; subst. now left.
  - intro H. right. now apply IH.
Qed.
Lemma reg_del_In e e' l r : In (e', l) (reg_del e r) -> In (e', l) r.
Proof.
  induction r as [|[e2 l2] t IH]; cbn; [tauto|].
  destruct (e =? e2); cbn; intro H; [right; now apply IH|].
  destruct H as [H|H]; [now left|right; now apply IH].
Qed.
Lemma reg_put_In e l e' l' r : In (e', l') (reg_put e l r) -> (e' = e /\ l' = l) \/ In (e', l') r.
Proof.
  unfold reg_put. intros [H|H]; [inversion H; now left|right; now apply reg_del_In in H].
Qed.
Lemma reg_filter_In f e l' r :
  In (e, l') (reg_filter f r) -> exists l, In (e, l) r /\ l' = filter f l /\ l' <> [].
Proof.
  induction r as [|[e2 l2] t IH]; cbn; [tauto|].
  destruct (filter f l2) as [|x fl] eqn:F; cbn.
  - intro H. destruct (IH H) as (l & I1 & I2). exists l. split; [now right|exact I2].
  - intros [H|H].
    + inversion H; subst. exists l2. split; [now left|]. split; [now rewrite F|discriminate].
    + destruct (IH H) as (l & I1 & I2). exists l. split; [now right|exact I2].
Qed.

(* every handler list (every entry of the registry) is strictly sorted by (priority descending, registration
   order), and sequence numbers are below the counter (so a new registration is the latest) *)
Definition reg_ok (s : state) : Prop :=
  forall e l, In (e, l) (reg s) ->
    sorted_ps l /\ Forall (fun x => h_seq x < nseq s) l.

Lemma reg_ok_get s e l : reg_ok s -> reg_get e (reg s) = Some l ->
  sorted_ps l /\ Forall (fun x => h_seq x < nseq s) l.
Proof. intros H G. apply (H e). now apply reg_get_In. Qed.

Lemma reg_ok_eq s s' : reg s' = reg s -> nseq s' = nseq s -> reg_ok s -> reg_ok s'.
Proof. unfold reg_ok. intros E1 E2 H e l. rewrite E1, E2. apply H. Qed.

Lemma reg_ok_init : reg_ok init.
Proof. intros e l; cbn; tauto. Qed.

Lemma add_handler_ok key e pid prio hk c bf s : reg_ok s -> reg_ok (add_handler key e pid prio hk c bf s).
Proof.
  intros H e' l'. unfold add_handler. cbn [reg nseq set_reg].
  set (h := mkH key pid prio (kw_norm hk) c bf (nseq s)).
  set (l := match reg_get e (reg s) with Some l => l | None => [] end).
  assert (Hl : sorted_ps l /\ Forall (fun x => h_seq x < nseq s) l).
  { subst l. destruct (reg_get e (reg s)) eqn:G; [now apply (reg_ok_get s e)|]. split; constructor. }
  destruct Hl as [Sl Fl]. intro I. apply reg_put_In in I as [[-> ->]|I].
  - rewrite (sort_app_last h l Sl). split.
    + apply place_sorted; [exact Sl|]. exact Fl.
    + apply place_Forall; [cbn; lia|]. eapply Forall_impl; [|exact Fl]. cbn; intros; lia.
  - destruct (H _ _ I) as [S F]. split; [exact S|].
    eapply Forall_impl; [|exact F]. cbn; intros; lia.
Qed.

Lemma remove_by_key_ok key s : reg_ok s -> reg_ok (remove_by_key key s).
Proof.
  intro H. unfold remove_by_key. destruct (assoc key (keys s)) as [e|]; [|exact H].
  destruct (reg_get e (reg s)) as [l|] eqn:G; [|exact H].
  destruct (reg_ok_get _ _ _ H G) as [S F]. intros e' l'. cbn [reg nseq set_reg].
  destruct (is_nil _) eqn:N; intro I.
  - apply reg_del_In in I. exact (H _ _ I).
  - apply reg_put_In in I as [[-> ->]|I]; [|exact (H _ _ I)].
    split; [now apply filter_sorted|now apply filter_Forall].
Qed.

Lemma remove_by_method_ok pid s : reg_ok s -> reg_ok (remove_by_method pid s).
Proof.
  intros H e l'. unfold remove_by_method. cbn [reg nseq set_reg]. intro I.
  apply reg_filter_In in I as (l & I & -> & _). destruct (H _ _ I) as [S F].
  split; [now apply filter_sorted|now apply filter_Forall].
Qed.

Lemma remove_by_event_ok e pid s : reg_ok s -> reg_ok (remove_by_event e pid s).
Proof.
  intro H. unfold remove_by_event.
  destruct (reg_get e (reg s)) as [l|] eqn:G; [|exact H].
  destruct (reg_ok_get _ _ _ H G) as [S F]. intros e' l'. cbn [reg nseq set_reg].
  destruct (is_nil _) eqn:N; intro I.
  - apply reg_del_In in I. exact (H _ _ I).
  - apply reg_put_In in I as [[-> ->]|I]; [|exact (H _ _ I)].
    split; [now apply filter_sorted|now apply filter_Forall].
Qed.

Lemma remove_all_ok e s : reg_ok s -> reg_ok (remove_all e s).
Proof.
  intros H e' l'. unfold remove_all. cbn [reg nseq set_reg]. intro I. apply reg_del_In in I. exact (H _ _ I).
Qed.

Lemma replace_handler_ok key e pid prio hk s : reg_ok s -> reg_ok (replace_handler key e pid prio hk s).
Proof.
  intro H. unfold replace_handler. apply add_handler_ok.
  destruct (reg_get e (reg s)) as [l|] eqn:G; [|exact H].
  destruct (reg_ok_get _ _ _ H G) as [S F]. intros e' l'. cbn [reg nseq set_reg]. intro I.
  apply reg_put_In in I as [[-> ->]|I]; [|exact (H _ _ I)].
  split; [now apply filter_sorted|now apply filter_Forall].
Qed.

(* after remove_handler(method) no registration of that procedure is left, in any event, whatever the registry
   was; and no event is left with an empty handler list (does_event_exist is exact) *)
Lemma remove_by_method_complete pid s e l :
  In (e, l) (reg (remove_by_method pid s)) -> Forall (fun h => h_pid h <> pid) l /\ l <> [].
Proof.
  unfold remove_by_method. cbn [reg set_reg]. intro I.
  apply reg_filter_In in I as (l0 & _ & -> & N). split; [|exact N].
  apply Forall_forall. intros h Hh. apply filter_In in Hh as [_ Hh].
  apply negb_true_iff, Z.eqb_neq in Hh. exact Hh.
Qed.

Lemma remove_by_method_snapshot pid s e l :
  reg_get e (reg (remove_by_method pid s)) = Some l -> Forall (fun h => h_pid h <> pid) l /\ l <> [].
Proof. intro G. apply (remove_by_method_complete pid s e). now apply reg_get_In. Qed.

Lemma post_reg fast e ty cb k s : reg (post fast e ty cb k s) = reg s /\ nseq (post fast e ty cb k s) = nseq s.
Proof. unfold post. destruct (_ && _ && _); split; reflexivity. Qed.

Definition call_ok (call : Z -> state -> state) : Prop := forall p s, reg_ok s -> reg_ok (call p s).

Lemma run_action_ok fast call a s : call_ok call -> reg_ok s -> reg_ok (run_action fast call a s).
Proof.
  intro C. destruct a; cbn [run_action].
  - intro H. destruct (post_reg fast e ty cb k s) as [E1 E2]. exact (reg_ok_eq _ _ E1 E2 H).
  - apply add_handler_ok.
  - apply remove_by_key_ok.
  - apply remove_by_method_ok.
  - apply replace_handler_ok.
  - apply remove_by_event_ok.
  - apply remove_all_ok.
  - intro H. exact (reg_ok_eq s _ eq_refl eq_refl H).
  - intro H. exact (reg_ok_eq s _ eq_refl eq_refl H).
  - intro H. destruct (assoc name (dly s)); [|exact H]. apply C. exact (reg_ok_eq s _ eq_refl eq_refl H).
  - revert s. induction pids as [|q pids IH]; intros s H; cbn [fold_left]; [exact H|]. apply IH. now apply C.
  - intro H. exact (reg_ok_eq s _ eq_refl eq_refl H).
Qed.

Lemma run_acts_ok fast call l s : call_ok call -> reg_ok s -> reg_ok (run_acts fast call l s).
Proof.
  intro C. unfold run_acts. revert s. induction l as [|a l IH]; intros s H; cbn; [exact H|].
  apply IH. now apply run_action_ok.
Qed.

Lemma invoke_d_ok fast sc d : forall pid s, reg_ok s -> reg_ok (fst (invoke_d fast sc d pid s)).
Proof.
  induction d as [|d IH]; intros pid s H; cbn [invoke_d fst]; apply run_acts_ok;
    try exact (reg_ok_eq s _ eq_refl eq_refl H).
  - intros p s' H'. exact (reg_ok_eq s' _ eq_refl eq_refl H').
  - intros p s' H'. apply IH. exact (reg_ok_eq s' _ eq_refl eq_refl H').
Qed.

Lemma invoke_ok fast sc pid s : reg_ok s -> reg_ok (fst (invoke fast sc pid s)).
Proof. apply invoke_d_ok. Qed.

Lemma run_handlers_ok fast sc e ty hs : forall kwargs r s,
  reg_ok s -> reg_ok (fst (fst (run_handlers fast sc e ty hs kwargs r s))).
Proof.
  induction hs as [|h tl IH]; intros kwargs r s H; cbn [run_handlers]; [exact H|].
  destruct (blocked kwargs h); [now apply IH|].
  destruct (cond_holds _ _); [|now apply IH].
  destruct (invoke fast sc (h_pid h) _) as [s2 r2] eqn:EI.
  assert (H2 : reg_ok s2).
  { replace s2 with (fst (invoke fast sc (h_pid h) (emit (Invoke (h_key h) (h_pid h) e (merge kwargs (h_kw h))) s)))
      by now rewrite EI. apply invoke_ok. exact H. }
  destruct ty; try (now apply IH).
  destruct (is_false r2); [exact H2|now apply IH].
Qed.

Lemma process_std_ok fast sc p s : reg_ok s -> reg_ok (process_std fast sc p s).
Proof.
  intro H. unfold process_std. cbn [reg mark_disp].
  destruct (reg_get (q_ev p) (reg s)) as [hs|].
  - pose proof (run_handlers_ok fast sc (q_ev p) (q_ty p) hs (q_kw p) RNone (mark_disp (q_id p) s) H) as H1.
    destruct (run_handlers _ _ _ _ _ _ _ _) as [[s1 kwargs] result]. cbn in H1.
    destruct (q_cb p); exact H1.
  - destruct (q_cb p); exact H.
Qed.

Lemma process_q_ok p s : reg_ok s -> reg_ok (process_q p s).
Proof.
  intro H. unfold process_q. cbn [reg mark_disp].
  destruct (reg_get (q_ev p) (reg s)); [|destruct (q_cb p)]; exact (reg_ok_eq s _ eq_refl eq_refl H).
Qed.

Lemma process_ok fast sc p s : reg_ok s -> reg_ok (process fast sc p s).
Proof.
  intro H. unfold process. destruct (q_ty p); try (now apply process_std_ok). now apply process_q_ok.
Qed.

Lemma dfs_ok fast sc f : forall pending s, reg_ok s -> reg_ok (dfs fast sc f pending s).
Proof.
  induction f as [|f IH]; intros pending s H; cbn [dfs]; [exact H|].
  destruct pending as [|p w]; [exact H|]. apply IH.
  exact (process_ok fast sc p s H).
Qed.

Lemma drain_ok fast sc f : forall s, reg_ok s -> reg_ok (drain fast sc f s).
Proof.
  induction f as [|f IH]; intros s H; cbn [drain]; [exact H|].
  destruct (is_nil (evq s) && is_nil (cbq s)); [exact H|].
  set (s1 := if is_nil (evq s) then s else dfs fast sc f (evq s) (set_evq [] s)).
  assert (H1 : reg_ok s1). { subst s1. destruct (is_nil (evq s)); [exact H|]. apply dfs_ok. exact H. }
  destruct (oof s1); [exact H1|].
  destruct (cbq s1) as [|[[i pid] k] rest]; [now apply IH|].
  apply IH. apply invoke_ok. apply (reg_ok_eq s1); [reflexivity|reflexivity|exact H1].
Qed.

(* ========================================================================================== *)
(* C. what one invocation / one dispatch changes                                                *)

Definition is_sub (o : obs) : Prop := exists p, o = Sub p.
(* an observation of the dispatch of event e: a handler of e is called, or a callback is run inline by a handler *)
Definition is_invoke (e : Z) (o : obs) : Prop := (exists k p m, o = Invoke k p e m) \/ is_sub o.

Lemma subs_are_seg e o : Forall is_sub o -> Forall (is_invoke e) o.
Proof. intro H. eapply Forall_impl; [|exact H]. intros a Ha. now right. Qed.

(* s' differs from s by: observations o appended, posts appended to the event queue; nothing was dispatched, no
   callback was queued or run *)
Definition hgrows (s s' : state) (o : list obs) : Prop :=
  out s' = out s ++ o /\ cbq s' = cbq s /\ pushed s' = pushed s /\ disp s' = disp s /\
  (oof s' = false -> oof s = false) /\
  exists new, evq s' = evq s ++ new /\ enq s' = enq s ++ map q_id new.

Lemma hgrows_refl s : hgrows s s [].
Proof.
  unfold hgrows. rewrite app_nil_r. repeat split; auto. exists []. cbn. now rewrite !app_nil_r.
Qed.

Lemma hgrows_trans s1 s2 s3 o1 o2 : hgrows s1 s2 o1 -> hgrows s2 s3 o2 -> hgrows s1 s3 (o1 ++ o2).
Proof.
  intros (A1 & A2 & A3 & A4 & A5 & n1 & A6 & A7) (B1 & B2 & B3 & B4 & B5 & n2 & B6 & B7).
  unfold hgrows. rewrite B1, A1, B2, A2, B3, A3, B4, A4, app_assoc. repeat split; auto.
  exists (n1 ++ n2). rewrite B6, A6, B7, A7, map_app, !app_assoc. split; reflexivity.
Qed.

Lemma hgrows_frame s s' : out s' = out s -> cbq s' = cbq s -> pushed s' = pushed s -> disp s' = disp s ->
  oof s' = oof s -> evq s' = evq s -> enq s' = enq s -> hgrows s s' [].
Proof.
  intros ? ? ? ? Ho ? ?. unfold hgrows. rewrite app_nil_r. repeat split; try assumption.
  - now rewrite Ho.
  - exists []. cbn. rewrite !app_nil_r. split; assumption.
Qed.

(* inline calls only add Sub observations *)
Definition call_grows (call : Z -> state -> state) : Prop :=
  forall p s, exists o, hgrows s (call p s) o /\ Forall is_sub o.

Lemma run_action_grows fast call a s :
  call_grows call -> exists o, hgrows s (run_action fast call a s) o /\ Forall is_sub o.
Proof.
  intro C.
  assert (F : forall s', hgrows s s' [] -> exists o, hgrows s s' o /\ Forall is_sub o).
  { intros s' H. exists []. split; [exact H|constructor]. }
  destruct a; cbn [run_action].
  - apply F. unfold post. destruct (_ && _ && _).
    + apply hgrows_frame; reflexivity.
    + unfold hgrows. rewrite app_nil_r. cbn. repeat split; auto.
      eexists [_]. split; reflexivity.
  - apply F. apply hgrows_frame; reflexivity.
  - apply F. unfold remove_by_key. destruct (assoc key (keys s)); [|apply hgrows_refl].
    destruct (reg_get z (reg s)); [|apply hgrows_refl]. apply hgrows_frame; reflexivity.
  - apply F. apply hgrows_frame; reflexivity.
  - apply F. unfold replace_handler. destruct (reg_get e (reg s)); apply hgrows_frame; reflexivity.
  - apply F. unfold remove_by_event. destruct (reg_get e (reg s)); [|apply hgrows_refl]. apply hgrows_frame; reflexivity.
  - apply F. apply hgrows_frame; reflexivity.
  - apply F. apply hgrows_frame; reflexivity.
  - apply F. apply hgrows_frame; reflexivity.
  - destruct (assoc name (dly s)) as [q|]; [|apply F, hgrows_refl].
    destruct (C q (set_dly (dly_del name (dly s)) s)) as (o & G & Fo). exists o. split; [|exact Fo].
    change o with ([] ++ o). eapply hgrows_trans; [|exact G]. apply hgrows_frame; reflexivity.
  - revert s F. induction pids as [|q pids IH]; intros s F; cbn [fold_left].
    + apply F, hgrows_refl.
    + destruct (C q s) as (o1 & G1 & F1).
      destruct (IH (call q s)) as (o2 & G2 & F2).
      { intros s' H. exists []. split; [exact H|constructor]. }
      exists (o1 ++ o2). split; [eapply hgrows_trans; eassumption|]. apply Forall_app. split; assumption.
  - apply F. apply hgrows_frame; reflexivity.
Qed.

Lemma run_acts_grows fast call l : call_grows call ->
  forall s, exists o, hgrows s (run_acts fast call l s) o /\ Forall is_sub o.
Proof.
  intro C. unfold run_acts. induction l as [|a l IH]; intro s; cbn [fold_left].
  - exists []. split; [apply hgrows_refl|constructor].
  - destruct (run_action_grows fast call a s C) as (o1 & G1 & F1).
    destruct (IH (run_action fast call a s)) as (o2 & G2 & F2).
    exists (o1 ++ o2). split; [eapply hgrows_trans; eassumption|]. apply Forall_app. split; assumption.
Qed.

Lemma emit_grows o s : hgrows s (emit o s) [o].
Proof. unfold hgrows. cbn. repeat split; auto. exists []. cbn. now rewrite !app_nil_r. Qed.

(* THE statement about calls into DelayManager / SwitchController from inside a program: whatever the program does -
   including run_now and process_switch, nested to any depth - nothing is dispatched, no completion callback is
   queued or run, posts are only appended to event_queue, and the only observations are the inline callbacks *)
Lemma invoke_d_grows fast sc d : forall pid s,
  exists o, hgrows s (fst (invoke_d fast sc d pid s)) o /\ Forall is_sub o.
Proof.
  induction d as [|d IH]; intros pid s; cbn [invoke_d fst].
  - match goal with |- context [run_acts fast ?c ?l ?s0] =>
      destruct (run_acts_grows fast c l) with (s := s0) as (o & G & Fo) end.
    { intros p s'. exists []. split; [|constructor]. unfold hgrows. rewrite app_nil_r. cbn. repeat split; auto.
      - discriminate.
      - exists []. cbn. now rewrite !app_nil_r. }
    exists o. split; [|exact Fo]. change o with ([] ++ o). eapply hgrows_trans; [|exact G].
    apply hgrows_frame; reflexivity.
  - match goal with |- context [run_acts fast ?c ?l ?s0] =>
      destruct (run_acts_grows fast c l) with (s := s0) as (o & G & Fo) end.
    { intros p s'. destruct (IH p (emit (Sub p) s')) as (o & G & Fo). exists ([Sub p] ++ o). split.
      - eapply hgrows_trans; [apply emit_grows|exact G].
      - constructor; [now exists p|exact Fo]. }
    exists o. split; [|exact Fo]. change o with ([] ++ o). eapply hgrows_trans; [|exact G].
    apply hgrows_frame; reflexivity.
Qed.

Lemma invoke_grows fast sc pid s : exists o, hgrows s (fst (invoke fast sc pid s)) o /\ Forall is_sub o.
Proof. apply invoke_d_grows. Qed.

Lemma run_handlers_grows fast sc e ty hs : forall kwargs r s,
  exists o, hgrows s (fst (fst (run_handlers fast sc e ty hs kwargs r s))) o /\ Forall (is_invoke e) o.
Proof.
  induction hs as [|h tl IH]; intros kwargs r s; cbn [run_handlers].
  - exists []. split; [apply hgrows_refl|constructor].
  - destruct (blocked kwargs h); [apply IH|].
    destruct (cond_holds _ _); [|apply IH].
    set (ob := Invoke (h_key h) (h_pid h) e (merge kwargs (h_kw h))).
    destruct (invoke_grows fast sc (h_pid h) (emit ob s)) as (oi & G & Fi).
    destruct (invoke fast sc (h_pid h) (emit ob s)) as [s2 r2]. cbn [fst] in G.
    assert (G2 : hgrows s s2 ([ob] ++ oi)).
    { eapply hgrows_trans; [apply emit_grows|exact G]. }
    assert (Hob : Forall (is_invoke e) ([ob] ++ oi)).
    { constructor; [left; subst ob; eauto|now apply subs_are_seg]. }
    assert (K : forall kw' r', exists o, hgrows s (fst (fst (run_handlers fast sc e ty tl kw' r' s2))) o /\
                                          Forall (is_invoke e) o).
    { intros kw' r'. destruct (IH kw' r' s2) as (o & Go & Fo). exists (([ob] ++ oi) ++ o). split.
      - eapply hgrows_trans; eassumption.
      - apply Forall_app. split; assumption. }
    destruct ty; try apply K.
    destruct (is_false r2); [|apply K]. cbn [fst]. exists ([ob] ++ oi). split; [exact G2|exact Hob].
Qed.

(* the Invoke observations of a list *)
Definition is_inv_b (o : obs) : bool := match o with Invoke _ _ _ _ => true | _ => false end.
Definition invokes (o : list obs) : list obs := filter is_inv_b o.

Lemma invokes_app a b : invokes (a ++ b) = invokes a ++ invokes b.
Proof. apply filter_app. Qed.
Lemma invokes_subs o : Forall is_sub o -> invokes o = [].
Proof. induction 1 as [|x o (p & ->) _ IH]; [reflexivity|exact IH]. Qed.

(* plain events: exactly the snapshot, minus the handlers blocked by the posted _min_priority, filtered by condition, in
   order, with handler kwargs winning *)
Definition expected_invocations (e : Z) (kwargs : kw) (hs : list handler) : list obs :=
  map (fun h => Invoke (h_key h) (h_pid h) e (merge kwargs (h_kw h)))
      (filter (fun h => negb (blocked kwargs h) && cond_holds (h_cond h) (merge kwargs (h_kw h))) hs).

(* scripts in which no handler returns {'_min_priority': ...}: the posted kwargs of a plain event stay what they are *)
Definition is_mp (r : ret) : bool := match r with RMinPrio _ => true | _ => false end.
Definition script_plain (sc : script) : bool :=
  forallb (fun e => forallb (fun p => negb (is_mp (p_ret p))) (snd e)) sc.

Lemma script_get_plain sc pid :
  script_plain sc = true -> forallb (fun p => negb (is_mp (p_ret p))) (script_get pid sc) = true.
Proof.
  unfold script_plain. induction sc as [|[q l] sc IH]; cbn; [reflexivity|].
  intro H. apply andb_true_iff in H as [H1 H2]. destruct (pid =? q); [exact H1|now apply IH].
Qed.

Lemma invoke_ret_plain fast sc pid s : script_plain sc = true -> is_mp (snd (invoke fast sc pid s)) = false.
Proof.
  intro P. unfold invoke. destruct DEPTH; cbn [invoke_d snd];
    (destruct (nth_in_or_default (cnt_get pid (cnt s)) (script_get pid sc) (mkP [] RNone)) as [I| ->]; [|reflexivity];
     pose proof (script_get_plain sc pid P) as F; rewrite forallb_forall in F; apply F in I;
     now apply negb_true_iff in I).
Qed.

Lemma after_ret_plain r kwargs : is_mp r = false -> after_ret TNone r kwargs = kwargs.
Proof. destruct r; cbn; intro H; try reflexivity. discriminate. Qed.

Lemma run_handlers_plain fast sc e hs : script_plain sc = true -> forall kwargs r s,
  exists o, out (fst (fst (run_handlers fast sc e TNone hs kwargs r s))) = out s ++ o /\
            invokes o = expected_invocations e kwargs hs.
Proof.
  intro SP. unfold expected_invocations.
  induction hs as [|h tl IH]; intros kwargs r s; cbn [run_handlers filter map].
  - exists []. now rewrite app_nil_r.
  - destruct (blocked kwargs h); cbn [negb andb]; [apply IH|].
    destruct (cond_holds _ _); [|apply IH].
    set (ob := Invoke (h_key h) (h_pid h) e (merge kwargs (h_kw h))).
    destruct (invoke_grows fast sc (h_pid h) (emit ob s)) as (oi & G & Fi).
    pose proof (invoke_ret_plain fast sc (h_pid h) (emit ob s) SP) as RP.
    destruct (invoke fast sc (h_pid h) (emit ob s)) as [s2 r2]. cbn [fst] in G. cbn [snd] in RP.
    destruct G as (G1 & _). cbn [out emit] in G1. rewrite (after_ret_plain _ _ RP).
    destruct (IH kwargs r2 s2) as (o & E & I).
    exists ([ob] ++ oi ++ o). split.
    + rewrite E, G1. now rewrite <- !app_assoc.
    + rewrite !invokes_app, (invokes_subs _ Fi), I. reflexivity.
Qed.

Definition snapshot (e : Z) (s : state) : list handler :=
  match reg_get e (reg s) with Some l => l | None => [] end.

Lemma process_std_spec fast sc p s :
  let s1 := process_std fast sc p s in
  exists o new,
    out s1 = out s ++ o /\ Forall (is_invoke (q_ev p)) o /\
    evq s1 = evq s ++ new /\ enq s1 = enq s ++ map q_id new /\
    disp s1 = disp s ++ [q_id p] /\ (oof s1 = false -> oof s = false) /\
    ((q_cb p = None /\ cbq s1 = cbq s /\ pushed s1 = pushed s) \/
     (exists cb k, q_cb p = Some cb /\ cbq s1 = (q_id p, cb, k) :: cbq s /\ pushed s1 = pushed s ++ [q_id p])).
Proof.
  cbn zeta. unfold process_std. cbn [reg mark_disp].
  assert (K : exists o, hgrows (mark_disp (q_id p) s)
            (fst (fst (match reg_get (q_ev p) (reg s) with
                       | Some hs => run_handlers fast sc (q_ev p) (q_ty p) hs (q_kw p) RNone (mark_disp (q_id p) s)
                       | None => (mark_disp (q_id p) s, q_kw p, RNone) end))) o /\ Forall (is_invoke (q_ev p)) o).
  { destruct (reg_get (q_ev p) (reg s)); [apply run_handlers_grows|].
    exists []. split; [apply hgrows_refl|constructor]. }
  destruct (match reg_get (q_ev p) (reg s) with Some hs => _ | None => _ end) as [[s1 kwargs] result].
  cbn [fst] in K. destruct K as (o & (G1 & G2 & G3 & G4 & G5 & new & G6 & G7) & Fo).
  exists o, new. cbn [out evq enq disp oof cbq pushed mark_disp] in *.
  destruct (q_cb p) as [cb|].
  - cbn [out evq enq disp oof cbq pushed push_cb]. repeat split; try assumption.
    right. eexists cb, _. rewrite G2, G3. repeat split.
  - repeat split; try assumption. left. repeat split; assumption.
Qed.

(* one dispatch.  Queue events: nothing runs inside process_event_queue; the callback is queued only when the event has
   no handler (otherwise the task calls it) *)
Lemma process_spec fast sc p s :
  let s1 := process fast sc p s in
  exists o new,
    out s1 = out s ++ o /\ Forall (is_invoke (q_ev p)) o /\
    evq s1 = evq s ++ new /\ enq s1 = enq s ++ map q_id new /\
    disp s1 = disp s ++ [q_id p] /\ (oof s1 = false -> oof s = false) /\
    ((cbq s1 = cbq s /\ pushed s1 = pushed s /\ (q_cb p = None \/ q_ty p = TQueue)) \/
     (exists cb k, q_cb p = Some cb /\ cbq s1 = (q_id p, cb, k) :: cbq s /\ pushed s1 = pushed s ++ [q_id p])).
Proof.
  cbn zeta. unfold process.
  assert (S : q_ty p <> TQueue -> exists o new,
    out (process_std fast sc p s) = out s ++ o /\ Forall (is_invoke (q_ev p)) o /\
    evq (process_std fast sc p s) = evq s ++ new /\ enq (process_std fast sc p s) = enq s ++ map q_id new /\
    disp (process_std fast sc p s) = disp s ++ [q_id p] /\ (oof (process_std fast sc p s) = false -> oof s = false) /\
    ((cbq (process_std fast sc p s) = cbq s /\ pushed (process_std fast sc p s) = pushed s /\
      (q_cb p = None \/ q_ty p = TQueue)) \/
     (exists cb k, q_cb p = Some cb /\ cbq (process_std fast sc p s) = (q_id p, cb, k) :: cbq s /\
                   pushed (process_std fast sc p s) = pushed s ++ [q_id p]))).
  { intros _. destruct (process_std_spec fast sc p s) as (o & new & A1 & A2 & A3 & A4 & A5 & A6 & A7). cbn zeta in *.
    exists o, new. repeat split; try assumption.
    destruct A7 as [(B1 & B2 & B3)|B]; [left; auto|right; exact B]. }
  destruct (q_ty p) eqn:T; try (apply S; discriminate).
  clear S. unfold process_q. cbn [reg mark_disp].
  exists [], []. cbn [map]. rewrite !app_nil_r.
  destruct (reg_get (q_ev p) (reg s)).
  - cbn. repeat split; auto.
  - destruct (q_cb p) as [cb|] eqn:Q; cbn; repeat split; auto.
    right. eexists cb, _. repeat split.
Qed.

Lemma process_plain fast sc p s :
  script_plain sc = true -> q_ty p = TNone ->
  exists o, out (process fast sc p s) = out s ++ o /\
            invokes o = expected_invocations (q_ev p) (q_kw p) (snapshot (q_ev p) s).
Proof.
  intros SP T. unfold process. rewrite T. unfold process_std, snapshot. cbn [reg mark_disp]. rewrite T.
  destruct (reg_get (q_ev p) (reg s)) as [hs|].
  - destruct (run_handlers_plain fast sc (q_ev p) hs SP (q_kw p) RNone (mark_disp (q_id p) s)) as (o & H & I).
    destruct (run_handlers _ _ _ _ _ _ _ _) as [[s1 kwargs] result]. cbn [fst] in H.
    exists o. split; [|exact I]. destruct (q_cb p); exact H.
  - exists []. unfold expected_invocations. cbn. rewrite app_nil_r. split; [|reflexivity]. destruct (q_cb p); reflexivity.
Qed.

(* every event type, every script (also handlers that return _min_priority, abort a boolean event, relay): the handlers
   called in one dispatch are a subsequence of the snapshot - each at most once, in the order of the list *)
Inductive sublist {A} : list A -> list A -> Prop :=
| sl_nil : sublist [] []
| sl_skip x l1 l2 : sublist l1 l2 -> sublist l1 (x :: l2)
| sl_keep x l1 l2 : sublist l1 l2 -> sublist (x :: l1) (x :: l2).

Lemma sublist_nil {A} (l : list A) : sublist [] l.
Proof. induction l; constructor; assumption. Qed.

Definition okey (o : obs) : Z := match o with Invoke k _ _ _ => k | _ => 0 end.

Lemma run_handlers_sub fast sc e ty hs : forall kwargs r s,
  exists o called, out (fst (fst (run_handlers fast sc e ty hs kwargs r s))) = out s ++ o /\
                   sublist called hs /\ map okey (invokes o) = map h_key called.
Proof.
  induction hs as [|h tl IH]; intros kwargs r s; cbn [run_handlers].
  - exists [], []. rewrite app_nil_r. repeat split. constructor.
  - assert (SK : forall kw' r', exists o called,
              out (fst (fst (run_handlers fast sc e ty tl kw' r' s))) = out s ++ o /\
              sublist called (h :: tl) /\ map okey (invokes o) = map h_key called).
    { intros kw' r'. destruct (IH kw' r' s) as (o & c & E & S & M). exists o, c. repeat split; try assumption.
      now constructor. }
    destruct (blocked kwargs h); [apply SK|].
    destruct (cond_holds _ _); [|apply SK].
    set (ob := Invoke (h_key h) (h_pid h) e (merge kwargs (h_kw h))).
    destruct (invoke_grows fast sc (h_pid h) (emit ob s)) as (oi & G & Fi).
    destruct (invoke fast sc (h_pid h) (emit ob s)) as [s2 r2]. cbn [fst] in G.
    destruct G as (G1 & _). cbn [out emit] in G1.
    assert (K : forall kw', exists o called,
              out (fst (fst (run_handlers fast sc e ty tl kw' r2 s2))) = out s ++ o /\
              sublist called (h :: tl) /\ map okey (invokes o) = map h_key called).
    { intro kw'. destruct (IH kw' r2 s2) as (o & c & E & S & M). exists ([ob] ++ oi ++ o), (h :: c). split.
      - rewrite E, G1. now rewrite <- !app_assoc.
      - split; [now constructor|]. rewrite !invokes_app, (invokes_subs _ Fi). cbn. now rewrite M. }
    destruct ty; try apply K.
    destruct (is_false r2); [|apply K]. cbn [fst]. exists ([ob] ++ oi), [h]. split; [now rewrite G1, <- app_assoc|].
    split; [constructor; apply sublist_nil|]. rewrite invokes_app, (invokes_subs _ Fi). reflexivity.
Qed.

Lemma process_sub fast sc p s :
  exists o called, out (process fast sc p s) = out s ++ o /\
                   sublist called (snapshot (q_ev p) s) /\ map okey (invokes o) = map h_key called.
Proof.
  assert (Z0 : forall s', out s' = out s -> exists o called, out s' = out s ++ o /\
                 sublist called (snapshot (q_ev p) s) /\ map okey (invokes o) = map h_key called).
  { intros s' E. exists [], []. rewrite app_nil_r. repeat split; [exact E|apply sublist_nil]. }
  assert (S : exists o called, out (process_std fast sc p s) = out s ++ o /\
                 sublist called (snapshot (q_ev p) s) /\ map okey (invokes o) = map h_key called).
  { unfold process_std, snapshot. cbn [reg mark_disp].
    destruct (reg_get (q_ev p) (reg s)) as [hs|].
    - destruct (run_handlers_sub fast sc (q_ev p) (q_ty p) hs (q_kw p) RNone (mark_disp (q_id p) s)) as (o & c & E & Sb & M).
      destruct (run_handlers _ _ _ _ _ _ _ _) as [[s1 kwargs] result]. cbn [fst] in E.
      exists o, c. repeat split; try assumption. destruct (q_cb p); exact E.
    - exists [], []. rewrite app_nil_r. repeat split; [destruct (q_cb p); reflexivity|constructor]. }
  unfold process. destruct (q_ty p); try exact S.
  apply Z0. unfold process_q. cbn [reg mark_disp]. destruct (reg_get (q_ev p) (reg s)); [reflexivity|].
  destruct (q_cb p); reflexivity.
Qed.

(* ========================================================================================== *)
(* D. the stack invariant (no event lost) and the refinement  inner  =  dfs                      *)

Definition all_nil (t : list (list posted)) : Prop := Forall (fun x => x = []) t.

(* "if a deque is empty then every deque below it is empty" *)
Fixpoint stack_ok (st : list (list posted)) : Prop :=
  match st with
  | [] => True
  | q :: t => (q = [] -> all_nil t) /\ stack_ok t
  end.

Lemma all_nil_concat t : all_nil t -> concat t = [].
Proof. induction 1 as [|x t Hx _ IH]; cbn; [reflexivity|]. now rewrite Hx, IH. Qed.

Lemma all_nil_stack_ok t : all_nil t -> stack_ok t.
Proof. induction 1 as [|x t Hx Ht IH]; cbn; [exact I|]. split; [intros _; exact Ht|exact IH]. Qed.

(* one iteration of the inner while loop keeps the invariant, whatever the event posts *)
Lemma pop_spec rest stack :
  stack_ok stack ->
  let '(n1, s1) := pop_if_empty rest stack in
  n1 ++ concat s1 = rest ++ concat stack /\ stack_ok (n1 :: s1).
Proof.
  intro H. destruct rest as [|r rs]; destruct stack as [|q st]; cbn [pop_if_empty].
  - split; [reflexivity|]. cbn. split; [intros _; constructor|exact I].
  - split; [reflexivity|exact H].
  - split; [reflexivity|]. cbn. split; [discriminate|exact I].
  - split; [reflexivity|]. split; [discriminate|exact H].
Qed.

Lemma push_ok (new n1 : list posted) s1 : new <> [] -> stack_ok (n1 :: s1) -> stack_ok (new :: n1 :: s1).
Proof. intros N H. split; [intro E; contradiction|exact H]. Qed.

Lemma set_evq_nil_id s : evq s = [] -> set_evq [] s = s.
Proof. destruct s; cbn. intro E; subst. reflexivity. Qed.

Lemma inner_dfs fast sc f : forall next stack s,
  stack_ok (next :: stack) ->
  fst (inner fast sc f next stack s) = dfs fast sc f (next ++ concat stack) s /\
  (oof (fst (inner fast sc f next stack s)) = false -> all_nil (snd (inner fast sc f next stack s))).
Proof.
  induction f as [|f IH]; intros next stack s H.
  - cbn. split; [reflexivity|discriminate].
  - destruct next as [|event rest].
    + cbn [inner fst snd]. destruct H as [Hn Hs]. rewrite (all_nil_concat _ (Hn eq_refl)). cbn.
      split; [reflexivity|intros _; exact (Hn eq_refl)].
    + cbn [inner]. destruct H as [_ Hs]. pose proof (pop_spec rest stack Hs) as P.
      destruct (pop_if_empty rest stack) as [n1 s1]. destruct P as [E Ok].
      cbn [app dfs]. rewrite <- E.
      destruct (evq (process fast sc event s)) as [|q0 q] eqn:Q.
      * rewrite (set_evq_nil_id _ Q). cbn [app]. apply IH. exact Ok.
      * specialize (IH (q0 :: q) (n1 :: s1) (set_evq [] (process fast sc event s))).
        cbn [concat] in IH. apply IH. apply push_ok; [discriminate|exact Ok].
Qed.

Lemma dfs_evq_nil fast sc f : forall pending s, evq s = [] -> evq (dfs fast sc f pending s) = [].
Proof.
  induction f as [|f IH]; intros pending s H; cbn [dfs]; [exact H|].
  destruct pending; [exact H|]. apply IH. reflexivity.
Qed.

(* ========================================================================================== *)
(* E. fuel monotonicity; posts made during an event come before whatever was waiting            *)

Lemma dfs_mono fast sc f : forall pending s,
  oof (dfs fast sc f pending s) = false ->
  forall f', (f <= f')%nat -> dfs fast sc f' pending s = dfs fast sc f pending s.
Proof.
  induction f as [|f IH]; intros pending s H f' L.
  - cbn in H. discriminate.
  - destruct f' as [|f']; [lia|]. cbn [dfs] in *. destruct pending as [|p w]; [reflexivity|].
    apply IH; [exact H|lia].
Qed.

Lemma dfs_cons fast sc f p w s :
  dfs fast sc (S f) (p :: w) s =
  dfs fast sc f (evq (process fast sc p s) ++ w) (set_evq [] (process fast sc p s)).
Proof. reflexivity. Qed.

Lemma dfs_app fast sc f : forall a b s,
  oof (dfs fast sc f (a ++ b) s) = false ->
  dfs fast sc f (a ++ b) s = dfs fast sc f b (dfs fast sc f a s) /\ oof (dfs fast sc f a s) = false.
Proof.
  induction f as [|f IH]; intros a b s H.
  - cbn in H. discriminate.
  - destruct a as [|p a].
    + cbn [app] in *. cbn [dfs]. split; [reflexivity|].
      (* oof s = false: the flag is never reset *)
      cbn [dfs] in H. destruct b as [|q b]; [exact H|].
      clear IH. revert H. generalize (evq (process fast sc q s) ++ b). intros l H.
      assert (St : forall f l s, oof (dfs fast sc f l s) = false -> oof s = false).
      { clear. induction f as [|f IH]; intros l s H; cbn [dfs] in H.
        - cbn in H. discriminate.
        - destruct l as [|p w]; [exact H|]. apply IH in H. cbn [oof set_evq] in H.
          destruct (process_spec fast sc p s) as (o & new & _ & _ & _ & _ & _ & Ho & _). cbn zeta in Ho.
          exact (Ho H). }
      apply St in H. cbn [oof set_evq] in H.
      destruct (process_spec fast sc q s) as (o & new & _ & _ & _ & _ & _ & Ho & _). cbn zeta in Ho.
      exact (Ho H).
    + cbn [app] in *. rewrite dfs_cons in H. rewrite !dfs_cons.
      rewrite app_assoc in H. destruct (IH _ _ _ H) as [E O].
      rewrite app_assoc, E. split; [|exact O].
      symmetry. apply dfs_mono; [|lia]. now rewrite <- E.
Qed.

(* ========================================================================================== *)
(* F. process_event_queue  =  "dispatch everything transitively, then one callback, repeat"      *)

Lemma outer_drain fast sc f : forall stack s,
  all_nil stack -> outer fast sc f stack s = drain fast sc f s.
Proof.
  induction f as [|f IH]; intros stack s A; cbn [outer drain]; [reflexivity|].
  destruct (is_nil (evq s) && is_nil (cbq s)); [reflexivity|].
  destruct (is_nil (evq s)) eqn:N.
  - destruct (oof s); [reflexivity|]. destruct (cbq s) as [|[[i pid] k] rest]; apply IH; exact A.
  - assert (Ok : stack_ok (evq s :: stack)).
    { split; [|now apply all_nil_stack_ok]. intro E. rewrite E in N. discriminate. }
    destruct (inner_dfs fast sc f (evq s) stack (set_evq [] s) Ok) as [E An].
    rewrite (all_nil_concat _ A), app_nil_r in E.
    destruct (inner fast sc f (evq s) stack (set_evq [] s)) as [s1 stack1]. cbn [fst snd] in *.
    rewrite <- E. destruct (oof s1) eqn:O; [reflexivity|].
    specialize (An eq_refl). destruct (cbq s1) as [|[[i pid] k] rest]; apply IH; exact An.
Qed.

(* ========================================================================================== *)
(* G. every queued event is dispatched exactly once; every queued callback runs exactly once    *)

Definition cn (x : Z) (l : list Z) : nat := count_occ Z.eq_dec l x.
Lemma cn_app x a b : cn x (a ++ b) = (cn x a + cn x b)%nat.
Proof. apply count_occ_app. Qed.
Lemma cn_cons x a l : cn x (a :: l) = (cn x [a] + cn x l)%nat.
Proof. change (a :: l) with ([a] ++ l). apply cn_app. Qed.

Definition ids (l : list posted) : list Z := map q_id l.
Definition cid (c : Z * Z * kw) : Z := fst (fst c).
Definition cbid1 (o : obs) : list Z := match o with Callback i _ _ => [i] | _ => [] end.
Definition cbids (o : list obs) : list Z := flat_map cbid1 o.

Lemma cbids_app a b : cbids (a ++ b) = cbids a ++ cbids b.
Proof. unfold cbids. induction a as [|x a IH]; cbn; [reflexivity|]. now rewrite IH, app_assoc. Qed.

Lemma cbids_invokes e o : Forall (is_invoke e) o -> cbids o = [].
Proof.
  induction 1 as [|x o Hx _ IH]; [reflexivity|]. destruct Hx as [(k & p & m & ->)|(p & ->)]; cbn; exact IH.
Qed.
Lemma cbids_subs o : Forall is_sub o -> cbids o = [].
Proof. intro H. apply (cbids_invokes 0). now apply subs_are_seg. Qed.

Definition Inv (pending : list posted) (s : state) : Prop :=
  forall x,
    (cn x (disp s) + cn x (ids pending) + cn x (ids (evq s)) = cn x (enq s))%nat /\
    (cn x (cbids (out s)) + cn x (map cid (cbq s)) = cn x (pushed s))%nat.

Lemma Inv_init : Inv [] init.
Proof. intro x. cbn. split; reflexivity. Qed.

Lemma Inv_grows pending s s' o : hgrows s s' o -> cbids o = [] -> Inv pending s -> Inv pending s'.
Proof.
  intros (G1 & G2 & G3 & G4 & _ & new & G6 & G7) Co H x. destruct (H x) as [A B].
  rewrite G1, G2, G3, G4, G6, G7, cbids_app, Co, app_nil_r. unfold ids in *. rewrite map_app, !cn_app.
  split; lia.
Qed.

Lemma Inv_invoke pending fast sc pid s : Inv pending s -> Inv pending (fst (invoke fast sc pid s)).
Proof.
  intro H. destruct (invoke_grows fast sc pid s) as (o & G & Fo).
  eapply Inv_grows; [exact G|now apply cbids_subs|exact H].
Qed.

Lemma Inv_emit_other pending o s : cbid1 o = [] -> Inv pending s -> Inv pending (emit o s).
Proof.
  intros E H x. destruct (H x) as [A B]. cbn [out emit disp evq enq cbq pushed].
  rewrite cbids_app. cbn [cbids flat_map]. rewrite E, app_nil_r. split; assumption.
Qed.

Lemma Inv_move s : Inv [] s -> Inv (evq s) (set_evq [] s).
Proof.
  intros H x. destruct (H x) as [A B]. cbn [disp evq enq out cbq pushed set_evq ids map] in *.
  cbn [cn count_occ] in *. split; [|exact B]. unfold cn in *. cbn [count_occ] in *. lia.
Qed.

Lemma Inv_process fast sc p w s :
  Inv (p :: w) s -> Inv (evq (process fast sc p s) ++ w) (set_evq [] (process fast sc p s)).
Proof.
  intros H x. destruct (H x) as [A B].
  destruct (process_spec fast sc p s) as (o & new & P1 & P2 & P3 & P4 & P5 & _ & P7). cbn zeta in *.
  cbn [disp evq enq out cbq pushed set_evq].
  rewrite P1, P3, P4, P5, cbids_app, (cbids_invokes _ _ P2), app_nil_r.
  unfold ids in *. cbn [map] in A. rewrite cn_cons in A. rewrite !map_app, !cn_app. cbn [map].
  split.
  - change (cn x []) with 0%nat. lia.
  - destruct P7 as [(Q1 & Q2 & _)|(cb & k & _ & Q1 & Q2)]; rewrite Q1, Q2; [exact B|].
    cbn [map cid fst]. rewrite cn_cons, cn_app. lia.
Qed.

Lemma dfs_oof_sticky fast sc f : forall l s, oof (dfs fast sc f l s) = false -> oof s = false.
Proof.
  induction f as [|f IH]; intros l s H; cbn [dfs] in H.
  - cbn in H. discriminate.
  - destruct l as [|p w]; [exact H|]. apply IH in H. cbn [oof set_evq] in H.
    destruct (process_spec fast sc p s) as (o & new & _ & _ & _ & _ & _ & Ho & _). cbn zeta in Ho.
    exact (Ho H).
Qed.

Lemma Inv_dfs fast sc f : forall pending s,
  Inv pending s -> oof (dfs fast sc f pending s) = false -> Inv [] (dfs fast sc f pending s).
Proof.
  induction f as [|f IH]; intros pending s H O; cbn [dfs] in *.
  - cbn in O. discriminate.
  - destruct pending as [|p w]; [exact H|]. apply IH; [|exact O]. now apply Inv_process.
Qed.

Lemma Inv_pop i pid k rest s :
  cbq s = (i, pid, k) :: rest -> Inv [] s -> Inv [] (emit (Callback i pid k) (set_cbq rest s)).
Proof.
  intros E H x. destruct (H x) as [A B]. cbn [out emit disp evq enq cbq pushed set_cbq].
  split; [exact A|]. rewrite E in B. cbn [map cid fst] in B. rewrite cn_cons in B.
  rewrite cbids_app, cn_app. cbn [cbids flat_map cbid1 app]. lia.
Qed.

Lemma drain_complete fast sc f : forall s,
  Inv [] s -> oof (drain fast sc f s) = false ->
  Inv [] (drain fast sc f s) /\ evq (drain fast sc f s) = [] /\ cbq (drain fast sc f s) = [].
Proof.
  induction f as [|f IH]; intros s H O; cbn [drain] in *.
  - cbn in O. discriminate.
  - destruct (is_nil (evq s) && is_nil (cbq s)) eqn:N.
    + apply andb_true_iff in N as [N1 N2]. split; [exact H|].
      destruct (evq s); [|discriminate]. destruct (cbq s); [|discriminate]. split; reflexivity.
    + set (s1 := if is_nil (evq s) then s else dfs fast sc f (evq s) (set_evq [] s)) in *.
      destruct (oof s1) eqn:O1; [congruence|].
      assert (H1 : Inv [] s1).
      { subst s1. destruct (is_nil (evq s)); [exact H|]. apply Inv_dfs; [now apply Inv_move|exact O1]. }
      destruct (cbq s1) as [|[[i pid] k] rest] eqn:C; [now apply IH|].
      apply IH; [|exact O].
      apply Inv_invoke. now apply Inv_pop.
Qed.

Lemma drain_oof_sticky fast sc f : forall s, oof (drain fast sc f s) = false -> oof s = false.
Proof.
  induction f as [|f IH]; intros s O; cbn [drain] in O.
  - cbn in O. discriminate.
  - destruct (is_nil (evq s) && is_nil (cbq s)); [exact O|].
    set (s1 := if is_nil (evq s) then s else dfs fast sc f (evq s) (set_evq [] s)) in *.
    assert (K : oof s1 = false -> oof s = false).
    { subst s1. destruct (is_nil (evq s)); [auto|]. intro K. now apply dfs_oof_sticky in K. }
    destruct (oof s1) eqn:O1; [congruence|].
    auto.
Qed.

Lemma Inv_frame pending s s' :
  disp s' = disp s -> evq s' = evq s -> enq s' = enq s -> out s' = out s -> cbq s' = cbq s -> pushed s' = pushed s ->
  Inv pending s -> Inv pending s'.
Proof. intros E1 E2 E3 E4 E5 E6 H x. rewrite E1, E2, E3, E4, E5, E6. apply H. Qed.

Lemma ctx_complete fast sc f pid s :
  Inv [] s -> oof (ctx fast sc f pid s) = false ->
  Inv [] (ctx fast sc f pid s) /\ evq (ctx fast sc f pid s) = [] /\ cbq (ctx fast sc f pid s) = [].
Proof.
  intros H O. unfold ctx in *.
  rewrite (outer_drain fast sc f [] _ (Forall_nil _)) in *.
  apply drain_complete; [|exact O].
  apply Inv_invoke. apply Inv_emit_other; [reflexivity|]. unfold quiet. now apply Inv_emit_other.
Qed.

Lemma ctx_oof_sticky fast sc f pid s : oof (ctx fast sc f pid s) = false -> oof s = false.
Proof.
  unfold ctx. rewrite (outer_drain fast sc f [] _ (Forall_nil _)). intro O.
  apply drain_oof_sticky in O.
  destruct (invoke_grows fast sc pid (emit (Ctx pid) (quiet s))) as (o & (_ & _ & _ & _ & G & _) & _).
  exact (G O).
Qed.

(* every context - scripted or an expiring delay - leaves both queues empty: whatever it posted (transitively, including
   the completion callbacks and what they post) is dispatched before the next callback of the loop runs *)
Lemma turn_complete fast sc f t s :
  Inv [] s -> evq s = [] -> cbq s = [] -> oof (turn fast sc f t s) = false ->
  Inv [] (turn fast sc f t s) /\ evq (turn fast sc f t s) = [] /\ cbq (turn fast sc f t s) = [].
Proof.
  intros H E C O. destruct t as [pid|n]; cbn [turn] in *.
  - now apply ctx_complete.
  - destruct (assoc n (dly s)) as [pid|].
    + apply ctx_complete; [|exact O]. exact (Inv_frame [] s _ eq_refl eq_refl eq_refl eq_refl eq_refl eq_refl H).
    + split; [now apply Inv_emit_other|]. split; assumption.
Qed.

Lemma turn_oof_sticky fast sc f t s : oof (turn fast sc f t s) = false -> oof s = false.
Proof.
  destruct t as [pid|n]; cbn [turn].
  - apply ctx_oof_sticky.
  - destruct (assoc n (dly s)) as [pid|]; [|auto]. intro O. now apply ctx_oof_sticky in O.
Qed.

Lemma run_turns_oof_sticky fast sc f turns : forall s,
  oof (run_turns fast sc f turns s) = false -> oof s = false.
Proof.
  unfold run_turns. induction turns as [|pid ts IH]; intros s O; cbn [fold_left] in O; [exact O|].
  apply IH in O. now apply turn_oof_sticky in O.
Qed.

Lemma run_turns_complete fast sc f turns : forall s,
  Inv [] s -> evq s = [] -> cbq s = [] -> oof (run_turns fast sc f turns s) = false ->
  Inv [] (run_turns fast sc f turns s) /\ evq (run_turns fast sc f turns s) = [] /\
  cbq (run_turns fast sc f turns s) = [].
Proof.
  induction turns as [|pid ts IH]; intros s H E C O.
  - cbn. auto.
  - change (run_turns fast sc f (pid :: ts) s) with (run_turns fast sc f ts (turn fast sc f pid s)) in *.
    pose proof (run_turns_oof_sticky _ _ _ _ _ O) as O1.
    destruct (turn_complete fast sc f pid s H E C O1) as (I1 & E1 & C1).
    now apply IH.
Qed.

Lemma every_event_once_l fast sc f turns :
  let s := run_turns fast sc f turns init in
  oof s = false ->
  Permutation (disp s) (enq s) /\ Permutation (cbids (out s)) (pushed s) /\ evq s = [] /\ cbq s = [].
Proof.
  cbn zeta. intro O.
  destruct (run_turns_complete fast sc f turns init Inv_init eq_refl eq_refl O) as (I & E & C).
  repeat split; try assumption.
  - apply (Permutation_count_occ Z.eq_dec). intro x. destruct (I x) as [A _]. rewrite E in A.
    unfold cn in A. cbn in A. lia.
  - apply (Permutation_count_occ Z.eq_dec). intro x. destruct (I x) as [_ B]. rewrite C in B.
    unfold cn in B. cbn in B. lia.
Qed.

(* ========================================================================================== *)
(* H. ordering statements on the specification                                                  *)

Lemma posts_before_waiting_l fast sc f p waiting s :
  oof (dfs fast sc (S f) (p :: waiting) s) = false ->
  let s1 := process fast sc p s in
  dfs fast sc (S f) (p :: waiting) s =
    dfs fast sc f waiting (dfs fast sc f (evq s1) (set_evq [] s1)) /\
  oof (dfs fast sc f (evq s1) (set_evq [] s1)) = false.
Proof.
  intro O. cbn zeta. rewrite dfs_cons in *. now apply dfs_app.
Qed.

(* during the dispatch of pending events (and everything they post) only handlers run: no
   completion callback runs and every queued callback stays queued *)
Lemma dfs_only_invokes fast sc f : forall pending s,
  exists o l, out (dfs fast sc f pending s) = out s ++ o /\ cbids o = [] /\
              cbq (dfs fast sc f pending s) = l ++ cbq s.
Proof.
  induction f as [|f IH]; intros pending s; cbn [dfs].
  - exists [], []. cbn. now rewrite app_nil_r.
  - destruct pending as [|p w].
    + exists [], []. cbn. now rewrite app_nil_r.
    + destruct (IH (evq (process fast sc p s) ++ w) (set_evq [] (process fast sc p s))) as (o & l & A & B & C).
      destruct (process_spec fast sc p s) as (o1 & new & P1 & P2 & _ & _ & _ & _ & P7). cbn zeta in *.
      cbn [out cbq set_evq] in A, C.
      exists (o1 ++ o). rewrite A, P1, C, cbids_app, (cbids_invokes _ _ P2), B, <- app_assoc.
      destruct P7 as [(Q1 & _)|(cb & k & _ & Q1 & _)]; rewrite Q1.
      * exists l. repeat split.
      * exists (l ++ [(q_id p, cb, k)]). rewrite <- app_assoc. repeat split.
Qed.

(* the callback of p is still waiting when p and everything p transitively posted is done *)
Lemma callback_after_closure_l fast sc f p cb s :
  q_cb p = Some cb -> q_ty p <> TQueue ->
  exists k l o, cbq (dfs fast sc (S f) [p] s) = l ++ (q_id p, cb, k) :: cbq s /\
                out (dfs fast sc (S f) [p] s) = out s ++ o /\ cbids o = [].
Proof.
  intros Q NQ. rewrite dfs_cons.
  destruct (dfs_only_invokes fast sc f (evq (process fast sc p s) ++ []) (set_evq [] (process fast sc p s)))
    as (o & l & A & B & C).
  destruct (process_spec fast sc p s) as (o1 & new & P1 & P2 & _ & _ & _ & _ & P7). cbn zeta in *.
  cbn [out cbq set_evq] in A, C.
  destruct P7 as [(_ & _ & [Q0|Q0])|(cb' & k & Q0 & Q1 & _)]; [congruence|contradiction|].
  assert (cb' = cb) by congruence; subst cb'.
  exists k, l, (o1 ++ o). rewrite C, Q1, A, P1, cbids_app, (cbids_invokes _ _ P2), B, <- app_assoc.
  repeat split.
Qed.

(* handlers of one dispatch (plain event): exactly the snapshot that is registered when the dispatch
   begins, in descending priority with ties in registration order, each once, handler kwargs winning *)
Lemma handlers_once_l fast sc p s :
  script_plain sc = true -> reg_ok s -> q_ty p = TNone ->
  let snap := snapshot (q_ev p) s in
  (exists o, out (process fast sc p s) = out s ++ o /\ Forall (is_invoke (q_ev p)) o /\
             invokes o = expected_invocations (q_ev p) (q_kw p) snap) /\
  sorted_ps snap /\ NoDup snap.
Proof.
  intros SP R T. cbn zeta. split.
  { destruct (process_plain fast sc p s SP T) as (o & E & I). exists o. split; [exact E|]. split; [|exact I].
    destruct (process_spec fast sc p s) as (o' & new & P1 & P2 & _). cbn zeta in P1.
    rewrite P1 in E. apply app_inv_head in E. now subst o'. }
  unfold snapshot. destruct (reg_get (q_ev p) (reg s)) as [l|] eqn:G.
  - destruct (reg_ok_get _ _ _ R G) as [S _]. split; [exact S|now apply sorted_ps_NoDup].
  - split; constructor.
Qed.

(* any event type: only handlers of that event run during its dispatch (no nesting, no interleaving) *)
Lemma dispatch_is_segment_l fast sc p s :
  exists o, out (process fast sc p s) = out s ++ o /\ Forall (is_invoke (q_ev p)) o.
Proof.
  destruct (process_spec fast sc p s) as (o & new & P1 & P2 & _). cbn zeta in *. eauto.
Qed.

(* the registry invariant holds in every state a run goes through *)
Lemma ctx_ok fast sc f pid s : reg_ok s -> reg_ok (ctx fast sc f pid s).
Proof.
  intro H. unfold ctx. rewrite (outer_drain fast sc f [] _ (Forall_nil _)).
  apply drain_ok. apply invoke_ok. apply (reg_ok_eq s); [reflexivity|reflexivity|exact H].
Qed.

Lemma turn_ok fast sc f t s : reg_ok s -> reg_ok (turn fast sc f t s).
Proof.
  intro H. destruct t as [pid|n]; cbn [turn]; [now apply ctx_ok|].
  destruct (assoc n (dly s)); [|exact (reg_ok_eq s _ eq_refl eq_refl H)].
  apply ctx_ok. exact (reg_ok_eq s _ eq_refl eq_refl H).
Qed.

Lemma run_turns_ok fast sc f turns : forall s, reg_ok s -> reg_ok (run_turns fast sc f turns s).
Proof.
  unfold run_turns. induction turns as [|pid ts IH]; intros s H; cbn [fold_left]; [exact H|].
  apply IH. now apply turn_ok.
Qed.

(* add_handler on a sorted list = insert behind every handler of greater or equal priority *)
Lemma add_handler_stable_l key e pid prio hk c bf s :
  reg_ok s ->
  snapshot e (add_handler key e pid prio hk c bf s) =
    place (mkH key pid prio (kw_norm hk) c bf (nseq s)) (snapshot e s).
Proof.
  intro R. unfold snapshot, add_handler. cbn [reg set_reg]. rewrite reg_get_put_same.
  destruct (reg_get e (reg s)) as [l|] eqn:G.
  - destruct (reg_ok_get _ _ _ R G) as [S _]. now apply sort_app_last.
  - reflexivity.
Qed.

Lemma place_split h l :
  exists a b, l = a ++ b /\ place h l = a ++ h :: b /\
              Forall (fun x => h_prio h <= h_prio x) a /\
              match b with [] => True | y :: _ => h_prio y < h_prio h end.
Proof.
  induction l as [|y t IH]; cbn [place].
  - exists [], []. repeat split. constructor.
  - destruct (h_prio y <? h_prio h) eqn:E.
    + apply Z.ltb_lt in E. exists [], (y :: t). repeat split; [constructor|exact E].
    + apply Z.ltb_ge in E. destruct IH as (a & b & E1 & E2 & F & M).
      exists (y :: a), b. rewrite E1 at 1. rewrite E2. repeat split; [constructor; assumption|exact M].
Qed.

(* ========================================================================================== *)
(* I. the fast path of _post is observable (recorded finding)                                    *)

Definition fp_script : script :=
  [(1, [mkP [APost 1 TNone None []; AAdd 1 1 2 1 0 0 [] None 0] RNone])].

Lemma fastpath_drop_refuted_l :
  let s := run_turns true fp_script 10 [TRun 1] init in
  let s' := run_turns false fp_script 10 [TRun 1] init in
  oof s = false /\ oof s' = false /\
  map h_key (snapshot 1 s) = [1] /\                 (* the handler is registered when the queue is drained *)
  In (Invoke 1 2 1 []) (out s') /\ ~ In (Invoke 1 2 1 []) (out s).
Proof.
  vm_compute. repeat split; auto.
  intros [H|[H|[]]]; discriminate.
Qed.

Lemma post_enqueues_iff fast e ty cb k s :
  enq (post fast e ty cb k s) = enq s ++ [npost s] <->
  ~ (fast = true /\ cb = None /\ reg_get e (reg s) = None).
Proof.
  unfold post. cbn [reg bump_post].
  destruct fast, cb, (reg_get e (reg s)); cbn; split; intro H; try reflexivity;
    try (intros (A & B & C); discriminate).
  - exfalso. assert (L : length (enq s) = length (enq s ++ [npost s])) by now rewrite <- H.
    rewrite app_length in L. cbn in L. lia.
  - exfalso. apply H. auto.
Qed.

(* ========================================================================================== *)
(* J. the hypotheses are satisfiable: a three-level posting tree with equal priorities, a removal
      during dispatch and a callback                                                            *)

Definition ex_script : script :=
  [ (10, [mkP [AAdd 1 1 1 1 0 0 [] None 0; AAdd 2 1 2 1 0 0 [(1, VZ 7)] None 0; AAdd 3 1 3 2 0 0 [] None 0;
               AAdd 4 2 4 1 0 0 [] None 0; AAdd 5 3 5 1 0 0 [] None 0;
               APost 1 TNone (Some 20) [(1, VZ 1)]; APost 3 TNone None []] RNone]);
    (3, [mkP [APost 2 TNone None []; ARemove 2] RNone]);
    (4, [mkP [APost 3 TNone None [(2, VB true)]] RNone]) ].

Example ex_run :
  let s := run_turns true ex_script 50 [TRun 10] init in
  oof s = false /\
  out s = [Quiet 0 0; Ctx 10;
           Invoke 3 3 1 [(1, VZ 1)]; Invoke 1 1 1 [(1, VZ 1)]; Invoke 2 2 1 [(1, VZ 7)];
           Invoke 4 4 2 [];
           Invoke 5 5 3 [(2, VB true)];
           Invoke 5 5 3 [];
           Callback 0 20 [(1, VZ 1)]] /\ evq s = [] /\ cbq s = [].
Proof. vm_compute. repeat split; reflexivity. Qed.

Definition ex_state : state := run_turns true ex_script 50 [TRun 10] init.
Definition ex_post : posted := mkQ 100 1 TNone None [(3, VB false)].

(* hypotheses of handlers_once: a reachable state with a non-trivial snapshot (handler 2 was removed) *)
Example ex_handlers_hyp :
  reg_ok ex_state /\ q_ty ex_post = TNone /\ map h_key (snapshot (q_ev ex_post) ex_state) = [3; 1].
Proof. split; [apply run_turns_ok, reg_ok_init|]. vm_compute. split; reflexivity. Qed.

(* hypotheses of no_event_lost / dispatch_refines_dfs: a stack with empty deques at the bottom; the run completes *)
Example ex_stack_hyp :
  stack_ok ([ex_post] :: [[ex_post; ex_post]; []; []]) /\
  oof (fst (inner true ex_script 50 [ex_post] [[ex_post; ex_post]; []; []] ex_state)) = false.
Proof.
  split; [|vm_compute; reflexivity].
  cbn. repeat split; try discriminate; intros; repeat constructor.
Qed.

(* hypotheses of posts_before_waiting: an event that posts, with an event already waiting *)
Example ex_waiting_hyp :
  let s := fst (invoke true ex_script 10 (emit (Ctx 10) init)) in
  match evq s with
  | p :: waiting => waiting <> [] /\ oof (dfs true ex_script 50 (p :: waiting) (set_evq [] s)) = false /\
                    evq (process true ex_script p (set_evq [] s)) <> []
  | [] => False
  end.
Proof. vm_compute. repeat split; discriminate. Qed.

Lemma stack_invariant_preserved_l :
  forall rest stack (new : list posted), stack_ok stack ->
    let '(n1, s1) := pop_if_empty rest stack in
    n1 ++ concat s1 = rest ++ concat stack /\ stack_ok (n1 :: s1) /\
    (new <> [] -> stack_ok (new :: n1 :: s1)).
Proof.
  intros rest stack new H. pose proof (pop_spec rest stack H) as P.
  destruct (pop_if_empty rest stack) as [n1 s1]. destruct P as [E Ok].
  split; [exact E|]. split; [exact Ok|]. intro N. now apply push_ok.
Qed.

Lemma registry_sorted_invariant_l : forall fast sc f turns, reg_ok (run_turns fast sc f turns init).
Proof. intros. apply run_turns_ok. exact reg_ok_init. Qed.

Lemma add_handler_is_stable_insert_l :
  forall key e pid prio hk c bf s, reg_ok s ->
    let h := mkH key pid prio (kw_norm hk) c bf (nseq s) in
    exists a b, snapshot e s = a ++ b /\
                snapshot e (add_handler key e pid prio hk c bf s) = a ++ h :: b /\
                Forall (fun x => h_prio h <= h_prio x) a /\
                match b with [] => True | y :: _ => h_prio y < h_prio h end.
Proof.
  intros key e pid prio hk c bf s R h. rewrite (add_handler_stable_l key e pid prio hk c bf s R).
  apply place_split.
Qed.

Example ex_add_hyp :
  reg_ok ex_state /\ map h_key (snapshot 1 ex_state) = [3; 1] /\
  map h_key (snapshot 1 (add_handler 9 1 1 2 [] None 0 ex_state)) = [3; 9; 1].
Proof. split; [apply run_turns_ok, reg_ok_init|]. vm_compute. split; reflexivity. Qed.

(* the same procedure registered three times for one event (adjacent, equal priority) and once for another *)
Definition rm_state : state :=
  run_acts true (fun _ s => s) [AAdd 1 1 7 1 0 0 [] None 0; AAdd 2 1 7 1 0 0 [] None 0; AAdd 3 1 7 1 0 0 [] None 0;
                 AAdd 4 1 8 1 0 0 [] None 0; AAdd 5 2 7 1 0 0 [] None 0] init.
Example ex_remove_method :
  map h_key (snapshot 1 rm_state) = [1; 2; 3; 4] /\
  map h_key (snapshot 1 (remove_by_method 7 rm_state)) = [4] /\
  reg_get 2 (reg (remove_by_method 7 rm_state)) = None.
Proof. vm_compute. repeat split. Qed.

(* ========================================================================================== *)
(* K. round 2: contexts are drained; _min_priority; inline calls; queue events                  *)

Lemma drain_quiet fast sc f : forall s,
  oof (drain fast sc f s) = false -> evq (drain fast sc f s) = [] /\ cbq (drain fast sc f s) = [].
Proof.
  induction f as [|f IH]; intros s O; cbn [drain] in *.
  - cbn in O. discriminate.
  - destruct (is_nil (evq s) && is_nil (cbq s)) eqn:N.
    + apply andb_true_iff in N as [N1 N2].
      destruct (evq s); [|discriminate]. destruct (cbq s); [|discriminate]. split; reflexivity.
    + set (s1 := if is_nil (evq s) then s else dfs fast sc f (evq s) (set_evq [] s)) in *.
      destruct (oof s1) eqn:O1; [congruence|].
      destruct (cbq s1) as [|[[i pid] k] rest] eqn:C; now apply IH.
Qed.

(* a context whose run completes leaves event_queue and callback_queue empty, whatever state it started in and whatever
   its program and the handlers it reaches do *)
Lemma ctx_drained_l fast sc f pid s :
  oof (ctx fast sc f pid s) = false -> evq (ctx fast sc f pid s) = [] /\ cbq (ctx fast sc f pid s) = [].
Proof. unfold ctx. rewrite (outer_drain fast sc f [] _ (Forall_nil _)). apply drain_quiet. Qed.

Lemma turn_drained_l fast sc f t s :
  evq s = [] -> cbq s = [] -> oof (turn fast sc f t s) = false ->
  evq (turn fast sc f t s) = [] /\ cbq (turn fast sc f t s) = [].
Proof.
  intros E C O. destruct t as [pid|n]; cbn [turn] in *; [now apply ctx_drained_l|].
  destruct (assoc n (dly s)); [now apply ctx_drained_l|]. split; assumption.
Qed.

(* an expiring delay: the entry is dropped before the callback runs; the Quiet / Ctx observations come first *)
Lemma fire_spec_l fast sc f n pid s :
  assoc n (dly s) = Some pid ->
  turn fast sc f (TFire n) s = ctx fast sc f pid (set_dly (dly_del n (dly s)) s).
Proof. intro A. cbn [turn]. now rewrite A. Qed.

(* --- _min_priority ------------------------------------------------------------------------- *)

Lemma blocked_no_key kwargs h : kw_get KEY_MINPRIO kwargs = None -> blocked kwargs h = false.
Proof. unfold blocked. now intros ->. Qed.

Lemma blocked_no_facility kwargs h : h_bf h = 0 -> blocked kwargs h = false.
Proof. unfold blocked. intros ->. destruct (kw_get KEY_MINPRIO kwargs) as [[]|]; reflexivity. Qed.

Lemma blocked_iff kwargs h m :
  kw_get KEY_MINPRIO kwargs = Some (VMap m) ->
  (blocked kwargs h = true <->
   h_bf h <> 0 /\ ((exists a, zz_get 0 m = Some a /\ h_prio h < a) \/
                   (exists a, zz_get (h_bf h) m = Some a /\ h_prio h < a))).
Proof.
  unfold blocked. intros ->. rewrite andb_true_iff, orb_true_iff, negb_true_iff, Z.eqb_neq.
  split; intros [A B]; (split; [exact A|]).
  - destruct B as [B|B]; [left|right].
    + destruct (zz_get 0 m) as [a|]; [|discriminate]. exists a. split; [reflexivity|now apply Z.ltb_lt].
    + destruct (zz_get (h_bf h) m) as [a|]; [|discriminate]. exists a. split; [reflexivity|now apply Z.ltb_lt].
  - destruct B as [(a & -> & L)|(a & -> & L)]; [left|right]; now apply Z.ltb_lt.
Qed.

(* without a posted _min_priority (or for handlers without facility) the dispatch is what it was *)
Lemma expected_without_min_priority e kwargs hs :
  kw_get KEY_MINPRIO kwargs = None ->
  expected_invocations e kwargs hs =
  map (fun h => Invoke (h_key h) (h_pid h) e (merge kwargs (h_kw h)))
      (filter (fun h => cond_holds (h_cond h) (merge kwargs (h_kw h))) hs).
Proof.
  intro N. unfold expected_invocations. f_equal. apply filter_ext. intro h.
  now rewrite (blocked_no_key _ _ N).
Qed.

(* --- queue events -------------------------------------------------------------------------- *)

Definition expected_queue (e : Z) (kwargs : kw) (hs : list handler) : list obs :=
  map (fun h => Invoke (h_key h) (h_pid h) e (kw_update kwargs (h_kw h)))
      (filter (fun h => cond_holds (h_cond h) (kw_update kwargs (h_kw h))) hs).

Definition rest_of (r : option (list handler)) : list handler := match r with Some l => l | None => [] end.

Lemma run_seq_spec fast sc e hs : forall kwargs s,
  exists o, hgrows s (fst (run_seq fast sc e hs kwargs s)) o /\ Forall (is_invoke e) o /\
            invokes o ++ expected_queue e kwargs (rest_of (snd (run_seq fast sc e hs kwargs s))) =
            expected_queue e kwargs hs.
Proof.
  induction hs as [|h tl IH]; intros kwargs s.
  - exists []. split; [apply hgrows_refl|]. split; [constructor|reflexivity].
  - unfold expected_queue at 2. cbn [run_seq filter].
    destruct (cond_holds (h_cond h) (kw_update kwargs (h_kw h))) eqn:CH; [|apply IH].
    cbn [map]. fold (expected_queue e kwargs tl).
    set (ob := Invoke (h_key h) (h_pid h) e (kw_update kwargs (h_kw h))).
    destruct (invoke_grows fast sc (h_pid h) (emit ob s)) as (oi & G & Fi).
    destruct (invoke fast sc (h_pid h) (emit ob s)) as [s2 r2]. cbn [fst] in G.
    assert (G2 : hgrows s s2 ([ob] ++ oi)).
    { eapply hgrows_trans; [apply emit_grows|exact G]. }
    assert (Hob : Forall (is_invoke e) ([ob] ++ oi)).
    { constructor; [left; subst ob; eauto|now apply subs_are_seg]. }
    assert (Iob : invokes ([ob] ++ oi) = [ob]).
    { rewrite invokes_app, (invokes_subs _ Fi). reflexivity. }
    assert (K : exists o, hgrows s (fst (run_seq fast sc e tl kwargs s2)) o /\ Forall (is_invoke e) o /\
              invokes o ++ expected_queue e kwargs (rest_of (snd (run_seq fast sc e tl kwargs s2))) =
              ob :: expected_queue e kwargs tl).
    { destruct (IH kwargs s2) as (o & Go & Fo & Eo). exists (([ob] ++ oi) ++ o). split.
      - eapply hgrows_trans; eassumption.
      - split; [apply Forall_app; split; assumption|].
        rewrite invokes_app, Iob. cbn [app]. now rewrite Eo. }
    destruct r2; try exact K.
    cbn [fst snd rest_of]. exists ([ob] ++ oi). split; [exact G2|]. split; [exact Hob|].
    rewrite Iob. reflexivity.
Qed.

(* one step of a queue event's task.  It dispatches nothing and touches no queued callback.  If it ends in a wait, no
   callback ran and the handlers called so far followed by what is still to do are exactly the handlers of the list
   (each once, in list order, handler kwargs winning, condition on the merged kwargs).  If it ends the task, all
   remaining handlers were called and THEN the callback ran - once, with the posted kwargs. *)
Lemma task_step_spec fast sc tk s :
  let hs := match t_todo tk with Some l => l | None => snapshot (t_ev tk) s end in
  let s' := fst (task_step fast sc tk s) in
  disp s' = disp s /\ cbq s' = cbq s /\
  exists o, Forall (is_invoke (t_ev tk)) o /\
    match snd (task_step fast sc tk s) with
    | Some tk' =>
        out s' = out s ++ o /\ t_wait tk' = true /\ t_id tk' = t_id tk /\ t_ev tk' = t_ev tk /\
        t_cb tk' = t_cb tk /\ t_kw tk' = t_kw tk /\
        exists tl, t_todo tk' = Some tl /\
                   invokes o ++ expected_queue (t_ev tk) (t_kw tk) tl = expected_queue (t_ev tk) (t_kw tk) hs
    | None =>
        invokes o = expected_queue (t_ev tk) (t_kw tk) hs /\
        match t_cb tk with
        | Some cb => exists o2, out s' = out s ++ o ++ Callback (t_id tk) cb (t_kw tk) :: o2 /\ Forall is_sub o2
        | None => out s' = out s ++ o
        end
    end.
Proof.
  cbn zeta. unfold task_step, snapshot.
  set (hs := match t_todo tk with Some l => l | None => match reg_get (t_ev tk) (reg s) with Some l => l | None => [] end end).
  destruct (run_seq_spec fast sc (t_ev tk) hs (t_kw tk) s) as (o & (G1 & G2 & G3 & G4 & G5 & new & G6 & G7) & Fo & Eo).
  destruct (run_seq fast sc (t_ev tk) hs (t_kw tk) s) as [s1 [tl|]]; cbn [fst snd rest_of] in *.
  - split; [exact G4|]. split; [exact G2|]. exists o. split; [exact Fo|]. cbn.
    repeat split; try assumption. exists tl. split; [reflexivity|exact Eo].
  - unfold expected_queue at 1 in Eo. cbn [filter map] in Eo. rewrite app_nil_r in Eo.
    unfold finish_task. destruct (t_cb tk) as [cb|].
    + destruct (invoke_grows fast sc cb (emit (Callback (t_id tk) cb (t_kw tk)) (mark_pushed (t_id tk) s1)))
        as (o2 & (H1 & H2 & H3 & H4 & _) & F2).
      cbn [out cbq disp emit mark_pushed] in *.
      split; [now rewrite H4|]. split; [now rewrite H2|]. exists o. split; [exact Fo|]. split; [exact Eo|].
      exists o2. split; [|exact F2]. rewrite H1, G1, <- !app_assoc. reflexivity.
    + split; [exact G4|]. split; [exact G2|]. exists o. split; [exact Fo|]. split; [exact Eo|exact G1].
Qed.

(* ========================================================================================== *)
(* L. round 2 examples                                                                          *)

(* a handler that hurries a pending delay (run_now) whose callback posts, while its own event has a handler left and an
   ancestor event has a completion callback:
     "top" (cb 20) -> handler 1 posts "outer"; "outer": handler 2 (prio 2) posts "child" and calls run_now(7), whose
     callback (procedure 9) posts "from_delay"; handler 3 (prio 1) of "outer" runs NEXT; then child, from_delay, and only
     then the callback of "top" *)
Definition rn_script : script :=
  [ (10, [mkP [AAdd 1 1 1 1 0 0 [] None 0; AAdd 2 2 2 2 0 0 [] None 0; AAdd 3 2 3 1 0 0 [] None 0;
               AAdd 4 3 4 1 0 0 [] None 0; AAdd 5 4 5 1 0 0 [] None 0;
               ADelayAdd 7 9; APost 1 TNone (Some 20) []] RNone]);
    (1, [mkP [APost 2 TNone None []] RNone]);
    (2, [mkP [APost 3 TNone None []; ARunNow 7; ARunNow 7] RNone]);
    (9, [mkP [APost 4 TNone None []] RNone]) ].

Example ex_run_now :
  let s := run_turns true rn_script 50 [TRun 10; TFire 7] init in
  oof s = false /\ dly s = [] /\
  out s = [Quiet 0 0; Ctx 10; Invoke 1 1 1 []; Invoke 2 2 2 []; Sub 9; Invoke 3 3 2 []; Invoke 4 4 3 [];
           Invoke 5 5 4 []; Callback 0 20 []; Ctx (-1)].
Proof. vm_compute. repeat split; reflexivity. Qed.

(* a posted _min_priority {'all': 2, facility 1: 5}: handlers with a facility and a priority below the minimum are
   skipped, handlers without facility are not *)
Definition mp_script : script :=
  [ (10, [mkP [AAdd 1 1 1 6 0 0 [] None 1; AAdd 2 1 2 4 0 0 [] None 1; AAdd 3 1 3 3 0 0 [] None 2;
               AAdd 4 1 4 1 0 0 [] None 2; AAdd 5 1 5 0 0 0 [] None 0;
               APost 1 TNone None [(KEY_MINPRIO, VMap [(0, 2); (1, 5)])]] RNone]) ].
Example ex_min_priority :
  let s := run_turns true mp_script 50 [TRun 10] init in
  oof s = false /\
  out s = [Quiet 0 0; Ctx 10; Invoke 1 1 1 [(KEY_MINPRIO, VMap [(0, 2); (1, 5)])];
           Invoke 3 3 1 [(KEY_MINPRIO, VMap [(0, 2); (1, 5)])]; Invoke 5 5 1 [(KEY_MINPRIO, VMap [(0, 2); (1, 5)])]].
Proof. vm_compute. repeat split; reflexivity. Qed.

(* the way MPF uses it (block_event_player, shot): the handler of the highest priority RETURNS {'_min_priority': {'all': 3}};
   the handlers that follow in the same dispatch and have a facility and a priority below 3 are skipped *)
Definition mpr_script : script :=
  [ (10, [mkP [AAdd 1 1 1 6 0 0 [] None 1; AAdd 2 1 2 4 0 0 [] None 1; AAdd 3 1 3 2 0 0 [] None 2;
               AAdd 4 1 4 1 0 0 [] None 0;
               APost 1 TNone (Some 20) []] RNone]);
    (1, [mkP [] (RMinPrio [(0, 3)])]) ].
Example ex_min_priority_ret :
  let s := run_turns true mpr_script 50 [TRun 10] init in
  oof s = false /\ script_plain mpr_script = false /\
  out s = [Quiet 0 0; Ctx 10; Invoke 1 1 1 []; Invoke 2 2 1 [(KEY_MINPRIO, VMap [(0, 3)])];
           Invoke 4 4 1 [(KEY_MINPRIO, VMap [(0, 3)])]; Callback 0 20 [(KEY_MINPRIO, VMap [(0, 3)])]].
Proof. vm_compute. repeat split; reflexivity. Qed.

(* a queue event with three handlers; the second waits; a later context clears the wait; handler kwargs win *)
Definition q_script : script :=
  [ (10, [mkP [AAdd 1 1 1 3 0 0 [(1, VZ 7)] None 0; AAdd 2 1 2 2 0 0 [] None 0; AAdd 3 1 3 1 0 0 [] (Some (1, 1)) 0;
               AAdd 4 2 4 1 0 0 [] None 0;
               APost 1 TQueue (Some 20) [(1, VZ 1); (2, VZ 2)]] RNone]);
    (1, [mkP [APost 2 TNone None []] RNone]);
    (2, [mkP [] RWait]);
    (11, [mkP [AClear] RNone]) ].
Example ex_queue :
  let s := qrun_turns true q_script 50 [TRun 10; TRun 11] init in
  oof s = false /\ tasks s = [] /\
  out s = [Quiet 0 0; Ctx 10; Invoke 1 1 1 [(1, VZ 7); (2, VZ 2)]; Invoke 2 2 1 [(1, VZ 1); (2, VZ 2)];
           Invoke 4 4 2 [];
           Quiet 0 0; Ctx 11; Invoke 3 3 1 [(1, VZ 1); (2, VZ 2)]; Callback 0 20 [(1, VZ 1); (2, VZ 2)]].
Proof. vm_compute. repeat split; reflexivity. Qed.

Definition q_task : qtask := mkT 0 1 (Some 20) [(1, VZ 1); (2, VZ 2)] None false.
Example ex_task_step_hyp :
  let s := fst (invoke true q_script 10 init) in
  map h_key (snapshot 1 s) = [1; 2; 3] /\
  match snd (task_step true q_script q_task s) with Some tk' => map h_key (rest_of (t_todo tk')) = [3] | None => False end.
Proof. vm_compute. split; reflexivity. Qed.
