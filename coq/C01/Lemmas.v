(* C01/Lemmas.v — proofs about the model of the event bus (Model.v). *)
From Common Require Import Prelude.
From Coq Require Import Sorting.Sorted Sorting.Permutation.
From C01 Require Import Model.
Open Scope Z_scope.

(* ========================================================================================== *)
(* A. add_handler: append + stable descending sort = insertion behind every handler of greater or
      equal priority                                                                             *)

(* a comes strictly before b: greater priority, or equal priority and registered earlier *)
Definition hbefore (a b : handler) : Prop :=
  h_prio a > h_prio b \/ (h_prio a = h_prio b /\ h_seq a < h_seq b).
Definition sorted_ps (l : list handler) : Prop := StronglySorted hbefore l.

(* where a new registration ends up *)
Fixpoint place (h : handler) (l : list handler) : list handler :=
  match l with
  | [] => [h]
  | y :: t => if h_prio y <? h_prio h then h :: y :: t else y :: place h t
  end.

Lemma hbefore_prio a b : hbefore a b -> h_prio b <= h_prio a.
Proof. unfold hbefore; lia. Qed.

Lemma insert_desc_head a m :
  match m with [] => True | z :: _ => h_prio z <= h_prio a end -> insert_desc a m = a :: m.
Proof.
  destruct m as [|z m]; cbn; [reflexivity|]. intro H.
  destruct (h_prio z <=? h_prio a) eqn:E; [reflexivity|]. apply Z.leb_gt in E. lia.
Qed.

Lemma place_head h l a :
  h_prio h <= h_prio a -> Forall (hbefore a) l ->
  match place h l with [] => True | z :: _ => h_prio z <= h_prio a end.
Proof.
  intros Hh Hl. destruct l as [|y t]; cbn; [exact Hh|].
  destruct (h_prio y <? h_prio h); [exact Hh|]. inversion Hl; subst. now apply hbefore_prio.
Qed.

Lemma place_all_smaller h l :
  Forall (fun x => h_prio x < h_prio h) l -> place h l = h :: l.
Proof.
  destruct l as [|y t]; cbn; [reflexivity|]. intro H. inversion H; subst.
  destruct (h_prio y <? h_prio h) eqn:E; [reflexivity|]. apply Z.ltb_ge in E. lia.
Qed.

Lemma sort_app_last h l :
  sorted_ps l -> sort_desc (l ++ [h]) = place h l.
Proof.
  unfold sort_desc. induction l as [|a l IH]; intro S; [reflexivity|].
  inversion S as [|? ? Sl Ha]; subst. cbn [app fold_right]. rewrite (IH Sl). cbn [place].
  destruct (h_prio a <? h_prio h) eqn:E.
  - apply Z.ltb_lt in E.
    assert (Hs : Forall (fun x => h_prio x < h_prio h) l).
    { eapply Forall_impl; [|exact Ha]. intros x Hx. apply hbefore_prio in Hx. lia. }
    rewrite (place_all_smaller _ _ Hs). cbn [insert_desc].
    destruct (h_prio h <=? h_prio a) eqn:E2; [apply Z.leb_le in E2; lia|].
    f_equal. apply insert_desc_head. destruct l as [|z l']; [exact I|].
    inversion Ha; subst. now apply hbefore_prio.
  - apply Z.ltb_ge in E. apply insert_desc_head. now apply place_head.
Qed.

Lemma place_In h l x : In x (place h l) -> x = h \/ In x l.
Proof.
  induction l as [|y t IH]; cbn.
  - intros [E|[]]; auto.
  - destruct (h_prio y <? h_prio h); cbn.
    + intros [E|[E|E]]; auto.
    + intros [E|E]; auto. destruct (IH E); auto.
Qed.

Lemma place_sorted h l :
  sorted_ps l -> Forall (fun x => h_seq x < h_seq h) l -> sorted_ps (place h l).
Proof.
  induction l as [|y t IH]; intros S F; cbn.
  - constructor; constructor.
  - inversion S as [|? ? St Hy]; subst. inversion F as [|? ? Fy Ft]; subst.
    destruct (h_prio y <? h_prio h) eqn:E.
    + apply Z.ltb_lt in E. constructor; [exact S|]. constructor; [left; lia|].
      eapply Forall_impl; [|exact Hy]. intros x Hx. apply hbefore_prio in Hx. left; lia.
    + apply Z.ltb_ge in E. constructor; [apply IH; assumption|].
      apply Forall_forall. intros x Hx. apply place_In in Hx as [->|Hx].
      * unfold hbefore. destruct (Z.eq_dec (h_prio y) (h_prio h)); [right; split; assumption|left; lia].
      * rewrite Forall_forall in Hy. now apply Hy.
Qed.

Lemma place_Forall (P : handler -> Prop) h l : P h -> Forall P l -> Forall P (place h l).
Proof.
  intros Hh Hl. apply Forall_forall. intros x Hx. apply place_In in Hx as [->|Hx]; [exact Hh|].
  rewrite Forall_forall in Hl. now apply Hl.
Qed.

Lemma filter_sorted f l : sorted_ps l -> sorted_ps (filter f l).
Proof.
  induction l as [|a l IH]; intro S; cbn; [constructor|].
  inversion S as [|? ? Sl Ha]; subst. destruct (f a); [|now apply IH].
  constructor; [now apply IH|]. apply Forall_forall. intros x Hx. apply filter_In in Hx as [Hx _].
  rewrite Forall_forall in Ha. now apply Ha.
Qed.

Lemma filter_Forall {A} (P : A -> Prop) f l : Forall P l -> Forall P (filter f l).
Proof.
  intro H. apply Forall_forall. intros x Hx. apply filter_In in Hx as [Hx _].
  rewrite Forall_forall in H. now apply H.
Qed.

(* strict sortedness gives: no registration occurs twice in a handler list *)
Lemma sorted_ps_NoDup l : sorted_ps l -> NoDup l.
Proof.
  induction l as [|a l IH]; intro S; [constructor|].
  inversion S as [|? ? Sl Ha]; subst. constructor; [|now apply IH].
  intro Hin. rewrite Forall_forall in Ha. specialize (Ha a Hin). unfold hbefore in Ha. lia.
Qed.

(* ========================================================================================== *)
(* B. the registry invariant                                                                    *)

Lemma reg_get_del_same e r : reg_get e (reg_del e r) = None.
Proof.
  induction r as [|[e' l] t IH]; cbn; [reflexivity|].
  destruct (e =? e') eqn:E; [exact IH|]. cbn. now rewrite E.
Qed.
Lemma reg_get_del_other e e' r : e' <> e -> reg_get e' (reg_del e r) = reg_get e' r.
Proof.
  intro N. induction r as [|[e2 l] t IH]; cbn; [reflexivity|].
  destruct (e =? e2) eqn:E.
  - apply Z.eqb_eq in E; subst. destruct (e' =? e2) eqn:E2; [apply Z.eqb_eq in E2; congruence|exact IH].
  - cbn. now rewrite IH.
Qed.
Lemma reg_get_put_same e l r : reg_get e (reg_put e l r) = Some l.
Proof. unfold reg_put; cbn. now rewrite Z.eqb_refl. Qed.
Lemma reg_get_put_other e e' l r : e' <> e -> reg_get e' (reg_put e l r) = reg_get e' r.
Proof.
  intro N. unfold reg_put; cbn. destruct (e' =? e) eqn:E; [apply Z.eqb_eq in E; congruence|].
  now apply reg_get_del_other.
Qed.

Lemma reg_get_In e l r : reg_get e r = Some l -> In (e, l) r.
Proof.
  induction r as [|[e' l'] t IH]; cbn; [discriminate|].
  destruct (e =? e') eqn:E.
  - apply Z.eqb_eq in E; subst. intro H; inversion H; subst. now left.
  - intro H. right. now apply IH.
Qed.
Lemma reg_del_In e e' l r : In (e', l) (reg_del e r) -> In (e', l) r.
Proof.
  induction r as [|[e2 l2] t IH]; cbn; [tauto|].
  destruct (e =? e2); cbn; intro H; [right; now apply IH|].
  destruct H as [H|H]; [now left|right; now apply IH].
Qed.
Lemma reg_put_In e l e' l' r : In (e', l') (reg_put e l r) -> (e' = e /\ l' = l) \/ In (e', l') r.
Proof.
  unfold reg_put. intros [H|H]; [inversion H; now left|right; now apply reg_del_In in H].
Qed.
Lemma reg_filter_In f e l' r :
  In (e, l') (reg_filter f r) -> exists l, In (e, l) r /\ l' = filter f l /\ l' <> [].
Proof.
  induction r as [|[e2 l2] t IH]; cbn; [tauto|].
  destruct (filter f l2) as [|x fl] eqn:F; cbn.
  - intro H. destruct (IH H) as (l & I1 & I2). exists l. split; [now right|exact I2].
  - intros [H|H].
    + inversion H; subst. exists l2. split; [now left|]. split; [now rewrite F|discriminate].
    + destruct (IH H) as (l & I1 & I2). exists l. split; [now right|exact I2].
Qed.

(* every handler list (every entry of the registry) is strictly sorted by (priority descending, registration
   order), and sequence numbers are below the counter (so a new registration is the latest) *)
Definition reg_ok (s : state) : Prop :=
  forall e l, In (e, l) (reg s) ->
    sorted_ps l /\ Forall (fun x => h_seq x < nseq s) l.

Lemma reg_ok_get s e l : reg_ok s -> reg_get e (reg s) = Some l ->
  sorted_ps l /\ Forall (fun x => h_seq x < nseq s) l.
Proof. intros H G. apply (H e). now apply reg_get_In. Qed.

Lemma reg_ok_eq s s' : reg s' = reg s -> nseq s' = nseq s -> reg_ok s -> reg_ok s'.
Proof. unfold reg_ok. intros E1 E2 H e l. rewrite E1, E2. apply H. Qed.

Lemma reg_ok_init : reg_ok init.
Proof. intros e l; cbn; tauto. Qed.

Lemma add_handler_ok key e pid prio hk c s : reg_ok s -> reg_ok (add_handler key e pid prio hk c s).
Proof.
  intros H e' l'. unfold add_handler. cbn [reg nseq set_reg].
  set (h := mkH key pid prio (kw_norm hk) c (nseq s)).
  set (l := match reg_get e (reg s) with Some l => l | None => [] end).
  assert (Hl : sorted_ps l /\ Forall (fun x => h_seq x < nseq s) l).
  { subst l. destruct (reg_get e (reg s)) eqn:G; [now apply (reg_ok_get s e)|]. split; constructor. }
  destruct Hl as [Sl Fl]. intro I. apply reg_put_In in I as [[-> ->]|I].
  - rewrite (sort_app_last h l Sl). split.
    + apply place_sorted; [exact Sl|]. exact Fl.
    + apply place_Forall; [cbn; lia|]. eapply Forall_impl; [|exact Fl]. cbn; intros; lia.
  - destruct (H _ _ I) as [S F]. split; [exact S|].
    eapply Forall_impl; [|exact F]. cbn; intros; lia.
Qed.

Lemma remove_by_key_ok key s : reg_ok s -> reg_ok (remove_by_key key s).
Proof.
  intro H. unfold remove_by_key. destruct (assoc key (keys s)) as [e|]; [|exact H].
  destruct (reg_get e (reg s)) as [l|] eqn:G; [|exact H].
  destruct (reg_ok_get _ _ _ H G) as [S F]. intros e' l'. cbn [reg nseq set_reg].
  destruct (is_nil _) eqn:N; intro I.
  - apply reg_del_In in I. exact (H _ _ I).
  - apply reg_put_In in I as [[-> ->]|I]; [|exact (H _ _ I)].
    split; [now apply filter_sorted|now apply filter_Forall].
Qed.

Lemma remove_by_method_ok pid s : reg_ok s -> reg_ok (remove_by_method pid s).
Proof.
  intros H e l'. unfold remove_by_method. cbn [reg nseq set_reg]. intro I.
  apply reg_filter_In in I as (l & I & -> & _). destruct (H _ _ I) as [S F].
  split; [now apply filter_sorted|now apply filter_Forall].
Qed.

Lemma replace_handler_ok key e pid prio hk s : reg_ok s -> reg_ok (replace_handler key e pid prio hk s).
Proof.
  intro H. unfold replace_handler. apply add_handler_ok.
  destruct (reg_get e (reg s)) as [l|] eqn:G; [|exact H].
  destruct (reg_ok_get _ _ _ H G) as [S F]. intros e' l'. cbn [reg nseq set_reg]. intro I.
  apply reg_put_In in I as [[-> ->]|I]; [|exact (H _ _ I)].
  split; [now apply filter_sorted|now apply filter_Forall].
Qed.

(* after remove_handler(method) no registration of that procedure is left, in any event, whatever the registry
   was; and no event is left with an empty handler list (does_event_exist is exact) *)
Lemma remove_by_method_complete pid s e l :
  In (e, l) (reg (remove_by_method pid s)) -> Forall (fun h => h_pid h <> pid) l /\ l <> [].
Proof.
  unfold remove_by_method. cbn [reg set_reg]. intro I.
  apply reg_filter_In in I as (l0 & _ & -> & N). split; [|exact N].
  apply Forall_forall. intros h Hh. apply filter_In in Hh as [_ Hh].
  apply negb_true_iff, Z.eqb_neq in Hh. exact Hh.
Qed.

Lemma remove_by_method_snapshot pid s e l :
  reg_get e (reg (remove_by_method pid s)) = Some l -> Forall (fun h => h_pid h <> pid) l /\ l <> [].
Proof. intro G. apply (remove_by_method_complete pid s e). now apply reg_get_In. Qed.

Lemma post_reg fast e ty cb k s : reg (post fast e ty cb k s) = reg s /\ nseq (post fast e ty cb k s) = nseq s.
Proof. unfold post. destruct (_ && _ && _); split; reflexivity. Qed.

Lemma run_action_ok fast a s : reg_ok s -> reg_ok (run_action fast a s).
Proof.
  destruct a; cbn.
  - intro H. destruct (post_reg fast e ty cb k s) as [E1 E2]. exact (reg_ok_eq _ _ E1 E2 H).
  - apply add_handler_ok.
  - apply remove_by_key_ok.
  - apply remove_by_method_ok.
  - apply replace_handler_ok.
Qed.

Lemma run_acts_ok fast l s : reg_ok s -> reg_ok (run_acts fast l s).
Proof.
  unfold run_acts. revert s. induction l as [|a l IH]; intros s H; cbn; [exact H|].
  apply IH. now apply run_action_ok.
Qed.

Lemma invoke_ok fast sc pid s : reg_ok s -> reg_ok (fst (invoke fast sc pid s)).
Proof. intro H. unfold invoke; cbn [fst]. apply run_acts_ok. exact H. Qed.

Lemma run_handlers_ok fast sc e ty hs : forall kwargs r s,
  reg_ok s -> reg_ok (fst (fst (run_handlers fast sc e ty hs kwargs r s))).
Proof.
  induction hs as [|h tl IH]; intros kwargs r s H; cbn [run_handlers]; [exact H|].
  destruct (cond_holds _ _); [|now apply IH].
  destruct (invoke fast sc (h_pid h) _) as [s2 r2] eqn:EI.
  assert (H2 : reg_ok s2).
  { replace s2 with (fst (invoke fast sc (h_pid h) (emit (Invoke (h_key h) (h_pid h) e (merge kwargs (h_kw h))) s)))
      by now rewrite EI. apply invoke_ok. exact H. }
  destruct ty.
  - now apply IH.
  - destruct (is_false r2); [exact H2|now apply IH].
  - destruct r2; now apply IH.
Qed.

Lemma process_ok fast sc p s : reg_ok s -> reg_ok (process fast sc p s).
Proof.
  intro H. unfold process. cbn [reg mark_disp].
  destruct (reg_get (q_ev p) (reg s)) as [hs|].
  - pose proof (run_handlers_ok fast sc (q_ev p) (q_ty p) hs (q_kw p) RNone (mark_disp (q_id p) s) H) as H1.
    destruct (run_handlers _ _ _ _ _ _ _ _) as [[s1 kwargs] result]. cbn in H1.
    destruct (q_cb p); exact H1.
  - destruct (q_cb p); exact H.
Qed.

Lemma dfs_ok fast sc f : forall pending s, reg_ok s -> reg_ok (dfs fast sc f pending s).
Proof.
  induction f as [|f IH]; intros pending s H; cbn [dfs]; [exact H|].
  destruct pending as [|p w]; [exact H|]. apply IH.
  exact (process_ok fast sc p s H).
Qed.

Lemma drain_ok fast sc f : forall s, reg_ok s -> reg_ok (drain fast sc f s).
Proof.
  induction f as [|f IH]; intros s H; cbn [drain]; [exact H|].
  destruct (is_nil (evq s) && is_nil (cbq s)); [exact H|].
  set (s1 := if is_nil (evq s) then s else dfs fast sc f (evq s) (set_evq [] s)).
  assert (H1 : reg_ok s1). { subst s1. destruct (is_nil (evq s)); [exact H|]. apply dfs_ok. exact H. }
  destruct (oof s1); [exact H1|].
  destruct (cbq s1) as [|[[i pid] k] rest]; [now apply IH|].
  apply IH. apply invoke_ok. apply (reg_ok_eq s1); [reflexivity|reflexivity|exact H1].
Qed.

(* ========================================================================================== *)
(* C. what one invocation / one dispatch changes                                                *)

Definition is_invoke (e : Z) (o : obs) : Prop := exists k p m, o = Invoke k p e m.

(* s' differs from s by: observations o appended, posts appended to the event queue *)
Definition hgrows (s s' : state) (o : list obs) : Prop :=
  out s' = out s ++ o /\ cbq s' = cbq s /\ pushed s' = pushed s /\ disp s' = disp s /\ oof s' = oof s /\
  exists new, evq s' = evq s ++ new /\ enq s' = enq s ++ map q_id new.

Lemma hgrows_refl s : hgrows s s [].
Proof.
  unfold hgrows. rewrite app_nil_r. repeat split. exists []. cbn. now rewrite !app_nil_r.
Qed.

Lemma hgrows_trans s1 s2 s3 o1 o2 : hgrows s1 s2 o1 -> hgrows s2 s3 o2 -> hgrows s1 s3 (o1 ++ o2).
Proof.
  intros (A1 & A2 & A3 & A4 & A5 & n1 & A6 & A7) (B1 & B2 & B3 & B4 & B5 & n2 & B6 & B7).
  unfold hgrows. rewrite B1, A1, B2, A2, B3, A3, B4, A4, B5, A5, app_assoc. repeat split.
  exists (n1 ++ n2). rewrite B6, A6, B7, A7, map_app, !app_assoc. split; reflexivity.
Qed.

Lemma hgrows_frame s s' : out s' = out s -> cbq s' = cbq s -> pushed s' = pushed s -> disp s' = disp s ->
  oof s' = oof s -> evq s' = evq s -> enq s' = enq s -> hgrows s s' [].
Proof.
  intros. unfold hgrows. rewrite app_nil_r. repeat split; try assumption. exists []. cbn.
  rewrite !app_nil_r. split; assumption.
Qed.

Lemma run_action_grows fast a s : hgrows s (run_action fast a s) [].
Proof.
  destruct a; cbn [run_action].
  - unfold post. destruct (_ && _ && _).
    + apply hgrows_frame; reflexivity.
    + unfold hgrows. rewrite app_nil_r. cbn. repeat split.
      eexists [_]. split; reflexivity.
  - apply hgrows_frame; reflexivity.
  - unfold remove_by_key. destruct (assoc key (keys s)); [|apply hgrows_refl].
    destruct (reg_get z (reg s)); [|apply hgrows_refl]. apply hgrows_frame; reflexivity.
  - apply hgrows_frame; reflexivity.
  - unfold replace_handler. destruct (reg_get e (reg s)); apply hgrows_frame; reflexivity.
Qed.

Lemma run_acts_grows fast l : forall s, hgrows s (run_acts fast l s) [].
Proof.
  unfold run_acts. induction l as [|a l IH]; intro s; cbn [fold_left]; [apply hgrows_refl|].
  change (@nil obs) with (@nil obs ++ @nil obs). eapply hgrows_trans; [apply run_action_grows|apply IH].
Qed.

Lemma invoke_grows fast sc pid s : hgrows s (fst (invoke fast sc pid s)) [].
Proof.
  unfold invoke. cbn [fst]. change (@nil obs) with (@nil obs ++ @nil obs).
  eapply hgrows_trans; [|apply run_acts_grows]. apply hgrows_frame; reflexivity.
Qed.

Lemma emit_grows o s : hgrows s (emit o s) [o].
Proof. unfold hgrows. cbn. repeat split. exists []. cbn. now rewrite !app_nil_r. Qed.

Lemma run_handlers_grows fast sc e ty hs : forall kwargs r s,
  exists o, hgrows s (fst (fst (run_handlers fast sc e ty hs kwargs r s))) o /\ Forall (is_invoke e) o.
Proof.
  induction hs as [|h tl IH]; intros kwargs r s; cbn [run_handlers].
  - exists []. split; [apply hgrows_refl|constructor].
  - destruct (cond_holds _ _); [|apply IH].
    set (ob := Invoke (h_key h) (h_pid h) e (merge kwargs (h_kw h))).
    pose proof (invoke_grows fast sc (h_pid h) (emit ob s)) as G.
    destruct (invoke fast sc (h_pid h) (emit ob s)) as [s2 r2]. cbn [fst] in G.
    assert (G2 : hgrows s s2 [ob]).
    { change [ob] with ([ob] ++ []). eapply hgrows_trans; [apply emit_grows|exact G]. }
    assert (Hob : is_invoke e ob) by (subst ob; unfold is_invoke; eauto).
    assert (K : forall kw' r', exists o, hgrows s (fst (fst (run_handlers fast sc e ty tl kw' r' s2))) o /\
                                          Forall (is_invoke e) o).
    { intros kw' r'. destruct (IH kw' r' s2) as (o & Go & Fo). exists ([ob] ++ o). split.
      - eapply hgrows_trans; eassumption.
      - constructor; assumption. }
    destruct ty.
    + apply K.
    + destruct (is_false r2); [|apply K]. cbn [fst]. exists [ob]. split; [exact G2|constructor; [exact Hob|constructor]].
    + destruct r2; apply K.
Qed.

(* plain events: exactly the snapshot, filtered by condition, in order, with handler kwargs winning *)
Definition expected_invocations (e : Z) (kwargs : kw) (hs : list handler) : list obs :=
  map (fun h => Invoke (h_key h) (h_pid h) e (merge kwargs (h_kw h)))
      (filter (fun h => cond_holds (h_cond h) (merge kwargs (h_kw h))) hs).

Lemma run_handlers_plain fast sc e hs : forall kwargs r s,
  out (fst (fst (run_handlers fast sc e TNone hs kwargs r s))) = out s ++ expected_invocations e kwargs hs.
Proof.
  unfold expected_invocations.
  induction hs as [|h tl IH]; intros kwargs r s; cbn [run_handlers filter map].
  - now rewrite app_nil_r.
  - destruct (cond_holds _ _); [|apply IH].
    set (ob := Invoke (h_key h) (h_pid h) e (merge kwargs (h_kw h))).
    pose proof (invoke_grows fast sc (h_pid h) (emit ob s)) as G.
    destruct (invoke fast sc (h_pid h) (emit ob s)) as [s2 r2]. cbn [fst] in G.
    destruct G as (G1 & _). rewrite app_nil_r in G1. cbn [out emit] in G1.
    rewrite IH, G1. cbn [map]. now rewrite <- app_assoc.
Qed.

Definition snapshot (e : Z) (s : state) : list handler :=
  match reg_get e (reg s) with Some l => l | None => [] end.

Lemma process_spec fast sc p s :
  let s1 := process fast sc p s in
  exists o new,
    out s1 = out s ++ o /\ Forall (is_invoke (q_ev p)) o /\
    evq s1 = evq s ++ new /\ enq s1 = enq s ++ map q_id new /\
    disp s1 = disp s ++ [q_id p] /\ oof s1 = oof s /\
    ((q_cb p = None /\ cbq s1 = cbq s /\ pushed s1 = pushed s) \/
     (exists cb k, q_cb p = Some cb /\ cbq s1 = (q_id p, cb, k) :: cbq s /\ pushed s1 = pushed s ++ [q_id p])).
Proof.
  cbn zeta. unfold process. cbn [reg mark_disp].
  assert (K : exists o, hgrows (mark_disp (q_id p) s)
            (fst (fst (match reg_get (q_ev p) (reg s) with
                       | Some hs => run_handlers fast sc (q_ev p) (q_ty p) hs (q_kw p) RNone (mark_disp (q_id p) s)
                       | None => (mark_disp (q_id p) s, q_kw p, RNone) end))) o /\ Forall (is_invoke (q_ev p)) o).
  { destruct (reg_get (q_ev p) (reg s)); [apply run_handlers_grows|].
    exists []. split; [apply hgrows_refl|constructor]. }
  destruct (match reg_get (q_ev p) (reg s) with Some hs => _ | None => _ end) as [[s1 kwargs] result].
  cbn [fst] in K. destruct K as (o & (G1 & G2 & G3 & G4 & G5 & new & G6 & G7) & Fo).
  exists o, new. cbn [out evq enq disp oof cbq pushed mark_disp] in *.
  destruct (q_cb p) as [cb|].
  - cbn [out evq enq disp oof cbq pushed push_cb]. repeat split; try assumption.
    right. eexists cb, _. rewrite G2, G3. repeat split.
  - repeat split; try assumption. left. repeat split; assumption.
Qed.

Lemma process_plain fast sc p s :
  q_ty p = TNone ->
  out (process fast sc p s) = out s ++ expected_invocations (q_ev p) (q_kw p) (snapshot (q_ev p) s).
Proof.
  intro T. unfold process, snapshot. cbn [reg mark_disp]. rewrite T.
  destruct (reg_get (q_ev p) (reg s)) as [hs|].
  - pose proof (run_handlers_plain fast sc (q_ev p) hs (q_kw p) RNone (mark_disp (q_id p) s)) as H.
    destruct (run_handlers _ _ _ _ _ _ _ _) as [[s1 kwargs] result]. cbn [fst] in H.
    destruct (q_cb p); exact H.
  - unfold expected_invocations. cbn. rewrite app_nil_r. destruct (q_cb p); reflexivity.
Qed.

(* ========================================================================================== *)
(* D. the stack invariant (no event lost) and the refinement  inner  =  dfs                      *)

Definition all_nil (t : list (list posted)) : Prop := Forall (fun x => x = []) t.

(* "if a deque is empty then every deque below it is empty" *)
Fixpoint stack_ok (st : list (list posted)) : Prop :=
  match st with
  | [] => True
  | q :: t => (q = [] -> all_nil t) /\ stack_ok t
  end.

Lemma all_nil_concat t : all_nil t -> concat t = [].
Proof. induction 1 as [|x t Hx _ IH]; cbn; [reflexivity|]. now rewrite Hx, IH. Qed.

Lemma all_nil_stack_ok t : all_nil t -> stack_ok t.
Proof. induction 1 as [|x t Hx Ht IH]; cbn; [exact I|]. split; [intros _; exact Ht|exact IH]. Qed.

(* one iteration of the inner while loop keeps the invariant, whatever the event posts *)
Lemma pop_spec rest stack :
  stack_ok stack ->
  let '(n1, s1) := pop_if_empty rest stack in
  n1 ++ concat s1 = rest ++ concat stack /\ stack_ok (n1 :: s1).
Proof.
  intro H. destruct rest as [|r rs]; destruct stack as [|q st]; cbn [pop_if_empty].
  - split; [reflexivity|]. cbn. split; [intros _; constructor|exact I].
  - split; [reflexivity|exact H].
  - split; [reflexivity|]. cbn. split; [discriminate|exact I].
  - split; [reflexivity|]. split; [discriminate|exact H].
Qed.

Lemma push_ok (new n1 : list posted) s1 : new <> [] -> stack_ok (n1 :: s1) -> stack_ok (new :: n1 :: s1).
Proof. intros N H. split; [intro E; contradiction|exact H]. Qed.

Lemma set_evq_nil_id s : evq s = [] -> set_evq [] s = s.
Proof. destruct s; cbn. intro E; subst. reflexivity. Qed.

Lemma inner_dfs fast sc f : forall next stack s,
  stack_ok (next :: stack) ->
  fst (inner fast sc f next stack s) = dfs fast sc f (next ++ concat stack) s /\
  (oof (fst (inner fast sc f next stack s)) = false -> all_nil (snd (inner fast sc f next stack s))).
Proof.
  induction f as [|f IH]; intros next stack s H.
  - cbn. split; [reflexivity|discriminate].
  - destruct next as [|event rest].
    + cbn [inner fst snd]. destruct H as [Hn Hs]. rewrite (all_nil_concat _ (Hn eq_refl)). cbn.
      split; [reflexivity|intros _; exact (Hn eq_refl)].
    + cbn [inner]. destruct H as [_ Hs]. pose proof (pop_spec rest stack Hs) as P.
      destruct (pop_if_empty rest stack) as [n1 s1]. destruct P as [E Ok].
      cbn [app dfs]. rewrite <- E.
      destruct (evq (process fast sc event s)) as [|q0 q] eqn:Q.
      * rewrite (set_evq_nil_id _ Q). cbn [app]. apply IH. exact Ok.
      * specialize (IH (q0 :: q) (n1 :: s1) (set_evq [] (process fast sc event s))).
        cbn [concat] in IH. apply IH. apply push_ok; [discriminate|exact Ok].
Qed.

Lemma dfs_evq_nil fast sc f : forall pending s, evq s = [] -> evq (dfs fast sc f pending s) = [].
Proof.
  induction f as [|f IH]; intros pending s H; cbn [dfs]; [exact H|].
  destruct pending; [exact H|]. apply IH. reflexivity.
Qed.

(* ========================================================================================== *)
(* E. fuel monotonicity; posts made during an event come before whatever was waiting            *)

Lemma dfs_mono fast sc f : forall pending s,
  oof (dfs fast sc f pending s) = false ->
  forall f', (f <= f')%nat -> dfs fast sc f' pending s = dfs fast sc f pending s.
Proof.
  induction f as [|f IH]; intros pending s H f' L.
  - cbn in H. discriminate.
  - destruct f' as [|f']; [lia|]. cbn [dfs] in *. destruct pending as [|p w]; [reflexivity|].
    apply IH; [exact H|lia].
Qed.

Lemma dfs_cons fast sc f p w s :
  dfs fast sc (S f) (p :: w) s =
  dfs fast sc f (evq (process fast sc p s) ++ w) (set_evq [] (process fast sc p s)).
Proof. reflexivity. Qed.

Lemma dfs_app fast sc f : forall a b s,
  oof (dfs fast sc f (a ++ b) s) = false ->
  dfs fast sc f (a ++ b) s = dfs fast sc f b (dfs fast sc f a s) /\ oof (dfs fast sc f a s) = false.
Proof.
  induction f as [|f IH]; intros a b s H.
  - cbn in H. discriminate.
  - destruct a as [|p a].
    + cbn [app] in *. cbn [dfs]. split; [reflexivity|].
      (* oof s = false: the flag is never reset *)
      cbn [dfs] in H. destruct b as [|q b]; [exact H|].
      clear IH. revert H. generalize (evq (process fast sc q s) ++ b). intros l H.
      assert (St : forall f l s, oof (dfs fast sc f l s) = false -> oof s = false).
      { clear. induction f as [|f IH]; intros l s H; cbn [dfs] in H.
        - cbn in H. discriminate.
        - destruct l as [|p w]; [exact H|]. apply IH in H. cbn [oof set_evq] in H.
          destruct (process_spec fast sc p s) as (o & new & _ & _ & _ & _ & _ & Ho & _). cbn zeta in Ho.
          now rewrite Ho in H. }
      apply St in H. cbn [oof set_evq] in H.
      destruct (process_spec fast sc q s) as (o & new & _ & _ & _ & _ & _ & Ho & _). cbn zeta in Ho.
      now rewrite Ho in H.
    + cbn [app] in *. rewrite dfs_cons in H. rewrite !dfs_cons.
      rewrite app_assoc in H. destruct (IH _ _ _ H) as [E O].
      rewrite app_assoc, E. split; [|exact O].
      symmetry. apply dfs_mono; [|lia]. now rewrite <- E.
Qed.

(* ========================================================================================== *)
(* F. process_event_queue  =  "dispatch everything transitively, then one callback, repeat"      *)

Lemma outer_drain fast sc f : forall stack s,
  all_nil stack -> outer fast sc f stack s = drain fast sc f s.
Proof.
  induction f as [|f IH]; intros stack s A; cbn [outer drain]; [reflexivity|].
  destruct (is_nil (evq s) && is_nil (cbq s)); [reflexivity|].
  destruct (is_nil (evq s)) eqn:N.
  - destruct (oof s); [reflexivity|]. destruct (cbq s) as [|[[i pid] k] rest]; apply IH; exact A.
  - assert (Ok : stack_ok (evq s :: stack)).
    { split; [|now apply all_nil_stack_ok]. intro E. rewrite E in N. discriminate. }
    destruct (inner_dfs fast sc f (evq s) stack (set_evq [] s) Ok) as [E An].
    rewrite (all_nil_concat _ A), app_nil_r in E.
    destruct (inner fast sc f (evq s) stack (set_evq [] s)) as [s1 stack1]. cbn [fst snd] in *.
    rewrite <- E. destruct (oof s1) eqn:O; [reflexivity|].
    specialize (An eq_refl). destruct (cbq s1) as [|[[i pid] k] rest]; apply IH; exact An.
Qed.

(* ========================================================================================== *)
(* G. every queued event is dispatched exactly once; every queued callback runs exactly once    *)

Definition cn (x : Z) (l : list Z) : nat := count_occ Z.eq_dec l x.
Lemma cn_app x a b : cn x (a ++ b) = (cn x a + cn x b)%nat.
Proof. apply count_occ_app. Qed.
Lemma cn_cons x a l : cn x (a :: l) = (cn x [a] + cn x l)%nat.
Proof. change (a :: l) with ([a] ++ l). apply cn_app. Qed.

Definition ids (l : list posted) : list Z := map q_id l.
Definition cid (c : Z * Z * kw) : Z := fst (fst c).
Definition cbid1 (o : obs) : list Z := match o with Callback i _ _ => [i] | _ => [] end.
Definition cbids (o : list obs) : list Z := flat_map cbid1 o.

Lemma cbids_app a b : cbids (a ++ b) = cbids a ++ cbids b.
Proof. unfold cbids. induction a as [|x a IH]; cbn; [reflexivity|]. now rewrite IH, app_assoc. Qed.

Lemma cbids_invokes e o : Forall (is_invoke e) o -> cbids o = [].
Proof.
  induction 1 as [|x o Hx _ IH]; [reflexivity|]. destruct Hx as (k & p & m & ->). cbn. exact IH.
Qed.

Definition Inv (pending : list posted) (s : state) : Prop :=
  forall x,
    (cn x (disp s) + cn x (ids pending) + cn x (ids (evq s)) = cn x (enq s))%nat /\
    (cn x (cbids (out s)) + cn x (map cid (cbq s)) = cn x (pushed s))%nat.

Lemma Inv_init : Inv [] init.
Proof. intro x. cbn. split; reflexivity. Qed.

Lemma Inv_grows pending s s' : hgrows s s' [] -> Inv pending s -> Inv pending s'.
Proof.
  intros (G1 & G2 & G3 & G4 & _ & new & G6 & G7) H x. destruct (H x) as [A B].
  rewrite app_nil_r in G1. rewrite G1, G2, G3, G4, G6, G7. unfold ids in *. rewrite map_app, !cn_app.
  split; lia.
Qed.

Lemma Inv_emit_other pending o s : cbid1 o = [] -> Inv pending s -> Inv pending (emit o s).
Proof.
  intros E H x. destruct (H x) as [A B]. cbn [out emit disp evq enq cbq pushed].
  rewrite cbids_app. cbn [cbids flat_map]. rewrite E, app_nil_r. split; assumption.
Qed.

Lemma Inv_move s : Inv [] s -> Inv (evq s) (set_evq [] s).
Proof.
  intros H x. destruct (H x) as [A B]. cbn [disp evq enq out cbq pushed set_evq ids map] in *.
  cbn [cn count_occ] in *. split; [|exact B]. unfold cn in *. cbn [count_occ] in *. lia.
Qed.

Lemma Inv_process fast sc p w s :
  Inv (p :: w) s -> Inv (evq (process fast sc p s) ++ w) (set_evq [] (process fast sc p s)).
Proof.
  intros H x. destruct (H x) as [A B].
  destruct (process_spec fast sc p s) as (o & new & P1 & P2 & P3 & P4 & P5 & _ & P7). cbn zeta in *.
  cbn [disp evq enq out cbq pushed set_evq].
  rewrite P1, P3, P4, P5, cbids_app, (cbids_invokes _ _ P2), app_nil_r.
  unfold ids in *. cbn [map] in A. rewrite cn_cons in A. rewrite !map_app, !cn_app. cbn [map].
  split.
  - change (cn x []) with 0%nat. lia.
  - destruct P7 as [(_ & Q1 & Q2)|(cb & k & _ & Q1 & Q2)]; rewrite Q1, Q2; [exact B|].
    cbn [map cid fst]. rewrite cn_cons, cn_app. lia.
Qed.

Lemma dfs_oof_sticky fast sc f : forall l s, oof (dfs fast sc f l s) = false -> oof s = false.
Proof.
  induction f as [|f IH]; intros l s H; cbn [dfs] in H.
  - cbn in H. discriminate.
  - destruct l as [|p w]; [exact H|]. apply IH in H. cbn [oof set_evq] in H.
    destruct (process_spec fast sc p s) as (o & new & _ & _ & _ & _ & _ & Ho & _). cbn zeta in Ho.
    now rewrite Ho in H.
Qed.

Lemma Inv_dfs fast sc f : forall pending s,
  Inv pending s -> oof (dfs fast sc f pending s) = false -> Inv [] (dfs fast sc f pending s).
Proof.
  induction f as [|f IH]; intros pending s H O; cbn [dfs] in *.
  - cbn in O. discriminate.
  - destruct pending as [|p w]; [exact H|]. apply IH; [|exact O]. now apply Inv_process.
Qed.

Lemma Inv_pop i pid k rest s :
  cbq s = (i, pid, k) :: rest -> Inv [] s -> Inv [] (emit (Callback i pid k) (set_cbq rest s)).
Proof.
  intros E H x. destruct (H x) as [A B]. cbn [out emit disp evq enq cbq pushed set_cbq].
  split; [exact A|]. rewrite E in B. cbn [map cid fst] in B. rewrite cn_cons in B.
  rewrite cbids_app, cn_app. cbn [cbids flat_map cbid1 app]. lia.
Qed.

Lemma drain_complete fast sc f : forall s,
  Inv [] s -> oof (drain fast sc f s) = false ->
  Inv [] (drain fast sc f s) /\ evq (drain fast sc f s) = [] /\ cbq (drain fast sc f s) = [].
Proof.
  induction f as [|f IH]; intros s H O; cbn [drain] in *.
  - cbn in O. discriminate.
  - destruct (is_nil (evq s) && is_nil (cbq s)) eqn:N.
    + apply andb_true_iff in N as [N1 N2]. split; [exact H|].
      destruct (evq s); [|discriminate]. destruct (cbq s); [|discriminate]. split; reflexivity.
    + set (s1 := if is_nil (evq s) then s else dfs fast sc f (evq s) (set_evq [] s)) in *.
      destruct (oof s1) eqn:O1; [congruence|].
      assert (H1 : Inv [] s1).
      { subst s1. destruct (is_nil (evq s)); [exact H|]. apply Inv_dfs; [now apply Inv_move|exact O1]. }
      destruct (cbq s1) as [|[[i pid] k] rest] eqn:C; [now apply IH|].
      apply IH; [|exact O].
      eapply Inv_grows; [apply invoke_grows|]. now apply Inv_pop.
Qed.

Lemma drain_oof_sticky fast sc f : forall s, oof (drain fast sc f s) = false -> oof s = false.
Proof.
  induction f as [|f IH]; intros s O; cbn [drain] in O.
  - cbn in O. discriminate.
  - destruct (is_nil (evq s) && is_nil (cbq s)); [exact O|].
    set (s1 := if is_nil (evq s) then s else dfs fast sc f (evq s) (set_evq [] s)) in *.
    assert (K : oof s1 = false -> oof s = false).
    { subst s1. destruct (is_nil (evq s)); [auto|]. intro K. now apply dfs_oof_sticky in K. }
    destruct (oof s1) eqn:O1; [congruence|].
    auto.
Qed.

Lemma turn_complete fast sc f pid s :
  Inv [] s -> oof (turn fast sc f pid s) = false ->
  Inv [] (turn fast sc f pid s) /\ evq (turn fast sc f pid s) = [] /\ cbq (turn fast sc f pid s) = [].
Proof.
  intros H O. unfold turn in *. cbn [oof emit evq cbq] in *.
  rewrite (outer_drain fast sc f [] _ (Forall_nil _)) in *.
  set (s1 := fst (invoke fast sc pid (emit (Ctx pid) s))) in *.
  assert (H1 : Inv [] s1).
  { subst s1. eapply Inv_grows; [apply invoke_grows|]. now apply Inv_emit_other. }
  destruct (drain_complete fast sc f s1 H1 O) as (I2 & E2 & C2).
  split; [|split; assumption]. now apply Inv_emit_other.
Qed.

Lemma turn_oof_sticky fast sc f pid s : oof (turn fast sc f pid s) = false -> oof s = false.
Proof.
  unfold turn. cbn [oof emit]. rewrite (outer_drain fast sc f [] _ (Forall_nil _)). intro O.
  apply drain_oof_sticky in O.
  destruct (invoke_grows fast sc pid (emit (Ctx pid) s)) as (_ & _ & _ & _ & G & _).
  rewrite G in O. exact O.
Qed.

Lemma run_turns_oof_sticky fast sc f turns : forall s,
  oof (run_turns fast sc f turns s) = false -> oof s = false.
Proof.
  unfold run_turns. induction turns as [|pid ts IH]; intros s O; cbn [fold_left] in O; [exact O|].
  apply IH in O. now apply turn_oof_sticky in O.
Qed.

Lemma run_turns_complete fast sc f turns : forall s,
  Inv [] s -> evq s = [] -> cbq s = [] -> oof (run_turns fast sc f turns s) = false ->
  Inv [] (run_turns fast sc f turns s) /\ evq (run_turns fast sc f turns s) = [] /\
  cbq (run_turns fast sc f turns s) = [].
Proof.
  induction turns as [|pid ts IH]; intros s H E C O.
  - cbn. auto.
  - change (run_turns fast sc f (pid :: ts) s) with (run_turns fast sc f ts (turn fast sc f pid s)) in *.
    pose proof (run_turns_oof_sticky _ _ _ _ _ O) as O1.
    destruct (turn_complete fast sc f pid s H O1) as (I1 & E1 & C1).
    now apply IH.
Qed.

Lemma every_event_once_l fast sc f turns :
  let s := run_turns fast sc f turns init in
  oof s = false ->
  Permutation (disp s) (enq s) /\ Permutation (cbids (out s)) (pushed s) /\ evq s = [] /\ cbq s = [].
Proof.
  cbn zeta. intro O.
  destruct (run_turns_complete fast sc f turns init Inv_init eq_refl eq_refl O) as (I & E & C).
  repeat split; try assumption.
  - apply (Permutation_count_occ Z.eq_dec). intro x. destruct (I x) as [A _]. rewrite E in A.
    unfold cn in A. cbn in A. lia.
  - apply (Permutation_count_occ Z.eq_dec). intro x. destruct (I x) as [_ B]. rewrite C in B.
    unfold cn in B. cbn in B. lia.
Qed.

(* ========================================================================================== *)
(* H. ordering statements on the specification                                                  *)

Theorem posts_before_waiting_l fast sc f p waiting s :
  oof (dfs fast sc (S f) (p :: waiting) s) = false ->
  let s1 := process fast sc p s in
  dfs fast sc (S f) (p :: waiting) s =
    dfs fast sc f waiting (dfs fast sc f (evq s1) (set_evq [] s1)) /\
  oof (dfs fast sc f (evq s1) (set_evq [] s1)) = false.
Proof.
  intro O. cbn zeta. rewrite dfs_cons in *. now apply dfs_app.
Qed.

(* during the dispatch of pending events (and everything they post) only handlers run: no
   completion callback runs and every queued callback stays queued *)
Lemma dfs_only_invokes fast sc f : forall pending s,
  exists o l, out (dfs fast sc f pending s) = out s ++ o /\ cbids o = [] /\
              cbq (dfs fast sc f pending s) = l ++ cbq s.
Proof.
  induction f as [|f IH]; intros pending s; cbn [dfs].
  - exists [], []. cbn. now rewrite app_nil_r.
  - destruct pending as [|p w].
    + exists [], []. cbn. now rewrite app_nil_r.
    + destruct (IH (evq (process fast sc p s) ++ w) (set_evq [] (process fast sc p s))) as (o & l & A & B & C).
      destruct (process_spec fast sc p s) as (o1 & new & P1 & P2 & _ & _ & _ & _ & P7). cbn zeta in *.
      cbn [out cbq set_evq] in A, C.
      exists (o1 ++ o). rewrite A, P1, C, cbids_app, (cbids_invokes _ _ P2), B, <- app_assoc.
      destruct P7 as [(_ & Q1 & _)|(cb & k & _ & Q1 & _)]; rewrite Q1.
      * exists l. repeat split.
      * exists (l ++ [(q_id p, cb, k)]). rewrite <- app_assoc. repeat split.
Qed.

(* the callback of p is still waiting when p and everything p transitively posted is done *)
Lemma callback_after_closure_l fast sc f p cb s :
  q_cb p = Some cb ->
  exists k l o, cbq (dfs fast sc (S f) [p] s) = l ++ (q_id p, cb, k) :: cbq s /\
                out (dfs fast sc (S f) [p] s) = out s ++ o /\ cbids o = [].
Proof.
  intro Q. rewrite dfs_cons.
  destruct (dfs_only_invokes fast sc f (evq (process fast sc p s) ++ []) (set_evq [] (process fast sc p s)))
    as (o & l & A & B & C).
  destruct (process_spec fast sc p s) as (o1 & new & P1 & P2 & _ & _ & _ & _ & P7). cbn zeta in *.
  cbn [out cbq set_evq] in A, C.
  destruct P7 as [(Q0 & _)|(cb' & k & Q0 & Q1 & _)]; [congruence|].
  assert (cb' = cb) by congruence; subst cb'.
  exists k, l, (o1 ++ o). rewrite C, Q1, A, P1, cbids_app, (cbids_invokes _ _ P2), B, <- app_assoc.
  repeat split.
Qed.

(* handlers of one dispatch (plain event): exactly the snapshot that is registered when the dispatch
   begins, in descending priority with ties in registration order, each once, handler kwargs winning *)
Lemma handlers_once_l fast sc p s :
  reg_ok s -> q_ty p = TNone ->
  let snap := snapshot (q_ev p) s in
  out (process fast sc p s) = out s ++ expected_invocations (q_ev p) (q_kw p) snap /\
  sorted_ps snap /\ NoDup snap.
Proof.
  intros R T. cbn zeta. split; [now apply process_plain|].
  unfold snapshot. destruct (reg_get (q_ev p) (reg s)) as [l|] eqn:G.
  - destruct (reg_ok_get _ _ _ R G) as [S _]. split; [exact S|now apply sorted_ps_NoDup].
  - split; constructor.
Qed.

(* any event type: only handlers of that event run during its dispatch (no nesting, no interleaving) *)
Lemma dispatch_is_segment_l fast sc p s :
  exists o, out (process fast sc p s) = out s ++ o /\ Forall (is_invoke (q_ev p)) o.
Proof.
  destruct (process_spec fast sc p s) as (o & new & P1 & P2 & _). cbn zeta in *. eauto.
Qed.

(* the registry invariant holds in every state a run goes through *)
Lemma turn_ok fast sc f pid s : reg_ok s -> reg_ok (turn fast sc f pid s).
Proof.
  intro H. unfold turn. rewrite (outer_drain fast sc f [] _ (Forall_nil _)).
  apply (reg_ok_eq (drain fast sc f (fst (invoke fast sc pid (emit (Ctx pid) s))))); [reflexivity|reflexivity|].
  apply drain_ok. apply invoke_ok. apply (reg_ok_eq s); [reflexivity|reflexivity|exact H].
Qed.

Lemma run_turns_ok fast sc f turns : forall s, reg_ok s -> reg_ok (run_turns fast sc f turns s).
Proof.
  unfold run_turns. induction turns as [|pid ts IH]; intros s H; cbn [fold_left]; [exact H|].
  apply IH. now apply turn_ok.
Qed.

(* add_handler on a sorted list = insert behind every handler of greater or equal priority *)
Lemma add_handler_stable_l key e pid prio hk c s :
  reg_ok s ->
  snapshot e (add_handler key e pid prio hk c s) =
    place (mkH key pid prio (kw_norm hk) c (nseq s)) (snapshot e s).
Proof.
  intro R. unfold snapshot, add_handler. cbn [reg set_reg]. rewrite reg_get_put_same.
  destruct (reg_get e (reg s)) as [l|] eqn:G.
  - destruct (reg_ok_get _ _ _ R G) as [S _]. now apply sort_app_last.
  - reflexivity.
Qed.

Lemma place_split h l :
  exists a b, l = a ++ b /\ place h l = a ++ h :: b /\
              Forall (fun x => h_prio h <= h_prio x) a /\
              match b with [] => True | y :: _ => h_prio y < h_prio h end.
Proof.
  induction l as [|y t IH]; cbn [place].
  - exists [], []. repeat split. constructor.
  - destruct (h_prio y <? h_prio h) eqn:E.
    + apply Z.ltb_lt in E. exists [], (y :: t). repeat split; [constructor|exact E].
    + apply Z.ltb_ge in E. destruct IH as (a & b & E1 & E2 & F & M).
      exists (y :: a), b. rewrite E1 at 1. rewrite E2. repeat split; [constructor; assumption|exact M].
Qed.

(* ========================================================================================== *)
(* I. the fast path of _post is observable (recorded finding)                                    *)

Definition fp_script : script :=
  [(1, [mkP [APost 1 TNone None []; AAdd 1 1 2 1 0 0 [] None] RNone])].

Lemma fastpath_drop_refuted_l :
  let s := run_turns true fp_script 10 [1] init in
  let s' := run_turns false fp_script 10 [1] init in
  oof s = false /\ oof s' = false /\
  map h_key (snapshot 1 s) = [1] /\                 (* the handler is registered when the queue is drained *)
  In (Invoke 1 2 1 []) (out s') /\ ~ In (Invoke 1 2 1 []) (out s).
Proof.
  vm_compute. repeat split; auto.
  intros [H|[H|[]]]; discriminate.
Qed.

Lemma post_enqueues_iff fast e ty cb k s :
  enq (post fast e ty cb k s) = enq s ++ [npost s] <->
  ~ (fast = true /\ cb = None /\ reg_get e (reg s) = None).
Proof.
  unfold post. cbn [reg bump_post].
  destruct fast, cb, (reg_get e (reg s)); cbn; split; intro H; try reflexivity;
    try (intros (A & B & C); discriminate).
  - exfalso. assert (L : length (enq s) = length (enq s ++ [npost s])) by now rewrite <- H.
    rewrite app_length in L. cbn in L. lia.
  - exfalso. apply H. auto.
Qed.

(* ========================================================================================== *)
(* J. the hypotheses are satisfiable: a three-level posting tree with equal priorities, a removal
      during dispatch and a callback                                                            *)

Definition ex_script : script :=
  [ (10, [mkP [AAdd 1 1 1 1 0 0 [] None; AAdd 2 1 2 1 0 0 [(1, VZ 7)] None; AAdd 3 1 3 2 0 0 [] None;
               AAdd 4 2 4 1 0 0 [] None; AAdd 5 3 5 1 0 0 [] None;
               APost 1 TNone (Some 20) [(1, VZ 1)]; APost 3 TNone None []] RNone]);
    (3, [mkP [APost 2 TNone None []; ARemove 2] RNone]);
    (4, [mkP [APost 3 TNone None [(2, VB true)]] RNone]) ].

Example ex_run :
  let s := run_turns true ex_script 50 [10] init in
  oof s = false /\
  out s = [Ctx 10;
           Invoke 3 3 1 [(1, VZ 1)]; Invoke 1 1 1 [(1, VZ 1)]; Invoke 2 2 1 [(1, VZ 7)];
           Invoke 4 4 2 [];
           Invoke 5 5 3 [(2, VB true)];
           Invoke 5 5 3 [];
           Callback 0 20 [(1, VZ 1)];
           Quiet 0 0].
Proof. vm_compute. split; reflexivity. Qed.

Definition ex_state : state := run_turns true ex_script 50 [10] init.
Definition ex_post : posted := mkQ 100 1 TNone None [(3, VB false)].

(* hypotheses of handlers_once: a reachable state with a non-trivial snapshot (handler 2 was removed) *)
Example ex_handlers_hyp :
  reg_ok ex_state /\ q_ty ex_post = TNone /\ map h_key (snapshot (q_ev ex_post) ex_state) = [3; 1].
Proof. split; [apply run_turns_ok, reg_ok_init|]. vm_compute. split; reflexivity. Qed.

(* hypotheses of no_event_lost / dispatch_refines_dfs: a stack with empty deques at the bottom; the run completes *)
Example ex_stack_hyp :
  stack_ok ([ex_post] :: [[ex_post; ex_post]; []; []]) /\
  oof (fst (inner true ex_script 50 [ex_post] [[ex_post; ex_post]; []; []] ex_state)) = false.
Proof.
  split; [|vm_compute; reflexivity].
  cbn. repeat split; try discriminate; intros; repeat constructor.
Qed.

(* hypotheses of posts_before_waiting: an event that posts, with an event already waiting *)
Example ex_waiting_hyp :
  let s := fst (invoke true ex_script 10 (emit (Ctx 10) init)) in
  match evq s with
  | p :: waiting => waiting <> [] /\ oof (dfs true ex_script 50 (p :: waiting) (set_evq [] s)) = false /\
                    evq (process true ex_script p (set_evq [] s)) <> []
  | [] => False
  end.
Proof. vm_compute. repeat split; discriminate. Qed.

Lemma stack_invariant_preserved_l :
  forall rest stack (new : list posted), stack_ok stack ->
    let '(n1, s1) := pop_if_empty rest stack in
    n1 ++ concat s1 = rest ++ concat stack /\ stack_ok (n1 :: s1) /\
    (new <> [] -> stack_ok (new :: n1 :: s1)).
Proof.
  intros rest stack new H. pose proof (pop_spec rest stack H) as P.
  destruct (pop_if_empty rest stack) as [n1 s1]. destruct P as [E Ok].
  split; [exact E|]. split; [exact Ok|]. intro N. now apply push_ok.
Qed.

Lemma registry_sorted_invariant_l : forall fast sc f turns, reg_ok (run_turns fast sc f turns init).
Proof. intros. apply run_turns_ok. exact reg_ok_init. Qed.

Lemma add_handler_is_stable_insert_l :
  forall key e pid prio hk c s, reg_ok s ->
    let h := mkH key pid prio (kw_norm hk) c (nseq s) in
    exists a b, snapshot e s = a ++ b /\
                snapshot e (add_handler key e pid prio hk c s) = a ++ h :: b /\
                Forall (fun x => h_prio h <= h_prio x) a /\
                match b with [] => True | y :: _ => h_prio y < h_prio h end.
Proof.
  intros key e pid prio hk c s R h. rewrite (add_handler_stable_l key e pid prio hk c s R).
  apply place_split.
Qed.

Example ex_add_hyp :
  reg_ok ex_state /\ map h_key (snapshot 1 ex_state) = [3; 1] /\
  map h_key (snapshot 1 (add_handler 9 1 1 2 [] None ex_state)) = [3; 9; 1].
Proof. split; [apply run_turns_ok, reg_ok_init|]. vm_compute. split; reflexivity. Qed.

(* the same procedure registered three times for one event (adjacent, equal priority) and once for another *)
Definition rm_state : state :=
  run_acts true [AAdd 1 1 7 1 0 0 [] None; AAdd 2 1 7 1 0 0 [] None; AAdd 3 1 7 1 0 0 [] None;
                 AAdd 4 1 8 1 0 0 [] None; AAdd 5 2 7 1 0 0 [] None] init.
Example ex_remove_method :
  map h_key (snapshot 1 rm_state) = [1; 2; 3; 4] /\
  map h_key (snapshot 1 (remove_by_method 7 rm_state)) = [4] /\
  reg_get 2 (reg (remove_by_method 7 rm_state)) = None.
Proof. vm_compute. repeat split. Qed.
