From Common Require Import Prelude.
From C01 Require Import Model.
Open Scope Z_scope.
