(* C01/Model.v — executable model of the event bus of mpf/core/events.py:
     add_handler (append + stable sort by priority, descending), remove_handler_by_key,
     remove_handler(method), replace_handler,
     _post (fast path, deferred posting), _run_handlers (snapshot, kwargs merge, condition,
     boolean abort, relay update), _process_event (callback queue, ev_result),
     process_event_queue (the two nested while loops with the stack of deques, callbacks LIFO, one
     at a time, only when no event is pending).
   Handlers are data: a script maps a procedure id to a list of programs; the k-th invocation of a
   procedure runs its k-th program (later invocations do nothing).  A program is a list of actions
   (post / add handler / replace handler / remove by key / remove by method) and a return value.
   Besides the literal transcription ([inner], [outer]) the file contains the short recursive
   specification ([dfs], [drain]) the transcription is proved to refine (Lemmas.v).
   Definitions only; proofs are in Lemmas.v. *)
From Common Require Import Prelude.
Open Scope Z_scope.

(* ------------------------------------------------------------------------------------------ *)
(* values and keyword dictionaries (canonical: sorted by key, keys distinct)                    *)

Inductive val := VZ (z : Z) | VB (b : bool) | VNone | VMap (m : list (Z * Z)).
Definition kw := list (Z * val).

Definition KEY_EV_RESULT : Z := 0.          (* the key 'ev_result'; user keys are 1.. *)

Fixpoint kw_set (k : Z) (v : val) (m : kw) : kw :=
  match m with
  | [] => [(k, v)]
  | (k', v') :: t =>
      if k <? k' then (k, v) :: m
      else if k =? k' then (k, v) :: t
      else (k', v') :: kw_set k v t
  end.

(* dict(list(a.items()) + list(b.items())) / a.update(b) *)
Definition kw_update (a b : kw) : kw := fold_left (fun acc kv => kw_set (fst kv) (snd kv) acc) b a.
Definition kw_norm (a : kw) : kw := kw_update [] a.

Fixpoint kw_get (k : Z) (m : kw) : option val :=
  match m with
  | [] => None
  | (k', v) :: t => if k =? k' then Some v else kw_get k t
  end.

Definition is_nil {A} (l : list A) : bool := match l with [] => true | _ => false end.

(* ------------------------------------------------------------------------------------------ *)
(* events, handlers, scripts                                                                    *)

Inductive ety := TNone | TBool | TRelay.          (* post / post_boolean / post_relay *)
Inductive ret := RNone | RB (b : bool) | RZ (z : Z) | RMap (m : list (Z * Z)).

(* condition "{k<n> == z}" of an event string; evaluated by MPF's BoolTemplate on the merged kwargs:
   missing name -> default False; Python ==, so True == 1 and False == 0 *)
Definition cond := option (Z * Z).
Definition cond_holds (c : cond) (m : kw) : bool :=
  match c with
  | None => true
  | Some (k, z) =>
      match kw_get k m with
      | Some (VZ v) => v =? z
      | Some (VB b) => (if b then 1 else 0) =? z
      | _ => false
      end
  end.

Record handler := mkH {
  h_key : Z;        (* identifies the registration (the uuid of EventHandlerKey) *)
  h_pid : Z;        (* procedure run when the handler is invoked *)
  h_prio : Z;       (* priority argument + ".N" suffix + relative_priority *)
  h_kw : kw;        (* kwargs registered with the handler *)
  h_cond : cond;
  h_seq : Z         (* ghost: registration sequence number *)
}.

Inductive action :=
| APost (e : Z) (ty : ety) (cb : option Z) (k : kw)
| AAdd (key e pid prio suffix rel : Z) (hk : kw) (c : cond)
| ARemove (key : Z)
| ARemoveMethod (pid : Z)                          (* remove_handler(method) *)
| AReplace (key e pid prio : Z) (hk : kw).         (* replace_handler(event, method, priority, **kwargs) *)

Record prog := mkP { p_acts : list action; p_ret : ret }.
Definition script := list (Z * list prog).

Record posted := mkQ {
  q_id : Z;          (* ghost: index of the _post call *)
  q_ev : Z; q_ty : ety; q_cb : option Z; q_kw : kw }.

Inductive obs :=
| Ctx (pid : Z)                              (* a context (boot code, delay callback, switch handler) runs *)
| Invoke (key pid e : Z) (k : kw)            (* handler registration [key] called for event e *)
| Callback (postid pid : Z) (k : kw)         (* completion callback of post number postid *)
| Quiet (nev ncb : Z).                       (* lengths of event_queue / callback_queue after a turn *)

Record state := mkS {
  reg : list (Z * list handler);             (* registered_handlers *)
  keys : list (Z * Z);                       (* key -> event (EventHandlerKey.event) *)
  nseq : Z;
  evq : list posted;                         (* self.event_queue *)
  cbq : list (Z * Z * kw);                   (* self.callback_queue; head = most recently appended *)
  npost : Z;
  cnt : list (Z * nat);                      (* invocation counters of the script procedures *)
  out : list obs;
  oof : bool;                                (* ran out of fuel *)
  disp : list Z;                             (* ghost: ids of dispatched posts, in order *)
  enq : list Z;                              (* ghost: ids of enqueued posts *)
  pushed : list Z                            (* ghost: ids of posts whose callback was queued *)
}.

Definition init : state := mkS [] [] 0 [] [] 0 [] [] false [] [] [].

Definition set_reg r k n (s : state) :=
  mkS r k n (evq s) (cbq s) (npost s) (cnt s) (out s) (oof s) (disp s) (enq s) (pushed s).
Definition set_evq q (s : state) :=
  mkS (reg s) (keys s) (nseq s) q (cbq s) (npost s) (cnt s) (out s) (oof s) (disp s) (enq s) (pushed s).
Definition set_cbq q (s : state) :=
  mkS (reg s) (keys s) (nseq s) (evq s) q (npost s) (cnt s) (out s) (oof s) (disp s) (enq s) (pushed s).
Definition set_cnt c (s : state) :=
  mkS (reg s) (keys s) (nseq s) (evq s) (cbq s) (npost s) c (out s) (oof s) (disp s) (enq s) (pushed s).
Definition emit o (s : state) :=
  mkS (reg s) (keys s) (nseq s) (evq s) (cbq s) (npost s) (cnt s) (out s ++ [o]) (oof s) (disp s) (enq s) (pushed s).
Definition set_oof (s : state) :=
  mkS (reg s) (keys s) (nseq s) (evq s) (cbq s) (npost s) (cnt s) (out s) true (disp s) (enq s) (pushed s).
Definition mark_disp i (s : state) :=
  mkS (reg s) (keys s) (nseq s) (evq s) (cbq s) (npost s) (cnt s) (out s) (oof s) (disp s ++ [i]) (enq s) (pushed s).
Definition push_cb i pid k (s : state) :=
  mkS (reg s) (keys s) (nseq s) (evq s) ((i, pid, k) :: cbq s) (npost s) (cnt s) (out s) (oof s) (disp s) (enq s)
      (pushed s ++ [i]).
Definition bump_post (s : state) :=
  mkS (reg s) (keys s) (nseq s) (evq s) (cbq s) (npost s + 1) (cnt s) (out s) (oof s) (disp s) (enq s) (pushed s).
Definition enqueue q (s : state) :=
  mkS (reg s) (keys s) (nseq s) (evq s ++ [q]) (cbq s) (npost s) (cnt s) (out s) (oof s) (disp s) (enq s ++ [q_id q])
      (pushed s).

(* ------------------------------------------------------------------------------------------ *)
(* the registry                                                                                 *)

Fixpoint reg_get (e : Z) (r : list (Z * list handler)) : option (list handler) :=
  match r with
  | [] => None
  | (e', l) :: t => if e =? e' then Some l else reg_get e t
  end.
Fixpoint reg_del (e : Z) (r : list (Z * list handler)) : list (Z * list handler) :=
  match r with
  | [] => []
  | (e', l) :: t => if e =? e' then reg_del e t else (e', l) :: reg_del e t
  end.
Definition reg_put (e : Z) (l : list handler) r := (e, l) :: reg_del e r.

Fixpoint assoc (k : Z) (l : list (Z * Z)) : option Z :=
  match l with
  | [] => None
  | (k', v) :: t => if k =? k' then Some v else assoc k t
  end.

(* list.sort(key=priority, reverse=True): stable, descending.  Insertion sort from the right. *)
Fixpoint insert_desc (x : handler) (l : list handler) : list handler :=
  match l with
  | [] => [x]
  | y :: t => if h_prio y <=? h_prio x then x :: y :: t else y :: insert_desc x t
  end.
Definition sort_desc (l : list handler) : list handler := fold_right insert_desc [] l.

(* add_handler *)
Definition add_handler (key e pid prio : Z) (hk : kw) (c : cond) (s : state) : state :=
  let l := match reg_get e (reg s) with Some l => l | None => [] end in
  let h := mkH key pid prio (kw_norm hk) c (nseq s) in
  set_reg (reg_put e (sort_desc (l ++ [h])) (reg s)) ((key, e) :: keys s) (nseq s + 1) s.

(* remove_handler_by_key (+ _remove_event_if_empty) *)
Definition remove_by_key (key : Z) (s : state) : state :=
  match assoc key (keys s) with
  | None => s
  | Some e =>
      match reg_get e (reg s) with
      | None => s
      | Some l =>
          let l' := filter (fun h => negb (h_key h =? key)) l in
          set_reg (if is_nil l' then reg_del e (reg s) else reg_put e l' (reg s)) (keys s) (nseq s) s
      end
  end.

(* remove_handler(method): every registration of the procedure, in every event; events left without a handler
   are deleted (_remove_event_if_empty) *)
Fixpoint reg_filter (f : handler -> bool) (r : list (Z * list handler)) : list (Z * list handler) :=
  match r with
  | [] => []
  | (e, l) :: t =>
      let l' := filter f l in
      if is_nil l' then reg_filter f t else (e, l') :: reg_filter f t
  end.
Definition remove_by_method (pid : Z) (s : state) : state :=
  set_reg (reg_filter (fun h => negb (h_pid h =? pid)) (reg s)) (keys s) (nseq s) s.

(* Python == on the values that occur in kwargs (True == 1, False == 0) and on dicts *)
Definition val_num (v : val) : option Z :=
  match v with VZ z => Some z | VB b => Some (if b then 1 else 0) | _ => None end.
Fixpoint zz_eqb (a b : list (Z * Z)) : bool :=
  match a, b with
  | [], [] => true
  | (k, v) :: a', (k', v') :: b' => (k =? k') && (v =? v') && zz_eqb a' b'
  | _, _ => false
  end.
Definition val_pyeq (a b : val) : bool :=
  match val_num a, val_num b with
  | Some x, Some y => x =? y
  | None, None =>
      match a, b with
      | VNone, VNone => true
      | VMap x, VMap y => zz_eqb x y
      | _, _ => false
      end
  | _, _ => false
  end.
Fixpoint kw_pyeq (a b : kw) : bool :=
  match a, b with
  | [], [] => true
  | (k, v) :: a', (k', v') :: b' => (k =? k') && val_pyeq v v' && kw_pyeq a' b'
  | _, _ => false
  end.

(* replace_handler: drop the registrations of the procedure for this event (with equal kwargs, if kwargs are
   given), then add_handler.  The code does not delete an event that is empty in between; add_handler refills it. *)
Definition replace_handler (key e pid prio : Z) (hk : kw) (s : state) : state :=
  let s1 :=
    match reg_get e (reg s) with
    | None => s
    | Some l =>
        let keep h := negb ((h_pid h =? pid) && (is_nil hk || kw_pyeq (h_kw h) (kw_norm hk))) in
        set_reg (reg_put e (filter keep l) (reg s)) (keys s) (nseq s) s
    end in
  add_handler key e pid prio hk None s1.

(* _post.  [fast] = the fast path of the code ("no callback and no handler registered: return");
   the code has it, so the model is always run with fast = true; fast = false is the reading of the
   property in which every post is queued (used by the _refuted theorem only). *)
Definition post (fast : bool) (e : Z) (ty : ety) (cb : option Z) (k : kw) (s : state) : state :=
  let i := npost s in
  let s := bump_post s in
  if fast && (match cb with None => true | Some _ => false end)
          && (match reg_get e (reg s) with None => true | Some _ => false end)
  then s
  else enqueue (mkQ i e ty cb (kw_norm k)) s.

Definition run_action (fast : bool) (a : action) (s : state) : state :=
  match a with
  | APost e ty cb k => post fast e ty cb k s
  | AAdd key e pid prio suffix rel hk c => add_handler key e pid (prio + suffix + rel) hk c s
  | ARemove key => remove_by_key key s
  | ARemoveMethod pid => remove_by_method pid s
  | AReplace key e pid prio hk => replace_handler key e pid prio hk s
  end.

Definition run_acts (fast : bool) (l : list action) (s : state) : state :=
  fold_left (fun s a => run_action fast a s) l s.

Fixpoint cnt_get (p : Z) (c : list (Z * nat)) : nat :=
  match c with
  | [] => 0%nat
  | (p', n) :: t => if p =? p' then n else cnt_get p t
  end.
Fixpoint script_get (p : Z) (sc : script) : list prog :=
  match sc with
  | [] => []
  | (p', l) :: t => if p =? p' then l else script_get p t
  end.

(* the k-th call of procedure pid runs its k-th program *)
Definition invoke (fast : bool) (sc : script) (pid : Z) (s : state) : state * ret :=
  let k := cnt_get pid (cnt s) in
  let s := set_cnt ((pid, S k) :: cnt s) s in
  let p := nth k (script_get pid sc) (mkP [] RNone) in
  (run_acts fast (p_acts p) s, p_ret p).

(* ------------------------------------------------------------------------------------------ *)
(* _run_handlers / _process_event                                                               *)

Definition merge (kwargs hk : kw) : kw :=
  if negb (is_nil hk) && negb (is_nil kwargs) then kw_update kwargs hk
  else if negb (is_nil hk) then hk
  else kwargs.

Definition is_false (r : ret) : bool := match r with RB false => true | _ => false end.
Definition truthy (r : ret) : bool :=
  match r with
  | RNone => false | RB b => b | RZ z => negb (z =? 0) | RMap m => negb (is_nil m)
  end.
Definition val_of_ret (r : ret) : val :=
  match r with RNone => VNone | RB b => VB b | RZ z => VZ z | RMap m => VMap m end.
Definition kw_of_map (m : list (Z * Z)) : kw := map (fun kv => (fst kv, VZ (snd kv))) m.

Fixpoint run_handlers (fast : bool) (sc : script) (e : Z) (ty : ety) (hs : list handler)
         (kwargs : kw) (result : ret) (s : state) : state * kw * ret :=
  match hs with
  | [] => (s, kwargs, result)
  | h :: tl =>
      let merged := merge kwargs (h_kw h) in
      if cond_holds (h_cond h) merged then
        let s1 := emit (Invoke (h_key h) (h_pid h) e merged) s in
        let '(s2, r) := invoke fast sc (h_pid h) s1 in
        match ty with
        | TBool =>
            if is_false r then (s2, kw_set KEY_EV_RESULT (VB false) kwargs, r)
            else run_handlers fast sc e ty tl kwargs r s2
        | TRelay =>
            match r with
            | RMap m => run_handlers fast sc e ty tl (kw_update kwargs (kw_of_map m)) r s2
            | _ => run_handlers fast sc e ty tl kwargs r s2
            end
        | TNone => run_handlers fast sc e ty tl kwargs r s2
        end
      else run_handlers fast sc e ty tl kwargs result s
  end.

Definition process (fast : bool) (sc : script) (p : posted) (s : state) : state :=
  let s0 := mark_disp (q_id p) s in
  let '(s1, kwargs, result) :=
    match reg_get (q_ev p) (reg s0) with
    | Some hs => run_handlers fast sc (q_ev p) (q_ty p) hs (q_kw p) RNone s0      (* hs: the [:] copy *)
    | None => (s0, q_kw p, RNone)
    end in
  match q_cb p with
  | None => s1
  | Some cb =>
      let kwargs' := if truthy result then kw_set KEY_EV_RESULT (val_of_ret result) kwargs else kwargs in
      push_cb (q_id p) cb kwargs' s1
  end.

(* ------------------------------------------------------------------------------------------ *)
(* process_event_queue: literal transcription                                                   *)

(* if not next_queue and inner_queue: next_queue = inner_queue.popleft() *)
Definition pop_if_empty (rest : list posted) (stack : list (list posted)) : list posted * list (list posted) :=
  match rest, stack with
  | [], q :: st => (q, st)
  | _, _ => (rest, stack)
  end.

(* while next_queue: ...   (next = next_queue, stack = inner_queue, head = left end) *)
Fixpoint inner (fast : bool) (sc : script) (fuel : nat) (next : list posted) (stack : list (list posted))
         (s : state) : state * list (list posted) :=
  match fuel with
  | O => (set_oof s, stack)
  | S f =>
      match next with
      | [] => (s, stack)
      | event :: rest =>
          let '(next1, stack1) := pop_if_empty rest stack in
          let s1 := process fast sc event s in
          match evq s1 with
          | [] => inner fast sc f next1 stack1 s1
          | q => inner fast sc f q (next1 :: stack1) (set_evq [] s1)     (* appendleft; swap *)
          end
      end
  end.

(* while self.event_queue or self.callback_queue: ... *)
Fixpoint outer (fast : bool) (sc : script) (fuel : nat) (stack : list (list posted)) (s : state) : state :=
  match fuel with
  | O => set_oof s
  | S f =>
      if is_nil (evq s) && is_nil (cbq s) then s
      else
        let '(s1, stack1) :=
          if is_nil (evq s) then (s, stack) else inner fast sc f (evq s) stack (set_evq [] s) in
        if oof s1 then s1
        else
          match cbq s1 with
          | [] => outer fast sc f stack1 s1
          | (i, pid, k) :: rest =>
              let s2 := emit (Callback i pid k) (set_cbq rest s1) in
              outer fast sc f stack1 (fst (invoke fast sc pid s2))
          end
  end.

(* a context runs a procedure outside any dispatch, then the queue is drained (call_soon'd
   process_event_queue, or the direct call in delays.py / switch_controller.py) *)
Definition turn (fast : bool) (sc : script) (fuel : nat) (pid : Z) (s : state) : state :=
  let s1 := fst (invoke fast sc pid (emit (Ctx pid) s)) in
  let s2 := outer fast sc fuel [] s1 in
  emit (Quiet (Z.of_nat (length (evq s2))) (Z.of_nat (length (cbq s2)))) s2.

Definition run_turns (fast : bool) (sc : script) (fuel : nat) (turns : list Z) (s : state) : state :=
  fold_left (fun s pid => turn fast sc fuel pid s) turns s.

(* ------------------------------------------------------------------------------------------ *)
(* the specification: one pending list; what an event posts goes in front of what was waiting   *)

Fixpoint dfs (fast : bool) (sc : script) (fuel : nat) (pending : list posted) (s : state) : state :=
  match fuel with
  | O => set_oof s
  | S f =>
      match pending with
      | [] => s
      | p :: waiting =>
          let s1 := process fast sc p s in
          dfs fast sc f (evq s1 ++ waiting) (set_evq [] s1)
      end
  end.

(* dispatch everything (transitively), then one callback, repeat *)
Fixpoint drain (fast : bool) (sc : script) (fuel : nat) (s : state) : state :=
  match fuel with
  | O => set_oof s
  | S f =>
      if is_nil (evq s) && is_nil (cbq s) then s
      else
        let s1 := if is_nil (evq s) then s else dfs fast sc f (evq s) (set_evq [] s) in
        if oof s1 then s1
        else
          match cbq s1 with
          | [] => drain fast sc f s1
          | (i, pid, k) :: rest =>
              drain fast sc f (fst (invoke fast sc pid (emit (Callback i pid k) (set_cbq rest s1))))
          end
  end.

(* ------------------------------------------------------------------------------------------ *)
(* correspondence entry point                                                                   *)

Definition FUEL : nat := 4000.

(* input: script, turns, events whose final handler order is reported.
   output: completed?, observations, final handler keys per reported event *)
Definition c01_in := (script * list Z * list Z)%type.
Definition c01_out := (bool * list obs * list (list Z))%type.

Definition c01_run (i : c01_in) : c01_out :=
  let '(sc, turns, evs) := i in
  let s := run_turns true sc FUEL turns init in
  (negb (oof s), out s,
   map (fun e => match reg_get e (reg s) with Some l => map h_key l | None => [] end) evs).

Definition val_eqb (a b : val) : bool :=
  match a, b with
  | VZ x, VZ y => x =? y
  | VB x, VB y => Bool.eqb x y
  | VNone, VNone => true
  | VMap x, VMap y => zz_eqb x y
  | _, _ => false
  end.
Fixpoint kw_eqb (a b : kw) : bool :=
  match a, b with
  | [], [] => true
  | (k, v) :: a', (k', v') :: b' => (k =? k') && val_eqb v v' && kw_eqb a' b'
  | _, _ => false
  end.
Definition obs_eqb (a b : obs) : bool :=
  match a, b with
  | Ctx p, Ctx p' => p =? p'
  | Invoke k p e m, Invoke k' p' e' m' => (k =? k') && (p =? p') && (e =? e') && kw_eqb m m'
  | Callback i p m, Callback i' p' m' => (i =? i') && (p =? p') && kw_eqb m m'
  | Quiet a b, Quiet a' b' => (a =? a') && (b =? b')
  | _, _ => false
  end.
Definition c01_out_eqb (a b : c01_out) : bool :=
  let '(c, o, r) := a in
  let '(c', o', r') := b in
  Bool.eqb c c' && list_eqb obs_eqb o o' && zss_eqb r r'.
