(* C01/Model.v — executable model of the event bus of mpf/core/events.py:
     add_handler (append + stable sort by priority, descending), remove_handler_by_key,
     remove_handler(method), replace_handler,
     _post (fast path, deferred posting), _run_handlers (snapshot, kwargs merge, condition,
     boolean abort, relay update), _process_event (callback queue, ev_result),
     process_event_queue (the two nested while loops with the stack of deques, callbacks LIFO, one
     at a time, only when no event is pending).
   Handlers are data: a script maps a procedure id to a list of programs; the k-th invocation of a
   procedure runs its k-th program (later invocations do nothing).  A program is a list of actions
   (post / add handler / replace handler / remove by key / remove by method) and a return value.
   Besides the literal transcription ([inner], [outer]) the file contains the short recursive
   specification ([dfs], [drain]) the transcription is proved to refine (Lemmas.v).
   Round 2: programs may also call into the other anchored APIs from inside a handler (DelayManager.add /
   reset / remove / run_now with callbacks that post, SwitchController.process_switch with untimed handlers
   that post): such a call runs the callback INLINE (observation [Sub]) and never dispatches anything;
   expiring delays are contexts ([TFire]); posted '_min_priority' + handler blocking_facility;
   remove_handler_by_event, remove_all_handlers_for_event; queue events (post_queue): _process_queue_event
   creates a task, _run_handlers_sequential runs in steps ([task_step]) between which the handlers may wait.
   Definitions only; proofs are in Lemmas.v. *)
From Common Require Import Prelude.
Open Scope Z_scope.

(* ------------------------------------------------------------------------------------------ *)
(* values and keyword dictionaries (canonical: sorted by key, keys distinct)                    *)

(* VMP m = the dict {'_min_priority': m} (a handler result that ends up as ev_result) *)
Inductive val := VZ (z : Z) | VB (b : bool) | VNone | VMap (m : list (Z * Z)) | VMP (m : list (Z * Z)).
Definition kw := list (Z * val).

Definition KEY_EV_RESULT : Z := 0.          (* the key 'ev_result'; user keys are 1.. *)
Definition KEY_MINPRIO : Z := -1.           (* the key '_min_priority'; its value is VMap [(0, all); (facility, n) ...] *)

Fixpoint kw_set (k : Z) (v : val) (m : kw) : kw :=
  match m with
  | [] => [(k, v)]
  | (k', v') :: t =>
      if k <? k' then (k, v) :: m
      else if k =? k' then (k, v) :: t
      else (k', v') :: kw_set k v t
  end.

(* dict(list(a.items()) + list(b.items())) / a.update(b) *)
Definition kw_update (a b : kw) : kw := fold_left (fun acc kv => kw_set (fst kv) (snd kv) acc) b a.
Definition kw_norm (a : kw) : kw := kw_update [] a.

Fixpoint kw_get (k : Z) (m : kw) : option val :=
  match m with
  | [] => None
  | (k', v) :: t => if k =? k' then Some v else kw_get k t
  end.

Definition is_nil {A} (l : list A) : bool := match l with [] => true | _ => false end.

(* ------------------------------------------------------------------------------------------ *)
(* events, handlers, scripts                                                                    *)

Inductive ety := TNone | TBool | TRelay | TQueue.          (* post / post_boolean / post_relay / post_queue *)
(* RWait: the handler calls queue.wait() on the QueuedEvent it was given (queue events) and returns None *)
(* RMinPrio m: the handler returns {'_min_priority': m} (block_event_player, shot) *)
Inductive ret := RNone | RB (b : bool) | RZ (z : Z) | RMap (m : list (Z * Z)) | RWait | RMinPrio (m : list (Z * Z)).

(* condition "{k<n> == z}" of an event string; evaluated by MPF's BoolTemplate on the merged kwargs:
   missing name -> default False; Python ==, so True == 1 and False == 0 *)
Definition cond := option (Z * Z).
Definition cond_holds (c : cond) (m : kw) : bool :=
  match c with
  | None => true
  | Some (k, z) =>
      match kw_get k m with
      | Some (VZ v) => v =? z
      | Some (VB b) => (if b then 1 else 0) =? z
      | _ => false
      end
  end.

Record handler := mkH {
  h_key : Z;        (* identifies the registration (the uuid of EventHandlerKey) *)
  h_pid : Z;        (* procedure run when the handler is invoked *)
  h_prio : Z;       (* priority argument + ".N" suffix + relative_priority *)
  h_kw : kw;        (* kwargs registered with the handler *)
  h_cond : cond;
  h_bf : Z;         (* blocking_facility (0 = None) *)
  h_seq : Z         (* ghost: registration sequence number *)
}.

Inductive action :=
| APost (e : Z) (ty : ety) (cb : option Z) (k : kw)
| AAdd (key e pid prio suffix rel : Z) (hk : kw) (c : cond) (bf : Z)
| ARemove (key : Z)
| ARemoveMethod (pid : Z)                          (* remove_handler(method) *)
| AReplace (key e pid prio : Z) (hk : kw)          (* replace_handler(event, method, priority, **kwargs) *)
| ARemoveByEvent (e pid : Z)                       (* remove_handler_by_event(event, method) *)
| ARemoveAll (e : Z)                               (* remove_all_handlers_for_event(event) *)
| ADelayAdd (name pid : Z)                         (* DelayManager.add / reset (ms > 0, name): callback = procedure pid *)
| ADelayRemove (name : Z)                          (* DelayManager.remove *)
| ARunNow (name : Z)                               (* DelayManager.run_now: the callback runs inline *)
| ASwitch (pids : list Z)                          (* process_switch on a switch whose untimed handlers are pids *)
| AClear.                                          (* queue.clear() on the oldest waiting QueuedEvent *)

Record prog := mkP { p_acts : list action; p_ret : ret }.
Definition script := list (Z * list prog).

Record posted := mkQ {
  q_id : Z;          (* ghost: index of the _post call *)
  q_ev : Z; q_ty : ety; q_cb : option Z; q_kw : kw }.

Inductive obs :=
| Ctx (pid : Z)                              (* a context (boot code, delay callback, switch handler) runs *)
| Sub (pid : Z)                              (* a callback run inline by run_now / process_switch inside a program *)
| Invoke (key pid e : Z) (k : kw)            (* handler registration [key] called for event e *)
| Callback (postid pid : Z) (k : kw)         (* completion callback of post number postid *)
| Quiet (nev ncb : Z).                       (* lengths of event_queue / callback_queue after a turn *)

(* a task created by _process_queue_event; t_todo = None: _run_handlers_sequential has not started (the snapshot is
   taken when it starts); t_wait: suspended in 'await queue.event.wait()' *)
Record qtask := mkT { t_id : Z; t_ev : Z; t_cb : option Z; t_kw : kw; t_todo : option (list handler); t_wait : bool }.

Record state := mkS {
  reg : list (Z * list handler);             (* registered_handlers *)
  keys : list (Z * Z);                       (* key -> event (EventHandlerKey.event) *)
  nseq : Z;
  evq : list posted;                         (* self.event_queue *)
  cbq : list (Z * Z * kw);                   (* self.callback_queue; head = most recently appended *)
  npost : Z;
  cnt : list (Z * nat);                      (* invocation counters of the script procedures *)
  out : list obs;
  oof : bool;                                (* ran out of fuel *)
  dly : list (Z * Z);                        (* DelayManager.delays: name -> callback procedure *)
  tasks : list qtask;                        (* tasks of _process_queue_event that have not finished *)
  disp : list Z;                             (* ghost: ids of dispatched posts, in order *)
  enq : list Z;                              (* ghost: ids of enqueued posts *)
  pushed : list Z                            (* ghost: ids of posts whose callback was queued *)
}.

Definition init : state := mkS [] [] 0 [] [] 0 [] [] false [] [] [] [] [].

Definition set_reg r k n (s : state) :=
  mkS r k n (evq s) (cbq s) (npost s) (cnt s) (out s) (oof s) (dly s) (tasks s) (disp s) (enq s) (pushed s).
Definition set_evq q (s : state) :=
  mkS (reg s) (keys s) (nseq s) q (cbq s) (npost s) (cnt s) (out s) (oof s) (dly s) (tasks s) (disp s) (enq s) (pushed s).
Definition set_cbq q (s : state) :=
  mkS (reg s) (keys s) (nseq s) (evq s) q (npost s) (cnt s) (out s) (oof s) (dly s) (tasks s) (disp s) (enq s) (pushed s).
Definition set_cnt c (s : state) :=
  mkS (reg s) (keys s) (nseq s) (evq s) (cbq s) (npost s) c (out s) (oof s) (dly s) (tasks s) (disp s) (enq s) (pushed s).
Definition emit o (s : state) :=
  mkS (reg s) (keys s) (nseq s) (evq s) (cbq s) (npost s) (cnt s) (out s ++ [o]) (oof s) (dly s) (tasks s) (disp s) (enq s) (pushed s).
Definition set_oof (s : state) :=
  mkS (reg s) (keys s) (nseq s) (evq s) (cbq s) (npost s) (cnt s) (out s) true (dly s) (tasks s) (disp s) (enq s) (pushed s).
Definition mark_disp i (s : state) :=
  mkS (reg s) (keys s) (nseq s) (evq s) (cbq s) (npost s) (cnt s) (out s) (oof s) (dly s) (tasks s) (disp s ++ [i]) (enq s) (pushed s).
Definition push_cb i pid k (s : state) :=
  mkS (reg s) (keys s) (nseq s) (evq s) ((i, pid, k) :: cbq s) (npost s) (cnt s) (out s) (oof s) (dly s) (tasks s) (disp s) (enq s)
      (pushed s ++ [i]).
Definition bump_post (s : state) :=
  mkS (reg s) (keys s) (nseq s) (evq s) (cbq s) (npost s + 1) (cnt s) (out s) (oof s) (dly s) (tasks s) (disp s) (enq s) (pushed s).
Definition enqueue q (s : state) :=
  mkS (reg s) (keys s) (nseq s) (evq s ++ [q]) (cbq s) (npost s) (cnt s) (out s) (oof s) (dly s) (tasks s) (disp s) (enq s ++ [q_id q])
      (pushed s).
Definition set_dly d (s : state) :=
  mkS (reg s) (keys s) (nseq s) (evq s) (cbq s) (npost s) (cnt s) (out s) (oof s) d (tasks s) (disp s) (enq s) (pushed s).
Definition set_tasks t (s : state) :=
  mkS (reg s) (keys s) (nseq s) (evq s) (cbq s) (npost s) (cnt s) (out s) (oof s) (dly s) t (disp s) (enq s) (pushed s).
(* ghost: the callback of post i is called directly by its task (queue events), not through callback_queue *)
Definition mark_pushed i (s : state) :=
  mkS (reg s) (keys s) (nseq s) (evq s) (cbq s) (npost s) (cnt s) (out s) (oof s) (dly s) (tasks s) (disp s) (enq s)
      (pushed s ++ [i]).

(* ------------------------------------------------------------------------------------------ *)
(* the registry                                                                                 *)

Fixpoint reg_get (e : Z) (r : list (Z * list handler)) : option (list handler) :=
  match r with
  | [] => None
  | (e', l) :: t => if e =? e' then Some l else reg_get e t
  end.
Fixpoint reg_del (e : Z) (r : list (Z * list handler)) : list (Z * list handler) :=
  match r with
  | [] => []
  | (e', l) :: t => if e =? e' then reg_del e t else (e', l) :: reg_del e t
  end.
Definition reg_put (e : Z) (l : list handler) r := (e, l) :: reg_del e r.

Fixpoint assoc (k : Z) (l : list (Z * Z)) : option Z :=
  match l with
  | [] => None
  | (k', v) :: t => if k =? k' then Some v else assoc k t
  end.

(* list.sort(key=priority, reverse=True): stable, descending.  Insertion sort from the right. *)
Fixpoint insert_desc (x : handler) (l : list handler) : list handler :=
  match l with
  | [] => [x]
  | y :: t => if h_prio y <=? h_prio x then x :: y :: t else y :: insert_desc x t
  end.
Definition sort_desc (l : list handler) : list handler := fold_right insert_desc [] l.

(* add_handler *)
Definition add_handler (key e pid prio : Z) (hk : kw) (c : cond) (bf : Z) (s : state) : state :=
  let l := match reg_get e (reg s) with Some l => l | None => [] end in
  let h := mkH key pid prio (kw_norm hk) c bf (nseq s) in
  set_reg (reg_put e (sort_desc (l ++ [h])) (reg s)) ((key, e) :: keys s) (nseq s + 1) s.

(* remove_handler_by_key (+ _remove_event_if_empty) *)
Definition remove_by_key (key : Z) (s : state) : state :=
  match assoc key (keys s) with
  | None => s
  | Some e =>
      match reg_get e (reg s) with
      | None => s
      | Some l =>
          let l' := filter (fun h => negb (h_key h =? key)) l in
          set_reg (if is_nil l' then reg_del e (reg s) else reg_put e l' (reg s)) (keys s) (nseq s) s
      end
  end.

(* remove_handler(method): every registration of the procedure, in every event; events left without a handler
   are deleted (_remove_event_if_empty) *)
Fixpoint reg_filter (f : handler -> bool) (r : list (Z * list handler)) : list (Z * list handler) :=
  match r with
  | [] => []
  | (e, l) :: t =>
      let l' := filter f l in
      if is_nil l' then reg_filter f t else (e, l') :: reg_filter f t
  end.
Definition remove_by_method (pid : Z) (s : state) : state :=
  set_reg (reg_filter (fun h => negb (h_pid h =? pid)) (reg s)) (keys s) (nseq s) s.

(* remove_handler_by_event(event, method): every registration of the procedure for this event
   (+ _remove_event_if_empty) *)
Definition remove_by_event (e pid : Z) (s : state) : state :=
  match reg_get e (reg s) with
  | None => s
  | Some l =>
      let l' := filter (fun h => negb (h_pid h =? pid)) l in
      set_reg (if is_nil l' then reg_del e (reg s) else reg_put e l' (reg s)) (keys s) (nseq s) s
  end.

(* remove_all_handlers_for_event: del registered_handlers[event] *)
Definition remove_all (e : Z) (s : state) : state := set_reg (reg_del e (reg s)) (keys s) (nseq s) s.

(* Python == on the values that occur in kwargs (True == 1, False == 0) and on dicts *)
Definition val_num (v : val) : option Z :=
  match v with VZ z => Some z | VB b => Some (if b then 1 else 0) | _ => None end.
Fixpoint zz_eqb (a b : list (Z * Z)) : bool :=
  match a, b with
  | [], [] => true
  | (k, v) :: a', (k', v') :: b' => (k =? k') && (v =? v') && zz_eqb a' b'
  | _, _ => false
  end.
Definition val_pyeq (a b : val) : bool :=
  match val_num a, val_num b with
  | Some x, Some y => x =? y
  | None, None =>
      match a, b with
      | VNone, VNone => true
      | VMap x, VMap y => zz_eqb x y
      | VMP x, VMP y => zz_eqb x y
      | _, _ => false
      end
  | _, _ => false
  end.
Fixpoint kw_pyeq (a b : kw) : bool :=
  match a, b with
  | [], [] => true
  | (k, v) :: a', (k', v') :: b' => (k =? k') && val_pyeq v v' && kw_pyeq a' b'
  | _, _ => false
  end.

(* replace_handler: drop the registrations of the procedure for this event (with equal kwargs, if kwargs are
   given), then add_handler.  The code does not delete an event that is empty in between; add_handler refills it. *)
Definition replace_handler (key e pid prio : Z) (hk : kw) (s : state) : state :=
  let s1 :=
    match reg_get e (reg s) with
    | None => s
    | Some l =>
        let keep h := negb ((h_pid h =? pid) && (is_nil hk || kw_pyeq (h_kw h) (kw_norm hk))) in
        set_reg (reg_put e (filter keep l) (reg s)) (keys s) (nseq s) s
    end in
  add_handler key e pid prio hk None 0 s1.

(* _post.  [fast] = the fast path of the code ("no callback and no handler registered: return");
   the code has it, so the model is always run with fast = true; fast = false is the reading of the
   property in which every post is queued (used by the _refuted theorem only). *)
Definition post (fast : bool) (e : Z) (ty : ety) (cb : option Z) (k : kw) (s : state) : state :=
  let i := npost s in
  let s := bump_post s in
  if fast && (match cb with None => true | Some _ => false end)
          && (match reg_get e (reg s) with None => true | Some _ => false end)
  then s
  else enqueue (mkQ i e ty cb (kw_norm k)) s.

(* DelayManager.delays (name -> callback) and the oldest waiting QueuedEvent *)
Definition dly_del (n : Z) (l : list (Z * Z)) : list (Z * Z) := filter (fun kv => negb (fst kv =? n)) l.
Fixpoint clear_first (l : list qtask) : list qtask :=
  match l with
  | [] => []
  | t :: r => if t_wait t then mkT (t_id t) (t_ev t) (t_cb t) (t_kw t) (t_todo t) false :: r else t :: clear_first r
  end.

(* [call pid s]: what "the callback pid is called synchronously from inside this program" does.
   DelayManager.add / reset / remove only change the table of pending delays; run_now removes the entry and
   calls the callback; process_switch calls the untimed handlers of the switch one after the other.  None of
   them touches process_event_queue: whatever the callbacks post is appended to event_queue and is dispatched
   only after the running handler (and the rest of the current dispatch) has returned. *)
Definition run_action (fast : bool) (call : Z -> state -> state) (a : action) (s : state) : state :=
  match a with
  | APost e ty cb k => post fast e ty cb k s
  | AAdd key e pid prio suffix rel hk c bf => add_handler key e pid (prio + suffix + rel) hk c bf s
  | ARemove key => remove_by_key key s
  | ARemoveMethod pid => remove_by_method pid s
  | AReplace key e pid prio hk => replace_handler key e pid prio hk s
  | ARemoveByEvent e pid => remove_by_event e pid s
  | ARemoveAll e => remove_all e s
  | ADelayAdd n pid => set_dly ((n, pid) :: dly_del n (dly s)) s
  | ADelayRemove n => set_dly (dly_del n (dly s)) s
  | ARunNow n =>
      match assoc n (dly s) with
      | Some pid => call pid (set_dly (dly_del n (dly s)) s)
      | None => s
      end
  | ASwitch pids => fold_left (fun s pid => call pid s) pids s
  | AClear => set_tasks (clear_first (tasks s)) s
  end.

Definition run_acts (fast : bool) (call : Z -> state -> state) (l : list action) (s : state) : state :=
  fold_left (fun s a => run_action fast call a s) l s.

Fixpoint cnt_get (p : Z) (c : list (Z * nat)) : nat :=
  match c with
  | [] => 0%nat
  | (p', n) :: t => if p =? p' then n else cnt_get p t
  end.
Fixpoint script_get (p : Z) (sc : script) : list prog :=
  match sc with
  | [] => []
  | (p', l) :: t => if p =? p' then l else script_get p t
  end.

(* the k-th call of procedure pid runs its k-th program.  d bounds the nesting of inline calls (a callback run by
   run_now / process_switch that itself calls run_now / process_switch ...); exhausting it sets oof *)
Fixpoint invoke_d (fast : bool) (sc : script) (d : nat) (pid : Z) (s : state) : state * ret :=
  let k := cnt_get pid (cnt s) in
  let s := set_cnt ((pid, S k) :: cnt s) s in
  let p := nth k (script_get pid sc) (mkP [] RNone) in
  let call :=
    match d with
    | O => fun (_ : Z) (s : state) => set_oof s
    | S d' => fun (q : Z) (s : state) => fst (invoke_d fast sc d' q (emit (Sub q) s))
    end in
  (run_acts fast call (p_acts p) s, p_ret p).

Definition DEPTH : nat := 16.
Definition invoke (fast : bool) (sc : script) (pid : Z) (s : state) : state * ret := invoke_d fast sc DEPTH pid s.

(* ------------------------------------------------------------------------------------------ *)
(* _run_handlers / _process_event                                                               *)

Definition merge (kwargs hk : kw) : kw :=
  if negb (is_nil hk) && negb (is_nil kwargs) then kw_update kwargs hk
  else if negb (is_nil hk) then hk
  else kwargs.

Fixpoint zz_get (k : Z) (m : list (Z * Z)) : option Z :=
  match m with
  | [] => None
  | (k', v) :: t => if k =? k' then Some v else zz_get k t
  end.

(* '_min_priority' in kwargs and handler.blocking_facility and
   (kwargs['_min_priority']['all'] > handler.priority or
    (handler.blocking_facility in kwargs['_min_priority'] and kwargs['_min_priority'][facility] > handler.priority));
   evaluated on the POSTED (+ relayed) kwargs, not on the merged ones.  'all' is key 0, facilities are 1.. *)
Definition blocked (kwargs : kw) (h : handler) : bool :=
  match kw_get KEY_MINPRIO kwargs with
  | Some (VMap m) =>
      negb (h_bf h =? 0) &&
      ((match zz_get 0 m with Some a => h_prio h <? a | None => false end) ||
       (match zz_get (h_bf h) m with Some a => h_prio h <? a | None => false end))
  | _ => false
  end.

Definition is_false (r : ret) : bool := match r with RB false => true | _ => false end.
Definition truthy (r : ret) : bool :=
  match r with
  | RNone => false | RB b => b | RZ z => negb (z =? 0) | RMap m => negb (is_nil m) | RWait => false
  | RMinPrio _ => true
  end.
Definition val_of_ret (r : ret) : val :=
  match r with RNone => VNone | RB b => VB b | RZ z => VZ z | RMap m => VMap m | RWait => VNone | RMinPrio m => VMP m end.
Definition kw_of_map (m : list (Z * Z)) : kw := map (fun kv => (fst kv, VZ (snd kv))) m.

(* relay events: kwargs.update(result) for a dict result; every type: a result dict that has '_min_priority' sets
   kwargs['_min_priority'] for the handlers that follow *)
Definition after_ret (ty : ety) (r : ret) (kwargs : kw) : kw :=
  match r with
  | RMinPrio m => kw_set KEY_MINPRIO (VMap m) kwargs
  | RMap m => match ty with TRelay => kw_update kwargs (kw_of_map m) | _ => kwargs end
  | _ => kwargs
  end.

Fixpoint run_handlers (fast : bool) (sc : script) (e : Z) (ty : ety) (hs : list handler)
         (kwargs : kw) (result : ret) (s : state) : state * kw * ret :=
  match hs with
  | [] => (s, kwargs, result)
  | h :: tl =>
      if blocked kwargs h then run_handlers fast sc e ty tl kwargs result s else
      let merged := merge kwargs (h_kw h) in
      if cond_holds (h_cond h) merged then
        let s1 := emit (Invoke (h_key h) (h_pid h) e merged) s in
        let '(s2, r) := invoke fast sc (h_pid h) s1 in
        match ty with
        | TBool =>
            if is_false r then (s2, kw_set KEY_EV_RESULT (VB false) kwargs, r)
            else run_handlers fast sc e ty tl (after_ret ty r kwargs) r s2
        | _ => run_handlers fast sc e ty tl (after_ret ty r kwargs) r s2
        end
      else run_handlers fast sc e ty tl kwargs result s
  end.

Definition process_std (fast : bool) (sc : script) (p : posted) (s : state) : state :=
  let s0 := mark_disp (q_id p) s in
  let '(s1, kwargs, result) :=
    match reg_get (q_ev p) (reg s0) with
    | Some hs => run_handlers fast sc (q_ev p) (q_ty p) hs (q_kw p) RNone s0      (* hs: the [:] copy *)
    | None => (s0, q_kw p, RNone)
    end in
  match q_cb p with
  | None => s1
  | Some cb =>
      let kwargs' := if truthy result then kw_set KEY_EV_RESULT (val_of_ret result) kwargs else kwargs in
      push_cb (q_id p) cb kwargs' s1
  end.

(* _process_queue_event: no handler registered -> the callback goes to callback_queue; otherwise a task is created
   (asyncio.create_task(_run_handlers_sequential(...))): no handler runs inside process_event_queue.
   post_queue always has a callback (a None callback would crash in the no-handler path): domain of the model *)
Definition process_q (p : posted) (s : state) : state :=
  let s0 := mark_disp (q_id p) s in
  match reg_get (q_ev p) (reg s0) with
  | None => match q_cb p with Some cb => push_cb (q_id p) cb (q_kw p) s0 | None => s0 end
  | Some _ => set_tasks (tasks s0 ++ [mkT (q_id p) (q_ev p) (q_cb p) (q_kw p) None false]) s0
  end.

Definition process (fast : bool) (sc : script) (p : posted) (s : state) : state :=
  match q_ty p with
  | TQueue => process_q p s
  | _ => process_std fast sc p s
  end.

(* ------------------------------------------------------------------------------------------ *)
(* process_event_queue: literal transcription                                                   *)

(* if not next_queue and inner_queue: next_queue = inner_queue.popleft() *)
Definition pop_if_empty (rest : list posted) (stack : list (list posted)) : list posted * list (list posted) :=
  match rest, stack with
  | [], q :: st => (q, st)
  | _, _ => (rest, stack)
  end.

(* while next_queue: ...   (next = next_queue, stack = inner_queue, head = left end) *)
Fixpoint inner (fast : bool) (sc : script) (fuel : nat) (next : list posted) (stack : list (list posted))
         (s : state) : state * list (list posted) :=
  match fuel with
  | O => (set_oof s, stack)
  | S f =>
      match next with
      | [] => (s, stack)
      | event :: rest =>
          let '(next1, stack1) := pop_if_empty rest stack in
          let s1 := process fast sc event s in
          match evq s1 with
          | [] => inner fast sc f next1 stack1 s1
          | q => inner fast sc f q (next1 :: stack1) (set_evq [] s1)     (* appendleft; swap *)
          end
      end
  end.

(* while self.event_queue or self.callback_queue: ... *)
Fixpoint outer (fast : bool) (sc : script) (fuel : nat) (stack : list (list posted)) (s : state) : state :=
  match fuel with
  | O => set_oof s
  | S f =>
      if is_nil (evq s) && is_nil (cbq s) then s
      else
        let '(s1, stack1) :=
          if is_nil (evq s) then (s, stack) else inner fast sc f (evq s) stack (set_evq [] s) in
        if oof s1 then s1
        else
          match cbq s1 with
          | [] => outer fast sc f stack1 s1
          | (i, pid, k) :: rest =>
              let s2 := emit (Callback i pid k) (set_cbq rest s1) in
              outer fast sc f stack1 (fst (invoke fast sc pid s2))
          end
  end.

(* a context runs a procedure outside any dispatch, then the queue is drained (call_soon'd
   process_event_queue, or the direct call in delays.py / switch_controller.py) before the next callback of the
   loop runs.  [Quiet] = lengths of event_queue / callback_queue when the context starts.
   TRun pid: scripted context; TFire n: the pending delay n expires (_process_delay_callback: the entry is dropped,
   then the callback runs, then the queue is drained); firing a delay that is not pending gives Ctx (-1) *)
Inductive titem := TRun (pid : Z) | TFire (name : Z).

Definition quiet (s : state) : state := emit (Quiet (Z.of_nat (length (evq s))) (Z.of_nat (length (cbq s)))) s.

Definition ctx (fast : bool) (sc : script) (fuel : nat) (pid : Z) (s : state) : state :=
  outer fast sc fuel [] (fst (invoke fast sc pid (emit (Ctx pid) (quiet s)))).

Definition turn (fast : bool) (sc : script) (fuel : nat) (t : titem) (s : state) : state :=
  match t with
  | TRun pid => ctx fast sc fuel pid s
  | TFire n =>
      match assoc n (dly s) with
      | Some pid => ctx fast sc fuel pid (set_dly (dly_del n (dly s)) s)
      | None => emit (Ctx (-1)) s
      end
  end.

Definition run_turns (fast : bool) (sc : script) (fuel : nat) (turns : list titem) (s : state) : state :=
  fold_left (fun s t => turn fast sc fuel t s) turns s.

(* ------------------------------------------------------------------------------------------ *)
(* the specification: one pending list; what an event posts goes in front of what was waiting   *)

Fixpoint dfs (fast : bool) (sc : script) (fuel : nat) (pending : list posted) (s : state) : state :=
  match fuel with
  | O => set_oof s
  | S f =>
      match pending with
      | [] => s
      | p :: waiting =>
          let s1 := process fast sc p s in
          dfs fast sc f (evq s1 ++ waiting) (set_evq [] s1)
      end
  end.

(* dispatch everything (transitively), then one callback, repeat *)
Fixpoint drain (fast : bool) (sc : script) (fuel : nat) (s : state) : state :=
  match fuel with
  | O => set_oof s
  | S f =>
      if is_nil (evq s) && is_nil (cbq s) then s
      else
        let s1 := if is_nil (evq s) then s else dfs fast sc f (evq s) (set_evq [] s) in
        if oof s1 then s1
        else
          match cbq s1 with
          | [] => drain fast sc f s1
          | (i, pid, k) :: rest =>
              drain fast sc f (fst (invoke fast sc pid (emit (Callback i pid k) (set_cbq rest s1))))
          end
  end.

(* ------------------------------------------------------------------------------------------ *)
(* queue events: _run_handlers_sequential as a sequence of task steps                           *)

(* the handlers from hs on, until one waits (Some rest) or the list is done (None).  The merge is always
   dict(list(kwargs.items()) + list(handler.kwargs.items())): handler kwargs win; the condition is evaluated on the
   merged kwargs; there is no _min_priority test and no abort in this loop *)
Fixpoint run_seq (fast : bool) (sc : script) (e : Z) (hs : list handler) (kwargs : kw) (s : state)
  : state * option (list handler) :=
  match hs with
  | [] => (s, None)
  | h :: tl =>
      let merged := kw_update kwargs (h_kw h) in
      if cond_holds (h_cond h) merged then
        let '(s2, r) := invoke fast sc (h_pid h) (emit (Invoke (h_key h) (h_pid h) e merged) s) in
        match r with
        | RWait => (s2, Some tl)
        | _ => run_seq fast sc e tl kwargs s2
        end
      else run_seq fast sc e tl kwargs s
  end.

(* callback with the posted kwargs called by the task itself, with the posted kwargs *)
Definition finish_task (fast : bool) (sc : script) (tk : qtask) (s : state) : state :=
  match t_cb tk with
  | Some cb => fst (invoke fast sc cb (emit (Callback (t_id tk) cb (t_kw tk)) (mark_pushed (t_id tk) s)))
  | None => s
  end.

(* one step of the task: from its start (snapshot of the handler list NOW; no list -> only the callback) or from the
   handler after the one that waited, to the next wait or to the end *)
Definition task_step (fast : bool) (sc : script) (tk : qtask) (s : state) : state * option qtask :=
  let hs := match t_todo tk with
            | Some l => l
            | None => match reg_get (t_ev tk) (reg s) with Some l => l | None => [] end
            end in
  let '(s1, rest) := run_seq fast sc (t_ev tk) hs (t_kw tk) s in
  match rest with
  | None => (finish_task fast sc tk s1, None)
  | Some tl => (s1, Some (mkT (t_id tk) (t_ev tk) (t_cb tk) (t_kw tk) (Some tl) true))
  end.

Fixpoint pick (l : list qtask) : option (qtask * list qtask) :=
  match l with
  | [] => None
  | t :: r =>
      if t_wait t then match pick r with Some (x, r') => Some (x, t :: r') | None => None end
      else Some (t, r)
  end.

(* the loop iterations after a context: a task that is not suspended runs one step; the process_event_queue that the
   first post of the step scheduled with call_soon then dispatches what the step posted.  (Exact for one runnable task at
   a time - the domain of the queue suite; with several runnable tasks asyncio interleaves steps and drains FIFO.) *)
Fixpoint tasks_loop (fast : bool) (sc : script) (fuel : nat) (n : nat) (s : state) : state :=
  match n with
  | O => set_oof s
  | S n' =>
      match pick (tasks s) with
      | None => s
      | Some (tk, rest) =>
          let '(s1, r) := task_step fast sc tk (set_tasks rest s) in
          let s2 := match r with Some tk' => set_tasks (tk' :: tasks s1) s1 | None => s1 end in
          tasks_loop fast sc fuel n' (outer fast sc fuel [] s2)
      end
  end.

Definition qturn (fast : bool) (sc : script) (fuel : nat) (t : titem) (s : state) : state :=
  tasks_loop fast sc fuel fuel (turn fast sc fuel t s).
Definition qrun_turns (fast : bool) (sc : script) (fuel : nat) (turns : list titem) (s : state) : state :=
  fold_left (fun s t => qturn fast sc fuel t s) turns s.

(* ------------------------------------------------------------------------------------------ *)
(* correspondence entry points                                                                  *)

Definition FUEL : nat := 4000.

(* input: script, turns (the contexts in the order in which the loop ran them), events whose final handler order is
   reported.  output: completed?, observations, final handler keys per reported event, names of the pending delays
   (most recently added first) *)
Definition c01_in := (script * list titem * list Z)%type.
Definition c01_out := (bool * list obs * list (list Z) * list Z)%type.

Definition report (evs : list Z) (s : state) : c01_out :=
  (negb (oof s), out (quiet s),
   map (fun e => match reg_get e (reg s) with Some l => map h_key l | None => [] end) evs,
   map fst (dly s)).

Definition c01_run (i : c01_in) : c01_out :=
  let '(sc, turns, evs) := i in report evs (run_turns true sc FUEL turns init).

(* the queue suite: after every context the tasks of queue events run *)
Definition c01q_run (i : c01_in) : c01_out :=
  let '(sc, turns, evs) := i in report evs (qrun_turns true sc FUEL turns init).

Definition val_eqb (a b : val) : bool :=
  match a, b with
  | VZ x, VZ y => x =? y
  | VB x, VB y => Bool.eqb x y
  | VNone, VNone => true
  | VMap x, VMap y => zz_eqb x y
  | VMP x, VMP y => zz_eqb x y
  | _, _ => false
  end.
Fixpoint kw_eqb (a b : kw) : bool :=
  match a, b with
  | [], [] => true
  | (k, v) :: a', (k', v') :: b' => (k =? k') && val_eqb v v' && kw_eqb a' b'
  | _, _ => false
  end.
Definition obs_eqb (a b : obs) : bool :=
  match a, b with
  | Ctx p, Ctx p' => p =? p'
  | Sub p, Sub p' => p =? p'
  | Invoke k p e m, Invoke k' p' e' m' => (k =? k') && (p =? p') && (e =? e') && kw_eqb m m'
  | Callback i p m, Callback i' p' m' => (i =? i') && (p =? p') && kw_eqb m m'
  | Quiet a b, Quiet a' b' => (a =? a') && (b =? b')
  | _, _ => false
  end.
Definition c01_out_eqb (a b : c01_out) : bool :=
  let '(c, o, r, d) := a in
  let '(c', o', r', d') := b in
  Bool.eqb c c' && list_eqb obs_eqb o o' && zss_eqb r r' && zs_eqb d d'.
