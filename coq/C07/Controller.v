(* C07/Controller.v — ModeController._ball_ending / _ball_starting (mpf/core/mode_controller.py): which stop and start
   requests the controller issues at the end of a ball and at the start of the next one.
     _ball_ending : for every mode of active_modes (in list order) that is a game mode: stop(callback=...) when
                    stop_on_ball_end, and append it to the player's restart_modes_on_next_ball when restart_on_next_ball
     _ball_starting : start() every mode of that list, then empty it *)
From Common Require Import Prelude.
From C07 Require Import Model Lemmas Devices.
Open Scope Z_scope.

Record mcfg := mkMC { mc_game : bool; mc_autostop : bool; mc_restart : bool; mc_prio : Z }.

Definition ball_stop_list (c : Z -> mcfg) (a : list Z) : list Z :=
  filter (fun m => mc_game (c m) && mc_autostop (c m)) a.
Definition ball_restart_list (c : Z -> mcfg) (a : list Z) : list Z :=
  filter (fun m => mc_game (c m) && mc_restart (c m)) a.

Definition ball_ending (c : Z -> mcfg) (s : state) : list op := map Stop (ball_stop_list c (act s)).
Definition ball_starting (c : Z -> mcfg) (rl : list Z) : list op := map (fun m => Start m (mc_prio (c m))) rl.

(* the completions the bus delivers for the requested stops *)
Definition stop_completions (l : list Z) : list op := flat_map (fun m => [QStopped m; CbStopped m]) l.

Definition run_ops (s : state) (h : list op) : state := fst (run_from true s h).

Lemma run_ops_cons s o t : run_ops s (o :: t) = run_ops (fst (step true s o)) t.
Proof. unfold run_ops. cbn [run_from]. destruct (step true s o) as [s1 r]. cbn [fst]. destruct (run_from true s1 t). reflexivity. Qed.

Lemma run_ops_app s h1 h2 : run_ops s (h1 ++ h2) = run_ops (run_ops s h1) h2.
Proof. revert s. induction h1 as [|o t IH]; intro s; [reflexivity|]. rewrite <- app_comm_cons, !run_ops_cons. apply IH. Qed.

Lemma ph_other s o x : x <> op_mode o -> ph (fst (step true s o)) x = ph s x.
Proof. intro H. apply (others_untouched_l true s o x H). Qed.

(* a list of requests/completions of modes other than x does not touch x *)
Lemma run_ops_other s h x : (forall o, In o h -> op_mode o <> x) -> ph (run_ops s h) x = ph s x.
Proof.
  revert s. induction h as [|o t IH]; intros s H; [reflexivity|].
  rewrite run_ops_cons, IH by (intros o' Ho; apply H; right; exact Ho).
  apply ph_other. intro E. apply (H o (or_introl eq_refl)). symmetry; exact E.
Qed.

(* stop requests for distinct active modes: each is accepted and leaves the mode Stopping (or it already was) *)
Lemma stops_take_effect l : forall s, NoDup l -> (forall m, In m l -> is_act (ph s m) = true) ->
  forall m, In m l -> ph (run_ops s (map Stop l)) m = Stopping.
Proof.
  induction l as [|x t IH]; intros s ND A m Hm; [destruct Hm|].
  inversion ND as [|? ? Nin ND']; subst. cbn [map]. rewrite run_ops_cons.
  assert (Sx : ph (fst (step true s (Stop x))) x = Stopping).
  { pose proof (A x (or_introl eq_refl)) as Ax. cbn [step]. destruct (ph s x) eqn:P; try discriminate; cbn [fst ph].
    - apply upd_same.
    - exact P. }
  destruct Hm as [E|Hm].
  - subst m. rewrite run_ops_other; [exact Sx|].
    intros o Ho. apply in_map_iff in Ho as [y [Ey Hy]]. subst o. cbn. intro E. subst y. contradiction.
  - apply IH; try assumption. intros y Hy.
    assert (y <> x) by (intro E; subst y; contradiction).
    rewrite ph_other by (cbn; assumption). apply A. right; exact Hy.
Qed.

Lemma completions_take_effect l : forall s, NoDup l -> (forall m, In m l -> ph s m = Stopping) ->
  forall m, In m l -> ph (run_ops s (stop_completions l)) m = Idle.
Proof.
  induction l as [|x t IH]; intros s ND A m Hm; [destruct Hm|].
  inversion ND as [|? ? Nin ND']; subst. unfold stop_completions. cbn [flat_map]. cbn [app].
  rewrite !run_ops_cons.
  set (s1 := fst (step true s (QStopped x))). set (s2 := fst (step true s1 (CbStopped x))).
  assert (P1 : ph s1 x = Winding).
  { unfold s1. destruct (completions_accepted_l true s x) as [_ [X _]]. apply X. apply A. left; reflexivity. }
  assert (P2 : ph s2 x = Idle).
  { unfold s2. destruct (completions_accepted_l true s1 x) as [_ [_ X]]. apply X. exact P1. }
  destruct Hm as [E|Hm].
  - subst m. fold (stop_completions t). rewrite run_ops_other; [exact P2|].
    intros o Ho. unfold stop_completions in Ho. apply in_flat_map in Ho as [y [Hy Ho]].
    intro E. destruct Ho as [Ho|[Ho|[]]]; subst o; cbn in E; subst y; contradiction.
  - fold (stop_completions t). apply IH; try assumption. intros y Hy.
    assert (y <> x) by (intro E; subst y; contradiction).
    unfold s2, s1. rewrite !ph_other by (cbn; assumption). apply A. right; exact Hy.
Qed.

Lemma filter_NoDup {A} (f : A -> bool) l : NoDup l -> NoDup (filter f l).
Proof.
  induction 1 as [|x l N ND IH]; cbn; [constructor|]. destruct (f x); [constructor; [|exact IH] | exact IH].
  intro H. apply filter_In in H as [H _]. contradiction.
Qed.

(* after the end of a ball - the controller's stop requests plus the completions the bus delivers for them - no game
   mode with stop_on_ball_end is active any more, whatever history led to the state in which the ball ended; modes
   the controller does not stop keep their phase *)
Lemma ball_end_stops_game_modes_l :
  forall c h, let s := run_state true h in
  let l := ball_stop_list c (act s) in
  let s' := run_ops s (ball_ending c s ++ stop_completions l) in
  (forall m, In m (act s) -> mc_game (c m) = true -> mc_autostop (c m) = true -> ph s' m = Idle) /\
  (forall m, ~ In m l -> ph s' m = ph s m).
Proof.
  intros c h s l s'. destruct (active_list_sorted_exact_l true h) as [ND [_ Ex]]. fold s in ND, Ex.
  assert (NDl : NoDup l) by (apply filter_NoDup; exact ND).
  assert (Al : forall m, In m l -> is_act (ph s m) = true).
  { intros m Hm. apply filter_In in Hm as [Hm _]. apply Ex. exact Hm. }
  split.
  - intros m Hm G Au. unfold s', ball_ending. rewrite run_ops_app.
    assert (Hl : In m l) by (apply filter_In; split; [exact Hm | rewrite G, Au; reflexivity]).
    apply completions_take_effect; try assumption.
    intros y Hy. apply stops_take_effect; assumption.
  - intros m Nm. unfold s', ball_ending. rewrite run_ops_other; [reflexivity|].
    intros o Ho. apply in_app_or in Ho as [Ho|Ho].
    + apply in_map_iff in Ho as [y [Ey Hy]]. subst o. cbn. intro E; subst y. contradiction.
    + unfold stop_completions in Ho. apply in_flat_map in Ho as [y [Hy Ho]].
      intro E. destruct Ho as [Ho|[Ho|[]]]; subst o; cbn in E; subst y; contradiction.
Qed.

(* at the next ball every remembered mode that is idle is started at its configured priority *)
Lemma starts_take_effect c l : forall s, NoDup l -> (forall m, In m l -> ph s m = Idle) ->
  forall m, In m l -> ph (run_ops s (ball_starting c l)) m = Starting /\ pri (run_ops s (ball_starting c l)) m = mc_prio (c m).
Proof.
  induction l as [|x t IH]; intros s ND A m Hm; [destruct Hm|].
  inversion ND as [|? ? Nin ND']; subst. unfold ball_starting. cbn [map]. rewrite run_ops_cons. fold (ball_starting c t).
  destruct Hm as [E|Hm].
  - subst m. assert (Px : ph s x = Idle) by (apply A; left; reflexivity).
    assert (Oth : forall o, In o (ball_starting c t) -> op_mode o <> x).
    { intros o Ho. apply in_map_iff in Ho as [y [Ey Hy]]. subst o. cbn. intro E; subst y. contradiction. }
    split.
    + rewrite run_ops_other by exact Oth. cbn [step]. rewrite Px. cbn. apply upd_same.
    + assert (Pri : forall h s0, (forall o, In o h -> op_mode o <> x) -> (forall o, In o h -> exists y p, o = Start y p) ->
                     pri (run_ops s0 h) x = pri s0 x).
      { induction h as [|o h IHh]; intros s0 H1 H2; [reflexivity|]. rewrite run_ops_cons, IHh.
        - destruct (H2 o (or_introl eq_refl)) as [y [p E]]. subst o.
          assert (y <> x) by (apply (H1 (Start y p)); left; reflexivity).
          cbn [step]. destruct (ph s0 y); cbn; try reflexivity; apply upd_other; congruence.
        - intros o' Ho'. apply H1; right; exact Ho'.
        - intros o' Ho'. apply H2; right; exact Ho'. }
      rewrite Pri; [cbn [step]; rewrite Px; cbn; apply upd_same | exact Oth |].
      intros o Ho. apply in_map_iff in Ho as [y [Ey Hy]]. subst o. eexists; eexists; reflexivity.
  - apply IH; try assumption. intros y Hy.
    assert (y <> x) by (intro E; subst y; contradiction).
    rewrite ph_other by (cbn; assumption). apply A. right; exact Hy.
Qed.

(* ---- correspondence: (per mode id: game_mode, stop_on_ball_end, restart_on_next_ball), active_modes at the ball end
   -> (modes the controller asks to stop, modes it remembers and restarts), both in request order *)
Definition ball_run (i : list (bool * bool * bool) * list Z) : list Z * list Z :=
  let c := fun m => match nth_error (fst i) (Z.to_nat m) with
                    | Some (g, a, r) => mkMC g a r 0 | None => mkMC false false false 0 end in
  (ball_stop_list c (snd i), ball_restart_list c (snd i)).

(* the dev suite feeds both layers: per generated mode the device-layer history, per ball end the controller's requests *)
Definition devb_run (i : list (list (bool * Z * bool * list Z) * list dop) * list (list (bool * bool * bool) * list Z))
  : list (list dobs) * list (list Z * list Z) := (dev_run (fst i), map ball_run (snd i)).
Definition devb_out_eqb (a b : list (list dobs) * list (list Z * list Z)) : bool :=
  dev_out_eqb (fst a) (fst b) &&
  list_eqb (fun x y => zs_eqb (fst x) (fst y) && zs_eqb (snd x) (snd y)) (snd a) (snd b).
