(* C07/LemDevices.v — proofs about the mode-device layer (Devices.v). *)
From Common Require Import Prelude.
From C07 Require Import Model Lemmas Devices.
Open Scope Z_scope.

Definition live (s : dstate) : bool := negb (phase_eqb (dph s) Idle).

(* per-device invariant *)
Definition dev_ok (w : world) (s : dstate) (d : Z) : Prop :=
  let x := dvs s d in
  d_reg x = d_trk x /\
  d_loaded x = (w_isdev w d && live s) /\
  d_trk x = (if d_loaded x && enabled (w_cfg w d) x then 1 else 0) /\
  (d_loaded x = true -> d_flag x <> None) /\
  (dc_persist (w_cfg w d) = false -> d_loaded x = false -> d_flag x = None).

Definition dinv (w : world) (s : dstate) : Prop :=
  (forall d, dev_ok w s d) /\
  hnd s = live s /\
  (dph s = Idle -> dly s = []) /\
  (forall d a, In (d, a) (dly s) -> w_isdev w d = true).

Lemma dinv_init w : dinv w dinit.
Proof.
  split; [|split; [reflexivity | split; [reflexivity | intros d a []]]].
  intro d. unfold dev_ok, dinit, live; cbn. rewrite andb_false_r. repeat split; try reflexivity; try discriminate.
Qed.

(* ---- single device facts ---------------------------------------------------------------------------------------- *)
Ltac dsimp := unfold do_load, load_default, do_unload, do_enable, do_disable, do_register, do_unregister, set_flag,
  set_loaded, enabled, is_disabled, start_default in *; cbn [d_loaded d_flag d_reg d_trk] in *.

(* loading an unloaded, clean device *)
Lemma load_ok c x :
  d_loaded x = false -> d_reg x = 0 -> d_trk x = 0 -> (dc_persist c = false -> d_flag x = None) ->
  let y := do_load c x in
  d_reg y = d_trk y /\ d_loaded y = true /\ d_trk y = (if enabled c y then 1 else 0) /\ d_flag y <> None.
Proof.
  intros L R T P. destruct x as [l f r t]; cbn in *; subst.
  destruct (dc_persist c) eqn:Ep.
  - dsimp. rewrite Ep. destruct f as [[|]|]; cbn; try rewrite Ep; cbn.
    + repeat split; discriminate.
    + repeat split; discriminate.
    + destruct (dc_start c) as [[|]|]; cbn; try rewrite Ep; cbn; try (repeat split; discriminate).
      destruct (dc_has_en c); cbn; try rewrite Ep; cbn; repeat split; discriminate.
  - rewrite (P eq_refl). dsimp. rewrite Ep.
    destruct (dc_start c) as [[|]|]; cbn; try rewrite Ep; cbn; try (repeat split; discriminate).
    destruct (dc_has_en c); cbn; try rewrite Ep; cbn; repeat split; discriminate.
Qed.

Lemma unload_ok c x :
  d_reg x = d_trk x ->
  let y := do_unload c x in
  d_reg y = 0 /\ d_trk y = 0 /\ d_loaded y = false /\ (dc_persist c = false -> d_flag y = None).
Proof.
  intros R. destruct x as [l f r t]; cbn in *; subst. dsimp.
  repeat split; try lia. intro Ep; rewrite Ep; reflexivity.
Qed.

Lemma action_ok c a x :
  d_loaded x = true -> d_reg x = d_trk x -> d_trk x = (if enabled c x then 1 else 0) -> d_flag x <> None ->
  let y := apply_action c a x in
  d_loaded y = true /\ d_reg y = d_trk y /\ d_trk y = (if enabled c y then 1 else 0) /\ d_flag y <> None.
Proof.
  intros L R T F. destruct x as [l f r t]; cbn in *; subst l r.
  unfold apply_action.
  assert (En : let y := do_enable c (mkD true f t t) in
               d_loaded y = true /\ d_reg y = d_trk y /\ d_trk y = (if enabled c y then 1 else 0) /\ d_flag y <> None).
  { dsimp. destruct f as [[|]|]; [| |congruence].
    - destruct (dc_persist c); cbn; repeat split; try assumption; try discriminate.
    - cbn. subst t. destruct (dc_persist c); cbn; repeat split; discriminate. }
  destruct (a =? a_enable); [exact En|]. destruct (a =? a_restart); [exact En|].
  destruct (a =? a_disable).
  - dsimp. destruct f as [[|]|]; [| |congruence]; cbn.
    + repeat split; try lia; try discriminate.
    + repeat split; try assumption; discriminate.
  - cbn. repeat split; assumption.
Qed.

(* ---- the invariant is preserved ------------------------------------------------------------------------------------ *)
Ltac fin := try assumption; try reflexivity; try lia; try discriminate;
  try (intros; first [assumption | discriminate | auto; fail]).

Lemma dinv_cleanup w s : dinv w s -> dinv w (dcleanup w s).
Proof.
  intros [D [H [I J]]]. unfold dcleanup. split; [|split; [reflexivity | split; [reflexivity | intros d a []]]].
  intro d. unfold dev_ok, live, map_devs; cbn [dvs dph phase_eqb negb]. rewrite andb_false_r.
  destruct (D d) as [R [L [T [F P]]]].
  destruct (w_isdev w d) eqn:E.
  - destruct (unload_ok (w_cfg w d) (dvs s d) R) as [A [B [C Dd]]].
    rewrite A, B, C. cbn. repeat split; fin.
  - cbn in L. rewrite L. cbn. rewrite L in T. cbn in T. repeat split; fin.
Qed.

Lemma dinv_start w s : dinv w s -> dph s = Idle -> dinv w (dstart w s).
Proof.
  intros [D [H [I J]]] Ph. unfold dstart.
  split; [|split; [reflexivity | split; [discriminate | ]]].
  - intro d. unfold dev_ok, live, map_devs; cbn [dvs dph phase_eqb negb]. rewrite andb_true_r.
    destruct (D d) as [R [L [T [F P]]]]. unfold live in L. rewrite Ph in L. cbn in L. rewrite andb_false_r in L.
    rewrite L in T. cbn in T.
    destruct (w_isdev w d) eqn:E.
    + destruct (load_ok (w_cfg w d) (dvs s d) L ltac:(lia) T (fun Ep => P Ep L)) as [A [B [C Dd]]].
      rewrite B. cbn. repeat split; fin.
    + rewrite L. cbn. repeat split; fin.
  - cbn [dly]. rewrite (I Ph). intros d a [].
Qed.

(* phase changes that keep the mode live keep everything else *)
Lemma dinv_rephase w s p l :
  dinv w s -> live s = true -> p <> Idle -> (forall d a, In (d, a) l -> w_isdev w d = true) ->
  dinv w (mkDS p (dvs s) l (hnd s)).
Proof.
  intros [D [H [I J]]] Lv Np Jl.
  assert (Lp : live (mkDS p (dvs s) l (hnd s)) = true) by (unfold live; cbn; destruct p; try reflexivity; congruence).
  split; [|split; [cbn; rewrite H, Lv; symmetry; exact Lp | split; [cbn; congruence | exact Jl]]].
  intro d. unfold dev_ok. cbn [dvs]. rewrite Lp. destruct (D d) as [R [L [T [F P]]]]. rewrite Lv in L.
  repeat split; assumption.
Qed.

Lemma dinv_action w s d a :
  dinv w s -> d_loaded (dvs s d) = true ->
  dinv w (fst (run_action w s d a)) /\ snd (run_action w s d a) = 1.
Proof.
  intros [D [H [I J]]] Ld. unfold run_action. rewrite Ld. cbn [fst snd]. split; [|reflexivity].
  split; [|split; [exact H | split; [exact I | exact J]]].
  intro x. unfold dev_ok, live; cbn [dvs dph]. unfold upd. destruct (x =? d) eqn:E.
  - apply Z.eqb_eq in E; subst x. destruct (D d) as [R [L [T [F P]]]].
    rewrite Ld in T. cbn in T.
    destruct (action_ok (w_cfg w d) a (dvs s d) Ld R T (F Ld)) as [A [B [C Dd]]].
    rewrite A. cbn. repeat split; fin.
    unfold live in L. rewrite <- L. symmetry; exact Ld.
  - exact (D x).
Qed.

Lemma remove_first_in x l l' : remove_first x l = Some l' -> In x l /\ (forall y, In y l' -> In y l).
Proof.
  revert l'. induction l as [|y t IH]; intros l' E; cbn in E; [discriminate|].
  destruct ((fst x =? fst y) && (snd x =? snd y)) eqn:B.
  - inversion E; subst. apply andb_true_iff in B as [B1 B2]. apply Z.eqb_eq in B1, B2.
    split; [left; destruct x, y; cbn in *; congruence | intros z Hz; right; exact Hz].
  - destruct (remove_first x t) as [t'|] eqn:R; [|discriminate]. inversion E; subst.
    destruct (IH t' eq_refl) as [A Bq]. split; [right; exact A|].
    intros z [Hz|Hz]; [left; exact Hz | right; apply Bq; exact Hz].
Qed.

Lemma live_loaded w s d : dinv w s -> live s = true -> w_isdev w d = true -> d_loaded (dvs s d) = true.
Proof. intros [D _] Lv E. destruct (D d) as [_ [L _]]. rewrite L, E, Lv. reflexivity. Qed.

Lemma live_of_dly w s d a : dinv w s -> In (d, a) (dly s) -> live s = true.
Proof.
  intros [_ [_ [I _]]] Hin. unfold live. destruct (dph s) eqn:P; try reflexivity.
  rewrite (I eq_refl) in Hin. destruct Hin.
Qed.

Lemma dinv_step w s o : dinv w s -> dinv w (fst (dstep w s o)) /\ fst (snd (dstep w s o)) <> 3.
Proof.
  intro Inv. pose proof Inv as [D [H [I J]]].
  destruct o as [| | | | |d a|d a|d]; cbn [dstep].
  - (* DStart *)
    destruct (dph s) eqn:P; cbn [fst snd]; try (split; [exact Inv | discriminate]).
    + split; [apply dinv_start; assumption | discriminate].
    + split; [apply dinv_start; [apply dinv_cleanup; exact Inv | reflexivity] | discriminate].
  - destruct (dph s) eqn:P; cbn [fst snd]; try (split; [exact Inv | discriminate]).
    split; [|discriminate]. apply dinv_rephase; try assumption; try discriminate. unfold live; rewrite P; reflexivity.
  - destruct (dph s) eqn:P; cbn [fst snd]; try (split; [exact Inv | discriminate]).
    split; [|discriminate]. apply dinv_rephase; try assumption; try discriminate.
    + unfold live; rewrite P; reflexivity.
    + intros d a [].
  - destruct (dph s) eqn:P; cbn [fst snd]; try (split; [exact Inv | discriminate]).
    split; [|discriminate]. apply dinv_rephase; try assumption; try discriminate. unfold live; rewrite P; reflexivity.
  - destruct (dph s) eqn:P; cbn [fst snd]; try (split; [exact Inv | discriminate]).
    split; [apply dinv_cleanup; exact Inv | discriminate].
  - (* DCtl *)
    destruct (hnd s && w_isdev w d) eqn:E; [|cbn; split; [exact Inv | discriminate]].
    apply andb_true_iff in E as [E1 E2]. rewrite H in E1.
    destruct (dc_delayed (w_cfg w d) a).
    + cbn [fst snd]. split; [|discriminate].
      assert (Np : dph s <> Idle) by (intro Q; unfold live in E1; rewrite Q in E1; discriminate).
      replace (mkDS (dph s) (dvs s) (dly s ++ [(d, a)]) (hnd s)) with (mkDS (dph s) (dvs s) (dly s ++ [(d, a)]) (hnd s)) by reflexivity.
      apply dinv_rephase; try assumption.
      intros d' a' Hin. apply in_app_or in Hin as [Hin|[Hin|[]]]; [exact (J _ _ Hin) | inversion Hin; subst; exact E2].
    + destruct (dinv_action w s d a Inv (live_loaded w s d Inv E1 E2)) as [A B].
      destruct (run_action w s d a) as [s' st]. cbn [fst snd] in *. split; [exact A | rewrite B; discriminate].
  - (* DFire *)
    destruct (remove_first (d, a) (dly s)) as [l'|] eqn:R; [|cbn; split; [exact Inv | discriminate]].
    destruct (remove_first_in _ _ _ R) as [Hin Sub].
    pose proof (live_of_dly w s d a Inv Hin) as Lv.
    assert (Inv' : dinv w (mkDS (dph s) (dvs s) l' (hnd s))).
    { apply dinv_rephase; try assumption.
      - intro Q; unfold live in Lv; rewrite Q in Lv; discriminate.
      - intros d' a' Hi. apply (J d' a'). apply Sub. exact Hi. }
    assert (Ld : d_loaded (dvs (mkDS (dph s) (dvs s) l' (hnd s)) d) = true).
    { cbn [dvs]. apply (live_loaded w s d Inv Lv). exact (J _ _ Hin). }
    destruct (dinv_action w _ d a Inv' Ld) as [A B].
    destruct (run_action w (mkDS (dph s) (dvs s) l' (hnd s)) d a) as [s' st]. cbn [fst snd] in *.
    split; [exact A | rewrite B; discriminate].
  - cbn [fst snd]. split; [exact Inv | discriminate].
Qed.

Lemma dinv_run_from w h : forall s, dinv w s -> dinv w (drun_from w s h).
Proof. induction h as [|o t IH]; intros s Inv; cbn; [exact Inv | apply IH; apply dinv_step; exact Inv]. Qed.

Lemma dinv_run w h : dinv w (drun w h).
Proof. apply dinv_run_from. apply dinv_init. Qed.

(* ---- the statements used by Props.v --------------------------------------------------------------------------------- *)
Lemma dev_registry_restored_l :
  forall w h, dph (drun w h) = Idle ->
    (forall d, d_loaded (dvs (drun w h) d) = false /\ d_reg (dvs (drun w h) d) = 0 /\ d_trk (dvs (drun w h) d) = 0) /\
    dly (drun w h) = [] /\ hnd (drun w h) = false.
Proof.
  intros w h P. destruct (dinv_run w h) as [D [H [I J]]].
  split; [|split; [exact (I P) | rewrite H; unfold live; rewrite P; reflexivity]].
  intro d. destruct (D d) as [R [L [T _]]]. unfold live in L. rewrite P in L. cbn in L. rewrite andb_false_r in L.
  rewrite L in T. cbn in T. repeat split; [exact L | lia | exact T].
Qed.

Lemma dev_registrations_tracked_l :
  forall w h d, let x := dvs (drun w h) d in
    d_reg x = d_trk x /\ d_reg x = (if d_loaded x && enabled (w_cfg w d) x then 1 else 0).
Proof.
  intros w h d. destruct (dinv_run w h) as [D _]. destruct (D d) as [R [_ [T _]]]. cbn. split; [exact R | lia].
Qed.

Lemma dev_one_hit_per_activation_l :
  forall w h d, snd (snd (dstep w (drun w h) (DHit d))) = (if enabled (w_cfg w d) (dvs (drun w h) d) then 1 else 0)
                /\ (enabled (w_cfg w d) (dvs (drun w h) d) = true -> d_loaded (dvs (drun w h) d) = true).
Proof.
  intros w h d. destruct (dinv_run w h) as [D _]. destruct (D d) as [R [L [T [F P]]]]. cbn [dstep snd].
  assert (E : enabled (w_cfg w d) (dvs (drun w h) d) = true -> d_loaded (dvs (drun w h) d) = true).
  { intro En. destruct (d_loaded (dvs (drun w h) d)) eqn:Ld; [reflexivity|].
    unfold enabled in En. destruct (d_flag (dvs (drun w h) d)) as [[|]|] eqn:Fl; try discriminate.
    destruct (dc_persist (w_cfg w d)) eqn:Ep; [rewrite Ld in En; discriminate|].
    specialize (P eq_refl eq_refl). discriminate. }
  split; [|exact E].
  destruct (enabled (w_cfg w d) (dvs (drun w h) d)) eqn:En; [|reflexivity].
  rewrite (E eq_refl) in T. cbn in T. lia.
Qed.

Lemma dev_actions_only_on_loaded_l :
  forall w h o, fst (snd (dstep w (drun w h) o)) <> 3.
Proof. intros w h o. apply dinv_step. apply dinv_run. Qed.

Lemma dev_redundant_request_noop_l :
  forall w s d a, d_loaded (dvs s d) = true ->
    ((a = a_enable \/ a = a_restart) /\ enabled (w_cfg w d) (dvs s d) = true \/
     a = a_disable /\ is_disabled (w_cfg w d) (dvs s d) = true) ->
    let s' := fst (run_action w s d a) in
    (forall x, dvs s' x = dvs s x) /\ dly s' = dly s /\ dph s' = dph s /\ hnd s' = hnd s.
Proof.
  intros w s d a Ld C. unfold run_action. rewrite Ld. cbn [fst dvs dly dph hnd].
  split; [|repeat split]. intro x. unfold upd. destruct (x =? d) eqn:E; [|reflexivity].
  apply Z.eqb_eq in E; subst x. unfold apply_action.
  destruct C as [[[A|A] En]|[A Di]]; subst a; cbn.
  - unfold do_enable. rewrite En. reflexivity.
  - unfold do_enable. rewrite En. reflexivity.
  - unfold do_disable. rewrite Di. reflexivity.
Qed.

(* a delayed control event that is pending when the mode stops is never delivered: the stop clears it, so a
   later DFire of it is refused by the clock contract (status 2) in every phase until somebody posts it again *)
Lemma dev_stop_cancels_delays_l :
  forall w h, dph (drun w h) = Active -> dly (fst (dstep w (drun w h) DStop)) = [].
Proof. intros w h P. cbn [dstep]. rewrite P. reflexivity. Qed.

(* the device layer's phase is the phase of the lifecycle model of Model.v under the lifted history *)
Lemma run_from_cons fx S o t : fst (run_from fx S (o :: t)) = fst (run_from fx (fst (step fx S o)) t).
Proof. cbn [run_from]. destruct (step fx S o) as [s1 r]. cbn [fst]. destruct (run_from fx s1 t) as [s2 e]. reflexivity. Qed.

Lemma dev_lifecycle_refines_from w m p h :
  forall s S, dph s = ph S m -> dph (drun_from w s h) = ph (fst (run_from true S (flat_map (lift m p) h))) m.
Proof.
  induction h as [|o t IH]; intros s S E; [exact E|].
  cbn [drun_from flat_map].
  destruct o as [| | | | |d a|d a|d]; cbn [lift app]; try rewrite run_from_cons; apply IH; cbn [dstep step].
  - rewrite <- E. destruct (dph s) eqn:P; cbn; try rewrite upd_same; try reflexivity; try (rewrite P; exact E); try exact E.
  - rewrite <- E. destruct (dph s) eqn:P; cbn; try rewrite upd_same; try reflexivity; try (rewrite P; exact E); try exact E.
  - rewrite <- E. destruct (dph s) eqn:P; cbn; try rewrite upd_same; try reflexivity; try (rewrite P; exact E); try exact E.
  - rewrite <- E. destruct (dph s) eqn:P; cbn; try rewrite upd_same; try reflexivity; try (rewrite P; exact E); try exact E.
  - rewrite <- E. destruct (dph s) eqn:P; cbn; try rewrite upd_same; try reflexivity; try (rewrite P; exact E); try exact E.
  - destruct (hnd s && w_isdev w d); [|exact E]. destruct (dc_delayed (w_cfg w d) a); [exact E|].
    unfold run_action. destruct (d_loaded (dvs s d)); exact E.
  - destruct (remove_first (d, a) (dly s)); [|exact E]. unfold run_action. cbn [dvs]. destruct (d_loaded (dvs s d)); exact E.
  - exact E.
Qed.

Lemma dev_lifecycle_refines_l :
  forall w m p h, dph (drun w h) = ph (run_state true (flat_map (lift m p) h)) m.
Proof. intros. apply dev_lifecycle_refines_from. reflexivity. Qed.

(* ---- examples ---------------------------------------------------------------------------------------------------------- *)
(* two shots: 0 persist_enable with start_enabled and a delayed disable event, 1 not persisted, enable event delayed *)
Definition ex_world : world :=
  mk_world [(true, 1, true, [0]); (false, 2, true, [1])].

Definition ex_dev_hist : list dop :=
  [DCtl 0 1; DStart; DCtl 0 1; DQStarted; DCtl 0 1; DCtl 1 1; DHit 0; DCtl 0 0; DStop; DFire 0 0; DCtl 1 1; DQStopped;
   DCbStopped; DCtl 0 1; DFire 1 1].

Lemma ex_dev_cycle :
  dph (drun ex_world ex_dev_hist) = Idle /\
  map (fun o => fst (snd (dstep ex_world (drun ex_world (firstn 9 ex_dev_hist)) o))) [DFire 0 0] = [2] /\
  d_reg (dvs (drun ex_world (firstn 6 ex_dev_hist)) 0) = 1 /\
  dly (drun ex_world (firstn 8 ex_dev_hist)) = [(1, 1); (0, 0)] /\
  d_flag (dvs (drun ex_world ex_dev_hist) 0) = Some true /\ d_flag (dvs (drun ex_world ex_dev_hist) 1) = None.
Proof. vm_compute. repeat split. Qed.
