(* C07/Devices.v — executable model of the mode-device layer of one mode:
     mpf/core/mode.py            _add_mode_devices, _setup_device_control_events, _control_event_handler,
                                 _remove_mode_devices, the two delay.clear() and the handler removal of the stop path
     mpf/core/mode_device.py     device_loaded_in_mode / device_removed_from_mode
     mpf/core/enable_disable_mixin.py   enable / disable / enabled (persist_enable: player variable, else _enabled),
                                 _load_enable_based_on_config_default, device_loaded_in_mode, device_removed_from_mode
     mpf/devices/shot.py         _enable/_disable = _register_switch_handlers/_remove_switch_handlers (the key list
                                 Shot._handlers is RESET by every registration), event_hit/hit, restart = reset + enable
     mpf/core/delays.py          Mode.delay as the multiset of pending delayed control events (add / fire / clear)

   The mode's lifecycle is the one of Model.v restricted to one mode (same phases; DStart .. DCbStopped are the
   observed executions of Mode.start/_started/stop/_stopped/_mode_stopped_callback).  What is NEW relative to Model.v is
   closed: control events are POSTS (DCtl) and the model decides whether a handler exists, whether the action runs now
   or becomes a pending delay, and what the action registers; the clock delivers pending delays (DFire) in any order.
   Definitions only; proofs are in LemDevices.v. *)
From Common Require Import Prelude.
From C07 Require Import Model.
Open Scope Z_scope.

(* ---- static configuration of one device --------------------------------------------------------------------- *)
Record dcfg := mkDC {
  dc_persist : bool;            (* persist_enable (default true for shots) *)
  dc_start : option bool;       (* start_enabled: true / false / not given *)
  dc_has_en : bool;             (* enable_events is not empty *)
  dc_delayed : Z -> bool        (* action -> its control event is delayed (event: Ns) *)
}.

(* actions of the control events *)
Definition a_disable := 0.
Definition a_enable := 1.
Definition a_restart := 2.      (* reset() + enable() *)
Definition a_reset := 3.        (* no influence on enable state / registrations *)

(* ---- dynamic state of one device ---------------------------------------------------------------------------- *)
Record dev := mkD {
  d_loaded : bool;              (* ModeDevice.mode / EnableDisableMixin.player set *)
  d_flag : option bool;         (* persist_enable: the player variable <class>_<name>_enabled (None = not set);
                                   otherwise the raw attribute _enabled *)
  d_reg : Z;                    (* live registrations of this device in EventManager.registered_handlers, counted
                                   in units of one _register_switch_handlers call (= one handler per switch) *)
  d_trk : Z                     (* registrations whose keys are in Shot._handlers = what _remove_switch_handlers
                                   can remove (the list is reset by every registration: 0 or 1) *)
}.

Definition dev0 : dev := mkD false None 0 0.

(* the [enabled] property *)
Definition enabled (c : dcfg) (d : dev) : bool :=
  match d_flag d with
  | Some true => if dc_persist c then d_loaded d else true
  | _ => false
  end.

(* _load_enable_based_on_config_default: start_enabled, else "not enable_events" *)
Definition start_default (c : dcfg) : bool :=
  match dc_start c with Some b => b | None => negb (dc_has_en c) end.

(* Shot._enable: _register_switch_handlers resets the key list and adds one handler per switch *)
Definition do_register (d : dev) : dev :=
  mkD (d_loaded d) (d_flag d) (d_reg d + 1) 1.

(* Shot._disable / _remove_switch_handlers: removes exactly the tracked keys *)
Definition do_unregister (d : dev) : dev :=
  mkD (d_loaded d) (d_flag d) (d_reg d - d_trk d) 0.

Definition set_flag (d : dev) (b : option bool) : dev := mkD (d_loaded d) b (d_reg d) (d_trk d).
Definition set_loaded (d : dev) (b : bool) : dev := mkD b (d_flag d) (d_reg d) (d_trk d).

(* EnableDisableMixin.enable / disable *)
Definition do_enable (c : dcfg) (d : dev) : dev :=
  if enabled c d then d else do_register (set_flag d (Some true)).

Definition is_disabled (c : dcfg) (d : dev) : bool :=      (* "self.enabled is False" *)
  match d_flag d with
  | Some false => true
  | Some true => false
  | None => dc_persist c && negb (d_loaded d)   (* persisted and no player: reads as False; an unset player variable
                                                  reads as 0 and the raw None is None: neither "is False" *)
  end.

Definition do_disable (c : dcfg) (d : dev) : dev :=
  if is_disabled c d then d else do_unregister (set_flag d (Some false)).

(* EnableDisableMixin.device_loaded_in_mode *)
Definition load_default (c : dcfg) (d : dev) : dev :=
  if start_default c then set_flag (do_register d) (Some true) else set_flag d (Some false).

Definition do_load (c : dcfg) (d : dev) : dev :=
  let d1 := set_loaded d true in
  if dc_persist c then
    match d_flag d1 with
    | None => load_default c d1
    | Some true => do_register d1
    | Some false => d1
    end
  else load_default c d1.

(* EnableDisableMixin.device_removed_from_mode + Shot.device_removed_from_mode *)
Definition do_unload (c : dcfg) (d : dev) : dev :=
  let d1 := do_unregister d in
  mkD false (if dc_persist c then d_flag d1 else None) (d_reg d1) 0.

(* ---- state of the mode with its devices ------------------------------------------------------------------------ *)
Record dstate := mkDS {
  dph : phase;
  dvs : Z -> dev;
  dly : list (Z * Z);           (* pending delayed control events on Mode.delay: (device, action) *)
  hnd : bool                    (* the control-event handlers of the mode are registered (Mode.event_handlers) *)
}.

Record world := mkW { w_cfg : Z -> dcfg; w_isdev : Z -> bool }.

Inductive dop :=
| DStart | DQStarted | DStop | DQStopped | DCbStopped
| DCtl (d a : Z)                (* the control event of action a of device d is posted *)
| DFire (d a : Z)               (* the clock delivers the pending delayed control event (d, a) *)
| DHit (d : Z).                 (* a switch of shot d is activated once *)

Definition map_devs (w : world) (f : dcfg -> dev -> dev) (v : Z -> dev) : Z -> dev :=
  fun x => if w_isdev w x then f (w_cfg w x) (v x) else v x.

Definition apply_action (c : dcfg) (a : Z) (d : dev) : dev :=
  if a =? a_enable then do_enable c d
  else if a =? a_restart then do_enable c d
  else if a =? a_disable then do_disable c d
  else d.

Fixpoint remove_first (x : Z * Z) (l : list (Z * Z)) : option (list (Z * Z)) :=
  match l with
  | [] => None
  | y :: t => if (fst x =? fst y) && (snd x =? snd y) then Some t
              else match remove_first x t with Some t' => Some (y :: t') | None => None end
  end.

(* the stop path's final clean-up: _remove_mode_event_handlers, _remove_mode_devices, delay.clear() *)
Definition dcleanup (w : world) (s : dstate) : dstate :=
  mkDS Idle (map_devs w do_unload (dvs s)) [] false.

Definition dstart (w : world) (s : dstate) : dstate :=
  mkDS Starting (map_devs w do_load (dvs s)) (dly s) true.

(* status: 1 accepted / ran, 0 refused / nothing listens, 2 impossible (bus / clock contract),
           3 an action reached a device that is not loaded in a mode (the code raises or acts on a removed device)
   second component: number of <shot>_hit events one switch activation produces *)
Definition run_action (w : world) (s : dstate) (d a : Z) : dstate * Z :=
  if d_loaded (dvs s d) then
    (mkDS (dph s) (upd (dvs s) d (apply_action (w_cfg w d) a (dvs s d))) (dly s) (hnd s), 1)
  else (s, 3).

Definition dstep (w : world) (s : dstate) (o : dop) : dstate * (Z * Z) :=
  match o with
  | DStart =>
      match dph s with
      | Idle => (dstart w s, (1, 0))
      | Winding => (dstart w (dcleanup w s), (1, 0))
      | _ => (s, (0, 0))
      end
  | DQStarted =>
      match dph s with
      | Starting => (mkDS Active (dvs s) (dly s) (hnd s), (1, 0))
      | _ => (s, (2, 0))
      end
  | DStop =>
      match dph s with
      | Active => (mkDS Stopping (dvs s) [] (hnd s), (1, 0))          (* delay.clear() *)
      | Stopping => (s, (1, 0))
      | _ => (s, (0, 0))
      end
  | DQStopped =>
      match dph s with
      | Stopping => (mkDS Winding (dvs s) (dly s) (hnd s), (1, 0))
      | _ => (s, (2, 0))
      end
  | DCbStopped =>
      match dph s with
      | Winding => (dcleanup w s, (1, 0))
      | _ => (s, (0, 0))
      end
  | DCtl d a =>
      if hnd s && w_isdev w d then
        if dc_delayed (w_cfg w d) a
        then (mkDS (dph s) (dvs s) (dly s ++ [(d, a)]) (hnd s), (1, 0))
        else let '(s', st) := run_action w s d a in (s', (st, 0))
      else (s, (0, 0))
  | DFire d a =>
      match remove_first (d, a) (dly s) with
      | Some l' => let '(s', st) := run_action w (mkDS (dph s) (dvs s) l' (hnd s)) d a in (s', (st, 0))
      | None => (s, (2, 0))
      end
  | DHit d =>
      (s, (1, if enabled (w_cfg w d) (dvs s d) then d_reg (dvs s d) else 0))
  end.

Definition dinit : dstate := mkDS Idle (fun _ => dev0) [] false.

Fixpoint drun_from (w : world) (s : dstate) (h : list dop) : dstate :=
  match h with
  | [] => s
  | o :: t => drun_from w (fst (dstep w s o)) t
  end.

Definition drun (w : world) (h : list dop) : dstate := drun_from w dinit h.

(* the lifecycle operation of Model.v a device-layer operation stands for (mode m at priority p) *)
Definition lift (m p : Z) (o : dop) : list op :=
  match o with
  | DStart => [Start m p] | DQStarted => [QStarted m] | DStop => [Stop m]
  | DQStopped => [QStopped m] | DCbStopped => [CbStopped m]
  | _ => []
  end.

(* ---- what the correspondence run compares ---------------------------------------------------------------------
   input: per device (persist, start_enabled as 0/1/2=not given, has enable_events, delayed actions),
   the operations; output per operation: status, hits, phase, handlers registered, per device
   [enabled; registered; tracked], pending delays (device*4+action, as a sorted multiset: delays with equal
   deadlines fire in no particular order, so which of several identical entries went is not observable) *)
Definition mk_world (l : list (bool * Z * bool * list Z)) : world :=
  mkW (fun d => match nth_error l (Z.to_nat d) with
                | Some (p, st, he, dl) =>
                    mkDC p (if st =? 2 then None else Some (st =? 1)) he (fun a => existsb (Z.eqb a) dl)
                | None => mkDC false None false (fun _ => false)
                end)
      (fun d => (0 <=? d) && (d <? Z.of_nat (length l))).

Record dobs := mkDO { do_status : Z; do_hits : Z; do_phase : Z; do_hnd : bool; do_devs : list (list Z); do_dly : list Z }.

Definition b2z (b : bool) : Z := if b then 1 else 0.

Definition dobserve (w : world) (n : nat) (s : dstate) (r : Z * Z) : dobs :=
  mkDO (fst r) (snd r) (phase_code (dph s)) (hnd s)
       (map (fun i => let d := Z.of_nat i in
                      [b2z (enabled (w_cfg w d) (dvs s d)); d_reg (dvs s d); d_trk (dvs s d)]) (seq 0 n))
       (sort_z (map (fun e => fst e * 4 + snd e) (dly s))).

Fixpoint drun_obs (w : world) (n : nat) (s : dstate) (h : list dop) : list dobs :=
  match h with
  | [] => []
  | o :: t => let '(s1, r) := dstep w s o in dobserve w n s1 r :: drun_obs w n s1 t
  end.

Definition dobs_eqb (a b : dobs) : bool :=
  (do_status a =? do_status b) && (do_hits a =? do_hits b) && (do_phase a =? do_phase b)
  && Bool.eqb (do_hnd a) (do_hnd b) && zss_eqb (do_devs a) (do_devs b) && zs_eqb (do_dly a) (do_dly b).

Definition dev_run (i : list (list (bool * Z * bool * list Z) * list dop)) : list (list dobs) :=
  map (fun x => drun_obs (mk_world (fst x)) (length (fst x)) dinit (snd x)) i.
Definition dev_out_eqb (a b : list (list dobs)) : bool := list_eqb (list_eqb dobs_eqb) a b.
