(* C07/LemLive.v — liveness of the lifecycle relative to delivery by the bus: nothing but the outstanding completion
   moves a mode out of a transition phase, and the completion, whenever it is delivered, is accepted. *)
From Common Require Import Prelude.
From C07 Require Import Model Lemmas.
Open Scope Z_scope.

Lemma op_eq_dec : forall a b : op, {a = b} + {a <> b}.
Proof. decide equality; apply Z.eq_dec. Qed.

Definition is_start_of (m : Z) (o : op) : bool := match o with Start x _ => x =? m | _ => false end.

Lemma ph_step_other fx s o m : op_mode o <> m -> ph (fst (step fx s o)) m = ph s m.
Proof. intro H. apply (others_untouched_l fx s o m). congruence. Qed.

(* Starting is left only through QStarted m *)
Lemma starting_stable fx s o m :
  ph s m = Starting -> o <> QStarted m -> ph (fst (step fx s o)) m = Starting.
Proof.
  intros P N. destruct (Z.eq_dec (op_mode o) m) as [E|E]; [|rewrite ph_step_other; assumption].
  destruct o; cbn [op_mode] in E; subst; try (rewrite cbstarted_ph; assumption); cbn [step]; try rewrite P; cbn [fst ph]; try assumption; try congruence.
  - destruct (ph s m) eqn:Q; cbn; try assumption; try congruence.
    destruct fx; cbn; assumption.
  - destruct (cls_ok c && _); cbn; assumption.
Qed.

Lemma stopping_stable fx s o m :
  ph s m = Stopping -> o <> QStopped m -> ph (fst (step fx s o)) m = Stopping.
Proof.
  intros P N. destruct (Z.eq_dec (op_mode o) m) as [E|E]; [|rewrite ph_step_other; assumption].
  destruct o; cbn [op_mode] in E; subst; try (rewrite cbstarted_ph; assumption); cbn [step]; try rewrite P; cbn [fst ph]; try assumption; try congruence.
  - destruct fx; cbn; assumption.
  - destruct (cls_ok c && _); cbn; assumption.
Qed.

Lemma winding_stable fx s o m :
  ph s m = Winding -> o <> CbStopped m -> is_start_of m o = false -> ph (fst (step fx s o)) m = Winding.
Proof.
  intros P N S. destruct (Z.eq_dec (op_mode o) m) as [E|E]; [|rewrite ph_step_other; assumption].
  destruct o; cbn [op_mode] in E; subst; try (rewrite cbstarted_ph; assumption); cbn [step]; try rewrite P; cbn [fst ph]; try assumption; try congruence.
  - cbn in S. rewrite Z.eqb_refl in S. discriminate.
  - destruct (cls_ok c && _); cbn; assumption.
Qed.

Lemma run_from_fst_cons fx s o t : fst (run_from fx s (o :: t)) = fst (run_from fx (fst (step fx s o)) t).
Proof. cbn [run_from]. destruct (step fx s o) as [s1 r]. cbn [fst]. destruct (run_from fx s1 t) as [s2 e]. reflexivity. Qed.

Lemma run_from_fst_nil fx s : fst (run_from fx s []) = s.
Proof. reflexivity. Qed.

(* generic: a phase that only the operations in [leave] can end is still there when the first of them arrives *)
Lemma first_leaving fx (P : phase) (leave : op -> bool) m :
  (forall s o, ph s m = P -> leave o = false -> ph (fst (step fx s o)) m = P) ->
  forall h s, ph s m = P -> existsb leave h = true ->
    exists h1 o h2, h = h1 ++ o :: h2 /\ leave o = true /\ existsb leave h1 = false /\
                    ph (fst (run_from fx s h1)) m = P.
Proof.
  intros St. induction h as [|o t IH]; intros s Ph Ex; [discriminate|].
  cbn [existsb] in Ex. destruct (leave o) eqn:L.
  - exists [], o, t. repeat split; assumption.
  - cbn in Ex. destruct (IH (fst (step fx s o)) (St s o Ph L) Ex) as [h1 [o' [h2 [A [B [C D]]]]]].
    exists (o :: h1), o', h2. subst t. repeat split; try assumption.
    + cbn [existsb]. rewrite L. exact C.
    + rewrite run_from_fst_cons. exact D.
Qed.

Definition op_eqb (a b : op) : bool := if op_eq_dec a b then true else false.
Lemma op_eqb_false a b : op_eqb a b = false -> a <> b.
Proof. unfold op_eqb. destruct (op_eq_dec a b); [discriminate | intros _; assumption]. Qed.
Lemma op_eqb_true a b : op_eqb a b = true -> a = b.
Proof. unfold op_eqb. destruct (op_eq_dec a b); [intros _; assumption | discriminate]. Qed.
Lemma existsb_in_op x h : In x h -> existsb (fun o => op_eqb o x) h = true.
Proof.
  intro H. apply existsb_exists. exists x. split; [exact H|]. unfold op_eqb. destruct (op_eq_dec x x); congruence.
Qed.

Lemma run_from_fst_app fx h1 : forall s h2, fst (run_from fx s (h1 ++ h2)) = fst (run_from fx (fst (run_from fx s h1)) h2).
Proof.
  induction h1 as [|o t IH]; intros s h2; [reflexivity|].
  rewrite <- app_comm_cons, !run_from_fst_cons. apply IH.
Qed.

(* every accepted start becomes active as soon as the bus delivers the completion of mode_<m>_starting: until then no
   request, completion or registration of any mode moves m out of Starting *)
Lemma started_when_delivered fx s h m :
  ph s m = Starting -> In (QStarted m) h ->
  exists h1 h2, h = h1 ++ QStarted m :: h2 /\ ~ In (QStarted m) h1 /\
    ph (fst (run_from fx s h1)) m = Starting /\
    ph (fst (run_from fx s (h1 ++ [QStarted m]))) m = Active /\
    r_status (snd (step fx (fst (run_from fx s h1)) (QStarted m))) = 1.
Proof.
  intros P I.
  destruct (first_leaving fx Starting (fun o => op_eqb o (QStarted m)) m
              (fun s0 o Q L => starting_stable fx s0 o m Q (op_eqb_false _ _ L)) h s P (existsb_in_op _ _ I))
    as [h1 [o [h2 [A [B [C D]]]]]].
  apply op_eqb_true in B. subst o. exists h1, h2. split; [exact A|]. split.
  - intro Hin. apply existsb_in_op in Hin. rewrite Hin in C. discriminate.
  - split; [exact D|]. rewrite run_from_fst_app, run_from_fst_cons, run_from_fst_nil.
    destruct (completions_accepted_l fx (fst (run_from fx s h1)) m) as [X _]. destruct (X D) as [Y Z]. split; assumption.
Qed.

Lemma stopped_when_delivered fx s h m :
  ph s m = Stopping -> In (QStopped m) h ->
  exists h1 h2, h = h1 ++ QStopped m :: h2 /\ ~ In (QStopped m) h1 /\
    ph (fst (run_from fx s h1)) m = Stopping /\
    ph (fst (run_from fx s (h1 ++ [QStopped m]))) m = Winding /\
    r_status (snd (step fx (fst (run_from fx s h1)) (QStopped m))) = 1.
Proof.
  intros P I.
  destruct (first_leaving fx Stopping (fun o => op_eqb o (QStopped m)) m
              (fun s0 o Q L => stopping_stable fx s0 o m Q (op_eqb_false _ _ L)) h s P (existsb_in_op _ _ I))
    as [h1 [o [h2 [A [B [C D]]]]]].
  apply op_eqb_true in B. subst o. exists h1, h2. split; [exact A|]. split.
  - intro Hin. apply existsb_in_op in Hin. rewrite Hin in C. discriminate.
  - split; [exact D|]. rewrite run_from_fst_app, run_from_fst_cons, run_from_fst_nil.
    destruct (completions_accepted_l fx (fst (run_from fx s h1)) m) as [_ [X _]]. destruct (X D) as [Y Z]. split; assumption.
Qed.

(* the wind-up of a stop ends with the callback of mode_<m>_stopped or, earlier, with a restart of the mode (which,
   in the fixed code, performs the clean-up itself): afterwards the mode is Idle resp. Starting *)
Lemma wound_up_when_delivered s h m :
  ph s m = Winding -> In (CbStopped m) h ->
  exists h1 o h2, h = h1 ++ o :: h2 /\ (o = CbStopped m \/ exists p, o = Start m p) /\
    ph (fst (run_from true s h1)) m = Winding /\
    (o = CbStopped m -> ph (fst (run_from true s (h1 ++ [o]))) m = Idle) /\
    ((exists p, o = Start m p) -> ph (fst (run_from true s (h1 ++ [o]))) m = Starting).
Proof.
  intros P I.
  destruct (first_leaving true Winding (fun o => op_eqb o (CbStopped m) || is_start_of m o) m) with (h := h) (s := s)
    as [h1 [o [h2 [A [B [C D]]]]]].
  - intros s0 o Q L. apply orb_false_iff in L as [L1 L2]. apply winding_stable; [exact Q | apply op_eqb_false; exact L1 | exact L2].
  - exact P.
  - apply existsb_exists. exists (CbStopped m). split; [exact I|]. unfold op_eqb.
    destruct (op_eq_dec (CbStopped m) (CbStopped m)); [reflexivity | congruence].
  - exists h1, o, h2. split; [exact A|]. apply orb_true_iff in B.
    assert (Kind : o = CbStopped m \/ exists p, o = Start m p).
    { destruct B as [B|B]; [left; apply op_eqb_true; exact B|].
      right. destruct o; cbn in B; try discriminate. apply Z.eqb_eq in B. subst. eexists; reflexivity. }
    split; [exact Kind|]. split; [exact D|].
    rewrite run_from_fst_app, run_from_fst_cons, run_from_fst_nil. split.
    + intro E. subst o. destruct (completions_accepted_l true (fst (run_from true s h1)) m) as [_ [_ X]]. apply X. exact D.
    + intros [p E]. subst o. cbn [step]. rewrite D. cbn. rewrite upd_same. reflexivity.
Qed.
