(* C07/Own.v — what ONE mode owns in the switch controller and in its config players, closed under switch changes,
   timer wake-ups and dispatches from stale handler lists.

   Code modelled (mpf/core/switch_controller.py, mode.py, config_player.py, config_players/queue_relay_player.py):
     SwitchController.add_switch_handler_obj    OReg   (registration + the catch-up of a switch that is already in the
                                                       wanted state for less than ms: SECOND producer of counting entries)
     SwitchController.remove_switch_handler_obj OUnreg (registered_switches AND _active_timed_switches, by key)
     SwitchController.process_switch_obj + _cancel_timed_handlers + _call_handlers
                                                OChange (duplicate state ignored; counting entries of the switch dropped;
                                                        snapshot of the handler list, cancelled entries skipped, timed
                                                        entries start counting, others are called)
     SwitchController._process_active_timed_switches
                                                OFire  (snapshot of the due bucket, entries removed meanwhile skipped)
     Mode.switch_handlers / _remove_mode_switch_handlers (in stop() and again in _mode_stopped_callback)
     Mode.start/_started/stop/_stopped/_mode_stopped_callback: the same guards as Model.v (fx = true)
     ConfigPlayer.mode_start / mode_stop (register_player_events / unload_player_events + clear_context)
     ConfigPlayer.config_play_callback          OCall  (the guard "if not mode.active: return"; called from the live handler
                                                        list or from a COPY taken before the handlers were unloaded)
     QueueRelayPlayer.play / _callback / clear_context   (wait_for handler per instance)
   A callback may stop the mode it belongs to when it is invoked (parameter stp): the removal then happens in the
   middle of the loops of _call_handlers / _process_active_timed_switches.
   Times are integer microseconds.  Definitions only; proofs in LemOwn.v. *)
From Common Require Import Prelude.
From C07 Require Import Model.
Open Scope Z_scope.

(* what remove_switch_handler_obj matches on: (callback, switch, state, ms) *)
Record key := mkK { k_cb : Z; k_sw : Z; k_st : Z; k_ms : Z }.
Definition key_eqb (a b : key) : bool :=
  (k_cb a =? k_cb b) && (k_sw a =? k_sw b) && (k_st a =? k_st b) && (k_ms a =? k_ms b).

Record rentry := mkRE { r_ser : Z; r_key : key }.          (* a RegisteredSwitch object (serial = identity) *)
Record centry := mkCE { c_dl : Z; c_key : key }.           (* a TimedSwitchHandler in bucket c_dl of its switch *)
Definition rentry_eqb (a b : rentry) : bool := (r_ser a =? r_ser b) && key_eqb (r_key a) (r_key b).
Definition centry_eqb (a b : centry) : bool := (c_dl a =? c_dl b) && key_eqb (c_key a) (c_key b).

Record ostate := mkOS {
  oph : phase;
  sst : Z -> Z;                 (* Switch.state *)
  slc : Z -> Z;                 (* Switch.last_change *)
  regs : list rentry;           (* registered_switches, registration order *)
  cnt : list centry;            (* _active_timed_switches, insertion order *)
  trk : list key;               (* Mode.switch_handlers *)
  loaded : bool;                (* the mode's config-player handlers are registered *)
  relay : list Z                (* wait_for handlers of the mode's queue relay instances (entry id each) *)
}.

Inductive oop :=
| OStart | OQStarted | OStop | OQStopped | OCbStopped
| OReg (ser : Z) (k : key) (tracked : bool) (t : Z)   (* tracked: appended to Mode.switch_handlers by the mode's code *)
| OUnreg (k : key)                                    (* the mode's code removes one of its handlers itself *)
| OChange (sw st t : Z)
| OFire (sw t : Z)                                    (* wake-up of the switch's timed-handler task at time t *)
| OCall (e : Z) (live : bool)                         (* config_play_callback of player entry e; live = the handler is in
                                                         the registry (otherwise it comes from a copied list) *)
| ODone (e : Z)                                       (* the wait_for event of relay entry e is posted *)
| OObs.                                               (* no effect: the state is compared at this point *)

Definition key_in (k : key) (l : list key) : bool := existsb (key_eqb k) l.

(* remove_switch_handler_obj for every key of ks *)
Definition rm_regs (ks : list key) (l : list rentry) : list rentry := filter (fun r => negb (key_in (r_key r) ks)) l.
Definition rm_cnt (ks : list key) (l : list centry) : list centry := filter (fun c => negb (key_in (c_key c) ks)) l.

Definition set_sw (s : ostate) (r : list rentry) (c : list centry) (t : list key) : ostate :=
  mkOS (oph s) (sst s) (slc s) r c t (loaded s) (relay s).
Definition set_ph (s : ostate) (p : phase) : ostate :=
  mkOS p (sst s) (slc s) (regs s) (cnt s) (trk s) (loaded s) (relay s).

(* Mode._remove_mode_switch_handlers *)
Definition clear_sw (s : ostate) : ostate := set_sw s (rm_regs (trk s) (regs s)) (rm_cnt (trk s) (cnt s)) [].

(* the effect of an accepted Mode.stop() *)
Definition stop_eff (s : ostate) : ostate := set_ph (clear_sw s) Stopping.

(* _mode_stopped_callback *)
Definition ocleanup (s : ostate) : ostate := set_ph (clear_sw s) Idle.

(* a callback is invoked; a stopper asks its mode to stop *)
Definition invoke (stp : Z -> bool) (s : ostate) (cb : Z) : ostate :=
  if stp cb then match oph s with Active => stop_eff s | _ => s end else s.

Definition add_cnt (s : ostate) (c : centry) : ostate := set_sw s (regs s) (cnt s ++ [c]) (trk s).

(* _call_handlers: over a snapshot of the handler list of (switch, state) *)
Fixpoint change_loop (stp : Z -> bool) (snap : list rentry) (t : Z) (s : ostate) : ostate * list Z :=
  match snap with
  | [] => (s, [])
  | r :: rest =>
      if existsb (rentry_eqb r) (regs s) then            (* not cancelled *)
        if 0 <? k_ms (r_key r)
        then change_loop stp rest t (add_cnt s (mkCE (t + k_ms (r_key r) * 1000) (r_key r)))
        else let '(s2, l) := change_loop stp rest t (invoke stp s (k_cb (r_key r))) in (s2, k_cb (r_key r) :: l)
      else change_loop stp rest t s
  end.

(* _process_active_timed_switches: over a snapshot of the due entries *)
Fixpoint fire_loop (stp : Z -> bool) (snap : list centry) (s : ostate) : ostate * list Z :=
  match snap with
  | [] => (s, [])
  | c :: rest =>
      if existsb (centry_eqb c) (cnt s)                  (* "check if removed by previous entry" *)
      then let '(s2, l) := fire_loop stp rest (invoke stp s (k_cb (c_key c))) in (s2, k_cb (c_key c) :: l)
      else fire_loop stp rest s
  end.

Fixpoint remove_first_key (k : key) (l : list key) : list key :=
  match l with
  | [] => []
  | y :: t => if key_eqb k y then t else y :: remove_first_key k t
  end.

Definition due (sw t : Z) (c : centry) : bool := (k_sw (c_key c) =? sw) && (c_dl c <=? t).

(* result: status, invoked callbacks (in order), player entries that played *)
Definition ores : Type := (Z * list Z * list Z)%type.

Definition ostep (stp : Z -> bool) (s : ostate) (o : oop) : ostate * ores :=
  match o with
  | OStart =>
      match oph s with
      | Idle => (mkOS Starting (sst s) (slc s) (regs s) (cnt s) (trk s) true (relay s), (1, [], []))
      | Winding => let s1 := ocleanup s in
                   (mkOS Starting (sst s1) (slc s1) (regs s1) (cnt s1) (trk s1) true (relay s1), (1, [], []))
      | _ => (s, (0, [], []))
      end
  | OQStarted =>
      match oph s with
      | Starting => (set_ph s Active, (1, [], []))
      | _ => (s, (2, [], []))
      end
  | OStop =>
      match oph s with
      | Active => (stop_eff s, (1, [], []))
      | Stopping => (s, (1, [], []))
      | _ => (s, (0, [], []))
      end
  | OQStopped =>
      match oph s with
      | Stopping => (mkOS Winding (sst s) (slc s) (regs s) (cnt s) (trk s) false [], (1, [], []))
      | _ => (s, (2, [], []))
      end
  | OCbStopped =>
      match oph s with
      | Winding => (ocleanup s, (1, [], []))
      | _ => (s, (0, [], []))
      end
  | OReg ser k tracked t =>
      (* code of a mode runs only while the mode is not idle *)
      if tracked && phase_eqb (oph s) Idle then (s, (2, [], []))
      else
        let r := regs s ++ [mkRE ser k] in
        let tk := if tracked then trk s ++ [k] else trk s in
        let c := if (0 <? k_ms k) && (k_st k =? sst s (k_sw k)) && (t - k_ms k * 1000 <? slc s (k_sw k))
                 then cnt s ++ [mkCE (slc s (k_sw k) + k_ms k * 1000) k] else cnt s in
        (set_sw s r c tk, (1, [], []))
  | OUnreg k =>
      (set_sw s (rm_regs [k] (regs s)) (rm_cnt [k] (cnt s)) (remove_first_key k (trk s)), (1, [], []))
  | OChange sw st t =>
      if sst s sw =? st then (s, (0, [], []))
      else
        let s1 := mkOS (oph s) (upd (sst s) sw st) (upd (slc s) sw t) (regs s)
                       (filter (fun c => negb (k_sw (c_key c) =? sw)) (cnt s)) (trk s) (loaded s) (relay s) in
        let snap := filter (fun r => (k_sw (r_key r) =? sw) && (k_st (r_key r) =? st)) (regs s1) in
        let '(s2, l) := change_loop stp snap t s1 in (s2, (1, l, []))
  | OFire sw t =>
      let snap := filter (due sw t) (cnt s) in
      let '(s2, l) := fire_loop stp snap s in
      let st := match snap with
                | [] => 0
                | c :: _ => if forallb (fun x => c_dl x =? c_dl c) snap then 1 else 2
                end in
      (set_sw s2 (regs s2) (filter (fun c => negb (due sw t c)) (cnt s2)) (trk s2), (st, l, []))
  | OCall e live =>
      if live && negb (loaded s) then (s, (2, [], []))
      else if is_act (oph s)
      then (mkOS (oph s) (sst s) (slc s) (regs s) (cnt s) (trk s) (loaded s)
                 (if e =? 2 then relay s ++ [e] else relay s), (1, [], [e]))
      else (s, (0, [], []))
  | ODone e =>
      (mkOS (oph s) (sst s) (slc s) (regs s) (cnt s) (trk s) (loaded s) (filter (fun x => negb (x =? e)) (relay s)),
       (Z.of_nat (length (filter (fun x => x =? e) (relay s))), [], []))
  | OObs => (s, (0, [], []))
  end.

Definition oinit : ostate :=
  mkOS Idle (fun _ => 0) (fun _ => -100000000000) [] [] [] false [].

Fixpoint orun_from (stp : Z -> bool) (s : ostate) (h : list oop) : ostate :=
  match h with
  | [] => s
  | o :: t => orun_from stp (fst (ostep stp s o)) t
  end.
Definition orun (stp : Z -> bool) (h : list oop) : ostate := orun_from stp oinit h.

(* every callback invoked along a history *)
Fixpoint oinvoked (stp : Z -> bool) (s : ostate) (h : list oop) : list Z :=
  match h with
  | [] => []
  | o :: t => let '(s1, r) := ostep stp s o in snd (fst r) ++ oinvoked stp s1 t
  end.

(* every player entry played along a history, with the phase the mode was in *)
Fixpoint oplayed (stp : Z -> bool) (s : ostate) (h : list oop) : list (Z * phase) :=
  match h with
  | [] => []
  | o :: t => let '(s1, r) := ostep stp s o in map (fun e => (e, oph s)) (snd r) ++ oplayed stp s1 t
  end.

Definition is_reg_of (cb : Z) (o : oop) : bool :=
  match o with OReg _ k _ _ => k_cb k =? cb | _ => false end.
Definition is_untracked_reg_of (cb : Z) (o : oop) : bool :=
  match o with OReg _ k tr _ => (k_cb k =? cb) && negb tr | _ => false end.

(* ---- what the correspondence run compares ---------------------------------------------------------------------
   per operation: status, invoked callbacks, played entries; at OObs in addition the state: phase, serials of the
   registered handlers, counting entries (deadline, callback, switch, state, ms), number of tracked keys, player handlers
   loaded, number of relay handlers *)
Record oobs := mkOO { oo_status : Z; oo_inv : list Z; oo_play : list Z; oo_dump : list (list Z) }.

Definition enc_key (k : key) : list Z := [k_cb k; k_sw k; k_st k; k_ms k].

Fixpoint zs_leb (a b : list Z) : bool :=
  match a, b with
  | [], _ => true
  | _ :: _, [] => false
  | x :: a', y :: b' => (x <? y) || ((x =? y) && zs_leb a' b')
  end.

Fixpoint insert_zs (x : list Z) (l : list (list Z)) : list (list Z) :=
  match l with
  | [] => [x]
  | y :: t => if zs_leb x y then x :: l else y :: insert_zs x t
  end.
Definition sort_zs (l : list (list Z)) : list (list Z) := fold_right insert_zs [] l.

Definition odump (s : ostate) : list (list Z) :=
  [ [phase_code (oph s); Z.of_nat (length (trk s)); (if loaded s then 1 else 0); Z.of_nat (length (relay s))];
    sort_z (map r_ser (regs s)) ] ++ sort_zs (map (fun c => c_dl c :: enc_key (c_key c)) (cnt s)).

Definition oobserve (s : ostate) (o : oop) (r : ores) : oobs :=
  mkOO (fst (fst r)) (snd (fst r)) (snd r) (match o with OObs => odump s | _ => [] end).

Fixpoint orun_obs (stp : Z -> bool) (s : ostate) (h : list oop) : list oobs :=
  match h with
  | [] => []
  | o :: t => let '(s1, r) := ostep stp s o in oobserve s1 o r :: orun_obs stp s1 t
  end.

Definition oobs_eqb (a b : oobs) : bool :=
  (oo_status a =? oo_status b) && zs_eqb (oo_inv a) (oo_inv b) && zs_eqb (oo_play a) (oo_play b)
  && zss_eqb (oo_dump a) (oo_dump b).

(* input: per mode (stopper callbacks, operations) *)
Definition own_run (i : list (list Z * list oop)) : list (list oobs) :=
  map (fun x => orun_obs (fun cb => existsb (Z.eqb cb) (fst x)) oinit (snd x)) i.
Definition own_out_eqb (a b : list (list oobs)) : bool := list_eqb (list_eqb oobs_eqb) a b.
