(* C07/LemOwn.v — proofs about Own.v *)
From Common Require Import Prelude.
From C07 Require Import Model Own.
From Coq Require Import Lia.
Open Scope Z_scope.

Lemma key_eqb_eq a b : key_eqb a b = true <-> a = b.
Proof.
  destruct a, b; unfold key_eqb; cbn. rewrite !andb_true_iff, !Z.eqb_eq. split.
  - intros [[[-> ->] ->] ->]; reflexivity.
  - intros H; inversion H; auto.
Qed.

Lemma key_eqb_refl k : key_eqb k k = true.
Proof. apply key_eqb_eq; reflexivity. Qed.

Lemma key_in_In k l : key_in k l = true <-> In k l.
Proof.
  unfold key_in. rewrite existsb_exists. split.
  - intros [x [Hx E]]. apply key_eqb_eq in E. subst; auto.
  - intros H; exists k; split; auto. apply key_eqb_refl.
Qed.

Lemma rentry_eqb_eq a b : rentry_eqb a b = true -> a = b.
Proof.
  destruct a, b; unfold rentry_eqb; cbn. rewrite andb_true_iff, Z.eqb_eq, key_eqb_eq. intros [-> ->]; reflexivity.
Qed.

Lemma centry_eqb_eq a b : centry_eqb a b = true -> a = b.
Proof.
  destruct a, b; unfold centry_eqb; cbn. rewrite andb_true_iff, Z.eqb_eq, key_eqb_eq. intros [-> ->]; reflexivity.
Qed.

Lemma live_reg r l : existsb (rentry_eqb r) l = true -> In r l.
Proof. rewrite existsb_exists. intros [x [Hx E]]. apply rentry_eqb_eq in E. subst; auto. Qed.

Lemma live_cnt c l : existsb (centry_eqb c) l = true -> In c l.
Proof. rewrite existsb_exists. intros [x [Hx E]]. apply centry_eqb_eq in E. subst; auto. Qed.

(* ---- loops preserve whatever invoke and add_cnt preserve -------------------------------------------------------- *)
Lemma change_loop_pres stp (P : ostate -> Prop) :
  (forall s cb, P s -> P (invoke stp s cb)) ->
  (forall s r t, P s -> In r (regs s) -> P (add_cnt s (mkCE t (r_key r)))) ->
  forall snap t s, P s -> P (fst (change_loop stp snap t s)).
Proof.
  intros Hi Ha. induction snap as [|r rest IH]; intros t s Hs; cbn [change_loop]; [exact Hs|].
  destruct (existsb (rentry_eqb r) (regs s)) eqn:E; [|apply IH; exact Hs].
  apply live_reg in E.
  destruct (0 <? k_ms (r_key r)).
  - apply IH. apply Ha; assumption.
  - specialize (IH t (invoke stp s (k_cb (r_key r))) (Hi _ _ Hs)).
    destruct (change_loop stp rest t (invoke stp s (k_cb (r_key r)))) as [s2 l]. exact IH.
Qed.

Lemma fire_loop_pres stp (P : ostate -> Prop) :
  (forall s cb, P s -> P (invoke stp s cb)) ->
  forall snap s, P s -> P (fst (fire_loop stp snap s)).
Proof.
  intros Hi. induction snap as [|c rest IH]; intros s Hs; cbn [fire_loop]; [exact Hs|].
  destruct (existsb (centry_eqb c) (cnt s)); [|apply IH; exact Hs].
  specialize (IH (invoke stp s (k_cb (c_key c))) (Hi _ _ Hs)).
  destruct (fire_loop stp rest (invoke stp s (k_cb (c_key c)))) as [s2 l]. exact IH.
Qed.

Lemma invoke_cases stp s cb : invoke stp s cb = s \/ (oph s = Active /\ invoke stp s cb = stop_eff s).
Proof. unfold invoke. destruct (stp cb); [|left; reflexivity]. destruct (oph s); auto. Qed.

(* ---- INV: every counting entry belongs to a registered handler -------------------------------------------------------- *)
Definition INVl (rg : list rentry) (cn : list centry) : Prop :=
  forall c, In c cn -> exists r, In r rg /\ r_key r = c_key c.
Definition INV (s : ostate) : Prop := INVl (regs s) (cnt s).

Lemma INVl_rm ks rg cn : INVl rg cn -> INVl (rm_regs ks rg) (rm_cnt ks cn).
Proof.
  intros H c Hc. unfold rm_cnt in Hc. apply filter_In in Hc as [Hc Hn].
  destruct (H c Hc) as [r [Hr E]]. exists r. split; [|exact E].
  unfold rm_regs. apply filter_In. split; [exact Hr|]. rewrite E. exact Hn.
Qed.

Lemma INVl_sub rg cn cn' : INVl rg cn -> (forall c, In c cn' -> In c cn) -> INVl rg cn'.
Proof. intros H S c Hc. apply H, S, Hc. Qed.

Lemma INVl_filter rg cn f : INVl rg cn -> INVl rg (filter f cn).
Proof. intros H. eapply INVl_sub; [exact H|]. intros c Hc. apply filter_In in Hc. tauto. Qed.

Lemma INVl_add rg cn r d : INVl rg cn -> In r rg -> INVl rg (cn ++ [mkCE d (r_key r)]).
Proof.
  intros H Hr c Hc. apply in_app_or in Hc as [Hc|[<-|[]]]; [apply H, Hc|].
  exists r. split; [exact Hr|reflexivity].
Qed.

Lemma INVl_more rg cn x : INVl rg cn -> INVl (rg ++ [x]) cn.
Proof. intros H c Hc. destruct (H c Hc) as [r [Hr E]]. exists r. split; [apply in_or_app; left; exact Hr|exact E]. Qed.

Lemma INV_stop_eff s : INV s -> INV (stop_eff s).
Proof. unfold INV, stop_eff, clear_sw; cbn. apply INVl_rm. Qed.

Lemma INV_invoke stp s cb : INV s -> INV (invoke stp s cb).
Proof. intros H. destruct (invoke_cases stp s cb) as [->|[_ ->]]; [exact H|apply INV_stop_eff, H]. Qed.

Lemma INV_add_cnt s r t : INV s -> In r (regs s) -> INV (add_cnt s (mkCE t (r_key r))).
Proof. unfold INV, add_cnt; cbn. intros. apply INVl_add; assumption. Qed.

Lemma INV_step stp s o : INV s -> INV (fst (ostep stp s o)).
Proof.
  intros H. destruct o as [| | | | |ser k tr t|k|sw st t|sw t|e live|e|]; cbn [ostep].
  - destruct (oph s); cbn [fst]; try exact H. unfold INV, ocleanup, clear_sw; cbn. apply INVl_rm, H.
  - destruct (oph s); cbn [fst]; exact H.
  - destruct (oph s); cbn [fst]; try exact H. apply INV_stop_eff, H.
  - destruct (oph s); cbn [fst]; exact H.
  - destruct (oph s); cbn [fst]; try exact H. unfold INV, ocleanup, clear_sw; cbn. apply INVl_rm, H.
  - destruct (tr && phase_eqb (oph s) Idle); cbn [fst]; [exact H|].
    unfold INV, set_sw; cbn.
    destruct ((0 <? k_ms k) && (k_st k =? sst s (k_sw k)) && (t - k_ms k * 1000 <? slc s (k_sw k))).
    + apply (INVl_add (regs s ++ [mkRE ser k]) (cnt s) (mkRE ser k) (slc s (k_sw k) + k_ms k * 1000));
        [apply INVl_more, H|apply in_or_app; right; left; reflexivity].
    + apply INVl_more, H.
  - cbn [fst]. unfold INV, set_sw; cbn. apply INVl_rm, H.
  - destruct (sst s sw =? st); cbn [fst]; [exact H|].
    match goal with |- context [change_loop stp ?sn t ?s1] =>
      pose proof (change_loop_pres stp INV (INV_invoke stp) (fun s r t Hs Hr => INV_add_cnt s r t Hs Hr) sn t s1) as L;
      destruct (change_loop stp sn t s1) as [s2 l] end.
    cbn [fst] in *. apply L. unfold INV; cbn. apply INVl_filter, H.
  - pose proof (fire_loop_pres stp INV (INV_invoke stp) (filter (due sw t) (cnt s)) s H) as L.
    destruct (fire_loop stp (filter (due sw t) (cnt s)) s) as [s2 l]. cbn [fst] in *.
    unfold INV, set_sw; cbn. apply INVl_filter, L.
  - destruct (live && negb (loaded s)); cbn [fst]; [exact H|]. destruct (is_act (oph s)); cbn [fst]; exact H.
  - cbn [fst]. exact H.
  - exact H.
Qed.

Lemma INV_run_from stp h : forall s, INV s -> INV (orun_from stp s h).
Proof. induction h as [|o t IH]; intros s H; cbn [orun_from]; [exact H|]. apply IH, INV_step, H. Qed.

Lemma INV_run stp h : INV (orun stp h).
Proof. apply INV_run_from. intros c []. Qed.

(* ---- a callback without a registration is never invoked ---------------------------------------------------------------- *)
Definition NoCb (cb : Z) (s : ostate) : Prop := forall r, In r (regs s) -> k_cb (r_key r) <> cb.

Lemma NoCb_sub cb s s' : NoCb cb s -> (forall r, In r (regs s') -> In r (regs s)) -> NoCb cb s'.
Proof. intros H S r Hr. apply H, S, Hr. Qed.

Lemma NoCb_stop_eff cb s : NoCb cb s -> NoCb cb (stop_eff s).
Proof. intros H. eapply NoCb_sub; [exact H|]. unfold stop_eff, clear_sw, rm_regs; cbn. intros r Hr. apply filter_In in Hr. tauto. Qed.

Lemma NoCb_invoke stp cb s x : NoCb cb s -> NoCb cb (invoke stp s x).
Proof. intros H. destruct (invoke_cases stp s x) as [->|[_ ->]]; [exact H|apply NoCb_stop_eff, H]. Qed.

Lemma NoCb_add_cnt cb s c : NoCb cb s -> NoCb cb (add_cnt s c).
Proof. intros H. exact H. Qed.

Lemma change_loop_noinv stp cb : forall snap t s, NoCb cb s -> ~ In cb (snd (change_loop stp snap t s)).
Proof.
  induction snap as [|r rest IH]; intros t s H; cbn [change_loop]; [intros []|].
  destruct (existsb (rentry_eqb r) (regs s)) eqn:E; [|apply IH; exact H].
  apply live_reg in E.
  destruct (0 <? k_ms (r_key r)).
  - apply IH. apply NoCb_add_cnt, H.
  - specialize (IH t (invoke stp s (k_cb (r_key r))) (NoCb_invoke stp cb s _ H)).
    destruct (change_loop stp rest t (invoke stp s (k_cb (r_key r)))) as [s2 l]. cbn [snd] in *.
    intros [Hc|Hc]; [exact (H r E Hc)|exact (IH Hc)].
Qed.

Lemma fire_loop_noinv stp cb : forall snap s, INV s -> NoCb cb s -> ~ In cb (snd (fire_loop stp snap s)).
Proof.
  induction snap as [|c rest IH]; intros s HI H; cbn [fire_loop]; [intros []|].
  destruct (existsb (centry_eqb c) (cnt s)) eqn:E; [|apply IH; assumption].
  apply live_cnt in E.
  specialize (IH (invoke stp s (k_cb (c_key c))) (INV_invoke stp s _ HI) (NoCb_invoke stp cb s _ H)).
  destruct (fire_loop stp rest (invoke stp s (k_cb (c_key c)))) as [s2 l]. cbn [snd] in *.
  intros [Hc|Hc]; [|exact (IH Hc)].
  destruct (HI c E) as [r [Hr Ek]]. apply (H r Hr). rewrite Ek. exact Hc.
Qed.

Lemma NoCb_step stp cb s o : NoCb cb s -> is_reg_of cb o = false -> NoCb cb (fst (ostep stp s o)).
Proof.
  intros H Hn. destruct o as [| | | | |ser k tr t|k|sw st t|sw t|e live|e|]; cbn [ostep].
  - destruct (oph s); cbn [fst]; try exact H.
    eapply NoCb_sub; [exact H|]. unfold ocleanup, clear_sw, rm_regs; cbn. intros r Hr. apply filter_In in Hr. tauto.
  - destruct (oph s); cbn [fst]; exact H.
  - destruct (oph s); cbn [fst]; try exact H. apply NoCb_stop_eff, H.
  - destruct (oph s); cbn [fst]; exact H.
  - destruct (oph s); cbn [fst]; try exact H.
    eapply NoCb_sub; [exact H|]. unfold ocleanup, clear_sw, rm_regs; cbn. intros r Hr. apply filter_In in Hr. tauto.
  - destruct (tr && phase_eqb (oph s) Idle); cbn [fst]; [exact H|].
    cbn [is_reg_of] in Hn. apply Z.eqb_neq in Hn.
    intros r Hr. unfold set_sw in Hr; cbn in Hr. apply in_app_or in Hr as [Hr|[<-|[]]]; [apply H, Hr|exact Hn].
  - cbn [fst]. eapply NoCb_sub; [exact H|]. unfold set_sw, rm_regs; cbn. intros r Hr. apply filter_In in Hr. tauto.
  - destruct (sst s sw =? st); cbn [fst]; [exact H|].
    match goal with |- context [change_loop stp ?sn t ?s1] =>
      pose proof (change_loop_pres stp (NoCb cb) (fun s x => NoCb_invoke stp cb s x)
                                   (fun s r t Hs _ => NoCb_add_cnt cb s _ Hs) sn t s1) as L;
      destruct (change_loop stp sn t s1) as [s2 l] end.
    cbn [fst] in *. apply L. exact H.
  - pose proof (fire_loop_pres stp (NoCb cb) (fun s x => NoCb_invoke stp cb s x) (filter (due sw t) (cnt s)) s H) as L.
    destruct (fire_loop stp (filter (due sw t) (cnt s)) s) as [s2 l]. cbn [fst] in *. exact L.
  - destruct (live && negb (loaded s)); cbn [fst]; [exact H|]. destruct (is_act (oph s)); cbn [fst]; exact H.
  - cbn [fst]. exact H.
  - exact H.
Qed.

Lemma step_noinv stp cb s o : INV s -> NoCb cb s -> ~ In cb (snd (fst (snd (ostep stp s o)))).
Proof.
  intros HI H. destruct o as [| | | | |ser k tr t|k|sw st t|sw t|e live|e|]; cbn [ostep].
  - destruct (oph s); cbn; tauto.
  - destruct (oph s); cbn; tauto.
  - destruct (oph s); cbn; tauto.
  - destruct (oph s); cbn; tauto.
  - destruct (oph s); cbn; tauto.
  - destruct (tr && phase_eqb (oph s) Idle); cbn; tauto.
  - cbn; tauto.
  - destruct (sst s sw =? st); [cbn; tauto|].
    match goal with |- context [change_loop stp ?sn t ?s1] =>
      pose proof (change_loop_noinv stp cb sn t s1) as L; destruct (change_loop stp sn t s1) as [s2 l] end.
    cbn [fst snd] in *. apply L. exact H.
  - pose proof (fire_loop_noinv stp cb (filter (due sw t) (cnt s)) s HI H) as L.
    destruct (fire_loop stp (filter (due sw t) (cnt s)) s) as [s2 l]. cbn [fst snd] in *. exact L.
  - destruct (live && negb (loaded s)); [cbn; tauto|]. destruct (is_act (oph s)); cbn; tauto.
  - cbn; tauto.
  - cbn; tauto.
Qed.

Lemma oinvoked_none stp cb : forall h s, INV s -> NoCb cb s ->
  forallb (fun o => negb (is_reg_of cb o)) h = true -> ~ In cb (oinvoked stp s h).
Proof.
  induction h as [|o t IH]; intros s HI H Hh; cbn [oinvoked]; [intros []|].
  cbn [forallb] in Hh. apply andb_true_iff in Hh as [Ho Ht]. apply negb_true_iff in Ho.
  pose proof (step_noinv stp cb s o HI H) as N.
  pose proof (INV_step stp s o HI) as HI'. pose proof (NoCb_step stp cb s o H Ho) as H'.
  destruct (ostep stp s o) as [s1 r]. cbn [fst snd] in *.
  intros Hin. apply in_app_or in Hin as [Hin|Hin]; [exact (N Hin)|exact (IH s1 HI' H' Ht Hin)].
Qed.

(* ---- a callback only ever registered through the mode: all its registrations are in Mode.switch_handlers -------------------- *)
Definition AllTracked (cb : Z) (s : ostate) : Prop :=
  forall r, In r (regs s) -> k_cb (r_key r) = cb -> In (r_key r) (trk s).

Lemma AllTracked_clear cb s p : AllTracked cb s -> AllTracked cb (set_ph (clear_sw s) p).
Proof.
  intros H r Hr E. unfold set_ph, clear_sw, set_sw, rm_regs in Hr; cbn in Hr. apply filter_In in Hr as [Hr Hn].
  apply negb_true_iff in Hn. pose proof (H r Hr E) as Hin. apply key_in_In in Hin. congruence.
Qed.

Lemma AllTracked_invoke stp cb s x : AllTracked cb s -> AllTracked cb (invoke stp s x).
Proof. intros H. destruct (invoke_cases stp s x) as [->|[_ ->]]; [exact H|apply AllTracked_clear, H]. Qed.

Lemma remove_first_other x k l : x <> k -> In x l -> In x (remove_first_key k l).
Proof.
  intros N. induction l as [|y t IH]; cbn; [tauto|]. intros [->|Hin].
  - destruct (key_eqb k x) eqn:E; [apply key_eqb_eq in E; congruence|left; reflexivity].
  - destruct (key_eqb k y); [exact Hin|right; apply IH, Hin].
Qed.

Lemma AllTracked_step stp cb s o : AllTracked cb s -> is_untracked_reg_of cb o = false ->
  AllTracked cb (fst (ostep stp s o)).
Proof.
  intros H Hn. destruct o as [| | | | |ser k tr t|k|sw st t|sw t|e live|e|]; cbn [ostep].
  - destruct (oph s); cbn [fst]; try exact H.
    intros r Hr E. cbn in Hr. unfold rm_regs in Hr. apply filter_In in Hr as [Hr Hx].
    apply negb_true_iff in Hx. pose proof (H r Hr E) as Hin. apply key_in_In in Hin. congruence.
  - destruct (oph s); cbn [fst]; exact H.
  - destruct (oph s); cbn [fst]; try exact H. apply AllTracked_clear, H.
  - destruct (oph s); cbn [fst]; exact H.
  - destruct (oph s); cbn [fst]; try exact H. apply AllTracked_clear, H.
  - destruct (tr && phase_eqb (oph s) Idle); cbn [fst]; [exact H|].
    cbn [is_untracked_reg_of] in Hn.
    intros r Hr E. unfold set_sw in *; cbn in *. apply in_app_or in Hr as [Hr|[<-|[]]].
    + pose proof (H r Hr E). destruct tr; [apply in_or_app; left|]; assumption.
    + cbn in E. destruct tr; [apply in_or_app; right; left; reflexivity|].
      apply Z.eqb_eq in E. rewrite E in Hn. discriminate.
  - cbn [fst]. intros r Hr E. unfold set_sw, rm_regs in *; cbn in *. apply filter_In in Hr as [Hr Hx].
    apply remove_first_other; [|apply H; assumption].
    intros Ek. rewrite Ek, key_eqb_refl in Hx. discriminate.
  - destruct (sst s sw =? st); cbn [fst]; [exact H|].
    match goal with |- context [change_loop stp ?sn t ?s1] =>
      pose proof (change_loop_pres stp (AllTracked cb) (fun s x => AllTracked_invoke stp cb s x)
                                   (fun s r t Hs _ => Hs) sn t s1) as L;
      destruct (change_loop stp sn t s1) as [s2 l] end.
    cbn [fst] in *. apply L. exact H.
  - pose proof (fire_loop_pres stp (AllTracked cb) (fun s x => AllTracked_invoke stp cb s x) (filter (due sw t) (cnt s)) s H) as L.
    destruct (fire_loop stp (filter (due sw t) (cnt s)) s) as [s2 l]. cbn [fst] in *. exact L.
  - destruct (live && negb (loaded s)); cbn [fst]; [exact H|]. destruct (is_act (oph s)); cbn [fst]; exact H.
  - cbn [fst]. exact H.
  - exact H.
Qed.

Lemma AllTracked_run_from stp cb : forall h s, AllTracked cb s ->
  forallb (fun o => negb (is_untracked_reg_of cb o)) h = true -> AllTracked cb (orun_from stp s h).
Proof.
  induction h as [|o t IH]; intros s H Hh; cbn [orun_from]; [exact H|].
  cbn [forallb] in Hh. apply andb_true_iff in Hh as [Ho Ht]. apply negb_true_iff in Ho.
  apply IH; [apply AllTracked_step; assumption|exact Ht].
Qed.

(* ---- phase invariants: an idle mode tracks nothing; players loaded / relay handlers only while the mode is up ---------------- *)
Definition PhInv (s : ostate) : Prop :=
  (oph s = Idle -> trk s = []) /\
  (is_act (oph s) = false -> relay s = []) /\
  loaded s = match oph s with Idle | Winding => false | _ => true end.

Lemma PhInv_invoke stp s x : PhInv s -> PhInv (invoke stp s x).
Proof.
  intros H. destruct (invoke_cases stp s x) as [->|[A ->]]; [exact H|].
  destruct H as [H1 [H2 H3]]. unfold PhInv, stop_eff, set_ph, clear_sw, set_sw; cbn.
  rewrite A in H3. repeat split; try discriminate. exact H3.
Qed.

Lemma PhInv_step stp s o : PhInv s -> PhInv (fst (ostep stp s o)).
Proof.
  intros H. pose proof H as [H1 [H2 H3]].
  destruct o as [| | | | |ser k tr t|k|sw st t|sw t|e live|e|]; cbn [ostep].
  - destruct (oph s) eqn:P; cbn [fst]; try exact H; unfold PhInv; cbn; repeat split; try discriminate; intros _; apply H2; reflexivity.
  - destruct (oph s) eqn:P; cbn [fst]; try exact H. unfold PhInv, set_ph; cbn. repeat split; try discriminate. exact H3.
  - destruct (oph s) eqn:P; cbn [fst]; try exact H. unfold PhInv, stop_eff, set_ph, clear_sw, set_sw; cbn.
    repeat split; try discriminate. exact H3.
  - destruct (oph s) eqn:P; cbn [fst]; try exact H. unfold PhInv; cbn. repeat split; discriminate.
  - destruct (oph s) eqn:P; cbn [fst]; try exact H. unfold PhInv, ocleanup, set_ph, clear_sw, set_sw; cbn.
    repeat split; try exact H3. intros _. apply H2. reflexivity.
  - destruct (tr && phase_eqb (oph s) Idle) eqn:G; cbn [fst]; [exact H|].
    unfold PhInv, set_sw; cbn. repeat split; try assumption.
    intros P. destruct tr; [rewrite P in G; cbn in G; discriminate|apply H1, P].
  - cbn [fst]. unfold PhInv, set_sw; cbn. repeat split; try assumption. intros P. rewrite (H1 P). reflexivity.
  - destruct (sst s sw =? st); cbn [fst]; [exact H|].
    match goal with |- context [change_loop stp ?sn t ?s1] =>
      pose proof (change_loop_pres stp PhInv (PhInv_invoke stp) (fun s r t Hs _ => Hs) sn t s1) as L;
      destruct (change_loop stp sn t s1) as [s2 l] end.
    cbn [fst] in *. apply L. exact H.
  - pose proof (fire_loop_pres stp PhInv (PhInv_invoke stp) (filter (due sw t) (cnt s)) s H) as L.
    destruct (fire_loop stp (filter (due sw t) (cnt s)) s) as [s2 l]. cbn [fst] in *. exact L.
  - destruct (live && negb (loaded s)); cbn [fst]; [exact H|]. destruct (is_act (oph s)) eqn:A; cbn [fst]; [|exact H].
    unfold PhInv; cbn. repeat split; try assumption. rewrite A. discriminate.
  - cbn [fst]. unfold PhInv; cbn. repeat split; try assumption. intros A. rewrite (H2 A). reflexivity.
  - exact H.
Qed.

Lemma PhInv_run_from stp h : forall s, PhInv s -> PhInv (orun_from stp s h).
Proof. induction h as [|o t IH]; intros s H; cbn [orun_from]; [exact H|]. apply IH, PhInv_step, H. Qed.

Lemma PhInv_run stp h : PhInv (orun stp h).
Proof. apply PhInv_run_from. unfold PhInv, oinit; cbn. repeat split; reflexivity. Qed.

(* ---- the statements of Props.v -------------------------------------------------------------------------------------------- *)
Lemma idle_mode_owns_no_switch_entry_l stp cb h :
  forallb (fun o => negb (is_untracked_reg_of cb o)) h = true ->
  oph (orun stp h) = Idle ->
  trk (orun stp h) = [] /\
  (forall r, In r (regs (orun stp h)) -> k_cb (r_key r) <> cb) /\
  (forall c, In c (cnt (orun stp h)) -> k_cb (c_key c) <> cb).
Proof.
  intros Hh P.
  pose proof (PhInv_run stp h) as [H1 _]. specialize (H1 P).
  assert (AT : AllTracked cb (orun stp h)) by (apply AllTracked_run_from; [intros r []|exact Hh]).
  assert (N : NoCb cb (orun stp h)).
  { intros r Hr E. specialize (AT r Hr E). rewrite H1 in AT. exact AT. }
  split; [exact H1|]. split; [exact N|].
  intros c Hc E. destruct (INV_run stp h c Hc) as [r [Hr Ek]]. apply (N r Hr). rewrite Ek. exact E.
Qed.

Lemma never_fire_after_stop_l stp cb h1 h2 :
  forallb (fun o => negb (is_untracked_reg_of cb o)) h1 = true ->
  oph (orun stp h1) = Idle ->
  forallb (fun o => negb (is_reg_of cb o)) h2 = true ->
  ~ In cb (oinvoked stp (orun stp h1) h2).
Proof.
  intros Hh P H2. apply oinvoked_none; [apply INV_run| |exact H2].
  destruct (idle_mode_owns_no_switch_entry_l stp cb h1 Hh P) as [_ [N _]]. exact N.
Qed.

Lemma counting_belongs_to_registered_l stp h c :
  In c (cnt (orun stp h)) -> exists r, In r (regs (orun stp h)) /\ r_key r = c_key c.
Proof. apply INV_run. Qed.

Lemma unregistered_never_invoked_l stp cb s h :
  INV s -> (forall r, In r (regs s) -> k_cb (r_key r) <> cb) ->
  forallb (fun o => negb (is_reg_of cb o)) h = true -> ~ In cb (oinvoked stp s h).
Proof. intros. apply oinvoked_none; assumption. Qed.

Lemma stopped_mode_has_no_player_state_l stp h :
  is_act (oph (orun stp h)) = false ->
  relay (orun stp h) = [] /\ loaded (orun stp h) = phase_eqb (oph (orun stp h)) Starting.
Proof.
  intros A. pose proof (PhInv_run stp h) as [_ [H2 H3]]. split; [apply H2, A|].
  rewrite H3. destruct (oph (orun stp h)); try reflexivity; discriminate.
Qed.

Lemma oplayed_from stp : forall h s e p, In (e, p) (oplayed stp s h) -> is_act p = true.
Proof.
  induction h as [|o tl IH]; intros s e p Hin; cbn [oplayed] in Hin; [destruct Hin|].
  destruct (ostep stp s o) as [s1 r] eqn:E. apply in_app_or in Hin as [Hin|Hin]; [|eapply IH; exact Hin].
  apply in_map_iff in Hin as [x [Hx Hin]]. inversion Hx; subst. clear Hx.
  destruct o as [| | | | |ser k tr t|k|sw st t|sw t|e' live|e'|]; cbn [ostep] in E; revert E.
  - destruct (oph s); intros E; inversion E; subst; cbn in Hin; destruct Hin.
  - destruct (oph s); intros E; inversion E; subst; cbn in Hin; destruct Hin.
  - destruct (oph s); intros E; inversion E; subst; cbn in Hin; destruct Hin.
  - destruct (oph s); intros E; inversion E; subst; cbn in Hin; destruct Hin.
  - destruct (oph s); intros E; inversion E; subst; cbn in Hin; destruct Hin.
  - destruct (tr && phase_eqb (oph s) Idle); intros E; inversion E; subst; cbn in Hin; destruct Hin.
  - intros E; inversion E; subst; cbn in Hin; destruct Hin.
  - destruct (sst s sw =? st); [intros E; inversion E; subst; cbn in Hin; destruct Hin|].
    match goal with |- context [change_loop stp ?sn t ?s1] => destruct (change_loop stp sn t s1) end.
    intros E; inversion E; subst; cbn in Hin; destruct Hin.
  - destruct (fire_loop stp (filter (due sw t) (cnt s)) s). intros E; inversion E; subst; cbn in Hin; destruct Hin.
  - destruct (live && negb (loaded s)); [intros E; inversion E; subst; cbn in Hin; destruct Hin|].
    destruct (is_act (oph s)) eqn:A; [intros _; reflexivity|intros E; inversion E; subst; cbn in Hin; destruct Hin].
  - intros E; inversion E; subst; cbn in Hin; destruct Hin.
  - intros E; inversion E; subst; cbn in Hin; destruct Hin.
Qed.

Lemma stale_call_noop_l stp s e : is_act (oph s) = false -> ostep stp s (OCall e false) = (s, (0, [], [])).
Proof. intros A. cbn [ostep andb]. rewrite A. reflexivity. Qed.

Lemma stop_keeps_foreign_l stp s o :
  (o = OStop \/ o = OCbStopped \/ o = OStart \/ o = OQStopped \/ o = OQStarted) ->
  (forall r, In r (regs s) -> key_in (r_key r) (trk s) = false -> In r (regs (fst (ostep stp s o)))) /\
  (forall c, In c (cnt s) -> key_in (c_key c) (trk s) = false -> In c (cnt (fst (ostep stp s o)))).
Proof.
  intros [->|[->|[->|[->| ->]]]]; cbn [ostep]; destruct (oph s); cbn [fst]; split; intros x Hx Hk; try exact Hx;
    unfold stop_eff, ocleanup, set_ph, clear_sw, set_sw, rm_regs, rm_cnt; cbn; apply filter_In; (split; [exact Hx|rewrite Hk; reflexivity]).
Qed.

(* ---- examples ------------------------------------------------------------------------------------------------------------- *)
(* callback 1 (timed, 2 s, registered through the mode while switch 7 is already held) and foreign callback 100 with the same
   parameters; the mode stops 0.5 s later; at the deadline only the foreign callback is invoked *)
Definition ex_own_hist : list oop :=
  [OChange 7 1 1000000; OStart; OQStarted; OReg 1 (mkK 1 7 1 2000) true 1500000; OReg 2 (mkK 100 7 1 2000) false 1500000;
   OCall 2 true; OStop; OQStopped; OCbStopped; OCall 0 false].

Lemma ex_own :
  oph (orun (fun _ => false) ex_own_hist) = Idle /\
  map c_dl (cnt (orun (fun _ => false) (firstn 5 ex_own_hist))) = [3000000; 3000000] /\
  map (fun c => k_cb (c_key c)) (cnt (orun (fun _ => false) ex_own_hist)) = [100] /\
  oinvoked (fun _ => false) (orun (fun _ => false) ex_own_hist) [OFire 7 3000000] = [100] /\
  relay (orun (fun _ => false) (firstn 6 ex_own_hist)) = [2] /\
  oplayed (fun _ => false) oinit ex_own_hist = [(2, Active)].
Proof. vm_compute. repeat split. Qed.

(* a stopper: callback 1 (untimed) stops the mode when the switch closes; callback 2 of the same mode, registered after it for
   the same switch, is then skipped (cancelled), the foreign callback 100 is still called *)
Lemma ex_own_stopper :
  oinvoked (fun cb => cb =? 1) oinit
    [OStart; OQStarted; OReg 1 (mkK 1 7 1 0) true 0; OReg 2 (mkK 2 7 1 0) true 0; OReg 3 (mkK 100 7 1 0) false 0;
     OChange 7 1 1000000] = [1; 100].
Proof. vm_compute. reflexivity. Qed.
