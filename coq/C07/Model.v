(* C07/Model.v — executable model of the mode lifecycle of mpf/core/mode.py
   (start / _started / _mode_started_callback / stop / _stopped / _mode_stopped_callback),
   of ModeController.set_mode_state (mpf/core/mode_controller.py) and of the bulk removal of
   everything a mode registered (event handlers, config-player handlers, switch handlers, the
   mode's DelayManager, mode devices' handlers / delays).

   The model is a labelled transition system.  The event bus is NOT modelled (C01/C02 own it):
   the completion of the two queue events and of the two callbacks are operations of the
   history, so every theorem quantifies over ALL interleavings the bus could produce (and many
   it cannot).  The bus contract that is used is built into the guards: a completion is
   delivered at most once per post (QStarted only while the starting queue is outstanding ...).

   [fx] selects the code that is modelled:  true = the tree with the fix patches
   fixes/C07-*.patch applied (what ./check C07 ties to the code), false = the code as found
   (used for the _refuted theorems, whose witnesses were replayed on the unpatched tree).
   Definitions only; proofs are in Lemmas.v. *)
From Common Require Import Prelude.
Open Scope Z_scope.

(* ---- lifecycle state of one mode ----------------------------------------------------------
   Idle      _active=F _starting=F stopping=F, nothing pending
   Starting  _starting=T, mode_<m>_starting queue event outstanding (callback _started)
   Active    _active=T stopping=F
   Stopping  _active=T stopping=T, mode_<m>_stopping queue event outstanding (callback _stopped)
   Winding   _active=F, mode_<m>_stopped posted, its callback _mode_stopped_callback outstanding *)
Inductive phase := Idle | Starting | Active | Stopping | Winding.

Definition phase_eqb (a b : phase) : bool :=
  match a, b with
  | Idle, Idle | Starting, Starting | Active, Active | Stopping, Stopping | Winding, Winding => true
  | _, _ => false
  end.

Definition phase_code (p : phase) : Z :=
  match p with Idle => 0 | Starting => 1 | Active => 2 | Stopping => 3 | Winding => 4 end.

(* _active flag: the mode is in ModeController.active_modes *)
Definition is_act (p : phase) : bool := match p with Active | Stopping => true | _ => false end.

(* ---- registry entries ----------------------------------------------------------------------
   One global list stands for the three machine registries (EventManager.registered_handlers,
   SwitchController.registered_switches, the pending delays / periodic tasks of every
   DelayManager reachable from a mode).  An entry is (class, owner mode, key); the class says
   which book-keeping structure of the owner tracks it and therefore which bulk removal covers it:
     0 A  Mode.event_handlers (add_mode_event_handler)      removed in _mode_stopped_callback
     1 P  ConfigPlayer.mode_event_keys[mode] (stop_methods) removed in _stopped
     2 S  Mode.switch_handlers                               removed in stop()  [+ callback, fixed]
     3 D  Mode.delay (the mode's DelayManager)               cleared in stop()  [+ callback, fixed]
     4 V  timer device: control-event handlers, tick task, 'pause' delay
                                                             removed in device_removed_from_mode
     5 L  logic block's own DelayManager ('timeout', 'ignore_hits_within_window')
                                                             never removed as found; cleared in
                                                             device_removed_from_mode when fixed *)
Record entry := mkE { e_cls : Z; e_own : Z; e_key : Z }.

Definition entry_eqb (a b : entry) : bool :=
  (e_cls a =? e_cls b) && (e_own a =? e_own b) && (e_key a =? e_key b).

Definition cls_ok (c : Z) : bool := (0 <=? c) && (c <=? 5).

(* classes removed by each bulk removal of mode m *)
Definition rm_stop (c : Z) : bool := (c =? 2) || (c =? 3).
Definition rm_stopped (c : Z) : bool := (c =? 1).
Definition rm_callback (fx : bool) (c : Z) : bool :=
  (c =? 0) || (c =? 4) || (if fx then (c =? 2) || (c =? 3) || (c =? 5) else false).

Definition remove_owned (sel : Z -> bool) (m : Z) (r : list entry) : list entry :=
  filter (fun e => negb ((e_own e =? m) && sel (e_cls e))) r.

Definition owned (m : Z) (r : list entry) : list entry := filter (fun e => e_own e =? m) r.

(* ---- state -------------------------------------------------------------------------------- *)
Record state := mkS {
  ph   : Z -> phase;       (* per mode *)
  pri  : Z -> Z;           (* Mode.priority (0 while not started) *)
  act  : list Z;           (* ModeController.active_modes, as mode ids; id order = name order *)
  reg  : list entry;
  hk   : Z -> bool         (* Mode._start_hook_pending (fixes/C07-stale-started-callback.patch): _started ran and the
                              mode_start() hook of that start has not run yet; cleared by _stopped and by the hook run *)
}.

Definition upd {A} (f : Z -> A) (m : Z) (v : A) : Z -> A := fun x => if x =? m then v else f x.

(* sort key of set_mode_state: (priority, name) descending; names are distinct so the order is total *)
Definition before (p : Z -> Z) (a b : Z) : bool :=
  (p b <? p a) || ((p a =? p b) && (b <=? a)).

Fixpoint insert_desc (p : Z -> Z) (x : Z) (l : list Z) : list Z :=
  match l with
  | [] => [x]
  | y :: t => if before p x y then x :: l else y :: insert_desc p x t
  end.

Definition sort_desc (p : Z -> Z) (l : list Z) : list Z := fold_right (insert_desc p) [] l.

Definition remove_z (m : Z) (l : list Z) : list Z := filter (fun x => negb (x =? m)) l.

(* ---- operations ---------------------------------------------------------------------------- *)
Inductive op :=
| Start (m : Z) (p : Z)        (* Mode.start(); p = mode_priority argument or the configured priority *)
| Stop (m : Z)                 (* Mode.stop() *)
| QStarted (m : Z)             (* the mode_<m>_starting queue event completed: Mode._started *)
| CbStarted (m : Z)            (* callback of mode_<m>_started: Mode._mode_started_callback *)
| QStopped (m : Z)             (* the mode_<m>_stopping queue event completed: Mode._stopped *)
| CbStopped (m : Z)            (* callback of mode_<m>_stopped: Mode._mode_stopped_callback *)
| Add (c m k : Z)              (* code running on behalf of mode m registers an entry *)
| Del (c m k : Z).             (* ... or removes one itself (delay fired, timer paused, ...) *)

(* lifecycle events, in the order of one cycle *)
Definition ev_will_start := 0.
Definition ev_starting := 1.
Definition ev_started := 2.
Definition ev_will_stop := 3.
Definition ev_stopping := 4.
Definition ev_stopped := 5.

(* result of one operation: status code, posted lifecycle events (mode, kind) *)
Record result := mkR { r_status : Z; r_events : list (Z * Z) }.

(* status codes: 1 = accepted / ran / True, 0 = refused / skipped / False,
   2 = the operation is not possible in this state (bus contract broken, or code of an idle mode
       registered something): the state is left unchanged *)
Definition cleanup (fx : bool) (m : Z) (s : state) : state :=
  mkS (upd (ph s) m Idle) (pri s) (act s) (remove_owned (rm_callback fx) m (reg s)) (hk s).

Definition step (fx : bool) (s : state) (o : op) : state * result :=
  match o with
  | Start m p =>
      match ph s m with
      | Idle =>
          (mkS (upd (ph s) m Starting) (upd (pri s) m p) (act s) (reg s) (hk s),
           mkR 1 [(m, ev_will_start); (m, ev_starting)])
      | Winding =>
          (* _active and _starting are both False: the start is accepted although the callback of
             mode_<m>_stopped is still outstanding.  Fixed code finishes the old stop first. *)
          let s1 := if fx then cleanup fx m s else s in
          (mkS (upd (ph s1) m Starting) (upd (pri s1) m p) (act s1) (reg s1) (hk s1),
           mkR 1 [(m, ev_will_start); (m, ev_starting)])
      | _ => (s, mkR 0 [])
      end
  | Stop m =>
      match ph s m with
      | Active =>
          (mkS (upd (ph s) m Stopping) (pri s) (act s) (remove_owned rm_stop m (reg s)) (hk s),
           mkR 1 [(m, ev_will_stop); (m, ev_stopping)])
      | Stopping => (s, mkR 1 [])          (* "do not stop twice": True, nothing posted *)
      | _ => (s, mkR 0 [])                 (* not _active: False (also while Starting) *)
      end
  | QStarted m =>
      match ph s m with
      | Starting =>
          (mkS (upd (ph s) m Active) (pri s) (sort_desc (pri s) (act s ++ [m])) (reg s) (upd (hk s) m true),
           mkR 1 [(m, ev_started)])
      | _ => (s, mkR 2 [])
      end
  | CbStarted m =>
      (* runs the mode_start() hook; what the hook registers shows up as Add operations.
         Fixed code (fixes/C07-stale-started-callback.patch) runs the hook iff it is still due for the current start:
         _started sets the flag, the hook run and _stopped clear it, so the callback of an EARLIER start (the mode was
         stopped and started again before it was delivered) and a callback that finds the mode stopped do nothing.
         Code as found: the hook runs whenever the callback is delivered. *)
      if fx then
        if hk s m then (mkS (ph s) (pri s) (act s) (reg s) (upd (hk s) m false), mkR 1 [])
        else (s, mkR 0 [])
      else (s, mkR 1 [])
  | QStopped m =>
      match ph s m with
      | Stopping =>
          let p' := upd (pri s) m 0 in
          (mkS (upd (ph s) m Winding) p' (sort_desc p' (remove_z m (act s)))
               (remove_owned rm_stopped m (reg s)) (upd (hk s) m false),
           mkR 1 [(m, ev_stopped)])
      | _ => (s, mkR 2 [])
      end
  | CbStopped m =>
      match ph s m with
      | Winding => (cleanup fx m s, mkR 1 [])
      | _ => if fx then (s, mkR 0 [])      (* fixed: a callback that was overtaken by a restart does nothing *)
             else (mkS (ph s) (pri s) (act s) (remove_owned (rm_callback fx) m (reg s)) (hk s), mkR 1 [])
      end
  | Add c m k =>
      (* fixed code: code of a mode runs only while the mode is not idle; config players register
         only inside start() *)
      if cls_ok c && (if fx then negb (phase_eqb (ph s m) Idle) &&
                                  (negb (c =? 1) || phase_eqb (ph s m) Starting) else true)
      then (mkS (ph s) (pri s) (act s) (reg s ++ [mkE c m k]) (hk s), mkR 1 [])
      else (s, mkR 2 [])
  | Del c m k =>
      (mkS (ph s) (pri s) (act s) (filter (fun e => negb (entry_eqb e (mkE c m k))) (reg s)) (hk s), mkR 1 [])
  end.

Definition init_state : state := mkS (fun _ => Idle) (fun _ => 0) [] [] (fun _ => false).

Fixpoint run_from (fx : bool) (s : state) (h : list op) : state * list (Z * Z) :=
  match h with
  | [] => (s, [])
  | o :: t => let '(s1, r) := step fx s o in
              let '(s2, evs) := run_from fx s1 t in (s2, r_events r ++ evs)
  end.

Definition run_state (fx : bool) (h : list op) : state := fst (run_from fx init_state h).
Definition run_events (fx : bool) (h : list op) : list (Z * Z) := snd (run_from fx init_state h).

(* the lifecycle events of one mode, in posting order *)
Definition proj (m : Z) (evs : list (Z * Z)) : list Z :=
  map snd (filter (fun e => fst e =? m) evs).

(* the k-th event of a mode is event number (k mod 6) of the cycle
   will_start starting started will_stop stopping stopped *)
Fixpoint cyclic_from (pos : Z) (l : list Z) : bool :=
  match l with
  | [] => true
  | e :: t => (e =? pos) && cyclic_from ((pos + 1) mod 6) t
  end.

(* specification of active_modes: sorted, duplicate free, and exactly the modes with _active *)
Fixpoint sorted_desc (p : Z -> Z) (l : list Z) : bool :=
  match l with
  | [] => true
  | x :: t => forallb (fun y => before p x y) t && sorted_desc p t
  end.

(* ---- what the correspondence run compares ---------------------------------------------------
   per operation: status, posted events, active list, phase of the operation's mode, the entries
   the mode owns (as class*2^20+key, sorted) ; at the end the whole registry *)
Definition op_mode (o : op) : Z :=
  match o with
  | Start m _ | Stop m | QStarted m | CbStarted m | QStopped m | CbStopped m => m
  | Add _ m _ | Del _ m _ => m
  end.

Fixpoint insert_z (x : Z) (l : list Z) : list Z :=
  match l with
  | [] => [x]
  | y :: t => if x <=? y then x :: l else y :: insert_z x t
  end.
Definition sort_z (l : list Z) : list Z := fold_right insert_z [] l.

Definition enc_entry (e : entry) : Z := (e_cls e * 64 + e_own e) * 1048576 + e_key e.

Record obs := mkO { o_status : Z; o_events : list Z; o_act : list Z; o_phase : Z; o_owned : list Z }.

Definition observe (s : state) (o : op) (r : result) : obs :=
  mkO (r_status r) (map (fun e => fst e * 8 + snd e) (r_events r)) (act s)
      (phase_code (ph s (op_mode o))) (sort_z (map enc_entry (owned (op_mode o) (reg s)))).

Fixpoint run_obs (fx : bool) (s : state) (h : list op) : list obs * list Z :=
  match h with
  | [] => ([], sort_z (map enc_entry (reg s)))
  | o :: t => let '(s1, r) := step fx s o in
              let '(os, fin) := run_obs fx s1 t in (observe s1 o r :: os, fin)
  end.

Definition obs_eqb (a b : obs) : bool :=
  (o_status a =? o_status b) && zs_eqb (o_events a) (o_events b) && zs_eqb (o_act a) (o_act b)
  && (o_phase a =? o_phase b) && zs_eqb (o_owned a) (o_owned b).

(* input: (prefix that rebuilds the state at which recording starts, observed history) *)
Definition life_run (i : list op * list op) : list obs * list Z :=
  run_obs true (fst (run_from true init_state (fst i))) (snd i).
Definition life_out_eqb (a b : list obs * list Z) : bool :=
  list_eqb obs_eqb (fst a) (fst b) && zs_eqb (snd a) (snd b).
