(* C07/Lemmas.v — proofs about the lifecycle model (Model.v). *)
From Common Require Import Prelude.
From C07 Require Import Model.
Open Scope Z_scope.

(* ------------------------------------------------------------------------------------------- *)
(* small facts *)
Lemma upd_same {A} (f : Z -> A) m v : upd f m v m = v.
Proof. unfold upd. rewrite Z.eqb_refl. reflexivity. Qed.

Lemma upd_other {A} (f : Z -> A) m v x : x <> m -> upd f m v x = f x.
Proof. intro H. unfold upd. destruct (x =? m) eqn:E; [apply Z.eqb_eq in E; contradiction | reflexivity]. Qed.

Lemma phase_eqb_eq a b : phase_eqb a b = true <-> a = b.
Proof. destruct a, b; cbn; split; intro H; try reflexivity; try discriminate. Qed.

(* ------------------------------------------------------------------------------------------- *)
(* 1. ordering of the lifecycle events of every mode                                            *)

Definition pos_of (p : phase) : Z :=
  match p with Idle | Winding => 0 | Starting => 2 | Active => 3 | Stopping => 5 end.

Definition lenmod (l : list Z) : Z := Z.of_nat (length l) mod 6.

Lemma cyclic_from_app : forall l1 l2 p,
  0 <= p < 6 ->
  cyclic_from p (l1 ++ l2) = cyclic_from p l1 && cyclic_from ((p + Z.of_nat (length l1)) mod 6) l2.
Proof.
  induction l1 as [|e t IH]; intros l2 p Hp.
  - cbn [app length cyclic_from Z.of_nat]. rewrite Z.add_0_r, Z.mod_small by lia. reflexivity.
  - cbn [app cyclic_from]. rewrite IH by (apply Z.mod_pos_bound; lia).
    rewrite andb_assoc. f_equal. f_equal.
    rewrite Zplus_mod_idemp_l. f_equal. cbn [length]. lia.
Qed.

Lemma proj_app m a b : proj m (a ++ b) = proj m a ++ proj m b.
Proof. unfold proj. rewrite filter_app, map_app. reflexivity. Qed.

Lemma proj_nil m : proj m [] = [].
Proof. reflexivity. Qed.

Lemma proj_same1 m a : proj m [(m, a)] = [a].
Proof. unfold proj. cbn. rewrite Z.eqb_refl. reflexivity. Qed.

Lemma proj_same2 m a b : proj m [(m, a); (m, b)] = [a; b].
Proof. unfold proj. cbn. rewrite Z.eqb_refl. reflexivity. Qed.

Lemma proj_other1 m x a : x <> m -> proj x [(m, a)] = [].
Proof. intro H. unfold proj. cbn. destruct (m =? x) eqn:E; [apply Z.eqb_eq in E; congruence | reflexivity]. Qed.

Lemma proj_other2 m x a b : x <> m -> proj x [(m, a); (m, b)] = [].
Proof. intro H. unfold proj. cbn. destruct (m =? x) eqn:E; [apply Z.eqb_eq in E; congruence | reflexivity]. Qed.

(* the invariant: the events of mode m so far are a prefix of the infinite cycle, and the phase of m
   says where in the cycle it is *)
Definition ord_inv (s : state) (tr : list (Z * Z)) : Prop :=
  forall m, cyclic_from 0 (proj m tr) = true /\ lenmod (proj m tr) = pos_of (ph s m).

Lemma lenmod_app l k : lenmod (l ++ k) = (lenmod l + Z.of_nat (length k)) mod 6.
Proof. unfold lenmod. rewrite app_length, Nat2Z.inj_add, Zplus_mod_idemp_l. reflexivity. Qed.

(* appending events [k] to mode m when it is at position p *)
Lemma ord_extend s tr m newph k p q :
  ord_inv s tr ->
  pos_of (ph s m) = p -> 0 <= p < 6 ->
  cyclic_from p k = true ->
  (p + Z.of_nat (length k)) mod 6 = q ->
  pos_of newph = q ->
  forall pr ac rg evs,
    (forall x, x <> m -> proj x evs = []) -> proj m evs = k ->
    forall hk', ord_inv (mkS (upd (ph s) m newph) pr ac rg hk') (tr ++ evs).
Proof.
  intros Hinv Hp Hr Hk Hq Hn pr ac rg evs Hoth Hsame hk' x.
  destruct (Hinv x) as [Hc Hl]. rewrite proj_app. cbn [ph].
  destruct (Z.eq_dec x m) as [->|Hne].
  - rewrite Hsame, upd_same. split.
    + rewrite cyclic_from_app by lia. rewrite Hc. cbn [andb].
      rewrite Z.add_0_l. fold (lenmod (proj m tr)). rewrite Hl, Hp. exact Hk.
    + rewrite lenmod_app, Hl, Hp, Hq. symmetry. exact Hn.
  - rewrite (Hoth x Hne), app_nil_r, upd_other by exact Hne. split; assumption.
Qed.

Lemma ord_same s tr pr ac rg hk' :
  ord_inv s tr -> ord_inv (mkS (ph s) pr ac rg hk') (tr ++ []).
Proof. intros H x. rewrite app_nil_r. exact (H x). Qed.

Lemma ord_keep s tr : ord_inv s tr -> ord_inv s (tr ++ []).
Proof. intros H x. rewrite app_nil_r. exact (H x). Qed.

Lemma ord_step fx s tr o :
  ord_inv s tr -> ord_inv (fst (step fx s o)) (tr ++ r_events (snd (step fx s o))).
Proof.
  intro H. destruct o as [m p|m|m|m|m|m|c m k|c m k]; unfold step.
  - (* Start *)
    destruct (ph s m) eqn:E; cbn [fst snd r_events]; try (apply ord_keep; exact H).
    + eapply (ord_extend s tr m Starting [0;1] 0 2); try reflexivity; try lia; try exact H.
      * rewrite E; reflexivity.
      * intros x Hx. apply proj_other2; exact Hx.
      * apply proj_same2.
    + (* from Winding, possibly after the cleanup *)
      assert (Hc : ord_inv (if fx then cleanup fx m s else s) tr).
      { destruct fx; [|exact H]. intro x. destruct (H x) as [A B]. split; [exact A|].
        unfold cleanup; cbn [ph]. destruct (Z.eq_dec x m) as [->|Hne].
        - rewrite upd_same. rewrite B, E. reflexivity.
        - rewrite upd_other by exact Hne. exact B. }
      assert (Hp : pos_of (ph (if fx then cleanup fx m s else s) m) = 0).
      { destruct fx; [unfold cleanup; cbn [ph]; rewrite upd_same; reflexivity | rewrite E; reflexivity]. }
      eapply (ord_extend _ tr m Starting [0;1] 0 2); try reflexivity; try lia; try exact Hc; try exact Hp.
      * intros x Hx. apply proj_other2; exact Hx.
      * apply proj_same2.
  - (* Stop *)
    destruct (ph s m) eqn:E; cbn [fst snd r_events]; try (apply ord_keep; exact H).
    eapply (ord_extend s tr m Stopping [3;4] 3 5); try reflexivity; try lia; try exact H.
    + rewrite E; reflexivity.
    + intros x Hx. apply proj_other2; exact Hx.
    + apply proj_same2.
  - (* QStarted *)
    destruct (ph s m) eqn:E; cbn [fst snd r_events]; try (apply ord_keep; exact H).
    eapply (ord_extend s tr m Active [2] 2 3); try reflexivity; try lia; try exact H.
    + rewrite E; reflexivity.
    + intros x Hx. apply proj_other1; exact Hx.
    + apply proj_same1.
  - (* CbStarted *)
    destruct fx; [destruct (hk s m)|]; cbn [fst snd r_events]; apply ord_keep; exact H.
  - (* QStopped *)
    destruct (ph s m) eqn:E; cbn [fst snd r_events]; try (apply ord_keep; exact H).
    eapply (ord_extend s tr m Winding [5] 5 0); try reflexivity; try lia; try exact H.
    + rewrite E; reflexivity.
    + intros x Hx. apply proj_other1; exact Hx.
    + apply proj_same1.
  - (* CbStopped *)
    destruct (ph s m) eqn:E; try (destruct fx; cbn [fst snd r_events]; [apply ord_keep; exact H | apply ord_same; exact H]).
    cbn [fst snd r_events]. intro x. rewrite app_nil_r. destruct (H x) as [A B]. split; [exact A|].
    unfold cleanup; cbn [ph]. destruct (Z.eq_dec x m) as [->|Hne].
    + rewrite upd_same, B, E. reflexivity.
    + rewrite upd_other by exact Hne. exact B.
  - (* Add *)
    match goal with |- context [if ?c then _ else _] => destruct c end; cbn [fst snd r_events];
      [apply ord_same | apply ord_keep]; exact H.
  - (* Del *)
    cbn [fst snd r_events]. apply ord_same; exact H.
Qed.

Lemma run_from_step fx s o t :
  run_from fx s (o :: t) =
  (fst (run_from fx (fst (step fx s o)) t), r_events (snd (step fx s o)) ++ snd (run_from fx (fst (step fx s o)) t)).
Proof.
  cbn [run_from]. destruct (step fx s o) as [s1 r]. cbn [fst snd].
  destruct (run_from fx s1 t) as [s2 evs]. reflexivity.
Qed.

Lemma ord_run fx : forall h s tr,
  ord_inv s tr -> ord_inv (fst (run_from fx s h)) (tr ++ snd (run_from fx s h)).
Proof.
  induction h as [|o t IH]; intros s tr H.
  - cbn. rewrite app_nil_r. exact H.
  - rewrite run_from_step. cbn [fst snd]. rewrite app_assoc. apply IH. apply ord_step. exact H.
Qed.

Lemma ord_init : ord_inv init_state [].
Proof. intro m. split; reflexivity. Qed.

Lemma mode_transitions_ordered_l : forall fx h m,
  cyclic_from 0 (proj m (run_events fx h)) = true /\
  lenmod (proj m (run_events fx h)) = pos_of (ph (run_state fx h) m).
Proof.
  intros fx h m. pose proof (ord_run fx h init_state [] ord_init m) as H. exact H.
Qed.

(* ------------------------------------------------------------------------------------------- *)
(* 2. the active list                                                                            *)

Lemma before_total p x y : before p x y = false -> before p y x = true.
Proof.
  unfold before. intro H. apply orb_false_iff in H as [H1 H2].
  apply Z.ltb_ge in H1.
  destruct (p x <? p y) eqn:E; [reflexivity|]. apply Z.ltb_ge in E. cbn [orb].
  assert (Hxy : p x = p y) by lia. rewrite Hxy, Z.eqb_refl in *. cbn [andb] in *.
  apply Z.leb_gt in H2. apply Z.leb_le. lia.
Qed.

Lemma before_trans p x y z : before p x y = true -> before p y z = true -> before p x z = true.
Proof.
  unfold before. intros H1 H2.
  apply orb_true_iff in H1. apply orb_true_iff in H2. apply orb_true_iff.
  destruct H1 as [H1|H1]; destruct H2 as [H2|H2].
  - apply Z.ltb_lt in H1. apply Z.ltb_lt in H2. left. apply Z.ltb_lt. lia.
  - apply Z.ltb_lt in H1. apply andb_true_iff in H2 as [H2 _]. apply Z.eqb_eq in H2. left. apply Z.ltb_lt. lia.
  - apply Z.ltb_lt in H2. apply andb_true_iff in H1 as [H1 _]. apply Z.eqb_eq in H1. left. apply Z.ltb_lt. lia.
  - apply andb_true_iff in H1 as [H1 H1']. apply andb_true_iff in H2 as [H2 H2'].
    apply Z.eqb_eq in H1. apply Z.eqb_eq in H2. apply Z.leb_le in H1'. apply Z.leb_le in H2'.
    right. apply andb_true_iff. split; [apply Z.eqb_eq; lia | apply Z.leb_le; lia].
Qed.

Lemma insert_in p a : forall l x, In x (insert_desc p a l) <-> x = a \/ In x l.
Proof.
  induction l as [|y t IH]; intro x; cbn [insert_desc].
  - cbn. intuition.
  - destruct (before p a y); cbn [In].
    + intuition.
    + rewrite IH. intuition.
Qed.

Lemma sort_in p : forall l x, In x (sort_desc p l) <-> In x l.
Proof.
  induction l as [|a t IH]; intro x; cbn [sort_desc fold_right].
  - reflexivity.
  - fold (sort_desc p t). rewrite insert_in, IH. cbn [In]. intuition.
Qed.

Lemma insert_nodup p a : forall l, NoDup l -> ~ In a l -> NoDup (insert_desc p a l).
Proof.
  induction l as [|y t IH]; intros Hn Hi; cbn [insert_desc].
  - constructor; [intros []|constructor].
  - destruct (before p a y).
    + constructor; assumption.
    + inversion Hn; subst. constructor.
      * rewrite insert_in. intros [->|H]; [apply Hi; left; reflexivity | contradiction].
      * apply IH; [assumption | intro H; apply Hi; right; exact H].
Qed.

Lemma sort_nodup p : forall l, NoDup l -> NoDup (sort_desc p l).
Proof.
  induction l as [|a t IH]; intro Hn; cbn [sort_desc fold_right].
  - constructor.
  - fold (sort_desc p t). inversion Hn; subst. apply insert_nodup; [apply IH; assumption|].
    rewrite sort_in. assumption.
Qed.

Lemma insert_sorted p a : forall l, sorted_desc p l = true -> sorted_desc p (insert_desc p a l) = true.
Proof.
  induction l as [|y t IH]; intro Hs; cbn [insert_desc].
  - reflexivity.
  - cbn [sorted_desc] in Hs. apply andb_true_iff in Hs as [Hy Ht].
    destruct (before p a y) eqn:E.
    + cbn [sorted_desc]. apply andb_true_iff. split.
      * cbn [forallb]. rewrite E. cbn [andb]. apply forallb_forall. intros z Hz.
        rewrite forallb_forall in Hy. eapply before_trans; [exact E | apply Hy; exact Hz].
      * cbn [sorted_desc]. rewrite Hy, Ht. reflexivity.
    + cbn [sorted_desc]. apply andb_true_iff. split.
      * apply forallb_forall. intros z Hz. apply insert_in in Hz as [->|Hz].
        -- apply before_total. exact E.
        -- rewrite forallb_forall in Hy. apply Hy. exact Hz.
      * apply IH. exact Ht.
Qed.

Lemma sort_sorted p : forall l, sorted_desc p (sort_desc p l) = true.
Proof.
  induction l as [|a t IH]; cbn [sort_desc fold_right]; [reflexivity|].
  fold (sort_desc p t). apply insert_sorted. exact IH.
Qed.

Lemma forallb_ext_in' {A} (f g : A -> bool) : forall l, (forall x, In x l -> f x = g x) -> forallb f l = forallb g l.
Proof.
  induction l as [|a t IH]; intro H; cbn [forallb]; [reflexivity|].
  rewrite (H a) by (left; reflexivity). rewrite IH by (intros x Hx; apply H; right; exact Hx). reflexivity.
Qed.

Lemma sorted_ext p q : forall l, (forall x, In x l -> p x = q x) -> sorted_desc p l = sorted_desc q l.
Proof.
  induction l as [|a t IH]; intro H; cbn [sorted_desc]; [reflexivity|].
  rewrite IH by (intros x Hx; apply H; right; exact Hx). f_equal.
  apply forallb_ext_in'. intros y Hy. unfold before.
  rewrite (H a) by (left; reflexivity). rewrite (H y) by (right; exact Hy). reflexivity.
Qed.

Lemma remove_z_in m l x : In x (remove_z m l) <-> In x l /\ x <> m.
Proof.
  unfold remove_z. rewrite filter_In. split; intros [A B]; split; try exact A.
  - intro E. subst. rewrite Z.eqb_refl in B. discriminate.
  - apply negb_true_iff. apply Z.eqb_neq. exact B.
Qed.

Lemma nodup_filter {A} (f : A -> bool) : forall l, NoDup l -> NoDup (filter f l).
Proof.
  induction l as [|a t IH]; intro H; cbn [filter]; [constructor|].
  inversion H; subst. destruct (f a).
  - constructor; [rewrite filter_In; intros [X _]; contradiction | apply IH; assumption].
  - apply IH; assumption.
Qed.

Lemma nodup_app1 (l : list Z) m : NoDup l -> ~ In m l -> NoDup (l ++ [m]).
Proof.
  induction l as [|a t IH]; intros Hn Hi; cbn [app].
  - constructor; [intros []|constructor].
  - inversion Hn; subst. constructor.
    + rewrite in_app_iff. intros [H|[H|[]]]; [contradiction | subst; apply Hi; left; reflexivity].
    + apply IH; [assumption | intro H; apply Hi; right; exact H].
Qed.

Definition act_inv (s : state) : Prop :=
  NoDup (act s) /\ sorted_desc (pri s) (act s) = true /\ (forall m, In m (act s) <-> is_act (ph s m) = true).

Lemma act_inv_reg s rg hk' : act_inv s -> act_inv (mkS (ph s) (pri s) (act s) rg hk').
Proof. intro H. exact H. Qed.

(* a phase change of m that keeps _active, with an optional priority change while m is not listed *)
Lemma act_inv_phase s m np pr' rg hk' :
  act_inv s -> is_act np = is_act (ph s m) ->
  (forall x, In x (act s) -> pr' x = pri s x) ->
  act_inv (mkS (upd (ph s) m np) pr' (act s) rg hk').
Proof.
  intros [Hn [Hs Hm]] Hp Hpr. unfold act_inv; cbn [act pri ph]. repeat split.
  - exact Hn.
  - rewrite (sorted_ext pr' (pri s)) by exact Hpr. exact Hs.
  - intro H. destruct (Z.eq_dec m0 m) as [->|Hne].
    + rewrite upd_same, Hp. apply Hm. exact H.
    + rewrite upd_other by exact Hne. apply Hm. exact H.
  - intro H. destruct (Z.eq_dec m0 m) as [->|Hne].
    + rewrite upd_same, Hp in H. apply Hm. exact H.
    + rewrite upd_other in H by exact Hne. apply Hm. exact H.
Qed.

Lemma not_listed s m : act_inv s -> is_act (ph s m) = false -> ~ In m (act s).
Proof. intros [_ [_ Hm]] H Hin. apply Hm in Hin. congruence. Qed.

Lemma upd_pri_unlisted s m p : act_inv s -> is_act (ph s m) = false ->
  forall x, In x (act s) -> upd (pri s) m p x = pri s x.
Proof.
  intros Hi Hf x Hx. apply upd_other. intro E. subst. eapply not_listed; eauto.
Qed.

Lemma act_inv_cleanup fx s m : act_inv s -> ph s m = Winding -> act_inv (cleanup fx m s).
Proof.
  intros H E. unfold cleanup. apply act_inv_phase; [exact H | rewrite E; reflexivity | reflexivity].
Qed.

Lemma act_step fx s o : act_inv s -> act_inv (fst (step fx s o)).
Proof.
  intro H. destruct o as [m p|m|m|m|m|m|c m k|c m k]; unfold step.
  - destruct (ph s m) eqn:E; cbn [fst]; try exact H.
    + apply act_inv_phase; [exact H | rewrite E; reflexivity | apply upd_pri_unlisted; [exact H | rewrite E; reflexivity]].
    + assert (Hc : act_inv (if fx then cleanup fx m s else s)) by (destruct fx; [apply act_inv_cleanup; assumption | exact H]).
      assert (Hf : is_act (ph (if fx then cleanup fx m s else s) m) = false).
      { destruct fx; [unfold cleanup; cbn [ph]; rewrite upd_same; reflexivity | rewrite E; reflexivity]. }
      apply act_inv_phase; [exact Hc | rewrite Hf; reflexivity | apply upd_pri_unlisted; assumption].
  - destruct (ph s m) eqn:E; cbn [fst]; try exact H.
    apply act_inv_phase; [exact H | rewrite E; reflexivity | reflexivity].
  - destruct (ph s m) eqn:E; cbn [fst]; try exact H.
    destruct H as [Hn [Hs Hm]]. unfold act_inv; cbn [act pri ph].
    assert (Hnot : ~ In m (act s)) by (intro X; apply Hm in X; rewrite E in X; discriminate).
    repeat split.
    + apply sort_nodup. apply nodup_app1; assumption.
    + apply sort_sorted.
    + rewrite sort_in, in_app_iff. intros [X|[X|[]]].
      * destruct (Z.eq_dec m0 m) as [->|Hne]; [contradiction|]. rewrite upd_other by exact Hne. apply Hm. exact X.
      * subst. rewrite upd_same. reflexivity.
    + intro X. rewrite sort_in, in_app_iff. destruct (Z.eq_dec m0 m) as [->|Hne].
      * right. left. reflexivity.
      * left. rewrite upd_other in X by exact Hne. apply Hm. exact X.
  - destruct fx; [destruct (hk s m)|]; cbn [fst]; exact H.
  - destruct (ph s m) eqn:E; cbn [fst]; try exact H.
    destruct H as [Hn [Hs Hm]]. unfold act_inv; cbn [act pri ph]. repeat split.
    + apply sort_nodup. apply nodup_filter. exact Hn.
    + apply sort_sorted.
    + rewrite sort_in, remove_z_in. intros [X Hne]. rewrite upd_other by exact Hne. apply Hm. exact X.
    + intro X. rewrite sort_in, remove_z_in. destruct (Z.eq_dec m0 m) as [->|Hne].
      * rewrite upd_same in X. discriminate.
      * rewrite upd_other in X by exact Hne. split; [apply Hm; exact X | exact Hne].
  - destruct (ph s m) eqn:E; try (destruct fx; cbn [fst]; exact H).
    cbn [fst]. apply act_inv_cleanup; assumption.
  - match goal with |- context [if ?c then _ else _] => destruct c end; cbn [fst]; exact H.
  - cbn [fst]. exact H.
Qed.

Lemma act_run fx : forall h s, act_inv s -> act_inv (fst (run_from fx s h)).
Proof.
  induction h as [|o t IH]; intros s H; [exact H|].
  rewrite run_from_step. cbn [fst]. apply IH. apply act_step. exact H.
Qed.

Lemma act_init : act_inv init_state.
Proof. repeat split; cbn; try constructor; intros; try contradiction; discriminate. Qed.

Lemma active_list_sorted_exact_l : forall fx h,
  let s := run_state fx h in
  NoDup (act s) /\ sorted_desc (pri s) (act s) = true /\ (forall m, In m (act s) <-> is_act (ph s m) = true).
Proof. intros fx h. exact (act_run fx h init_state act_init). Qed.

(* a sorted duplicate-free list is determined by its members: active_modes is THE sorted list *)
Lemma before_antisym p x y : before p x y = true -> before p y x = true -> x = y.
Proof.
  unfold before. intros H1 H2. apply orb_true_iff in H1. apply orb_true_iff in H2.
  destruct H1 as [H1|H1]; destruct H2 as [H2|H2].
  - apply Z.ltb_lt in H1. apply Z.ltb_lt in H2. lia.
  - apply Z.ltb_lt in H1. apply andb_true_iff in H2 as [H2 _]. apply Z.eqb_eq in H2. lia.
  - apply Z.ltb_lt in H2. apply andb_true_iff in H1 as [H1 _]. apply Z.eqb_eq in H1. lia.
  - apply andb_true_iff in H1 as [_ H1]. apply andb_true_iff in H2 as [_ H2].
    apply Z.leb_le in H1. apply Z.leb_le in H2. lia.
Qed.

Lemma sorted_unique p : forall l1 l2,
  NoDup l1 -> NoDup l2 -> sorted_desc p l1 = true -> sorted_desc p l2 = true ->
  (forall x, In x l1 <-> In x l2) -> l1 = l2.
Proof.
  induction l1 as [|a t IH]; intros l2 N1 N2 S1 S2 Hm.
  - destruct l2 as [|b u]; [reflexivity|]. exfalso. apply (proj2 (Hm b)). left. reflexivity.
  - destruct l2 as [|b u]; [exfalso; apply (proj1 (Hm a)); left; reflexivity|].
    cbn [sorted_desc] in S1, S2. apply andb_true_iff in S1 as [A1 T1]. apply andb_true_iff in S2 as [A2 T2].
    rewrite forallb_forall in A1, A2. inversion N1; subst. inversion N2; subst.
    assert (a = b).
    { destruct (Z.eq_dec a b) as [E|Hne]; [exact E|].
      assert (Hb : In b t). { destruct (proj2 (Hm b) (or_introl eq_refl)) as [X|X]; [congruence | exact X]. }
      assert (Ha : In a u). { destruct (proj1 (Hm a) (or_introl eq_refl)) as [X|X]; [congruence | exact X]. }
      apply (before_antisym p); [apply A1; exact Hb | apply A2; exact Ha]. }
    subst b. f_equal. apply IH; try assumption.
    intro x. split; intro X.
    + destruct (proj1 (Hm x) (or_intror X)) as [E|Y]; [subst; contradiction | exact Y].
    + destruct (proj2 (Hm x) (or_intror X)) as [E|Y]; [subst; contradiction | exact Y].
Qed.

Lemma active_list_is_the_sorted_list_l : forall fx h l,
  let s := run_state fx h in
  NoDup l -> (forall m, In m l <-> is_act (ph s m) = true) ->
  act s = sort_desc (pri s) l.
Proof.
  intros fx h l s Hn Hl. destruct (active_list_sorted_exact_l fx h) as [N [S M]]. fold s in N, S, M.
  apply (sorted_unique (pri s)); try assumption.
  - apply sort_nodup. exact Hn.
  - apply sort_sorted.
  - intro x. rewrite sort_in, M, Hl. reflexivity.
Qed.

(* ------------------------------------------------------------------------------------------- *)
(* 3. nothing is left behind (fixed code)                                                        *)

Definition entry_inv (s : state) (e : entry) : Prop :=
  cls_ok (e_cls e) = true /\ ph s (e_own e) <> Idle /\ (e_cls e = 1 -> ph s (e_own e) <> Winding).

Definition reg_inv (s : state) : Prop := forall e, In e (reg s) -> entry_inv s e.

Lemma remove_owned_in sel m r e :
  In e (remove_owned sel m r) <-> In e r /\ ~ (e_own e = m /\ sel (e_cls e) = true).
Proof.
  unfold remove_owned. rewrite filter_In. split; intros [A B]; split; try exact A.
  - intros [C D]. subst. rewrite Z.eqb_refl, D in B. discriminate.
  - apply negb_true_iff. apply andb_false_iff.
    destruct (e_own e =? m) eqn:E; [|left; reflexivity]. right.
    apply Z.eqb_eq in E. destruct (sel (e_cls e)) eqn:F; [exfalso; apply B; split; auto | reflexivity].
Qed.

Lemma cls_cases c : cls_ok c = true -> c = 0 \/ c = 1 \/ c = 2 \/ c = 3 \/ c = 4 \/ c = 5.
Proof. unfold cls_ok. intro H. apply andb_true_iff in H as [A B]. apply Z.leb_le in A. apply Z.leb_le in B. lia. Qed.

Lemma rm_callback_all c : cls_ok c = true -> c <> 1 -> rm_callback true c = true.
Proof. intros H N. destruct (cls_cases c H) as [-> | [-> | [-> | [-> | [-> | -> ]]]]]; try reflexivity. congruence. Qed.

(* after the clean-up of a Winding mode nothing of it is left, and the invariant holds with m Idle *)
Lemma reg_inv_cleanup s m : reg_inv s -> ph s m = Winding -> reg_inv (cleanup true m s).
Proof.
  intros H E e He. unfold cleanup in *; cbn [reg ph] in *.
  apply remove_owned_in in He as [He Hn]. destruct (H e He) as [A [B C]].
  destruct (Z.eq_dec (e_own e) m) as [Em|Hne].
  - exfalso. apply Hn. split; [exact Em|]. apply rm_callback_all; [exact A|].
    intro X. apply (C X). rewrite Em. exact E.
  - unfold entry_inv; cbn [ph]. rewrite upd_other by exact Hne. repeat split; assumption.
Qed.

Lemma reg_inv_phase s m np rg pr ac hk' :
  reg_inv s -> np <> Idle ->
  (forall e, In e rg -> In e (reg s)) ->
  (forall e, In e rg -> e_own e = m -> e_cls e = 1 -> np <> Winding) ->
  reg_inv (mkS (upd (ph s) m np) pr ac rg hk').
Proof.
  intros H Hnp Hsub Hw e He. cbn [reg] in He. destruct (H e (Hsub e He)) as [A [B C]].
  unfold entry_inv; cbn [ph]. destruct (Z.eq_dec (e_own e) m) as [Em|Hne].
  - rewrite Em, upd_same. repeat split; [exact A | exact Hnp | intro X; eapply Hw; eauto].
  - rewrite upd_other by exact Hne. repeat split; assumption.
Qed.

Lemma reg_step s o : reg_inv s -> reg_inv (fst (step true s o)).
Proof.
  intro H. destruct o as [m p|m|m|m|m|m|c m k|c m k]; unfold step.
  - destruct (ph s m) eqn:E; cbn [fst]; try exact H.
    + apply reg_inv_phase; [exact H | discriminate | auto | discriminate].
    + pose proof (reg_inv_cleanup s m H E) as Hc.
      apply (reg_inv_phase (cleanup true m s) m Starting); [exact Hc | discriminate | auto | discriminate].
  - destruct (ph s m) eqn:E; cbn [fst]; try exact H.
    apply reg_inv_phase; [exact H | discriminate | | discriminate].
    intros e He. apply remove_owned_in in He. tauto.
  - destruct (ph s m) eqn:E; cbn [fst]; try exact H.
    apply reg_inv_phase; [exact H | discriminate | auto | discriminate].
  - destruct (hk s m); cbn [fst]; exact H.
  - destruct (ph s m) eqn:E; cbn [fst]; try exact H.
    apply reg_inv_phase; [exact H | discriminate | |].
    + intros e He. apply remove_owned_in in He. tauto.
    + intros e He Em Ec _. apply remove_owned_in in He as [_ Hn]. apply Hn. split; [exact Em|].
      unfold rm_stopped. rewrite Ec. reflexivity.
  - destruct (ph s m) eqn:E; cbn [fst]; try exact H.
    apply reg_inv_cleanup; assumption.
  - destruct (cls_ok c && (negb (phase_eqb (ph s m) Idle) && (negb (c =? 1) || phase_eqb (ph s m) Starting))) eqn:G;
      cbn [fst]; [|exact H].
    apply andb_true_iff in G as [G1 G2]. apply andb_true_iff in G2 as [G2 G3].
    intros e He. cbn [reg] in He. apply in_app_iff in He as [He|[<-|[]]]; [exact (H e He)|].
    unfold entry_inv; cbn [e_cls e_own ph]. repeat split.
    + exact G1.
    + intro X. rewrite X in G2. discriminate.
    + intros -> X. cbn in G3. rewrite X in G3. discriminate.
  - cbn [fst]. intros e He. cbn [reg] in He. apply filter_In in He as [He _]. exact (H e He).
Qed.

Lemma reg_run : forall h s, reg_inv s -> reg_inv (fst (run_from true s h)).
Proof.
  induction h as [|o t IH]; intros s H; [exact H|].
  rewrite run_from_step. cbn [fst]. apply IH. apply reg_step. exact H.
Qed.

Lemma owned_nil m r : (forall e, In e r -> e_own e <> m) -> owned m r = [].
Proof.
  intro H. unfold owned. induction r as [|e t IH]; [reflexivity|]. cbn [filter].
  destruct (e_own e =? m) eqn:E.
  - apply Z.eqb_eq in E. exfalso. apply (H e); [left; reflexivity | exact E].
  - apply IH. intros x Hx. apply H. right. exact Hx.
Qed.

Lemma registry_restored_after_stop_l : forall h m,
  ph (run_state true h) m = Idle -> owned m (reg (run_state true h)) = [].
Proof.
  intros h m Hi. apply owned_nil. intros e He Em.
  assert (R : reg_inv (run_state true h)) by (apply reg_run; intros x []).
  destruct (R e He) as [_ [B _]]. apply B. rewrite Em. exact Hi.
Qed.

(* the clean-up step itself: from Winding the callback is accepted and leaves the mode idle and empty *)
Lemma stopped_callback_cleans_l : forall h m,
  ph (run_state true h) m = Winding ->
  let s' := fst (step true (run_state true h) (CbStopped m)) in
  r_status (snd (step true (run_state true h) (CbStopped m))) = 1 /\ ph s' m = Idle /\ owned m (reg s') = [].
Proof.
  intros h m Hw. cbn zeta. unfold step. rewrite Hw. cbn [fst snd r_status]. split; [reflexivity|]. split.
  - unfold cleanup; cbn [ph]. apply upd_same.
  - apply owned_nil. intros e He Em.
    assert (R : reg_inv (run_state true h)) by (apply reg_run; intros x []).
    pose proof (reg_inv_cleanup _ m R Hw e He) as [_ [B _]]. apply B. rewrite Em.
    unfold cleanup; cbn [ph]. apply upd_same.
Qed.

(* frame: a step of mode m never touches what other modes own (either version of the code) *)
Lemma owned_remove_other sel m x r : x <> m -> owned x (remove_owned sel m r) = owned x r.
Proof.
  intro H. unfold owned, remove_owned. induction r as [|e t IH]; [reflexivity|]. cbn [filter].
  destruct (e_own e =? x) eqn:E.
  - apply Z.eqb_eq in E. assert (F : (e_own e =? m) = false) by (apply Z.eqb_neq; congruence).
    rewrite F. cbn [andb negb filter]. rewrite (proj2 (Z.eqb_eq _ _) E). f_equal. exact IH.
  - destruct (negb ((e_own e =? m) && sel (e_cls e))); cbn [filter]; [rewrite E|]; exact IH.
Qed.

Lemma others_untouched_l : forall fx s o x,
  x <> op_mode o -> owned x (reg (fst (step fx s o))) = owned x (reg s) /\ ph (fst (step fx s o)) x = ph s x.
Proof.
  intros fx s o x Hx. destruct o as [m p|m|m|m|m|m|c m k|c m k]; cbn [op_mode] in Hx; unfold step.
  - destruct (ph s m); cbn [fst reg ph]; try (split; reflexivity).
    + split; [reflexivity | apply upd_other; exact Hx].
    + destruct fx; unfold cleanup; cbn [reg ph].
      * split; [apply owned_remove_other; exact Hx | rewrite !upd_other by exact Hx; reflexivity].
      * split; [reflexivity | apply upd_other; exact Hx].
  - destruct (ph s m); cbn [fst reg ph]; try (split; reflexivity).
    split; [apply owned_remove_other; exact Hx | apply upd_other; exact Hx].
  - destruct (ph s m); cbn [fst reg ph]; try (split; reflexivity).
    split; [reflexivity | apply upd_other; exact Hx].
  - destruct fx; [destruct (hk s m)|]; cbn [fst]; split; reflexivity.
  - destruct (ph s m); cbn [fst reg ph]; try (split; reflexivity).
    split; [apply owned_remove_other; exact Hx | apply upd_other; exact Hx].
  - destruct (ph s m); try (destruct fx; cbn [fst reg ph]; split; try reflexivity; apply owned_remove_other; exact Hx).
    cbn [fst]. unfold cleanup; cbn [reg ph]. split; [apply owned_remove_other; exact Hx | apply upd_other; exact Hx].
  - match goal with |- context [if ?c then _ else _] => destruct c end; cbn [fst reg ph]; split; try reflexivity.
    unfold owned. rewrite filter_app. cbn [filter e_own].
    assert (F : (m =? x) = false) by (apply Z.eqb_neq; congruence). rewrite F. apply app_nil_r.
  - cbn [fst reg ph]. split; [|reflexivity]. unfold owned. induction (reg s) as [|e t IH]; [reflexivity|].
    cbn [filter]. destruct (entry_eqb e (mkE c m k)) eqn:G; cbn [negb filter].
    + unfold entry_eqb in G. cbn [e_own] in G. apply andb_true_iff in G as [G _]. apply andb_true_iff in G as [_ G].
      apply Z.eqb_eq in G. assert (F : (e_own e =? x) = false) by (apply Z.eqb_neq; congruence). rewrite F. exact IH.
    + destruct (e_own e =? x); [f_equal|]; exact IH.
Qed.

(* _mode_started_callback never changes a phase, the active list, a priority or the registry *)
Lemma cbstarted_frame fx s m :
  let s' := fst (step fx s (CbStarted m)) in ph s' = ph s /\ pri s' = pri s /\ act s' = act s /\ reg s' = reg s.
Proof. cbn zeta. unfold step. destruct fx; [destruct (hk s m)|]; cbn [fst ph pri act reg]; repeat split. Qed.

Lemma cbstarted_ph fx s m x : ph (fst (step fx s (CbStarted m))) x = ph s x.
Proof. destruct (cbstarted_frame fx s m) as [A _]. rewrite A. reflexivity. Qed.

(* ------------------------------------------------------------------------------------------- *)
(* 4. the mode never wedges itself: a delivered completion is always accepted                    *)
Lemma completions_accepted_l : forall fx s m,
  (ph s m = Starting -> r_status (snd (step fx s (QStarted m))) = 1 /\ ph (fst (step fx s (QStarted m))) m = Active) /\
  (ph s m = Stopping -> r_status (snd (step fx s (QStopped m))) = 1 /\ ph (fst (step fx s (QStopped m))) m = Winding) /\
  (ph s m = Winding -> r_status (snd (step fx s (CbStopped m))) = 1 /\ ph (fst (step fx s (CbStopped m))) m = Idle).
Proof.
  intros fx s m. split; [|split]; intro H; unfold step; rewrite H; cbn [fst snd r_status ph];
    (split; [reflexivity|]); try apply upd_same.
Qed.

Lemma stop_accepted_iff_active_l : forall fx s m,
  r_status (snd (step fx s (Stop m))) = (if is_act (ph s m) then 1 else 0).
Proof. intros fx s m. unfold step. destruct (ph s m); reflexivity. Qed.

Lemma stale_callback_harmless_l : forall s m, ph s m <> Winding -> fst (step true s (CbStopped m)) = s.
Proof. intros s m H. unfold step. destruct (ph s m); try reflexivity. congruence. Qed.

(* ------------------------------------------------------------------------------------------- *)
(* 5. the code as found (fx = false): witnesses                                                  *)

(* a logic block's own delay (class 5) survives the complete stop of its mode *)
Definition wit_block_delay : list op :=
  [Start 1 100; Add 0 1 1; QStarted 1; CbStarted 1; Add 5 1 2; Stop 1; QStopped 1; CbStopped 1].

Lemma refuted_block_delay_l :
  ph (run_state false wit_block_delay) 1 = Idle /\ owned 1 (reg (run_state false wit_block_delay)) = [mkE 5 1 2].
Proof. vm_compute. split; reflexivity. Qed.

(* a delay / switch handler registered while the mode is stopping survives *)
Definition wit_late_add : list op :=
  [Start 1 100; QStarted 1; Stop 1; Add 3 1 7; QStopped 1; CbStopped 1].

Lemma refuted_late_add_l :
  ph (run_state false wit_late_add) 1 = Idle /\ owned 1 (reg (run_state false wit_late_add)) = [mkE 3 1 7].
Proof. vm_compute. split; reflexivity. Qed.

(* restart from a handler of mode_<m>_stopped: the outstanding callback of the old stop removes what the
   new start registered (its stop-event handler, class 0 key 9); the mode is up but owns nothing *)
Definition wit_restart : list op :=
  [Start 1 100; Add 0 1 1; QStarted 1; Stop 1; QStopped 1; Start 1 100; Add 0 1 9; CbStopped 1; QStarted 1].

Lemma refuted_restart_l :
  ph (run_state false wit_restart) 1 = Active /\ owned 1 (reg (run_state false wit_restart)) = [] /\
  owned 1 (reg (run_state true wit_restart)) = [mkE 0 1 9].
Proof. vm_compute. repeat split; reflexivity. Qed.

(* mode_start() hook running after the mode has been stopped again registers on an idle mode *)
Definition wit_late_hook : list op :=
  [Start 1 100; QStarted 1; Stop 1; QStopped 1; CbStopped 1; CbStarted 1; Add 2 1 4].

Lemma refuted_late_hook_l :
  ph (run_state false wit_late_hook) 1 = Idle /\ owned 1 (reg (run_state false wit_late_hook)) = [mkE 2 1 4] /\
  map r_status (map snd [step true (run_state true (firstn 5 wit_late_hook)) (CbStarted 1);
                         step true (run_state true (firstn 6 wit_late_hook)) (Add 2 1 4)]) = [0; 2].
Proof. vm_compute. repeat split; reflexivity. Qed.

(* ------------------------------------------------------------------------------------------- *)
(* satisfiability examples                                                                        *)
Definition ex_hist : list op :=
  [Start 0 10; QStarted 0; Start 2 10; Start 1 100; Add 0 1 1; Add 1 1 2; QStarted 2; QStarted 1; Start 3 10; QStarted 3;
   Stop 1; Add 3 1 5; QStopped 1; Start 1 300; Add 0 1 6; CbStopped 1; QStarted 1; Stop 2; Stop 2].

Lemma ex_hist_events :
  proj 1 (run_events true ex_hist) = [0; 1; 2; 3; 4; 5; 0; 1; 2] /\ act (run_state true ex_hist) = [1; 3; 2; 0] /\
  ph (run_state true ex_hist) 2 = Stopping /\ owned 1 (reg (run_state true ex_hist)) = [mkE 0 1 6].
Proof. vm_compute. repeat split; reflexivity. Qed.

Lemma ex_idle_after_cycle :
  let h := [Start 1 100; Add 0 1 1; Add 1 1 2; QStarted 1; Add 5 1 3; Stop 1; Add 3 1 4; QStopped 1; CbStopped 1] in
  ph (run_state true h) 1 = Idle /\ reg (run_state true h) = [] /\ length (proj 1 (run_events true h)) = 6%nat.
Proof. vm_compute. repeat split; reflexivity. Qed.

(* ------------------------------------------------------------------------------------------- *)
(* 6. the mode_start() hook runs once per start (finding 7, fixes/C07-stale-started-callback.patch) *)

Lemma cbstarted_status s m : r_status (snd (step true s (CbStarted m))) = (if hk s m then 1 else 0).
Proof. unfold step. destruct (hk s m); reflexivity. Qed.

Lemma cbstarted_clears s m : hk (fst (step true s (CbStarted m))) m = false.
Proof. unfold step. destruct (hk s m) eqn:E; cbn [fst hk]; [apply upd_same | exact E]. Qed.

(* the flag is set only while the mode is in active_modes *)
Definition hk_inv (s : state) : Prop := forall m, hk s m = true -> is_act (ph s m) = true.

Lemma hk_inv_upd s m np pr ac rg hk' :
  hk_inv s -> (forall x, x <> m -> hk' x = hk s x) -> (hk' m = true -> is_act np = true) ->
  hk_inv (mkS (upd (ph s) m np) pr ac rg hk').
Proof.
  intros H Ho Hm x Hx. cbn [ph hk] in *. destruct (Z.eq_dec x m) as [->|Hne].
  - rewrite upd_same. apply Hm. exact Hx.
  - rewrite upd_other by exact Hne. apply H. rewrite <- (Ho x Hne). exact Hx.
Qed.

Lemma hk_inv_same s pr ac rg : hk_inv s -> hk_inv (mkS (ph s) pr ac rg (hk s)).
Proof. intros H x Hx. exact (H x Hx). Qed.

Lemma hk_inv_cleanup s m : hk_inv s -> ph s m = Winding -> hk_inv (cleanup true m s).
Proof.
  intros H E. unfold cleanup. apply hk_inv_upd; [exact H | reflexivity |].
  intro X. apply H in X. rewrite E in X. discriminate.
Qed.

Lemma hk_step s o : hk_inv s -> hk_inv (fst (step true s o)).
Proof.
  intro H. destruct o as [m p|m|m|m|m|m|c m k|c m k]; unfold step.
  - destruct (ph s m) eqn:E; cbn [fst]; try exact H.
    + apply hk_inv_upd; [exact H | reflexivity |]. intro X. apply H in X. rewrite E in X. discriminate.
    + pose proof (hk_inv_cleanup s m H E) as Hc.
      apply (hk_inv_upd (cleanup true m s) m Starting); [exact Hc | reflexivity |].
      intro X. apply Hc in X. unfold cleanup in X; cbn [ph] in X. rewrite upd_same in X. discriminate.
  - destruct (ph s m) eqn:E; cbn [fst]; try exact H.
    apply hk_inv_upd; [exact H | reflexivity | reflexivity].
  - destruct (ph s m) eqn:E; cbn [fst]; try exact H.
    apply hk_inv_upd; [exact H | intros x Hx; apply upd_other; exact Hx | reflexivity].
  - destruct (hk s m) eqn:E; cbn [fst]; [|exact H].
    intros x Hx. cbn [ph hk] in *. destruct (Z.eq_dec x m) as [->|Hne].
    + rewrite upd_same in Hx. discriminate.
    + rewrite upd_other in Hx by exact Hne. apply H. exact Hx.
  - destruct (ph s m) eqn:E; cbn [fst]; try exact H.
    apply hk_inv_upd; [exact H | intros x Hx; apply upd_other; exact Hx |].
    rewrite upd_same. discriminate.
  - destruct (ph s m) eqn:E; cbn [fst]; try exact H.
    apply hk_inv_cleanup; assumption.
  - match goal with |- context [if ?c then _ else _] => destruct c end; cbn [fst]; [apply hk_inv_same|]; exact H.
  - cbn [fst]. apply hk_inv_same. exact H.
Qed.

Lemma hk_run : forall h s, hk_inv s -> hk_inv (fst (run_from true s h)).
Proof.
  induction h as [|o t IH]; intros s H; [exact H|].
  rewrite run_from_step. cbn [fst]. apply IH. apply hk_step. exact H.
Qed.

Lemma hk_init : hk_inv init_state.
Proof. intros m H. discriminate. Qed.

(* only _started sets the flag *)
Lemma hk_false_stable s o m : hk s m = false -> o <> QStarted m -> hk (fst (step true s o)) m = false.
Proof.
  intros F N. destruct o as [x p|x|x|x|x|x|c x k|c x k]; unfold step.
  - destruct (ph s x); try (destruct fx); cbn [fst hk cleanup]; exact F.
  - destruct (ph s x); cbn [fst hk]; exact F.
  - destruct (ph s x); cbn [fst hk]; try exact F.
    destruct (Z.eq_dec m x) as [->|Hne]; [congruence|]. rewrite upd_other by exact Hne. exact F.
  - destruct (hk s x); cbn [fst hk]; try exact F.
    destruct (Z.eq_dec m x) as [->|Hne]; [apply upd_same|]. rewrite upd_other by exact Hne. exact F.
  - destruct (ph s x); cbn [fst hk]; try exact F.
    destruct (Z.eq_dec m x) as [->|Hne]; [apply upd_same|]. rewrite upd_other by exact Hne. exact F.
  - destruct (ph s x); cbn [fst hk cleanup]; exact F.
  - match goal with |- context [if ?c then _ else _] => destruct c end; cbn [fst hk]; exact F.
  - cbn [fst hk]. exact F.
Qed.

Lemma hk_false_run m : forall h s, hk s m = false -> ~ In (QStarted m) h -> hk (fst (run_from true s h)) m = false.
Proof.
  induction h as [|o t IH]; intros s F N; [exact F|].
  rewrite run_from_step. cbn [fst]. apply IH.
  - apply hk_false_stable; [exact F | intro X; apply N; left; exact X].
  - intro X. apply N. right. exact X.
Qed.

(* only the hook run and _stopped clear it *)
Lemma hk_true_stable s o m :
  hk s m = true -> o <> CbStarted m -> o <> QStopped m -> hk (fst (step true s o)) m = true.
Proof.
  intros T N1 N2. destruct o as [x p|x|x|x|x|x|c x k|c x k]; unfold step.
  - destruct (ph s x); cbn [fst hk cleanup]; exact T.
  - destruct (ph s x); cbn [fst hk]; exact T.
  - destruct (ph s x); cbn [fst hk]; try exact T.
    destruct (Z.eq_dec m x) as [->|Hne]; [apply upd_same|]. rewrite upd_other by exact Hne. exact T.
  - destruct (hk s x); cbn [fst hk]; try exact T.
    destruct (Z.eq_dec m x) as [->|Hne]; [congruence|]. rewrite upd_other by exact Hne. exact T.
  - destruct (ph s x); cbn [fst hk]; try exact T.
    destruct (Z.eq_dec m x) as [->|Hne]; [congruence|]. rewrite upd_other by exact Hne. exact T.
  - destruct (ph s x); cbn [fst hk cleanup]; exact T.
  - match goal with |- context [if ?c then _ else _] => destruct c end; cbn [fst hk]; exact T.
  - cbn [fst hk]. exact T.
Qed.

Lemma hk_true_run m : forall h s,
  hk s m = true -> ~ In (CbStarted m) h -> ~ In (QStopped m) h -> hk (fst (run_from true s h)) m = true.
Proof.
  induction h as [|o t IH]; intros s T N1 N2; [exact T|].
  rewrite run_from_step. cbn [fst]. apply IH.
  - apply hk_true_stable; [exact T | intro X; apply N1; left; exact X | intro X; apply N2; left; exact X].
  - intro X. apply N1. right. exact X.
  - intro X. apply N2. right. exact X.
Qed.

(* ONCE: from any state, after a run of the hook no delivery of a started-callback of that mode - however many are
   outstanding, in whatever order, interleaved with anything else - runs it again until _started runs again *)
Lemma start_hook_once_per_start_l : forall s m h,
  r_status (snd (step true s (CbStarted m))) = 1 ->
  ~ In (QStarted m) h ->
  r_status (snd (step true (fst (run_from true (fst (step true s (CbStarted m))) h)) (CbStarted m))) = 0.
Proof.
  intros s m h _ N. rewrite cbstarted_status.
  rewrite (hk_false_run m h _ (cbstarted_clears s m) N). reflexivity.
Qed.

(* AT LEAST ONCE (up to delivery): after an accepted _started the first started-callback that is delivered before the
   mode's _stopped runs the hook, and the mode is in active_modes at that moment *)
Lemma started_mode_gets_hook_l : forall h0 m h,
  ph (run_state true h0) m = Starting ->
  ~ In (CbStarted m) h -> ~ In (QStopped m) h ->
  let s2 := fst (run_from true (fst (step true (run_state true h0) (QStarted m))) h) in
  r_status (snd (step true s2 (CbStarted m))) = 1 /\ is_act (ph s2 m) = true.
Proof.
  intros h0 m h P N1 N2. cbn zeta.
  set (s1 := fst (step true (run_state true h0) (QStarted m))).
  assert (T1 : hk s1 m = true).
  { unfold s1, step. rewrite P. cbn [fst hk]. apply upd_same. }
  assert (I1 : hk_inv s1).
  { unfold s1. apply hk_step. apply hk_run. exact hk_init. }
  pose proof (hk_true_run m h s1 T1 N1 N2) as T2.
  split.
  - rewrite cbstarted_status, T2. reflexivity.
  - apply (hk_run h s1 I1). exact T2.
Qed.

(* the hook only ever runs on a mode that is in active_modes, and a callback that finds the mode not active (stopped by a
   handler of mode_<m>_started, or starting again) changes nothing at all *)
Lemma hook_only_on_active_l : forall h m,
  r_status (snd (step true (run_state true h) (CbStarted m))) = 1 -> is_act (ph (run_state true h) m) = true.
Proof.
  intros h m H. rewrite cbstarted_status in H. destruct (hk (run_state true h) m) eqn:E; [|discriminate].
  apply (hk_run h init_state hk_init). exact E.
Qed.

Lemma stale_started_callback_noop_l : forall h m,
  is_act (ph (run_state true h) m) = false ->
  step true (run_state true h) (CbStarted m) = (run_state true h, mkR 0 []).
Proof.
  intros h m A. unfold step. destruct (hk (run_state true h) m) eqn:E; [|reflexivity].
  assert (X : is_act (ph (run_state true h) m) = true) by (apply (hk_run h init_state hk_init); exact E).
  congruence.
Qed.

(* the history of finding 7 (one complete cycle and a second start, both mode_<m>_started events posted, their two callbacks
   outstanding): the code as found runs the hook in both callbacks, the fixed code in the first one delivered only; a third
   start gets its hook again *)
Definition ex_stale_started_hist : list op :=
  [Start 0 10; QStarted 0; Stop 0; QStopped 0; CbStopped 0; Start 0 10; QStarted 0].

Lemma start_hook_once_refuted_l :
  exists h m, let s := run_state false h in
    ph s m = Active /\
    proj m (run_events false h) = [0; 1; 2; 3; 4; 5; 0; 1; 2] /\
    r_status (snd (step false s (CbStarted m))) = 1 /\
    r_status (snd (step false (fst (step false s (CbStarted m))) (CbStarted m))) = 1.
Proof. exists ex_stale_started_hist, 0. vm_compute. repeat split. Qed.

Fixpoint statuses (fx : bool) (s : state) (h : list op) : list Z :=
  match h with
  | [] => []
  | o :: t => r_status (snd (step fx s o)) :: statuses fx (fst (step fx s o)) t
  end.

Lemma ex_hook_once :
  ph (run_state true ex_stale_started_hist) 0 = Active /\
  statuses true (run_state true ex_stale_started_hist)
    [CbStarted 0; CbStarted 0; Stop 0; CbStarted 0; QStopped 0; Start 0 10; CbStarted 0; QStarted 0; CbStarted 0; CbStarted 0]
    = [1; 0; 1; 0; 1; 1; 0; 1; 1; 0] /\
  statuses true (run_state true (firstn 4 ex_stale_started_hist)) [CbStarted 0] = [0].
Proof. vm_compute. repeat split. Qed.
