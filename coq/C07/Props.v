(* C07/Props.v — property theorems only.  Each is closed by [exact] of a lemma from Lemmas.v and followed by
   Print Assumptions (parsed by the check: must be "Closed under the global context").

   The model (Model.v) is a transition system over histories of operations
       Start m p | Stop m | QStarted m | CbStarted m | QStopped m | CbStopped m | Add c m k | Del c m k
   i.e. requests plus the completions the event bus delivers, in ANY order; [run_state fx h] / [run_events fx h]
   are the state / the posted lifecycle events after history h from the initial state.
   fx = true  : mpf with fixes/C07-*.patch (what ./check C07 ties to the code)
   fx = false : the code as found (only used by the _refuted theorems). *)
From Common Require Import Prelude.
From C07 Require Import Model Lemmas.
Open Scope Z_scope.

(* 1. "each mode moves strictly stopped, starting, active, stopping, stopped, posting its will_start / starting /
      started / will_stop / stopping / stopped events once per transition in that order":
      for every history (either version of the code) and every mode, the k-th lifecycle event the mode posts is
      event number k mod 6 of the cycle (so the sequence is (will_start .. stopped)* plus at most one incomplete
      suffix), and the phase of the mode is the one that belongs to the position reached in the cycle. *)
Theorem mode_transitions_ordered :
  forall fx h m,
    cyclic_from 0 (proj m (run_events fx h)) = true /\
    lenmod (proj m (run_events fx h)) = pos_of (ph (run_state fx h) m).
Proof. exact mode_transitions_ordered_l. Qed.
Print Assumptions mode_transitions_ordered.

(* 2. "The list of active modes always equals the modes that are active, ordered by priority":
      after every history active_modes has no duplicates, is sorted by (priority, name) descending and contains
      exactly the modes whose _active flag is set (Active or Stopping) ... *)
Theorem active_list_sorted_exact :
  forall fx h, let s := run_state fx h in
    NoDup (act s) /\ sorted_desc (pri s) (act s) = true /\ (forall m, In m (act s) <-> is_act (ph s m) = true).
Proof. exact active_list_sorted_exact_l. Qed.
Print Assumptions active_list_sorted_exact.

(*    ... hence it IS the sorted list of the active modes, whichever enumeration l of them one starts from *)
Theorem active_list_is_the_sorted_list :
  forall fx h l, let s := run_state fx h in
    NoDup l -> (forall m, In m l <-> is_act (ph s m) = true) -> act s = sort_desc (pri s) l.
Proof. exact active_list_is_the_sorted_list_l. Qed.
Print Assumptions active_list_is_the_sorted_list.

(* 3. "Once a mode has stopped, every event handler, switch handler, delay, timer and device control it registered
      is gone, so the machine's registries are exactly what they were before it started" (fixed code):
      in every reachable state an idle mode owns no registry entry of any class ... *)
Theorem registry_restored_after_stop :
  forall h m, ph (run_state true h) m = Idle -> owned m (reg (run_state true h)) = [].
Proof. exact registry_restored_after_stop_l. Qed.
Print Assumptions registry_restored_after_stop.

(*    ... the callback of mode_<m>_stopped is the step that gets it there ... *)
Theorem stopped_callback_cleans :
  forall h m, ph (run_state true h) m = Winding ->
    let s' := fst (step true (run_state true h) (CbStopped m)) in
    r_status (snd (step true (run_state true h) (CbStopped m))) = 1 /\ ph s' m = Idle /\ owned m (reg s') = [].
Proof. exact stopped_callback_cleans_l. Qed.
Print Assumptions stopped_callback_cleans.

(*    ... and no step of a mode (start, stop, any completion, any registration) ever changes what another mode
      owns, nor its phase: "the rest is unchanged" (either version of the code, any state). *)
Theorem others_untouched :
  forall fx s o x, x <> op_mode o ->
    owned x (reg (fst (step fx s o))) = owned x (reg s) /\ ph (fst (step fx s o)) x = ph s x.
Proof. exact others_untouched_l. Qed.
Print Assumptions others_untouched.

(* 4. "every accepted start eventually becomes active and every accepted stop eventually completes".
      PARTIAL: delivery of a completion is the event bus' obligation (C02) and is not modelled; what is proved is
      that the mode never wedges itself: whenever the bus delivers the completion that is outstanding in a phase, the
      step is accepted and moves on (Starting -> Active -> ... -> Idle).  Missing for the full statement: fairness
      of the bus (checked on the code by the oracle: no mode is left inside a transition at the end of a run). *)
Theorem accepted_transitions_complete_partial :
  forall fx s m,
    (ph s m = Starting -> r_status (snd (step fx s (QStarted m))) = 1 /\ ph (fst (step fx s (QStarted m))) m = Active) /\
    (ph s m = Stopping -> r_status (snd (step fx s (QStopped m))) = 1 /\ ph (fst (step fx s (QStopped m))) m = Winding) /\
    (ph s m = Winding -> r_status (snd (step fx s (CbStopped m))) = 1 /\ ph (fst (step fx s (CbStopped m))) m = Idle).
Proof. exact completions_accepted_l. Qed.
Print Assumptions accepted_transitions_complete_partial.

(* stop() is accepted exactly when the mode is active (also while it is already stopping); in particular a stop
   that arrives while the mode is still starting is refused, as in the code (returns False) *)
Theorem stop_accepted_iff_active :
  forall fx s m, r_status (snd (step fx s (Stop m))) = (if is_act (ph s m) then 1 else 0).
Proof. exact stop_accepted_iff_active_l. Qed.
Print Assumptions stop_accepted_iff_active.

(* fixed code: the callback of an old stop that was overtaken by a restart does nothing *)
Theorem stale_callback_harmless :
  forall s m, ph s m <> Winding -> fst (step true s (CbStopped m)) = s.
Proof. exact stale_callback_harmless_l. Qed.
Print Assumptions stale_callback_harmless.

(* ---- the code as found violates sentence 3 of the property: witnesses (each replayed on the unpatched tree) ---- *)

(* a logic block's own delay survives the complete stop of its mode (and later fires on dropped state) *)
Theorem registry_restored_refuted_block_delay :
  exists h m, ph (run_state false h) m = Idle /\ owned m (reg (run_state false h)) <> [].
Proof. exists wit_block_delay, 1. destruct refuted_block_delay_l as [A B]. split; [exact A | rewrite B; discriminate]. Qed.
Print Assumptions registry_restored_refuted_block_delay.

(* something registered on the mode's DelayManager / switch_handlers while the mode is stopping survives *)
Theorem registry_restored_refuted_late_add :
  exists h m, ph (run_state false h) m = Idle /\ owned m (reg (run_state false h)) <> [] /\
              Forall (fun o => match o with Add c _ _ => c = 3 | _ => True end) h.
Proof.
  exists wit_late_add, 1. destruct refuted_late_add_l as [A B]. split; [exact A | split; [rewrite B; discriminate|]].
  repeat constructor.
Qed.
Print Assumptions registry_restored_refuted_late_add.

(* restart from a handler of the mode's own mode_<m>_stopped event: the old stop's callback wipes what the new
   start registered; the mode is active and owns nothing (no stop-event handler: it can never be stopped by event).
   The fixed code keeps the registration. *)
Theorem restart_wiped_refuted :
  exists h m, ph (run_state false h) m = Active /\ owned m (reg (run_state false h)) = [] /\
              owned m (reg (run_state true h)) <> [].
Proof.
  exists wit_restart, 1. destruct refuted_restart_l as [A [B C]]. split; [exact A | split; [exact B | rewrite C; discriminate]].
Qed.
Print Assumptions restart_wiped_refuted.

(* mode_start() hook delivered after the mode was stopped again registers on an idle mode; fixed code skips the hook
   (status 0) and an idle mode cannot register (status 2) *)
Theorem registry_restored_refuted_late_hook :
  exists h m, ph (run_state false h) m = Idle /\ owned m (reg (run_state false h)) <> [].
Proof. exists wit_late_hook, 1. destruct refuted_late_hook_l as [A [B _]]. split; [exact A | rewrite B; discriminate]. Qed.
Print Assumptions registry_restored_refuted_late_hook.

(* ---- the hypotheses are satisfiable on non-trivial states ---------------------------------------------------- *)

(* four modes with a priority tie (ids 0, 2, 3 at 10), a restart of mode 1 from its own stopped event with a new
   priority, a repeated stop: mode 1's events are a full cycle plus three, the list is sorted by (priority, name),
   mode 2 is Stopping and still listed, mode 1 kept what its second start registered *)
Example ex_history :
  proj 1 (run_events true ex_hist) = [0; 1; 2; 3; 4; 5; 0; 1; 2] /\ act (run_state true ex_hist) = [1; 3; 2; 0] /\
  ph (run_state true ex_hist) 2 = Stopping /\ owned 1 (reg (run_state true ex_hist)) = [mkE 0 1 6].
Proof. exact ex_hist_events. Qed.
Print Assumptions ex_history.

(* a complete cycle with registrations of four classes (one made while stopping) ends idle with an empty registry:
   the hypothesis of registry_restored_after_stop / the Winding hypothesis of stopped_callback_cleans are reachable *)
Example ex_idle_after_full_cycle :
  let h := [Start 1 100; Add 0 1 1; Add 1 1 2; QStarted 1; Add 5 1 3; Stop 1; Add 3 1 4; QStopped 1; CbStopped 1] in
  ph (run_state true h) 1 = Idle /\ reg (run_state true h) = [] /\ length (proj 1 (run_events true h)) = 6%nat.
Proof. exact ex_idle_after_cycle. Qed.
Print Assumptions ex_idle_after_full_cycle.
