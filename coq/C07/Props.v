(* C07/Props.v — property theorems only.  Each is closed by [exact] of a lemma from Lemmas.v and followed by
   Print Assumptions (parsed by the check: must be "Closed under the global context").

   The model (Model.v) is a transition system over histories of operations
       Start m p | Stop m | QStarted m | CbStarted m | QStopped m | CbStopped m | Add c m k | Del c m k
   i.e. requests plus the completions the event bus delivers, in ANY order; [run_state fx h] / [run_events fx h]
   are the state / the posted lifecycle events after history h from the initial state.
   fx = true  : mpf with fixes/C07-*.patch (what ./check C07 ties to the code)
   fx = false : the code as found (only used by the _refuted theorems). *)
From Common Require Import Prelude.
From C07 Require Import Model Lemmas Devices LemDevices LemLive Controller Own LemOwn.
Open Scope Z_scope.

(* 1. "each mode moves strictly stopped, starting, active, stopping, stopped, posting its will_start / starting /
      started / will_stop / stopping / stopped events once per transition in that order":
      for every history (either version of the code) and every mode, the k-th lifecycle event the mode posts is
      event number k mod 6 of the cycle (so the sequence is (will_start .. stopped)* plus at most one incomplete
      suffix), and the phase of the mode is the one that belongs to the position reached in the cycle. *)
Theorem mode_transitions_ordered :
  forall fx h m,
    cyclic_from 0 (proj m (run_events fx h)) = true /\
    lenmod (proj m (run_events fx h)) = pos_of (ph (run_state fx h) m).
Proof. exact mode_transitions_ordered_l. Qed.
Print Assumptions mode_transitions_ordered.

(* 2. "The list of active modes always equals the modes that are active, ordered by priority":
      after every history active_modes has no duplicates, is sorted by (priority, name) descending and contains
      exactly the modes whose _active flag is set (Active or Stopping) ... *)
Theorem active_list_sorted_exact :
  forall fx h, let s := run_state fx h in
    NoDup (act s) /\ sorted_desc (pri s) (act s) = true /\ (forall m, In m (act s) <-> is_act (ph s m) = true).
Proof. exact active_list_sorted_exact_l. Qed.
Print Assumptions active_list_sorted_exact.

(*    ... hence it IS the sorted list of the active modes, whichever enumeration l of them one starts from *)
Theorem active_list_is_the_sorted_list :
  forall fx h l, let s := run_state fx h in
    NoDup l -> (forall m, In m l <-> is_act (ph s m) = true) -> act s = sort_desc (pri s) l.
Proof. exact active_list_is_the_sorted_list_l. Qed.
Print Assumptions active_list_is_the_sorted_list.

(* 3. "Once a mode has stopped, every event handler, switch handler, delay, timer and device control it registered
      is gone, so the machine's registries are exactly what they were before it started" (fixed code):
      in every reachable state an idle mode owns no registry entry of any class ... *)
Theorem registry_restored_after_stop :
  forall h m, ph (run_state true h) m = Idle -> owned m (reg (run_state true h)) = [].
Proof. exact registry_restored_after_stop_l. Qed.
Print Assumptions registry_restored_after_stop.

(*    ... the callback of mode_<m>_stopped is the step that gets it there ... *)
Theorem stopped_callback_cleans :
  forall h m, ph (run_state true h) m = Winding ->
    let s' := fst (step true (run_state true h) (CbStopped m)) in
    r_status (snd (step true (run_state true h) (CbStopped m))) = 1 /\ ph s' m = Idle /\ owned m (reg s') = [].
Proof. exact stopped_callback_cleans_l. Qed.
Print Assumptions stopped_callback_cleans.

(*    ... and no step of a mode (start, stop, any completion, any registration) ever changes what another mode
      owns, nor its phase: "the rest is unchanged" (either version of the code, any state). *)
Theorem others_untouched :
  forall fx s o x, x <> op_mode o ->
    owned x (reg (fst (step fx s o))) = owned x (reg s) /\ ph (fst (step fx s o)) x = ph s x.
Proof. exact others_untouched_l. Qed.
Print Assumptions others_untouched.

(* 4. "every accepted start eventually becomes active and every accepted stop eventually completes".
      FULL statement: in every infinite execution each mode that is Starting is Active later and each mode that is
      Stopping is Idle (or starting again) later.  It splits into (a) the mode's part and (b) the bus' part:
      (a) PROVED here for all states and all continuations h (either version of the code): while a transition is
          open NOTHING ELSE - no request, completion or registration of this or any other mode - moves the mode out
          of it or consumes the outstanding completion, and at the first delivery of the completion it is accepted and
          the mode is in the next phase.  Hence "h contains the completion" (the bus delivers it) is the ONLY
          hypothesis left.
      (b) NOT modelled here: the bus delivers the completion of a queue event once every handler released it, and
          runs the callback of a posted event (C02's theorems; checked on the code by the oracle at EVERY quiescent
          point: a mode is inside a transition only while a generated handler provably still holds its queue). *)
Theorem accepted_start_becomes_active_if_delivered :
  forall fx s h m, ph s m = Starting -> In (QStarted m) h ->
  exists h1 h2, h = h1 ++ QStarted m :: h2 /\ ~ In (QStarted m) h1 /\
    ph (fst (run_from fx s h1)) m = Starting /\
    ph (fst (run_from fx s (h1 ++ [QStarted m]))) m = Active /\
    r_status (snd (step fx (fst (run_from fx s h1)) (QStarted m))) = 1.
Proof. exact started_when_delivered. Qed.
Print Assumptions accepted_start_becomes_active_if_delivered.

Theorem accepted_stop_completes_if_delivered :
  forall fx s h m, ph s m = Stopping -> In (QStopped m) h ->
  exists h1 h2, h = h1 ++ QStopped m :: h2 /\ ~ In (QStopped m) h1 /\
    ph (fst (run_from fx s h1)) m = Stopping /\
    ph (fst (run_from fx s (h1 ++ [QStopped m]))) m = Winding /\
    r_status (snd (step fx (fst (run_from fx s h1)) (QStopped m))) = 1.
Proof. exact stopped_when_delivered. Qed.
Print Assumptions accepted_stop_completes_if_delivered.

(*    the wind-up (callback of mode_<m>_stopped outstanding) ends at the first delivery of the callback - mode Idle -
      or earlier with a restart of the mode, which (fixed code) performs the clean-up itself - mode Starting *)
Theorem stop_wind_up_completes_if_delivered :
  forall s h m, ph s m = Winding -> In (CbStopped m) h ->
  exists h1 o h2, h = h1 ++ o :: h2 /\ (o = CbStopped m \/ exists p, o = Start m p) /\
    ph (fst (run_from true s h1)) m = Winding /\
    (o = CbStopped m -> ph (fst (run_from true s (h1 ++ [o]))) m = Idle) /\
    ((exists p, o = Start m p) -> ph (fst (run_from true s (h1 ++ [o]))) m = Starting).
Proof. exact wound_up_when_delivered. Qed.
Print Assumptions stop_wind_up_completes_if_delivered.

(*    one-step form (kept from the first round): a delivered completion is accepted *)
Theorem accepted_transitions_complete_partial :
  forall fx s m,
    (ph s m = Starting -> r_status (snd (step fx s (QStarted m))) = 1 /\ ph (fst (step fx s (QStarted m))) m = Active) /\
    (ph s m = Stopping -> r_status (snd (step fx s (QStopped m))) = 1 /\ ph (fst (step fx s (QStopped m))) m = Winding) /\
    (ph s m = Winding -> r_status (snd (step fx s (CbStopped m))) = 1 /\ ph (fst (step fx s (CbStopped m))) m = Idle).
Proof. exact completions_accepted_l. Qed.
Print Assumptions accepted_transitions_complete_partial.

(* a start that is still waiting for a held queue while stop requests, other modes' complete cycles and registrations
   go by: it becomes active exactly at the delivery *)
Example ex_delivery :
  let s := fst (run_from true init_state [Start 1 100; Start 2 50; QStarted 2]) in
  let h := [Stop 1; Stop 2; Add 0 1 7; QStopped 2; CbStopped 2; Start 1 5; QStarted 1; Stop 1] in
  ph s 1 = Starting /\ In (QStarted 1) h /\
  ph (fst (run_from true s (firstn 6 h))) 1 = Starting /\ ph (fst (run_from true s (firstn 7 h))) 1 = Active /\
  pri (fst (run_from true s (firstn 7 h))) 1 = 100.
Proof. vm_compute. repeat split; auto 10. Qed.
Print Assumptions ex_delivery.

(* stop() is accepted exactly when the mode is active (also while it is already stopping); in particular a stop
   that arrives while the mode is still starting is refused, as in the code (returns False) *)
Theorem stop_accepted_iff_active :
  forall fx s m, r_status (snd (step fx s (Stop m))) = (if is_act (ph s m) then 1 else 0).
Proof. exact stop_accepted_iff_active_l. Qed.
Print Assumptions stop_accepted_iff_active.

(* fixed code: the callback of an old stop that was overtaken by a restart does nothing *)
Theorem stale_callback_harmless :
  forall s m, ph s m <> Winding -> fst (step true s (CbStopped m)) = s.
Proof. exact stale_callback_harmless_l. Qed.
Print Assumptions stale_callback_harmless.

(* ---- the code as found violates sentence 3 of the property: witnesses (each replayed on the unpatched tree) ---- *)

(* a logic block's own delay survives the complete stop of its mode (and later fires on dropped state) *)
Theorem registry_restored_refuted_block_delay :
  exists h m, ph (run_state false h) m = Idle /\ owned m (reg (run_state false h)) <> [].
Proof. exists wit_block_delay, 1. destruct refuted_block_delay_l as [A B]. split; [exact A | rewrite B; discriminate]. Qed.
Print Assumptions registry_restored_refuted_block_delay.

(* something registered on the mode's DelayManager / switch_handlers while the mode is stopping survives *)
Theorem registry_restored_refuted_late_add :
  exists h m, ph (run_state false h) m = Idle /\ owned m (reg (run_state false h)) <> [] /\
              Forall (fun o => match o with Add c _ _ => c = 3 | _ => True end) h.
Proof.
  exists wit_late_add, 1. destruct refuted_late_add_l as [A B]. split; [exact A | split; [rewrite B; discriminate|]].
  repeat constructor.
Qed.
Print Assumptions registry_restored_refuted_late_add.

(* restart from a handler of the mode's own mode_<m>_stopped event: the old stop's callback wipes what the new
   start registered; the mode is active and owns nothing (no stop-event handler: it can never be stopped by event).
   The fixed code keeps the registration. *)
Theorem restart_wiped_refuted :
  exists h m, ph (run_state false h) m = Active /\ owned m (reg (run_state false h)) = [] /\
              owned m (reg (run_state true h)) <> [].
Proof.
  exists wit_restart, 1. destruct refuted_restart_l as [A [B C]]. split; [exact A | split; [exact B | rewrite C; discriminate]].
Qed.
Print Assumptions restart_wiped_refuted.

(* mode_start() hook delivered after the mode was stopped again registers on an idle mode; fixed code skips the hook
   (status 0) and an idle mode cannot register (status 2) *)
Theorem registry_restored_refuted_late_hook :
  exists h m, ph (run_state false h) m = Idle /\ owned m (reg (run_state false h)) <> [].
Proof. exists wit_late_hook, 1. destruct refuted_late_hook_l as [A [B _]]. split; [exact A | rewrite B; discriminate]. Qed.
Print Assumptions registry_restored_refuted_late_hook.

(* ---- the hypotheses are satisfiable on non-trivial states ---------------------------------------------------- *)

(* four modes with a priority tie (ids 0, 2, 3 at 10), a restart of mode 1 from its own stopped event with a new
   priority, a repeated stop: mode 1's events are a full cycle plus three, the list is sorted by (priority, name),
   mode 2 is Stopping and still listed, mode 1 kept what its second start registered *)
Example ex_history :
  proj 1 (run_events true ex_hist) = [0; 1; 2; 3; 4; 5; 0; 1; 2] /\ act (run_state true ex_hist) = [1; 3; 2; 0] /\
  ph (run_state true ex_hist) 2 = Stopping /\ owned 1 (reg (run_state true ex_hist)) = [mkE 0 1 6].
Proof. exact ex_hist_events. Qed.
Print Assumptions ex_history.

(* a complete cycle with registrations of four classes (one made while stopping) ends idle with an empty registry:
   the hypothesis of registry_restored_after_stop / the Winding hypothesis of stopped_callback_cleans are reachable *)
Example ex_idle_after_full_cycle :
  let h := [Start 1 100; Add 0 1 1; Add 1 1 2; QStarted 1; Add 5 1 3; Stop 1; Add 3 1 4; QStopped 1; CbStopped 1] in
  ph (run_state true h) 1 = Idle /\ reg (run_state true h) = [] /\ length (proj 1 (run_events true h)) = 6%nat.
Proof. exact ex_idle_after_cycle. Qed.
Print Assumptions ex_idle_after_full_cycle.

(* ================================================================================================================
   The mode-device layer (Devices.v): one mode with its devices (shots / EnableDisableMixin devices), their
   registrations, the persisted enable flags and the delayed control events on Mode.delay.  A history is any list of
       DStart | DQStarted | DStop | DQStopped | DCbStopped   executions of the mode's lifecycle methods (any order)
     | DCtl d a      the control event of action a (enable / disable / restart / reset) of device d is POSTED
                     (before, during or after the mode's lifetime; redundant and repeated posts included)
     | DFire d a     the clock delivers a pending delayed control event
     | DHit d        a switch of shot d is activated
   for every configuration w (persist_enable, start_enabled, which control events are delayed, which ids are devices). *)

(* 5. sentence 3 of the property for the device layer: whenever the mode is idle again, no device is loaded, no handler
      of any device is registered (tracked or not), no delayed control event is pending and the mode's control-event
      handlers are gone - for every history, however many cycles, whatever was posted when. *)
Theorem dev_registry_restored :
  forall w h, dph (drun w h) = Idle ->
    (forall d, d_loaded (dvs (drun w h) d) = false /\ d_reg (dvs (drun w h) d) = 0 /\ d_trk (dvs (drun w h) d) = 0) /\
    dly (drun w h) = [] /\ hnd (drun w h) = false.
Proof. exact dev_registry_restored_l. Qed.
Print Assumptions dev_registry_restored.

(*    the reason: at every instant every registration of a device is tracked by the device's key list (so the
      removal reaches it), and there is exactly one while the device is loaded and enabled, none otherwise
      ("cumulative leak" excluded: redundant enable requests never add a second registration) *)
Theorem dev_registrations_tracked :
  forall w h d, let x := dvs (drun w h) d in
    d_reg x = d_trk x /\ d_reg x = (if d_loaded x && enabled (w_cfg w d) x then 1 else 0).
Proof. exact dev_registrations_tracked_l. Qed.
Print Assumptions dev_registrations_tracked.

(*    observable consequence: one switch activation hits an enabled shot exactly once and a disabled one never; a
      shot can only be enabled while its mode has it loaded *)
Theorem dev_one_hit_per_activation :
  forall w h d, snd (snd (dstep w (drun w h) (DHit d))) = (if enabled (w_cfg w d) (dvs (drun w h) d) then 1 else 0)
                /\ (enabled (w_cfg w d) (dvs (drun w h) d) = true -> d_loaded (dvs (drun w h) d) = true).
Proof. exact dev_one_hit_per_activation_l. Qed.
Print Assumptions dev_one_hit_per_activation.

(*    no control action ever reaches a device whose mode is gone (status 3 = the code would raise / act on a removed
      device): late control events find no handler, pending delays were cancelled by the stop *)
Theorem dev_actions_only_on_loaded :
  forall w h o, fst (snd (dstep w (drun w h) o)) <> 3.
Proof. exact dev_actions_only_on_loaded_l. Qed.
Print Assumptions dev_actions_only_on_loaded.

(*    a redundant request (enable / restart of an enabled device, disable of a disabled one) changes nothing, in any
      state (reachable or not) *)
Theorem dev_redundant_request_noop :
  forall w s d a, d_loaded (dvs s d) = true ->
    ((a = a_enable \/ a = a_restart) /\ enabled (w_cfg w d) (dvs s d) = true \/
     a = a_disable /\ is_disabled (w_cfg w d) (dvs s d) = true) ->
    let s' := fst (run_action w s d a) in
    (forall x, dvs s' x = dvs s x) /\ dly s' = dly s /\ dph s' = dph s /\ hnd s' = hnd s.
Proof. exact dev_redundant_request_noop_l. Qed.
Print Assumptions dev_redundant_request_noop.

(*    stop() cancels every pending delayed control event *)
Theorem dev_stop_cancels_delays :
  forall w h, dph (drun w h) = Active -> dly (fst (dstep w (drun w h) DStop)) = [].
Proof. exact dev_stop_cancels_delays_l. Qed.
Print Assumptions dev_stop_cancels_delays.

(*    the device layer refines the lifecycle model: its phase is the phase Model.v assigns to the mode under the same
      lifecycle operations (so theorems 1-4 apply to the mode of the device layer) *)
Theorem dev_lifecycle_refines :
  forall w m p h, dph (drun w h) = ph (run_state true (flat_map (lift m p) h)) m.
Proof. exact dev_lifecycle_refines_l. Qed.
Print Assumptions dev_lifecycle_refines.

(* a persisted shot with a delayed disable event and a non-persisted one with a delayed enable event: control events
   before the start find no handler, a redundant enable registers nothing new (one registration), the delays that are
   pending at the stop cannot fire afterwards (status 2), a request posted while the mode is stopping is dropped by the
   clean-up, the mode ends idle, the persisted flag survives and the raw one is reset *)
Example ex_device_cycle :
  dph (drun ex_world ex_dev_hist) = Idle /\
  map (fun o => fst (snd (dstep ex_world (drun ex_world (firstn 9 ex_dev_hist)) o))) [DFire 0 0] = [2] /\
  d_reg (dvs (drun ex_world (firstn 6 ex_dev_hist)) 0) = 1 /\
  dly (drun ex_world (firstn 8 ex_dev_hist)) = [(1, 1); (0, 0)] /\
  d_flag (dvs (drun ex_world ex_dev_hist) 0) = Some true /\ d_flag (dvs (drun ex_world ex_dev_hist) 1) = None.
Proof. exact ex_dev_cycle. Qed.
Print Assumptions ex_device_cycle.

(* ================================================================================================================
   ModeController._ball_ending / _ball_starting (Controller.v).  For every history h that led to the state in which the
   ball ends and every configuration c: after the controller's stop requests and the completions the bus delivers for
   them, every active game mode with stop_on_ball_end is Idle (hence, by registry_restored_after_stop, owns nothing),
   and every mode the controller does not stop keeps its phase. *)
Theorem ball_end_stops_game_modes :
  forall c h, let s := run_state true h in
  let l := ball_stop_list c (act s) in
  let s' := run_ops s (ball_ending c s ++ stop_completions l) in
  (forall m, In m (act s) -> mc_game (c m) = true -> mc_autostop (c m) = true -> ph s' m = Idle) /\
  (forall m, ~ In m l -> ph s' m = ph s m).
Proof. exact ball_end_stops_game_modes_l. Qed.
Print Assumptions ball_end_stops_game_modes.

(* at the next ball every remembered (restart_on_next_ball) mode that is idle is started, at its configured priority *)
Theorem ball_start_restarts_remembered_modes :
  forall c l s, NoDup l -> (forall m, In m l -> ph s m = Idle) ->
  forall m, In m l -> ph (run_ops s (ball_starting c l)) m = Starting /\ pri (run_ops s (ball_starting c l)) m = mc_prio (c m).
Proof. exact starts_take_effect. Qed.
Print Assumptions ball_start_restarts_remembered_modes.

(* three active modes (a non-game mode 3 at the top, game modes 1 and 2, 2 restarts): the ball end stops 1 and 2 in
   list order, leaves 3 active, remembers 2; the next ball starts 2 again *)
Example ex_ball_end :
  let c := fun m => if m =? 3 then mkMC false false false 300 else mkMC true true (m =? 2) (m * 100) in
  let h := [Start 1 100; Start 2 200; Start 3 300; QStarted 1; QStarted 2; QStarted 3] in
  let s := run_state true h in
  act s = [3; 2; 1] /\ ball_ending c s = [Stop 2; Stop 1] /\ ball_restart_list c (act s) = [2] /\
  let s' := run_ops s (ball_ending c s ++ stop_completions (ball_stop_list c (act s))) in
  act s' = [3] /\ ph s' 1 = Idle /\ ph (run_ops s' (ball_starting c [2])) 2 = Starting.
Proof. vm_compute. repeat split. Qed.
Print Assumptions ex_ball_end.

(* ---- round 4: what a mode owns in the switch controller and in its config players (Own.v) -------------------------------
   [orun stp h] is the state after history h of
       OStart | OQStarted | OStop | OQStopped | OCbStopped            (Mode methods, guards as in Model.v)
     | OReg ser key tracked t | OUnreg key                            (add / remove_switch_handler_obj; tracked = through the mode)
     | OChange sw st t | OFire sw t                                   (a switch changes; the timed-handler task of a switch wakes up)
     | OCall e live | ODone e                                         (config_play_callback from the live or a COPIED handler list;
                                                                       the wait_for event of a queue relay)
   for ANY set stp of callbacks that stop the mode when they are invoked (removal in the middle of the dispatch loops),
   any times t, any interleaving.  [oinvoked stp s h] = the switch callbacks invoked along h from s. *)

(* 3c. "Once a mode has stopped, every ... switch handler ... it registered is gone": for every history h1 in which callback cb
   was only ever registered through the mode (Mode.switch_handlers), if the mode is stopped after h1 then for EVERY continuation
   h2 that does not register cb again (switch changes at any time, wake-ups of the timed-handler task, other modes' and foreign
   registrations, further cycles of the mode) cb is never invoked - in particular not by a "held for ms" handler that was
   already counting when the mode stopped, whichever way it started counting (switch change or catch-up at registration). *)
Theorem mode_switch_handlers_never_fire_after_stop :
  forall stp cb h1 h2,
    forallb (fun o => negb (is_untracked_reg_of cb o)) h1 = true ->
    oph (orun stp h1) = Idle ->
    forallb (fun o => negb (is_reg_of cb o)) h2 = true ->
    ~ In cb (oinvoked stp (orun stp h1) h2).
Proof. exact never_fire_after_stop_l. Qed.
Print Assumptions mode_switch_handlers_never_fire_after_stop.

(* ... and the switch controller's tables hold nothing of it: Mode.switch_handlers is empty, no registered handler and no
   counting entry of _active_timed_switches carries a callback that was only registered through the mode *)
Theorem idle_mode_owns_no_switch_entry :
  forall stp cb h,
    forallb (fun o => negb (is_untracked_reg_of cb o)) h = true ->
    oph (orun stp h) = Idle ->
    trk (orun stp h) = [] /\
    (forall r, In r (regs (orun stp h)) -> k_cb (r_key r) <> cb) /\
    (forall c, In c (cnt (orun stp h)) -> k_cb (c_key c) <> cb).
Proof. exact idle_mode_owns_no_switch_entry_l. Qed.
Print Assumptions idle_mode_owns_no_switch_entry.

(* the invariant behind both (any owner, any state of the mode): every counting entry of the timed table belongs to a handler
   that is still registered with the same (callback, switch, state, ms) - removal covers both tables *)
Theorem counting_entries_belong_to_registered_handlers :
  forall stp h c, In c (cnt (orun stp h)) -> exists r, In r (regs (orun stp h)) /\ r_key r = c_key c.
Proof. exact counting_belongs_to_registered_l. Qed.
Print Assumptions counting_entries_belong_to_registered_handlers.

(* from ANY state that satisfies the invariant: a callback without a registration is not invoked until it is registered again
   (covers handlers of other owners removed through remove_switch_handler_by_key as well) *)
Theorem unregistered_callback_never_invoked :
  forall stp cb s h,
    (forall c, In c (cnt s) -> exists r, In r (regs s) /\ r_key r = c_key c) ->
    (forall r, In r (regs s) -> k_cb (r_key r) <> cb) ->
    forallb (fun o => negb (is_reg_of cb o)) h = true -> ~ In cb (oinvoked stp s h).
Proof. exact unregistered_never_invoked_l. Qed.
Print Assumptions unregistered_callback_never_invoked.

(* "... so the machine's registries are exactly what they were": the bulk removals of the mode touch nothing else - a registered
   handler or counting entry whose key is not in Mode.switch_handlers survives every lifecycle operation of the mode *)
Theorem mode_lifecycle_keeps_foreign_switch_handlers :
  forall stp s o,
    (o = OStop \/ o = OCbStopped \/ o = OStart \/ o = OQStopped \/ o = OQStarted) ->
    (forall r, In r (regs s) -> key_in (r_key r) (trk s) = false -> In r (regs (fst (ostep stp s o)))) /\
    (forall c, In c (cnt s) -> key_in (c_key c) (trk s) = false -> In c (cnt (fst (ostep stp s o)))).
Proof. exact stop_keeps_foreign_l. Qed.
Print Assumptions mode_lifecycle_keeps_foreign_switch_handlers.

(* 3d. config players: whenever the mode is not active (idle, starting, or _stopped has run) none of its queue-relay wait
   handlers is registered, and its player handlers are registered exactly while it is starting - for every history, including
   calls of config_play_callback from handler lists copied before the handlers were unloaded, at any time *)
Theorem stopped_mode_has_no_player_state :
  forall stp h, is_act (oph (orun stp h)) = false ->
    relay (orun stp h) = [] /\ loaded (orun stp h) = phase_eqb (oph (orun stp h)) Starting.
Proof. exact stopped_mode_has_no_player_state_l. Qed.
Print Assumptions stopped_mode_has_no_player_state.

(* nothing is ever played for a mode that is not active: every play along every history happened while _active was set *)
Theorem players_play_only_while_active :
  forall stp h e p, In (e, p) (oplayed stp oinit h) -> is_act p = true.
Proof. intros stp h e p. exact (oplayed_from stp h oinit e p). Qed.
Print Assumptions players_play_only_while_active.

(* a call from a stale (copied) handler list that reaches a mode which is not active changes nothing *)
Theorem stale_player_call_is_noop :
  forall stp s e, is_act (oph s) = false -> ostep stp s (OCall e false) = (s, (0, [], [])).
Proof. exact stale_call_noop_l. Qed.
Print Assumptions stale_player_call_is_noop.

(* satisfiability: callback 1 ("held 2 s", registered through the mode while switch 7 is already held: catch-up) and the foreign
   callback 100 with the same parameters are both counting; the mode stops; at the deadline only 100 is invoked; the relay
   handler registered by the play at step 6 is gone, the stale call at the end plays nothing *)
Example ex_owned_switch_and_player_state :
  oph (orun (fun _ => false) ex_own_hist) = Idle /\
  map c_dl (cnt (orun (fun _ => false) (firstn 5 ex_own_hist))) = [3000000; 3000000] /\
  map (fun c => k_cb (c_key c)) (cnt (orun (fun _ => false) ex_own_hist)) = [100] /\
  oinvoked (fun _ => false) (orun (fun _ => false) ex_own_hist) [OFire 7 3000000] = [100] /\
  relay (orun (fun _ => false) (firstn 6 ex_own_hist)) = [2] /\
  oplayed (fun _ => false) oinit ex_own_hist = [(2, Active)].
Proof. exact ex_own. Qed.
Print Assumptions ex_owned_switch_and_player_state.

(* a callback that stops its own mode from inside _call_handlers: the mode's later handler for the same switch is skipped *)
Example ex_stop_from_switch_callback :
  oinvoked (fun cb => cb =? 1) oinit
    [OStart; OQStarted; OReg 1 (mkK 1 7 1 0) true 0; OReg 2 (mkK 2 7 1 0) true 0; OReg 3 (mkK 100 7 1 0) false 0;
     OChange 7 1 1000000] = [1; 100].
Proof. exact ex_own_stopper. Qed.
Print Assumptions ex_stop_from_switch_callback.

(* ---- Finding 7 (third pass): the mode_start() hook and the callbacks of mode_<m>_started ------------------------------------
   Full statement (sentence 1 of the property, "one start = one run of the start sequence"): the hook runs exactly once per
   stopped -> active transition.  The code as found runs it once per DELIVERED callback of mode_<m>_started while the mode is
   active (start_hook_once_per_start_refuted below, replay corpus/C07/life.12.json).  The model (fx = true) describes the tree with
   fixes/C07-stale-started-callback.patch: Mode._start_hook_pending, set by _started, cleared by the hook run and by _stopped. *)

(* AT MOST ONCE, from ANY state and for ANY continuation: once the hook has run, no delivery of a started-callback of that mode
   runs it again before _started runs again - no assumption about how many callbacks are outstanding, in which order they are
   delivered, or what else happens in between (other modes, stops, restarts that are still starting, registrations). *)
Theorem start_hook_once_per_start : forall s m h,
  r_status (snd (step true s (CbStarted m))) = 1 ->
  ~ In (QStarted m) h ->
  r_status (snd (step true (fst (run_from true (fst (step true s (CbStarted m))) h)) (CbStarted m))) = 0.
Proof. exact start_hook_once_per_start_l. Qed.
Print Assumptions start_hook_once_per_start.

(* AT LEAST ONCE, up to delivery (the bus is C02's): after an accepted _started the first started-callback delivered before the
   mode's _stopped runs the hook, whatever happened in between, and the mode is in active_modes at that moment. *)
Theorem started_mode_gets_hook_if_delivered : forall h0 m h,
  ph (run_state true h0) m = Starting ->
  ~ In (CbStarted m) h -> ~ In (QStopped m) h ->
  let s2 := fst (run_from true (fst (step true (run_state true h0) (QStarted m))) h) in
  r_status (snd (step true s2 (CbStarted m))) = 1 /\ is_act (ph s2 m) = true.
Proof. exact started_mode_gets_hook_l. Qed.
Print Assumptions started_mode_gets_hook_if_delivered.

(* the hook never runs on a mode that is not in active_modes ... *)
Theorem start_hook_only_on_active_mode : forall h m,
  r_status (snd (step true (run_state true h) (CbStarted m))) = 1 -> is_act (ph (run_state true h) m) = true.
Proof. exact hook_only_on_active_l. Qed.
Print Assumptions start_hook_only_on_active_mode.

(* ... and a started-callback that finds its mode stopped, winding up or starting again changes NOTHING (in particular it does
   not touch what the current start set up) *)
Theorem stale_started_callback_is_noop : forall h m,
  is_act (ph (run_state true h) m) = false ->
  step true (run_state true h) (CbStarted m) = (run_state true h, mkR 0 []).
Proof. exact stale_started_callback_noop_l. Qed.
Print Assumptions stale_started_callback_is_noop.

(* _mode_started_callback never changes a phase, a priority, active_modes or the registry (either version of the code) *)
Theorem started_callback_frame : forall fx s m,
  let s' := fst (step fx s (CbStarted m)) in ph s' = ph s /\ pri s' = pri s /\ act s' = act s /\ reg s' = reg s.
Proof. exact cbstarted_frame. Qed.
Print Assumptions started_callback_frame.

(* satisfiability: the history of finding 7 - two callbacks outstanding after stop + restart.  Fixed code: the first delivered
   callback runs the hook, the second does not; a stop request, a callback while stopping / winding / starting again do not; the
   next _started makes it due once more. *)
Example ex_start_hook_once :
  ph (run_state true ex_stale_started_hist) 0 = Active /\
  statuses true (run_state true ex_stale_started_hist)
    [CbStarted 0; CbStarted 0; Stop 0; CbStarted 0; QStopped 0; Start 0 10; CbStarted 0; QStarted 0; CbStarted 0; CbStarted 0]
    = [1; 0; 1; 0; 1; 1; 0; 1; 1; 0] /\
  statuses true (run_state true (firstn 4 ex_stale_started_hist)) [CbStarted 0] = [0].
Proof. exact ex_hook_once. Qed.
Print Assumptions ex_start_hook_once.

(* the code as found (fx = false; replayed on /repo HEAD 58472c5 by corpus/C07/life.12.json): after  start, started, stop, stopped,
   clean-up, start, started  BOTH outstanding callbacks run the hook, because _mode_started_callback only looked at _active. *)
Theorem start_hook_once_per_start_refuted :
  exists h m, let s := run_state false h in
    ph s m = Active /\
    proj m (run_events false h) = [0; 1; 2; 3; 4; 5; 0; 1; 2] /\
    r_status (snd (step false s (CbStarted m))) = 1 /\
    r_status (snd (step false (fst (step false s (CbStarted m))) (CbStarted m))) = 1.
Proof. exact start_hook_once_refuted_l. Qed.
Print Assumptions start_hook_once_per_start_refuted.
