(* C12/FloatLemmas.v — the binary64 rounding model has relative error <= 2^-53, and what that implies
   for the TRANSLATED time-string arithmetic int(round(float(x) * k1 [* k2])).                      *)
From Common Require Import Prelude.
From Coq Require Import QArith Qround Qabs Lqa.
From C12 Require Import Base.
Open Scope Q_scope.

Definition U : Q := 1 # 9007199254740992.       (* 2^-53 *)

Lemma two_pow_pos e : 0 < two_pow e.
Proof.
  unfold two_pow. destruct (0 <=? e)%Z eqn:E.
  - apply Z.leb_le in E. change 0 with (inject_Z 0). rewrite <- Zlt_Qlt. apply Z.pow_pos_nonneg; lia.
  - unfold Qlt. simpl. lia.
Qed.

Lemma floor_bounds q : inject_Z (Qfloor q) <= q /\ q < inject_Z (Qfloor q) + 1.
Proof.
  split; [apply Qfloor_le|]. pose proof (Qlt_floor q) as H. rewrite inject_Z_plus in H. exact H.
Qed.

Lemma rhe_err q : Qabs (inject_Z (round_half_even q) - q) <= 1 # 2.
Proof.
  destruct (floor_bounds q) as [H1 H2]. unfold round_half_even.
  set (f := Qfloor q) in *. apply Qabs_Qle_condition.
  destruct (Qcompare (q - inject_Z f) (1 # 2)) eqn:C.
  - apply Qeq_alt in C. destruct (Z.even f); [|rewrite inject_Z_plus; change (inject_Z 1) with 1];
      split; lra.
  - apply Qlt_alt in C. split; lra.
  - apply Qgt_alt in C. rewrite inject_Z_plus. change (inject_Z 1) with 1. split; lra.
Qed.

Lemma injZ_pm1 n : inject_Z (n - 1) == inject_Z n - 1 /\ inject_Z (n + 1) == inject_Z n + 1.
Proof. unfold Qeq, Qminus, Qplus, Qopp, inject_Z. simpl. split; lia. Qed.

(* a value within 1/2 of an integer rounds to it *)
Lemma rhe_near q n : Qabs (q - inject_Z n) < 1 # 2 -> round_half_even q = n.
Proof.
  intro H. apply Qabs_Qlt_condition in H as [Ha Hb].
  destruct (floor_bounds q) as [H1 H2]. unfold round_half_even. set (f := Qfloor q) in *.
  destruct (injZ_pm1 n) as [Em Ep].
  assert (Hf1 : (f < n + 1)%Z) by (rewrite Zlt_Qlt, Ep; lra).
  assert (Hf2 : (n - 1 < f + 1)%Z).
  { rewrite Zlt_Qlt, Em. destruct (injZ_pm1 f) as [_ Ef]. rewrite Ef. lra. }
  assert (Hc : f = n \/ f = (n - 1)%Z) by lia.
  destruct Hc as [E|E].
  - destruct (Qcompare (q - inject_Z f) (1 # 2)) eqn:C.
    + apply Qeq_alt in C. rewrite E in C. lra.
    + exact E.
    + apply Qgt_alt in C. rewrite E in C. lra.
  - destruct (Qcompare (q - inject_Z f) (1 # 2)) eqn:C.
    + apply Qeq_alt in C. rewrite E, Em in C. lra.
    + apply Qlt_alt in C. rewrite E, Em in C. lra.
    + lia.
Qed.

Lemma try_exp_err a e r : 0 < a -> try_exp a e = Some r -> Qabs (r - a) <= a * U.
Proof.
  intros Ha. unfold try_exp. set (t := two_pow e). set (x := a / t).
  destruct ((2 ^ 52 <=? Qfloor x)%Z && (Qfloor x <? 2 ^ 53)%Z) eqn:B; [|intro H; discriminate H].
  intro H. inversion H; subst r. clear H.
  apply andb_true_iff in B as [B1 _]. apply Z.leb_le in B1.
  assert (Ht : 0 < t) by apply two_pow_pos.
  assert (Hx : a == x * t) by (unfold x; field; lra).
  assert (Hm : inject_Z (2 ^ 52) <= x).
  { apply Qle_trans with (inject_Z (Qfloor x)); [rewrite <- Zle_Qle; exact B1|apply Qfloor_le]. }
  change (inject_Z (2 ^ 52)) with (4503599627370496 # 1) in Hm.
  pose proof (rhe_err x) as He. apply Qabs_Qle_condition in He as [He1 He2].
  set (u := inject_Z (round_half_even x)) in *.
  apply Qabs_Qle_condition. rewrite Hx. unfold U. split; nra.
Qed.

Lemma rnd53_pos_err a : 0 < a -> Qabs (rnd53_pos a - a) <= a * U.
Proof.
  intro Ha. unfold rnd53_pos.
  set (e0 := (Z.log2 (Qnum a) - Z.log2 (Z.pos (Qden a)) - 52)%Z).
  destruct (try_exp a e0) as [r|] eqn:E0; [apply (try_exp_err _ _ _ Ha E0)|].
  destruct (try_exp a (e0 - 1)) as [r|] eqn:E1; [apply (try_exp_err _ _ _ Ha E1)|].
  destruct (try_exp a (e0 + 1)) as [r|] eqn:E2; [apply (try_exp_err _ _ _ Ha E2)|].
  apply Qabs_Qle_condition. unfold U. split; lra.
Qed.

(* IEEE round-to-nearest: relative error at most 2^-53 (normal range; see Base.v) *)
Lemma rnd53_err q : Qabs (rnd53 q - q) <= Qabs q * U.
Proof.
  unfold rnd53. destruct (Qcompare q 0) eqn:C.
  - apply Qeq_alt in C. rewrite C. vm_compute. discriminate.
  - apply Qlt_alt in C. assert (Hn : 0 < - q) by lra.
    pose proof (rnd53_pos_err _ Hn) as H. apply Qabs_Qle_condition in H as [H1 H2].
    rewrite (Qabs_neg q) by lra. apply Qabs_Qle_condition. split; lra.
  - apply Qgt_alt in C. pose proof (rnd53_pos_err _ C) as H.
    rewrite (Qabs_pos q) by lra. exact H.
Qed.

(* ---- fnum / fmul on values in a comfortable range ---------------------------------------------- *)
Definition LO : Q := 1 # 100000000000.
Definition HI : Q := 1152921504606846976 # 1.     (* 2^60 *)

Lemma in_range_mid q : LO <= q -> q <= HI -> in_fl_range q = true.
Proof.
  intros H1 H2. unfold in_fl_range.
  assert (Hq : 0 <= q) by (unfold LO in H1; lra).
  apply andb_true_iff; split.
  - apply Qle_bool_iff. rewrite (Qabs_pos q Hq).
    apply Qle_trans with LO; [|exact H1]. vm_compute. discriminate.
  - apply negb_true_iff. destruct (Qle_bool (two_pow 1000) (Qabs q)) eqn:E; [|reflexivity].
    apply Qle_bool_iff in E. rewrite (Qabs_pos q Hq) in E.
    assert (HH : HI < two_pow 1000) by (vm_compute; reflexivity). lra.
Qed.

Lemma fnum_mid q : LO <= q -> q <= HI ->
  exists y, fnum q = FNum y /\ q - q * U <= y /\ y <= q + q * U.
Proof.
  intros H1 H2. unfold fnum.
  assert (Hq : 0 < q) by (unfold LO in H1; lra).
  destruct (Qeq_bool q 0) eqn:E; [apply Qeq_bool_iff in E; lra|].
  rewrite (in_range_mid _ H1 H2). exists (Qred (rnd53 q)). split; [reflexivity|].
  rewrite (Qred_correct (rnd53 q)).
  pose proof (rnd53_err q) as H. rewrite (Qabs_pos q) in H by lra.
  apply Qabs_Qle_condition in H as [Ha Hb]. split; lra.
Qed.

Lemma fnum_zero q : q == 0 -> fnum q = FNum 0.
Proof. intro H. unfold fnum. apply Qeq_bool_iff in H. rewrite H. reflexivity. Qed.

Lemma injZ_zero n : inject_Z n == 0 -> n = 0%Z.
Proof. unfold Qeq, inject_Z. simpl. lia. Qed.

Lemma injZ_ge1 n : 0 < inject_Z n -> 1 <= inject_Z n.
Proof.
  intro H. change 0 with (inject_Z 0) in H. rewrite <- Zlt_Qlt in H.
  change 1 with (inject_Z 1). rewrite <- Zle_Qle. lia.
Qed.

(* one multiplication:  int(round(float(x) * k))  for a decimal x with x*k a whole number N < 2^49 *)
Lemma chain1 (k : Z) (kq : Q) x N :
  fl_of_Z k = FNum kq -> 1 <= kq -> kq <= 100000000 # 1 ->
  0 <= x -> x * kq == inject_Z N -> (N < 2 ^ 49)%Z ->
  r_id (r_round (r_fmul (Ok (fnum x)) k)) = Ok N.
Proof.
  intros Hk Hk1 Hk2 Hx0 HN Hlt. unfold r_id, r_round, r_fmul. cbn [bindR]. rewrite Hk.
  assert (HltQ : inject_Z N < 562949953421312 # 1)
    by (change (562949953421312 # 1) with (inject_Z (2 ^ 49)); rewrite <- Zlt_Qlt; exact Hlt).
  destruct (Qeq_bool x 0) eqn:E0.
  - apply Qeq_bool_iff in E0. rewrite (fnum_zero _ E0). cbn [fmul].
    assert (Hz : 0 * kq == 0) by ring. rewrite (fnum_zero _ Hz). cbn [bindR py_round_fl].
    rewrite E0 in HN. assert (N = 0%Z) by (apply injZ_zero; rewrite <- HN; ring). subst N. reflexivity.
  - assert (Hxp : 0 < x).
    { destruct (Qlt_le_dec 0 x) as [L|L]; [exact L|]. assert (x == 0) by lra.
      apply Qeq_bool_iff in H. rewrite H in E0. discriminate E0. }
    assert (HNp : 1 <= inject_Z N) by (apply injZ_ge1; rewrite <- HN; nra).
    assert (Hxlo : LO <= x) by (unfold LO; nra).
    assert (Hxhi : x <= HI) by (unfold HI; nra).
    destruct (fnum_mid x Hxlo Hxhi) as [y0 [E1 [B1 B2]]]. rewrite E1. cbn [fmul].
    unfold U in *.
    assert (Hp1 : LO <= y0 * kq) by (unfold LO; nra).
    assert (Hp2 : y0 * kq <= HI) by (unfold HI; nra).
    destruct (fnum_mid _ Hp1 Hp2) as [y1 [E2 [C1 C2]]]. rewrite E2. cbn [bindR py_round_fl].
    f_equal. apply rhe_near. apply Qabs_Qlt_condition. unfold U in *. split; nra.
Qed.

(* two multiplications:  int(round(float(x) * k1 * k2)) *)
Lemma chain2 (k1 k2 : Z) (q1 q2 : Q) x N :
  fl_of_Z k1 = FNum q1 -> fl_of_Z k2 = FNum q2 ->
  1 <= q1 -> q1 <= 100000 # 1 -> 1 <= q2 -> q2 <= 1000 # 1 ->
  0 <= x -> x * q1 * q2 == inject_Z N -> (N < 2 ^ 49)%Z ->
  r_id (r_round (r_fmul (r_fmul (Ok (fnum x)) k1) k2)) = Ok N.
Proof.
  intros Hk1 Hk2 Ha1 Ha2 Hb1 Hb2 Hx0 HN Hlt. unfold r_id, r_round, r_fmul. cbn [bindR]. rewrite Hk1, Hk2.
  assert (HltQ : inject_Z N < 562949953421312 # 1)
    by (change (562949953421312 # 1) with (inject_Z (2 ^ 49)); rewrite <- Zlt_Qlt; exact Hlt).
  destruct (Qeq_bool x 0) eqn:E0.
  - apply Qeq_bool_iff in E0. rewrite (fnum_zero _ E0). cbn [fmul].
    assert (Hz : 0 * q1 == 0) by ring. rewrite (fnum_zero _ Hz). cbn [fmul bindR].
    assert (Hz2 : 0 * q2 == 0) by ring. rewrite (fnum_zero _ Hz2). cbn [bindR py_round_fl].
    rewrite E0 in HN. assert (N = 0%Z) by (apply injZ_zero; rewrite <- HN; ring). subst N. reflexivity.
  - assert (Hxp : 0 < x).
    { destruct (Qlt_le_dec 0 x) as [L|L]; [exact L|]. assert (x == 0) by lra.
      apply Qeq_bool_iff in H. rewrite H in E0. discriminate E0. }
    assert (HNp : 1 <= inject_Z N)
      by (apply injZ_ge1; rewrite <- HN; apply Qmult_lt_0_compat; [apply Qmult_lt_0_compat|]; lra).
    set (z := x * q1) in *.
    assert (Hz1 : x <= z) by (unfold z; nra).
    assert (Hz2 : z <= x * (100000 # 1)) by (unfold z; nra).
    assert (Hzq : 1 <= z * q2) by (rewrite HN; exact HNp).
    assert (Hzlo : 1 # 1000 <= z) by nra.
    assert (Hxlo : LO <= x) by (unfold LO; nra).
    assert (Hzhi : z <= 562949953421312 # 1) by nra.
    assert (Hxhi : x <= HI) by (unfold HI; nra).
    destruct (fnum_mid x Hxlo Hxhi) as [y0 [E1 [B1 B2]]]. rewrite E1. cbn [fmul].
    unfold U in *.
    assert (Hy0 : z - z * (1 # 9007199254740992) <= y0 * q1 /\ y0 * q1 <= z + z * (1 # 9007199254740992))
      by (unfold z; split; nra).
    destruct Hy0 as [Hy0a Hy0b].
    assert (Hp1 : LO <= y0 * q1) by (unfold LO; nra).
    assert (Hp2 : y0 * q1 <= HI) by (unfold HI; nra).
    destruct (fnum_mid _ Hp1 Hp2) as [y1 [E2 [C1 C2]]]. rewrite E2. cbn [fmul bindR].
    unfold U in *. set (w := y0 * q1) in *.
    assert (Hy1 : z - z * (3 # 9007199254740992) <= y1 /\ y1 <= z + z * (3 # 9007199254740992)) by (split; nra).
    destruct Hy1 as [Hy1a Hy1b].
    assert (Hw : inject_Z N - inject_Z N * (3 # 9007199254740992) <= y1 * q2 /\
                 y1 * q2 <= inject_Z N + inject_Z N * (3 # 9007199254740992)).
    { rewrite <- HN. split; nra. }
    destruct Hw as [Hwa Hwb].
    assert (Hq1 : LO <= y1 * q2) by (unfold LO; nra).
    assert (Hq2 : y1 * q2 <= HI) by (unfold HI; nra).
    destruct (fnum_mid _ Hq1 Hq2) as [y2 [E3 [D1 D2]]]. rewrite E3. cbn [bindR py_round_fl].
    f_equal. apply rhe_near. apply Qabs_Qlt_condition. unfold U in *. set (v := y1 * q2) in *. split; nra.
Qed.

(* ---- the same chains when x*k is NOT a whole number: the result is within 3/4 of the exact product, i.e. it is
   one of the two integers nearest to it (1/2 from round(), < 1/4 from at most three binary64 roundings below 2^49) *)
Definition XLO : Q := 1 # 1000000000.
Definition P49 : Q := 562949953421312 # 1.

Lemma mul_le_l a b k : 0 <= k -> a <= b -> a * k <= b * k.
Proof. intros. apply Qmult_le_compat_r; assumption. Qed.

Lemma chain1f (k : Z) (kq : Q) x :
  fl_of_Z k = FNum kq -> 1 <= kq -> kq <= 100000000 # 1 ->
  (x == 0 \/ XLO <= x) -> x * kq < P49 ->
  exists N, r_id (r_round (r_fmul (Ok (fnum x)) k)) = Ok N /\ Qabs (inject_Z N - x * kq) <= 3 # 4.
Proof.
  intros Hk Hk1 Hk2 Hx Hlt. unfold r_id, r_round, r_fmul. cbn [bindR]. rewrite Hk. unfold XLO, P49 in *.
  destruct Hx as [E0|Hlo].
  - rewrite (fnum_zero _ E0). cbn [fmul].
    assert (Hz : 0 * kq == 0) by ring. rewrite (fnum_zero _ Hz). cbn [bindR py_round_fl].
    exists (round_half_even 0). split; [reflexivity|].
    setoid_replace (inject_Z (round_half_even 0) - x * kq) with 0 by (rewrite E0; vm_compute; reflexivity).
    vm_compute. discriminate.
  - assert (Hk0 : 0 <= kq) by lra.
    assert (Ht1 : x * 1 <= x * kq) by (rewrite !(Qmult_comm x); apply mul_le_l; lra).
    assert (Hxlo : LO <= x) by (unfold LO; lra).
    assert (Hxhi : x <= HI) by (unfold HI; lra).
    destruct (fnum_mid x Hxlo Hxhi) as [y0 [E1 [B1 B2]]]. rewrite E1. cbn [fmul].
    unfold U in *.
    pose proof (mul_le_l _ _ kq Hk0 B1) as Hwa. pose proof (mul_le_l _ _ kq Hk0 B2) as Hwb.
    assert (Ea : (x - x * (1 # 9007199254740992)) * kq == x * kq - x * kq * (1 # 9007199254740992)) by ring.
    assert (Eb : (x + x * (1 # 9007199254740992)) * kq == x * kq + x * kq * (1 # 9007199254740992)) by ring.
    rewrite Ea in Hwa. rewrite Eb in Hwb. clear Ea Eb.
    set (t := x * kq) in *. set (w := y0 * kq) in *.
    assert (Hp1 : LO <= w) by (unfold LO; lra).
    assert (Hp2 : w <= HI) by (unfold HI; lra).
    destruct (fnum_mid _ Hp1 Hp2) as [y1 [E2 [C1 C2]]]. rewrite E2. cbn [bindR py_round_fl].
    unfold U in *.
    exists (round_half_even y1). split; [reflexivity|].
    pose proof (rhe_err y1) as He. apply Qabs_Qle_condition in He as [He1 He2].
    set (n := inject_Z (round_half_even y1)) in *.
    apply Qabs_Qle_condition. split; lra.
Qed.

Lemma chain2f (k1 k2 : Z) (q1 q2 : Q) x :
  fl_of_Z k1 = FNum q1 -> fl_of_Z k2 = FNum q2 ->
  1 <= q1 -> q1 <= 100000 # 1 -> 1 <= q2 -> q2 <= 1000 # 1 ->
  (x == 0 \/ XLO <= x) -> x * q1 * q2 < P49 ->
  exists N, r_id (r_round (r_fmul (r_fmul (Ok (fnum x)) k1) k2)) = Ok N /\
            Qabs (inject_Z N - x * q1 * q2) <= 3 # 4.
Proof.
  intros Hk1 Hk2 Ha1 Ha2 Hb1 Hb2 Hx Hlt. unfold r_id, r_round, r_fmul. cbn [bindR]. rewrite Hk1, Hk2.
  unfold XLO, P49 in *.
  destruct Hx as [E0|Hlo].
  - rewrite (fnum_zero _ E0). cbn [fmul].
    assert (Hz : 0 * q1 == 0) by ring. rewrite (fnum_zero _ Hz). cbn [fmul bindR].
    assert (Hz2 : 0 * q2 == 0) by ring. rewrite (fnum_zero _ Hz2). cbn [bindR py_round_fl].
    exists (round_half_even 0). split; [reflexivity|].
    setoid_replace (inject_Z (round_half_even 0) - x * q1 * q2) with 0 by (rewrite E0; vm_compute; reflexivity).
    vm_compute. discriminate.
  - assert (Hq10 : 0 <= q1) by lra. assert (Hq20 : 0 <= q2) by lra.
    assert (Ht1 : x * 1 <= x * q1) by (rewrite !(Qmult_comm x); apply mul_le_l; lra).
    assert (Ht2 : x * q1 * 1 <= x * q1 * q2).
    { rewrite !(Qmult_comm (x * q1)). apply mul_le_l; [|lra]. lra. }
    assert (Hxlo : LO <= x) by (unfold LO; lra).
    assert (Hxhi : x <= HI) by (unfold HI; lra).
    destruct (fnum_mid x Hxlo Hxhi) as [y0 [E1 [B1 B2]]]. rewrite E1. cbn [fmul].
    unfold U in *.
    pose proof (mul_le_l _ _ q1 Hq10 B1) as Hwa. pose proof (mul_le_l _ _ q1 Hq10 B2) as Hwb.
    assert (Ea : (x - x * (1 # 9007199254740992)) * q1 == x * q1 - x * q1 * (1 # 9007199254740992)) by ring.
    assert (Eb : (x + x * (1 # 9007199254740992)) * q1 == x * q1 + x * q1 * (1 # 9007199254740992)) by ring.
    rewrite Ea in Hwa. rewrite Eb in Hwb. clear Ea Eb.
    set (z := x * q1) in *. set (w := y0 * q1) in *.
    assert (Hp1 : LO <= w) by (unfold LO; lra).
    assert (Hp2 : w <= HI) by (unfold HI; lra).
    destruct (fnum_mid _ Hp1 Hp2) as [y1 [E2 [C1 C2]]]. rewrite E2. cbn [fmul bindR].
    unfold U in *.
    assert (Hy1a : z - z * (21 # 90071992547409920) <= y1) by lra.
    assert (Hy1b : y1 <= z + z * (21 # 90071992547409920)) by lra.
    pose proof (mul_le_l _ _ q2 Hq20 Hy1a) as Hva. pose proof (mul_le_l _ _ q2 Hq20 Hy1b) as Hvb.
    assert (Ec : (z - z * (21 # 90071992547409920)) * q2 == z * q2 - z * q2 * (21 # 90071992547409920)) by ring.
    assert (Ed : (z + z * (21 # 90071992547409920)) * q2 == z * q2 + z * q2 * (21 # 90071992547409920)) by ring.
    rewrite Ec in Hva. rewrite Ed in Hvb. clear Ec Ed.
    set (t := z * q2) in *. set (v := y1 * q2) in *.
    assert (Hq1 : LO <= v) by (unfold LO; lra).
    assert (Hq2 : v <= HI) by (unfold HI; lra).
    destruct (fnum_mid _ Hq1 Hq2) as [y2 [E3 [D1 D2]]]. rewrite E3. cbn [bindR py_round_fl].
    unfold U in *.
    exists (round_half_even y2). split; [reflexivity|].
    pose proof (rhe_err y2) as He. apply Qabs_Qle_condition in He as [He1 He2].
    set (n := inject_Z (round_half_even y2)) in *.
    apply Qabs_Qle_condition. split; lra.
Qed.
