(* C12/Ext.v — second layer of the hand model of mpf/core/config_validator.py: the validators that Model.v answers
   with EUnsup (`color`, `color_or_token`, `kivycolor`, `int_from_hex`, `dict(k:v)`, `subconfig(section[,bases])`),
   the item types over them, and the RECURSIVE section validation `_validate_config`: the recursion target of
   `_validate_type_subconfig` and of nested list-of-dict sub-sections, with the unknown-key check
   (`check_for_invalid_sections`) INSIDE the recursive function, i.e. at every nesting depth.

   The recursion through the spec store is general (a sub-section may name any section): it is modelled with fuel,
   `vcfg (S f)` calls `vcfg f` for every sub-config.  Running out of fuel is EUnsup (never equal to an observation).
   The named colours are TRANSLATED from mpf/core/rgb_color.py (gen/Colors.v).  Definitions only.            *)
From Common Require Import Prelude.
From Coq Require Import QArith.
From C12 Require Import Base Model.
From C12.gen Require Import Time Colors.
Open Scope Z_scope.

Definition n_color : str := [99;111;108;111;114].
Definition n_color_or_token : str := [99;111;108;111;114;95;111;114;95;116;111;107;101;110].
Definition n_kivycolor : str := [107;105;118;121;99;111;108;111;114].
Definition n_int_from_hex : str := [105;110;116;95;102;114;111;109;95;104;101;120].
Definition n_subconfig : str := [115;117;98;99;111;110;102;105;103].

(* ---- hexadecimal text ------------------------------------------------------------------------------- *)
Definition hexval (c : Z) : option Z :=
  if is_digit c then Some (c - 48)
  else if (97 <=? c) && (c <=? 102) then Some (c - 87)
  else if (65 <=? c) && (c <=? 70) then Some (c - 55)
  else None.
Definition is_hexd (c : Z) : bool := match hexval c with Some _ => true | None => false end.
Definition hexv (c : Z) : Z := match hexval c with Some v => v | None => 0 end.
Definition hex_int (s : str) : Z := fold_left (fun a c => a * 16 + hexv c) s 0.

(* Util.is_hex_string: hex_matcher = "(?:[a-fA-F0-9]{6,8})", fullmatch *)
Definition is_hex_string (s : str) : bool :=
  forallb is_hexd s && (6 <=? Z.of_nat (length s)) && (Z.of_nat (length s) <=? 8).

(* int(text, 16): strip, sign, optional 0x / 0X (one '_' may follow the prefix), hex digits with single '_' between *)
Fixpoint scan_hex (s : str) : list Z * str :=
  match s with
  | [] => ([], [])
  | c :: t =>
      if is_hexd c then
        match t with
        | u :: ((c2 :: _) as t2) =>
            if (u =? 95) && is_hexd c2
            then let '(ds, r) := scan_hex t2 in (hexv c :: ds, r)
            else let '(ds, r) := scan_hex t in (hexv c :: ds, r)
        | _ => let '(ds, r) := scan_hex t in (hexv c :: ds, r)
        end
      else ([], s)
  end.

Definition parse_int16 (s0 : str) : option Z :=
  let '(neg, s) := scan_sign (strip s0) in
  let s1 := match s with
            | 48 :: x :: t => if (x =? 120) || (x =? 88)
                              then match t with 95 :: t' => t' | _ => t end
                              else s
            | _ => s
            end in
  let '(ds, r) := scan_hex s1 in
  if is_nil ds || negb (is_nil r) then None
  else let v := fold_left (fun a d => a * 16 + d) ds 0 in Some (if neg then - v else v).

(* _validate_type_int_from_hex / Util.hex_string_to_int(item, maxvalue=255) *)
Definition v_int_from_hex (item : yv) : result yv :=
  match py_str item with
  | None => Err EUnsup
  | Some s => match parse_int16 s with
              | Some z => Ok (YInt (if 255 <? z then 255 else z))
              | None => Err (ECfg 5)
              end
  end.

(* ---- colours ---------------------------------------------------------------------------------------- *)
Definition named_color (s : str) : option (Z * Z * Z) := assoc_z s named_colors.

(* re.split('([0-9a-f]{2})', s) without the empty strings, for a string of hex digits *)
Fixpoint pairs (s : str) : list str :=
  match s with
  | a :: b :: t => [a; b] :: pairs t
  | [a] => [[a]]
  | [] => []
  end.

(* color[i] = int(x) / 255   (x an int, or an element of Util.string_to_list(text): a string or None) *)
Definition kivy_comp (x : yv) : result yv :=
  bindR (match x with
         | YInt z => Ok z
         | YStr s => match parse_int s with Some z => Ok z | None => Err (ECfg 5) end
         | YNone => Err EType                                 (* int(None): TypeError is not caught *)
         | _ => Err EUnsup
         end)
  (fun z => let f := fnum (inject_Z z / inject_Z 255)%Q in
            if fl_has_bad f then Err EUnsup else Ok (YFloat f [])).

Definition is_paren (s : str) : bool := starts_with s [40] && ends_with s [41].

(* _validate_type_kivycolor *)
Definition v_kivycolor (item : yv) : result yv :=
  if negb (truthy item) then Ok YNone
  else match py_str item with
       | None => Err EUnsup
       | Some s0 =>
           let s := lower s0 in
           if is_paren s then Ok (YStr s)
           else
             bindR (match named_color s with
                    | Some (r, g, b) => Ok [YInt r; YInt g; YInt b]
                    | None => if is_hex_string s then Ok (map (fun p => YInt (hex_int p)) (pairs s))
                              else string_to_list (YStr s)
                    end)
             (fun comps => bindR (map_result kivy_comp comps) (fun fs =>
                Ok (YList (if (length fs =? 3)%nat then fs ++ [YInt 1] else fs))))
       end.

Definition color_comp (l : list yv) (i : nat) : result yv :=
  match nth_error l i with
  | None => Err (ECfg 5)                                       (* IndexError is caught *)
  | Some (YStr s) => match parse_int s with Some z => Ok (YInt z) | None => Err (ECfg 5) end
  | Some YNone => Err EType
  | Some _ => Err EUnsup
  end.

(* _validate_type_color; the (r, g, b) tuple is written as a YList of three YInt *)
Definition v_color (param : option str) (item : yv) : result yv :=
  if negb (assert_no_param param) then Err EAssert
  else match py_str item with
       | None => Err EUnsup
       | Some s =>
           match named_color s with
           | Some (r, g, b) => Ok (YList [YInt r; YInt g; YInt b])
           | None =>
               if is_hex_string s                               (* RGBColor.hex_to_rgb: n = len // 3 = 2 *)
               then Ok (YList [YInt (hex_int (firstn 2 s)); YInt (hex_int (firstn 2 (skipn 2 s)));
                               YInt (hex_int (firstn 2 (skipn 4 s)))])
               else bindR (string_to_list (YStr s)) (fun l =>
                    bindR (color_comp l 0) (fun r => bindR (color_comp l 1) (fun g =>
                    bindR (color_comp l 2) (fun b => Ok (YList [r; g; b])))))
           end
       end.

(* ---- generic item types over an item validator vi: (key path is all strings?) -> validator -> item ----- *)
(* pstate = (is the last element of the validation path a string?, is the one before it a string?).
   check_for_invalid_sections builds its message from validation_failure_info.parent.item.split(':') and
   ':'.join([..., validation_failure_info.item, key]): under a non-string dict key (`dict|int:subconfig(..)|`) the join
   raises TypeError (-> error 3 instead of 2), one level further down `.split` raises AttributeError (escapes); both
   happen before the allow_invalid_config_sections test. *)
Definition pstate := (bool * bool)%type.
Definition ivalidator := pstate -> str -> yv -> result yv.

Definition is_strkey (k : yv) : bool := match k with YStr _ => true | _ => false end.

Definition validate_dict_g (vi : ivalidator) (st : pstate) (is_eh : bool) (validation : str) (item : yv) : result yv :=
  if negb (mem_z 58 validation) then Err (ECfg 5)
  else
    let vs := split_on 58 validation in
    let v0 := nth 0 vs [] in
    let v1 := nth 1 vs [] in
    bindR (if is_eh then event_config_to_dict item
           else match item with
                | YNone => Ok []
                | YDict kvs => Ok kvs
                | YStr s => if zs_eqb s s_None_C then Ok [] else Err (ECfg 12)
                | _ => Err (ECfg 12)
                end)
    (fun kvs =>
       bindR (fold_left (fun acc kv =>
                bindR acc (fun d =>
                bindR (vi (is_strkey (fst kv), fst st) v1 (snd kv)) (fun rv =>
                bindR (vi st v0 (fst kv)) (fun rk =>
                if hashable rk then Ok (dict_set rk rv d) else Err EType))))
              kvs (Ok []))
       (fun d => Ok (YDict d))).

Definition validate_config_item_g (vi : ivalidator) (st : pstate) (ty validation default : str) (item : option yv)
  : result yv :=
  bindR (match item with
         | Some i => Ok i
         | None => if zs_eqb (lower default) s_none then Ok YNone
                   else if is_nil default then Err (ECfg 9)
                   else Ok (YStr default)
         end)
  (fun item =>
     if zs_eqb ty s_single then vi st validation item
     else if zs_eqb ty n_list_ty then
       bindR (if zs_eqb validation n_event_posted || zs_eqb validation n_event_handler
              then string_to_list item else string_to_event_list item)
       (fun l => bindR (map_result (fun i => if is_blank i then Err (ECfg 15)
                                             else vi st validation i) l)
                 (fun rs => Ok (YList rs)))
     else if zs_eqb ty s_set then
       match string_to_list item with
       | Err _ => Err (ECfg 0)
       | Ok l =>
           if forallb (fun i => match i with YStr _ | YNone => true | _ => false end) l
           then match map_result (vi st validation) (dedup l) with
                | Ok rs => if forallb hashable rs then Ok (YSet (dedup rs)) else Err (ECfg 0)
                | Err EUnsup => Err EUnsup
                | Err _ => Err (ECfg 0)
                end
           else Err EUnsup
       end
     else if zs_eqb ty n_event_handler then
       if zs_eqb validation s_eh_ms then validate_dict_g vi st true validation item else Err EAssert
     else if zs_eqb ty n_dict_ty then validate_dict_g vi st false validation item
     else Err (ECfg 1)).

(* ---- validate_item with the remaining validators ---------------------------------------------------------- *)
(* sub strpath param item = _validate_type_subconfig's call of _validate_config (item is not None) *)
Definition subvalidator := pstate -> str -> yv -> result yv.

Definition validate_item_x1 (sub : subvalidator) (m : machine) : ivalidator := fun strpath validator item0 =>
  let item := none_lower item0 in
  let '(name, p) := parse_validator validator in
  if zs_eqb name n_kivycolor then
    match p with None => v_kivycolor item | Some _ => Err EType end       (* no `param` keyword *)
  else if zs_eqb name n_color then v_color p item
  else if zs_eqb name n_color_or_token then
    match item with
    | YStr s => if starts_with s [40] && ends_with s [41] then Ok (YToken (drop_last 1 (tl s)))
                else v_color p item
    | _ => v_color p item
    end
  else if zs_eqb name n_int_from_hex then
    match p with None => v_int_from_hex item | Some _ => Err EType end
  else if zs_eqb name n_subconfig then
    match p with
    | None => Err EType                                                    (* param is positional *)
    | Some param => match item with YNone => Ok (YDict []) | _ => sub strpath param item end
    end
  else validate_item m validator item0.

(* dict(k:v): _validate_type_dict with a parameter re-enters _validate_dict *)
Definition validate_item_x (sub : subvalidator) (m : machine) : ivalidator := fun strpath validator item0 =>
  match parse_validator validator with
  | (name, Some (c :: param)) =>
      if zs_eqb name n_dict then
        let item := none_lower item0 in
        if negb (truthy item) then Ok (YDict [])
        else match item with
             | YDict _ => validate_dict_g (validate_item_x1 sub m) strpath false (c :: param) item
             | _ => Err (ECfg 5)
             end
      else validate_item_x1 sub m strpath validator item0
  | _ => validate_item_x1 sub m strpath validator item0
  end.

(* ---- the spec store as a tree ------------------------------------------------------------------------------ *)
Inductive tentry :=
| TIgnore
| TItem (ty validation default : str)
| TNested (sub : list (str * tentry))          (* a nested dict: list of sub-configs validated against it *)
| TRaw.
Definition tspec := list (str * tentry).

Definition flat_entry (e : tentry) : sentry :=
  match e with TIgnore => SIgnore | TItem a b c => SItem a b c | TNested _ => SNested | TRaw => SRaw end.
Definition flat (t : tspec) : spec := map (fun ke => (fst ke, flat_entry (snd ke))) t.

Fixpoint tget (k : str) (t : tspec) : option tentry :=
  match t with
  | [] => None
  | (k', e) :: r => if zs_eqb k k' then Some e else tget k r
  end.

(* build_spec: this_base_spec = self.config_spec; for spec in name.split(':'): this_base_spec = this_base_spec[spec] *)
Definition tpath (root : tspec) (path : list str) : option tspec :=
  fold_left (fun cur comp => match cur with
                             | Some t => match tget comp t with Some (TNested s) => Some s | _ => None end
                             | None => None
                             end) path (Some root).

Definition lookup_t (root : tspec) (names : list str) : option (list spec) :=
  fold_right (fun n acc => match tpath root (split_on 58 n), acc with
                           | Some t, Some l => Some (flat t :: l)
                           | _, _ => None
                           end) (Some []) names.

(* ---- _validate_config, recursive ------------------------------------------------------------------------ *)
(* rec strpath names source = self._validate_config(names[0], source, base_spec=names[1..]) with add_missing_keys=True *)
Definition recvalidator := pstate -> list str -> yv -> result yv.

Definition sub_of (rec : recvalidator) : subvalidator := fun strpath param item => rec strpath (split_on 44 param) item.

Definition step_x (rec : recvalidator) (m : machine) (add_missing : bool) (strpath : pstate) (secname : str)
           (acc : result (list (yv * yv))) (ke : str * sentry) : result (list (yv * yv)) :=
  bindR acc (fun d =>
    let k := fst ke in
    match snd ke with
    | SIgnore => Ok d
    | e =>
        match k with
        | [] => Err EIndex
        | _ =>
          if starts_underscore k then Ok d
          else
            match e with
            | SItem ty va de =>
                match dict_get (YStr k) d with
                | Some v =>
                    bindR (validate_config_item_g (validate_item_x (sub_of rec) m) (true, fst strpath) ty va de (Some v))
                          (fun r => Ok (dict_set (YStr k) r d))
                | None =>
                    if add_missing
                    then bindR (validate_config_item_g (validate_item_x (sub_of rec) m) (true, fst strpath) ty va de None)
                               (fun r => Ok (dict_set (YStr k) r d))
                    else Ok d
                end
            | SNested =>
                match dict_get (YStr k) d with
                | Some (YList l) =>
                    (* for i in source[k]: self._validate_config(config_spec + ':' + k, source=i) *)
                    bindR (map_result (rec (true, fst strpath) [secname ++ 58 :: k]) l)
                          (fun rs => Ok (dict_set (YStr k) (YList rs) d))
                | Some YNone => Err EType                           (* None is not iterable *)
                | Some _ => Err EUnsup
                | None => if add_missing then Ok (dict_set (YStr k) (YList []) d) else Ok d
                end
            | _ =>
                match dict_get (YStr k) d with
                | Some _ => Err EUnsup
                | None => if add_missing then Ok (dict_set (YStr k) (YList []) d) else Ok d
                end
            end
        end
    end).

(* check_for_invalid_sections incl. the TypeError of ':'.join(path) under a non-string path element *)
Definition check_invalid_x (sp : spec) (allow_invalid : bool) (st : pstate) (source : yv) : result unit :=
  if negb (snd st) then
    match check_invalid sp false source with Err (ECfg 2) => Err EAttr | r => r end
  else if negb (fst st) then
    match check_invalid sp false source with Err (ECfg 2) => Err (ECfg 3) | r => r end
  else check_invalid sp allow_invalid source.

Definition validate_config_x (rec : recvalidator) (root : tspec) (m : machine) (allow_invalid add_missing : bool)
           (strpath : pstate) (names : list str) (source : yv) : result yv :=
  match lookup_t root names with
  | None => Err EKey
  | Some specs =>
      let sp := build_spec specs in
      bindR (if spec_has s_allow_others sp then Ok tt else check_invalid_x sp allow_invalid strpath source) (fun _ =>
      match source with
      | YDict kvs => bindR (fold_left (step_x rec m add_missing strpath (hd [] names)) sp (Ok kvs))
                           (fun d => Ok (YDict d))
      | _ => Err (ECfg 5)
      end)
  end.

Fixpoint vcfg (fuel : nat) (root : tspec) (m : machine) (allow_invalid add_missing : bool) (strpath : pstate)
         (names : list str) (source : yv) : result yv :=
  match fuel with
  | O => Err EUnsup
  | S f => validate_config_x (fun sp' n s => vcfg f root m allow_invalid true sp' n s)
                             root m allow_invalid add_missing strpath names source
  end.

(* the public ConfigValidator.validate_config: None -> {} *)
Definition vcfg_top (fuel : nat) (root : tspec) (m : machine) (allow_invalid add_missing : bool)
           (names : list str) (source : yv) : result yv :=
  vcfg fuel root m allow_invalid add_missing (true, true) names (match source with YNone => YDict [] | s => s end).

(* validate_config_item of the real validator (which can re-enter _validate_config through subconfig) *)
Definition vitem (fuel : nat) (root : tspec) (m : machine) (allow_invalid : bool)
           (ty va de : str) (item : option yv) : result yv :=
  validate_config_item_g (validate_item_x (sub_of (fun sp' n s => vcfg fuel root m allow_invalid true sp' n s)) m)
                         (true, true) ty va de item.

(* ---- declared result types ------------------------------------------------------------------------------------ *)
Definition is_numv (v : yv) : bool := match v with YFloat _ _ | YInt _ => true | _ => false end.
Definition in01 (v : yv) : bool :=
  match v with
  | YFloat f _ => fl_le (FNum 0) f && fl_le f (FNum 1)
  | YInt z => (0 <=? z) && (z <=? 1)
  | _ => false
  end.
Definition in255 (v : yv) : bool := match v with YInt z => (0 <=? z) && (z <=? 255) | _ => false end.

(* what _validate_type_kivycolor actually returns: None, a "(...)" string or a list of numbers (ANY length, ANY
   magnitude: known finding kivycolor-list-unchecked); the declared type is [is_kivy] *)
Definition is_kivy_weak (r : yv) : bool :=
  match r with
  | YNone => true
  | YStr s => is_paren s
  | YList l => forallb is_numv l
  | _ => false
  end.
Definition is_kivy (r : yv) : bool :=
  match r with
  | YNone => true
  | YStr s => is_paren s
  | YList l => (length l =? 4)%nat && forallb in01 l
  | _ => false
  end.
(* _validate_type_color: three ints (any magnitude: known finding color-range-unchecked); declared: 0..255 *)
Definition is_color_weak (r : yv) : bool :=
  match r with YList [YInt _; YInt _; YInt _] => true | _ => false end.
Definition is_color (r : yv) : bool :=
  match r with YList [a; b; c] => in255 a && in255 b && in255 c | _ => false end.

Definition has_type_x1 (subok : str -> yv -> bool) (m : machine) (validator : str) (r : yv) : bool :=
  let '(name, p) := parse_validator validator in
  if zs_eqb name n_kivycolor then is_kivy_weak r
  else if zs_eqb name n_color then is_color_weak r
  else if zs_eqb name n_color_or_token then match r with YToken _ => true | _ => is_color_weak r end
  else if zs_eqb name n_int_from_hex then match r with YInt z => z <=? 255 | _ => false end
  else if zs_eqb name n_subconfig then match p with Some param => subok param r | None => false end
  else has_type m validator r.

Definition has_type_x (subok : str -> yv -> bool) (m : machine) (validator : str) (r : yv) : bool :=
  match parse_validator validator with
  | (name, Some (c :: param)) =>
      if zs_eqb name n_dict then
        match r with
        | YDict d =>
            let vs := split_on 58 (c :: param) in
            forallb (fun kv => has_type_x1 subok m (nth 0 vs []) (fst kv) && has_type_x1 subok m (nth 1 vs []) (snd kv)) d
        | _ => false
        end
      else has_type_x1 subok m validator r
  | _ => has_type_x1 subok m validator r
  end.

Definition has_item_type_g (P : str -> yv -> bool) (ty validation : str) (r : yv) : bool :=
  if zs_eqb ty s_single then P validation r
  else if zs_eqb ty n_list_ty then
    match r with YList l => forallb (P validation) l | _ => false end
  else if zs_eqb ty s_set then
    match r with YSet l => forallb (P validation) l | _ => false end
  else if zs_eqb ty n_event_handler || zs_eqb ty n_dict_ty then
    match r with
    | YDict d =>
        let vs := split_on 58 validation in
        forallb (fun kv => P (nth 0 vs []) (fst kv) && P (nth 1 vs []) (snd kv)) d
    | _ => false
    end
  else false.

(* a key of a validated (sub-)config is a spec key or private, unless the spec / the machine tolerate others *)
Definition key_known (sp : spec) (kv : yv * yv) : bool :=
  match fst kv with
  | YStr k => spec_has k sp || starts_underscore k
  | _ => false
  end.

(* The property's predicate on a validated config, at EVERY nesting depth (fuel bounds the depth exactly like vcfg):
   a dict; no key outside the spec; every non-private item key of the spec present with a value of its declared
   type, where the type of subconfig(..) is "{} or a validated config of that section" and the type of a nested
   sub-section is "a list of validated configs of section:key". *)
Fixpoint typed_cfg (fuel : nat) (root : tspec) (m : machine) (ai : bool) (names : list str) (r : yv) : bool :=
  match fuel with
  | O => false
  | S f =>
      match lookup_t root names, r with
      | Some specs, YDict d =>
          let sp := build_spec specs in
          let subok := fun param v => match v with YDict [] => true | _ => typed_cfg f root m ai (split_on 44 param) v end in
          (ai || spec_has s_allow_others sp || forallb (key_known sp) d) &&
          forallb (fun ke =>
                     match snd ke with
                     | SItem ty va de =>
                         starts_underscore (fst ke) ||
                         match dict_get (YStr (fst ke)) d with
                         | Some v => has_item_type_g (has_type_x subok m) ty va v
                         | None => false
                         end
                     | SNested =>
                         starts_underscore (fst ke) ||
                         match dict_get (YStr (fst ke)) d with
                         | Some (YList l) => forallb (typed_cfg f root m ai [hd [] names ++ 58 :: fst ke]) l
                         | _ => false
                         end
                     | _ => true
                     end) sp
      | _, _ => false
      end
  end.

(* ---- entry points of the correspondence suites ------------------------------------------------------------- *)
Definition deep_fuel : nat := 12.

(* item suite: validate_config_item against the real spec store (subconfig re-enters the store) *)
Definition xitem_run (i : tspec * machine * (str * str * str) * option yv) : result yv :=
  let '(root, m, (ty, va, de), item) := i in vitem deep_fuel root m false ty va de item.

Definition deep_run (i : tspec * machine * bool * bool * list str * yv) : result yv :=
  let '(root, m, allow_invalid, add_missing, names, source) := i in
  vcfg_top deep_fuel root m allow_invalid add_missing names source.
