From C12 Require Import Lemmas.
