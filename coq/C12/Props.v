(* C12/Props.v — property theorems only.  Each is closed by [exact] of a lemma from Lemmas.v /
   FloatLemmas.v and followed by Print Assumptions (parsed by the check: must be "Closed under the
   global context").  Satisfiability Examples (named ex_...) are at the end of Lemmas.v.

   Property C12: validating a configuration section against its spec either returns a config in which
   every key of the spec is present with a value of the declared type, or rejects; it never returns an
   ill-typed or out-of-range value, never silently accepts an unknown key or drops a provided one, never
   modifies the spec; time strings evaluate to value times unit for every accepted unit suffix.

   The model is of the code after the fix commits d658b1b (time strings) and 5a156f6 (NaN in ranges).
   gen/Time.v is regenerated from utility_functions.py on every run: on the unfixed source the time
   theorems below do not go through.

   KNOWN FINDING pow2-returns-unconverted: `_validate_type_pow2` returns the item unconverted, so the FULL
   statement of validate_sound (pow2 results are None or an INT that is a power of two) is false of the
   faithful model: [pow2_type_refuted].  [validate_sound] is therefore stated with has_type for pow2 saying
   what is actually returned (None or a value whose int() is a power of two: "8", 8.0, 2.5, True as well);
   [pow2_int_input_partial] is the full-strength statement under the guard that excludes exactly the
   recorded class (non-int inputs).

   Scope of the theorems (see NOTES.md): validator kinds str lstr int float num bool ms secs enum machine
   pow2 bool_int list dict(no param) and their _or_token forms; item types single list set dict
   event_handler; flat sections (nested lists of sub-configs only when absent).
   Round 3 (end of file): color / color_or_token / kivycolor / int_from_hex / dict(k:v) / subconfig(..), NESTED
   sections validated recursively (vcfg), config-player entry names.                                   *)
From Common Require Import Prelude.
From Coq Require Import QArith.
From C12 Require Import Base Model Ext Player FloatLemmas DecText Lemmas ExtLemmas.
From C12.gen Require Import Time Colors.
Open Scope Z_scope.

(* validate_item never returns an ill-typed or out-of-range value: for EVERY validator string, machine and
   input value (has_type: declared type incl. numeric range with IEEE <=, enum membership, device exists;
   for pow2 only the weakened "int() of the result is a power of two", see above) *)
Theorem validate_sound :
  forall m validator item r, validate_item m validator item = Ok r -> has_type m validator r = true.
Proof. exact validate_item_sound. Qed.
Print Assumptions validate_sound.

(* pow2: the declared type (None or an int 2^k) is NOT what the code returns *)
Theorem pow2_type_refuted :
  exists m item r, validate_item m n_pow2 item = Ok r /\ is_pow2_int r = false.
Proof. exact pow2_type_refuted_l. Qed.
Print Assumptions pow2_type_refuted.

(* ... except for int inputs, the guard that excludes exactly the recorded class *)
Theorem pow2_int_input_partial :
  forall m z r, validate_item m n_pow2 (YInt z) = Ok r -> is_pow2_int r = true.
Proof. exact pow2_int_input_l. Qed.
Print Assumptions pow2_int_input_partial.

(* gain: the documented result range 0.0 .. 1.0 is NOT what the code guarantees (known finding
   gain-nan-unclamped) ... *)
Theorem gain_range_refuted : exists m item r, validate_item m n_gain item = Ok r /\ is_gain r = false.
Proof. exact gain_range_refuted_l. Qed.
Print Assumptions gain_range_refuted.

(* ... except for NaN, the guard that excludes exactly the recorded class *)
Theorem gain_range_partial :
  forall m item f t, validate_item m n_gain item = Ok (YFloat f t) -> f <> FNaN -> is_gain (YFloat f t) = true.
Proof. exact gain_range_partial_l. Qed.
Print Assumptions gain_range_partial.

(* the same for a whole spec entry "type|validator|default": lists, sets, dicts and event-handler dicts are
   normalised to containers whose every element / key / value is well typed; item = None means "absent"
   (default filled in or "required" error) *)
Theorem validate_config_item_sound :
  forall m ty va de item r,
    validate_config_item m ty va de item = Ok r -> has_item_type m ty va r = true.
Proof. exact validate_config_item_sound. Qed.
Print Assumptions validate_config_item_sound.

(* a numeric range with at least one bound excludes NaN (the declared range is IEEE lo <= v <= hi) *)
Theorem range_excludes_nan :
  forall p0 p1 rest c p,
    split_on 44 (c :: p) = p0 :: p1 :: rest ->
    (zs_eqb p0 s_NONE_U = false \/ zs_eqb p1 s_NONE_U = false) ->
    within (Some (c :: p)) FNaN = false.
Proof. exact within_not_nan. Qed.
Print Assumptions range_excludes_nan.

(* an accepted section contains every non-private spec key, well typed (defaults filled in) *)
Theorem validate_config_complete :
  forall m allow_invalid sp kvs d,
    NoDup (map fst sp) ->
    validate_config m allow_invalid true sp (YDict kvs) = Ok (YDict d) ->
    forall k ty va de, In (k, SItem ty va de) sp -> starts_underscore k = false ->
      exists v, dict_get (YStr k) d = Some v /\ has_item_type m ty va v = true.
Proof. exact validate_config_complete_l. Qed.
Print Assumptions validate_config_complete.

(* a key that is not in the spec (and not _private) is never silently accepted *)
Theorem unknown_key_rejected :
  forall m add_missing sp kvs k c v,
    spec_has s_allow_others sp = false ->
    In (YStr (c :: k), v) kvs -> spec_has (c :: k) sp = false -> c <> 95 ->
    exists e, validate_config m false add_missing sp (YDict kvs) = Err e.
Proof. exact unknown_key_rejected_l. Qed.
Print Assumptions unknown_key_rejected.

(* no provided key is dropped *)
Theorem provided_key_kept :
  forall m allow_invalid add_missing sp kvs d k v,
    validate_config m allow_invalid add_missing sp (YDict kvs) = Ok (YDict d) ->
    In (k, v) kvs -> key_eqb k k = true -> dict_has k d = true.
Proof. exact provided_key_kept_l. Qed.
Print Assumptions provided_key_kept.

(* validate_config returns a dict or rejects *)
Theorem validate_config_returns_dict :
  forall m allow_invalid add_missing sp src r,
    validate_config m allow_invalid add_missing sp src = Ok r -> exists d, r = YDict d.
Proof. exact validate_config_dict. Qed.
Print Assumptions validate_config_returns_dict.

(* the spec store is not modified by a validation; the build_spec cache only ever holds fresh merges, so a
   validation through the cache equals one against a freshly merged spec *)
Theorem spec_unchanged :
  forall m allow_invalid add_missing st names src,
    st_specs (fst (validate_config_st m allow_invalid add_missing st names src)) = st_specs st /\
    (cache_ok st -> cache_ok (fst (validate_config_st m allow_invalid add_missing st names src))) /\
    (forall specs, cache_ok st -> lookup_specs st names = Some specs ->
       snd (validate_config_st m allow_invalid add_missing st names src) =
       validate_config m allow_invalid add_missing (build_spec specs) src).
Proof.
  intros. split; [apply spec_unchanged_l|]. split; [apply cache_ok_preserved|].
  intros specs Hc Hl. apply store_result_fresh; assumption.
Qed.
Print Assumptions spec_unchanged.

(* merge precedence of build_spec, for any number of base specs: a key has the entry of the FIRST spec in
   [section; base1; base2; ...] that declares it (own declarations first, bases only fill in), and the merged
   spec has no duplicate keys.  With validate_config_complete: every key is validated against, and every default
   filled in from, the section's own declaration. *)
Theorem build_spec_own_first :
  forall k specs,
    Forall (fun s => NoDup (map fst s)) specs ->
    spec_get k (build_spec specs) = first_decl k specs /\ NoDup (map fst (build_spec specs)).
Proof. intros k specs H. split; [apply build_spec_own_first_l|apply build_spec_nodup_l]; exact H. Qed.
Print Assumptions build_spec_own_first.

(* the same over ANY history of validations against one validator object (any number of steps, any sections and
   base specs, cache hits and misses interleaved): the specs are never changed, and the i-th answer is exactly
   the validation of the i-th source against a fresh merge (own declarations first) of the ORIGINAL specs *)
Theorem spec_unchanged_history :
  forall m allow_invalid steps st,
    cache_ok st ->
    st_specs (fst (run_steps m allow_invalid st steps)) = st_specs st /\
    cache_ok (fst (run_steps m allow_invalid st steps)) /\
    snd (run_steps m allow_invalid st steps) = map (fresh_validate m allow_invalid st) steps.
Proof. exact history_l. Qed.
Print Assumptions spec_unchanged_history.

(* IEEE-754 binary64 round-to-nearest as modelled has relative error at most 2^-53 *)
Theorem rnd53_relative_error : forall q, (Qabs.Qabs (rnd53 q - q) <= Qabs.Qabs q * U)%Q.
Proof. exact rnd53_err. Qed.
Print Assumptions rnd53_relative_error.

(* FULL statement: for every accepted suffix u in {ms msec s sec m h d} (any letter case) and every decimal
   text t, string_to_ms (t ++ u) = value(t) * unit(u).
   PARTIAL: proved for texts t ending in a digit or '.', GIVEN that float() reads t as the binary64 nearest
   to the rational x (the hypothesis on e_float_of_str; parse_float is validated against CPython by the
   correspondence run, its reading of decimal text is not proved), x*unit a whole number of ms below 2^49.
   The arithmetic int(round(float(t) * k1 [* k2])) of the TRANSLATED code is then exact. *)
Theorem time_string_value_times_unit_partial :
  forall b c suf unit x N,
    is_num_end c = true -> unit_ms (upper suf) = Some unit ->
    e_float_of_str (upper b ++ [c]) = Ok (fnum x) ->
    (0 <= x)%Q -> (x * unit == inject_Z N)%Q -> N < 2 ^ 49 ->
    string_to_ms (YStr ((b ++ [c]) ++ suf)) = Ok N.
Proof. exact time_float_units. Qed.
Print Assumptions time_string_value_times_unit_partial.

(* ... and when value times unit is NOT a whole number of milliseconds (binary rounding matters: "0.0005s",
   "2.675m", "1.0005s"): for every decimal value x that is zero or at least 10^-9, with x*unit < 2^49, the result
   is an integer within 3/4 ms of the exact product, i.e. one of the two integers nearest to value times unit
   (1/2 from round(), < 1/4 from the at most three binary64 roundings).  Same hypothesis on float() as above. *)
Theorem time_string_fractional_partial :
  forall b c suf unit x,
    is_num_end c = true -> unit_ms (upper suf) = Some unit ->
    e_float_of_str (upper b ++ [c]) = Ok (fnum x) ->
    (x == 0 \/ XLO <= x)%Q -> (x * unit < P49)%Q ->
    exists N, string_to_ms (YStr ((b ++ [c]) ++ suf)) = Ok N /\ (Qabs.Qabs (inject_Z N - x * unit) <= 3 # 4)%Q.
Proof. exact time_float_units_frac. Qed.
Print Assumptions time_string_fractional_partial.

(* FULL statement for plain decimal texts, no hypothesis about float(): for every text  d+ "." d*  (at most 400
   digits) and every suffix s / sec / m / h / d in any letter case, with value zero or >= 10^-9 and
   value*unit < 2^49: string_to_ms(text + suffix) is an integer within 3/4 ms of value times unit, and EQUAL to
   value times unit whenever that is a whole number of milliseconds.  [dec_q] is the rational the decimal text
   denotes; that the model's float() (parse_float: strip, sign, digit scan, rnd53) reads it so is PROVED
   (DecText.parse_decimal), the model's float() itself is tied to CPython by the correspondence run. *)
Theorem time_string_value_times_unit :
  forall c ip fp suf unit,
    is_digit c = true -> all_digits ip = true -> all_digits fp = true ->
    (length (c :: ip) + length fp <= 400)%nat ->
    unit_ms (upper suf) = Some unit ->
    (dec_q (c :: ip) fp == 0 \/ XLO <= dec_q (c :: ip) fp)%Q -> (dec_q (c :: ip) fp * unit < P49)%Q ->
    exists N, string_to_ms (YStr (dec_text (c :: ip) fp ++ suf)) = Ok N /\
              (Qabs.Qabs (inject_Z N - dec_q (c :: ip) fp * unit) <= 3 # 4)%Q /\
              (forall M, (dec_q (c :: ip) fp * unit == inject_Z M)%Q -> N = M).
Proof. exact time_decimal_l. Qed.
Print Assumptions time_string_value_times_unit.

(* ms and msec: the integer before the suffix, in any letter case ("200msec" is accepted) *)
Theorem time_string_int_units :
  forall b c suf N,
    is_num_end c = true -> (upper suf = [77;83] \/ upper suf = [77;83;69;67]) ->
    e_int_of_str (upper b ++ [c]) = Ok N ->
    string_to_ms (YStr ((b ++ [c]) ++ suf)) = Ok N.
Proof. exact time_int_units. Qed.
Print Assumptions time_string_int_units.

Theorem secs_is_ms_over_1000 :
  forall s z, existsb is_alpha s = true -> string_to_ms (YStr s) = Ok z ->
    string_to_secs (YStr s) = Ok (fdiv_pos (fl_of_Z z) 1000).
Proof. exact secs_of_ms. Qed.
Print Assumptions secs_is_ms_over_1000.

(* why the fixes are needed: the expressions of the unfixed code violate the property (witnesses) *)
Theorem time_trunc_variant_refuted :
  exists (s : str) (N : Z),
    e_float_of_str s = Ok (fnum (1001 # 1000)) /\ ((1001 # 1000) * (1000 # 1) == inject_Z N)%Q /\
    r_int (r_fmul (e_float_of_str s) 1000) <> Ok N.
Proof. exact time_trunc_variant_refuted_l. Qed.
Print Assumptions time_trunc_variant_refuted.

Theorem range_lt_variant_accepts_nan :
  forall lo hi, fl_lt FNaN lo = false /\ fl_lt hi FNaN = false.
Proof. exact range_lt_variant_accepts_nan_l. Qed.
Print Assumptions range_lt_variant_accepts_nan.

(* ================================================================================================== *)
(* Round 3: the second model layer (Ext.v, Player.v)                                                  *)

(* validate_item incl. color / color_or_token / kivycolor / int_from_hex / dict(k:v) / subconfig(..): every accepted
   value has the type of its validator.  [subok] is the type of a sub-config (instantiated in nested_config_sound by
   "{} or a validated config of that section"); colours have the WEAK type the code guarantees (see below). *)
Theorem validate_item_x_sound :
  forall (sub : subvalidator) (subok : str -> yv -> bool) m,
    (forall st p it r, sub st p it = Ok r -> subok p r = true) ->
    (forall p, subok p (YDict []) = true) ->
    forall st va it r, validate_item_x sub m st va it = Ok r -> has_type_x subok m va r = true.
Proof. exact validate_item_x_sound. Qed.
Print Assumptions validate_item_x_sound.

(* ... and for a whole spec entry (single / list / set / dict / event_handler over ANY item validator) *)
Theorem validate_config_item_x_sound :
  forall (vi : ivalidator) (P : str -> yv -> bool),
    (forall st va it r, vi st va it = Ok r -> P va r = true) ->
    forall st ty va de item r,
      validate_config_item_g vi st ty va de item = Ok r -> has_item_type_g P ty va r = true.
Proof. exact validate_config_item_g_sound. Qed.
Print Assumptions validate_config_item_x_sound.

(* kivycolor: FULL statement "None, a (placeholder) string, or a 4-element RGBA list with every value in [0,1]" is
   false of the faithful model (known finding kivycolor-list-unchecked: the r,g,b LIST form is neither length- nor
   range-checked) ... *)
Theorem kivycolor_type_refuted : exists item r, v_kivycolor item = Ok r /\ is_kivy r = false.
Proof. exact kivycolor_type_refuted_l. Qed.
Print Assumptions kivycolor_type_refuted.

(* ... and holds for exactly the other two forms: EVERY named colour of rgb_color.py (translated table) and EVERY
   string of 6..8 hex digits (in any letter case) is accepted and gives a complete colour in range.  (A 3-digit
   string is not a hex string: the class of seeded mutant m9.) *)
Theorem kivycolor_named_hex_sound :
  forall s0, is_nil s0 = false -> is_paren (lower s0) = false ->
    (named_color (lower s0) <> None \/ is_hex_string (lower s0) = true) ->
    exists r, v_kivycolor (YStr s0) = Ok r /\ is_kivy r = true /\ r <> YNone.
Proof. exact kivycolor_named_hex_sound_l. Qed.
Print Assumptions kivycolor_named_hex_sound.

(* color: three ints always (validate_item_x_sound); the documented range 0..255 fails for the list form (known
   finding color-range-unchecked) and holds for named colours and hex strings *)
Theorem color_range_refuted : exists item r, v_color None item = Ok r /\ is_color r = false.
Proof. exact color_range_refuted_l. Qed.
Print Assumptions color_range_refuted.

Theorem color_named_hex_sound :
  forall s, (named_color s <> None \/ is_hex_string s = true) ->
    exists r, v_color None (YStr s) = Ok r /\ is_color r = true.
Proof. exact color_named_hex_sound_l. Qed.
Print Assumptions color_named_hex_sound.

(* NESTED configurations.  For every spec store whose dicts have unique keys, every fuel (= nesting depth bound),
   section with base specs and source: an accepted configuration satisfies the property's predicate AT EVERY DEPTH
   (typed_cfg): it is a dict; unless the spec has __allow_others__ or invalid sections are tolerated it has no key
   outside the merged spec (own declarations first) except _private ones; every non-private item key of the spec is
   present with a value of its declared type, where the type of subconfig(sec,bases..) is "{} or a configuration of
   sec+bases with this same property" and a nested sub-section holds a list of such configurations of "section:key".
   This is validate_config_complete + unknown_key_rejected + validate_sound for the recursive validator. *)
Theorem nested_config_sound :
  forall root m allow_invalid, root_nodup root ->
    forall fuel st names src r,
      vcfg fuel root m allow_invalid true st names src = Ok r -> typed_cfg fuel root m allow_invalid names r = true.
Proof. exact vcfg_sound_l. Qed.
Print Assumptions nested_config_sound.

(* the unknown-key check sits INSIDE the recursion target: no invocation of the recursive validator (top level, value
   of a subconfig(..) entry, element of a nested list; any validation path state) accepts a source that has a
   non-private key outside its merged spec.  (The class of seeded mutant m8: check moved to the public entry.) *)
Theorem unknown_key_rejected_deep :
  forall fuel root m add st names kvs specs c k v,
    lookup_t root names = Some specs -> spec_has s_allow_others (build_spec specs) = false ->
    In (YStr (c :: k), v) kvs -> spec_has (c :: k) (build_spec specs) = false -> c <> 95 ->
    exists e, vcfg fuel root m false add st names (YDict kvs) = Err e.
Proof. exact unknown_key_rejected_deep_l. Qed.
Print Assumptions unknown_key_rejected_deep.

(* reading typed_cfg: a validated (sub-)configuration contains only string keys that are spec keys or _private *)
Theorem nested_config_keys_known :
  forall fuel root m names d specs,
    typed_cfg (S fuel) root m false names (YDict d) = true -> lookup_t root names = Some specs ->
    spec_has s_allow_others (build_spec specs) = false ->
    forall k v, In (k, v) d -> exists s, k = YStr s /\ (spec_has s (build_spec specs) = true \/ starts_underscore s = true).
Proof. exact typed_cfg_no_unknown. Qed.
Print Assumptions nested_config_keys_known.

(* config-player entries (variable_player, score_queue_player, event_player keys `name{condition}|number`): an accepted
   key has a non-empty name, the name is a prefix of the key, and EVERY character of it is a letter, digit, dash or
   underscore (the anchored regex; the class of seeded mutant m12) *)
Theorem player_name_wellformed :
  forall m b key name ct num,
    parse_and_validate m b key = Ok (name, ct, num) ->
    forallb (name_ok b) name = true /\ name <> [] /\ exists rest, key = name ++ rest.
Proof. exact parse_and_validate_name. Qed.
Print Assumptions player_name_wellformed.

(* ... hence an entry with ANY number of keys is accepted only if every key is well formed *)
Theorem player_entry_names_wellformed :
  forall m keys d,
    var_entry m keys = Ok d ->
    forall key, In key keys -> exists name ct num,
      parse_and_validate m false key = Ok (name, ct, num) /\ forallb (name_ok false) name = true.
Proof. intros m keys d H. exact (var_entry_names m keys [] d H). Qed.
Print Assumptions player_entry_names_wellformed.
