(* C12/DecText.v -- float() of a plain decimal text  <digits>.<digits>  in the model is fnum of the exact decimal
   rational: discharges the hypothesis on e_float_of_str of the time-string theorems for such texts. *)
From Common Require Import Prelude.
From Coq Require Import QArith Lia.
From C12 Require Import Base.
Open Scope Z_scope.

Definition all_digits (l : str) : bool := forallb is_digit l.
Definition dvals (l : str) : list Z := map (fun c => c - 48) l.
(* the rational denoted by the decimal text  ip "." fp *)
Definition dec_q (ip fp : str) : Q :=
  (inject_Z (digits_val (dvals ip ++ dvals fp)) * pow10 (0 - Z.of_nat (length (dvals fp))))%Q.

Lemma digit_facts c : is_digit c = true -> 48 <= c <= 57.
Proof. unfold is_digit. intro H. apply andb_true_iff in H as [A B]. apply Z.leb_le in A. apply Z.leb_le in B. lia. Qed.

Lemma digit_not_ws c : is_digit c = true -> is_ws c = false.
Proof.
  intro H. apply digit_facts in H. unfold is_ws.
  replace (c =? 32) with false by (symmetry; apply Z.eqb_neq; lia).
  replace (c <=? 13) with false by (symmetry; apply Z.leb_gt; lia).
  replace (c <=? 31) with false by (symmetry; apply Z.leb_gt; lia).
  rewrite !andb_false_r. reflexivity.
Qed.

Lemma scan_digits_step c t :
  is_digit c = true -> (forall u t', t = u :: t' -> u <> 95) ->
  scan_digits (c :: t) = let '(ds, r) := scan_digits t in (c - 48 :: ds, r).
Proof.
  intros Hd Hu. cbn [scan_digits]. rewrite Hd.
  destruct t as [|u [|c2 t2]]; try reflexivity.
  assert (E : (u =? 95) = false) by (apply Z.eqb_neq; apply (Hu u (c2 :: t2)); reflexivity).
  rewrite E. reflexivity.
Qed.

Lemma scan_digits_app ds rest :
  all_digits ds = true ->
  (forall u t', rest = u :: t' -> is_digit u = false /\ u <> 95) ->
  scan_digits (ds ++ rest) = (dvals ds, rest).
Proof.
  intros Hd Hr. induction ds as [|c ds IH]; cbn [app dvals map].
  - destruct rest as [|u t']; [reflexivity|]. destruct (Hr u t' eq_refl) as [Hn _].
    cbn [scan_digits]. rewrite Hn. reflexivity.
  - cbn [all_digits forallb] in Hd. apply andb_true_iff in Hd as [Hc Hds].
    rewrite scan_digits_step; [rewrite (IH Hds); reflexivity|exact Hc|].
    intros u t' E. destruct ds as [|c1 ds']; cbn [app] in E.
    + destruct (Hr u t' E) as [_ Hne]. exact Hne.
    + inversion E; subst. cbn [all_digits forallb] in Hds. apply andb_true_iff in Hds as [Hc1 _].
      apply digit_facts in Hc1. lia.
Qed.

Lemma lstrip_nows c t : is_ws c = false -> lstrip (c :: t) = c :: t.
Proof. intro H. cbn [lstrip]. rewrite H. reflexivity. Qed.

Definition dec_text (ip fp : str) : str := ip ++ 46 :: fp.

Lemma dot_not_ws : is_ws 46 = false. Proof. reflexivity. Qed.

Lemma last_not_ws ip fp :
  all_digits fp = true -> exists c t, List.rev (dec_text ip fp) = c :: t /\ is_ws c = false.
Proof.
  intro Hf. unfold dec_text. rewrite rev_app_distr. cbn [List.rev].
  destruct (List.rev fp) as [|c t] eqn:E.
  - cbn. eauto using dot_not_ws.
  - cbn [app]. exists c, (t ++ [46] ++ List.rev ip). rewrite <- app_assoc. split; [reflexivity|].
    apply digit_not_ws. unfold all_digits in Hf. rewrite forallb_forall in Hf. apply Hf.
    apply in_rev. rewrite E. left. reflexivity.
Qed.

Lemma strip_dec c ip fp :
  is_digit c = true -> all_digits fp = true -> strip (dec_text (c :: ip) fp) = dec_text (c :: ip) fp.
Proof.
  intros Hc Hf. unfold strip.
  assert (E0 : dec_text (c :: ip) fp = c :: (ip ++ 46 :: fp)) by reflexivity.
  rewrite E0. rewrite (lstrip_nows _ _ (digit_not_ws _ Hc)). rewrite <- E0.
  destruct (last_not_ws (c :: ip) fp Hf) as [c' [t [E W]]]. rewrite E, (lstrip_nows _ _ W), <- E.
  apply rev_involutive.
Qed.

Lemma lower_digits l : forallb (fun c => is_digit c || (c =? 46)) l = true -> lower l = l.
Proof.
  induction l as [|c l IH]; cbn [forallb lower map]; [reflexivity|]. intro H.
  apply andb_true_iff in H as [Hc Hl]. fold (lower l). rewrite (IH Hl). f_equal.
  unfold lower_c, is_upper. apply orb_true_iff in Hc as [Hc|Hc].
  - apply digit_facts in Hc. replace (65 <=? c) with false by (symmetry; apply Z.leb_gt; lia). reflexivity.
  - apply Z.eqb_eq in Hc. subst c. reflexivity.
Qed.

Lemma scan_sign_digit c t : is_digit c = true -> scan_sign (c :: t) = (false, c :: t).
Proof.
  intro H. apply digit_facts in H. unfold scan_sign.
  destruct c as [|p|p]; try lia.
  do 6 (destruct p as [p|p|]; try reflexivity; try lia).
Qed.

Lemma zs_eqb_head_ne c t d u : c <> d -> zs_eqb (c :: t) (d :: u) = false.
Proof. intro H. cbn. apply Z.eqb_neq in H. rewrite H. reflexivity. Qed.

Lemma parse_decimal c ip fp :
  is_digit c = true -> all_digits ip = true -> all_digits fp = true ->
  (length (c :: ip) + length fp <= 400)%nat ->
  parse_float (dec_text (c :: ip) fp) = Some (fnum (dec_q (c :: ip) fp)).
Proof.
  intros Hc Hi Hf Hlen. unfold parse_float. rewrite (strip_dec _ _ _ Hc Hf).
  unfold dec_text at 1. cbn [app]. rewrite (scan_sign_digit _ _ Hc).
  assert (Hall : forallb (fun c0 => is_digit c0 || (c0 =? 46)) (c :: ip ++ 46 :: fp) = true).
  { cbn [forallb]. rewrite Hc. cbn [orb andb]. rewrite forallb_app. cbn [forallb].
    apply andb_true_iff; split.
    - unfold all_digits in Hi. rewrite forallb_forall in *. intros x Hx. rewrite (Hi x Hx). reflexivity.
    - cbn. unfold all_digits in Hf. rewrite forallb_forall in *. intros x Hx. rewrite (Hf x Hx). reflexivity. }
  rewrite (lower_digits _ Hall).
  pose proof (digit_facts _ Hc) as Hcr.
  unfold s_inf, s_infinity, s_nan.
  rewrite !zs_eqb_head_ne by lia. cbn [orb].
  assert (Hd1 : all_digits (c :: ip) = true) by (cbn [all_digits forallb]; rewrite Hc; exact Hi).
  change (c :: ip ++ 46 :: fp) with ((c :: ip) ++ 46 :: fp).
  rewrite (scan_digits_app (c :: ip) (46 :: fp) Hd1).
  2:{ intros u t' E. inversion E; subst. split; [reflexivity|lia]. }
  pose proof (scan_digits_app fp [] Hf) as Hfp. rewrite app_nil_r in Hfp.
  rewrite Hfp by (intros u t' E; discriminate E).
  cbn [dvals map is_nil andb]. 
  assert (Hl : (exp_limit <? Z.of_nat (length ((c - 48 :: map (fun c0 => c0 - 48) ip) ++ dvals fp))) = false).
  { apply Z.ltb_ge. rewrite app_length. unfold dvals. cbn [length]. rewrite !map_length. cbn [length] in Hlen.
    unfold exp_limit. lia. }
  rewrite Hl. change (exp_limit <? Z.abs 0) with false. cbn [orb].
  unfold dec_q. cbn [dvals map]. reflexivity.
Qed.
