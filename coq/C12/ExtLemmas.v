(* C12/ExtLemmas.v — proofs about the second model layer (Ext.v: colours, int_from_hex, dict(k:v), subconfig and
   the RECURSIVE section validation) and about the config-player entry names (Player.v). *)
From Common Require Import Prelude.
From Coq Require Import QArith.
From C12 Require Import Base Model Ext Player FloatLemmas Lemmas.
From C12.gen Require Import Time Colors.
Open Scope Z_scope.

(* ---------------------------------------------------------------------------------------------- *)
(* 1. generic item types over an item validator                                                    *)

Lemma validate_dict_g_sound (vi : ivalidator) (P : str -> yv -> bool) :
  (forall st va it r, vi st va it = Ok r -> P va r = true) ->
  forall st is_eh validation item r,
  validate_dict_g vi st is_eh validation item = Ok r ->
  exists d, r = YDict d /\
    typed_d (P (nth 0 (split_on 58 validation) [])) (P (nth 1 (split_on 58 validation) [])) d = true.
Proof.
  intros Hvi st is_eh validation item r.
  unfold validate_dict_g. destruct (negb (mem_z 58 validation)); [intro H; discriminate H|].
  set (v0 := nth 0 (split_on 58 validation) []). set (v1 := nth 1 (split_on 58 validation) []).
  intro H. apply bindR_ok in H as [kvs [_ H]]. apply bindR_ok in H as [d [Hf H]]. inversion H; subst r.
  exists d. split; [reflexivity|].
  assert (G : forall kvs d0 d, typed_d (P v0) (P v1) d0 = true ->
               fold_left (fun acc kv =>
                 bindR acc (fun d1 => bindR (vi (is_strkey (fst kv), fst st) v1 (snd kv)) (fun rv =>
                 bindR (vi st v0 (fst kv)) (fun rk =>
                 if hashable rk then Ok (dict_set rk rv d1) else Err EType)))) kvs (Ok d0) = Ok d ->
               typed_d (P v0) (P v1) d = true).
  { clear - Hvi. induction kvs as [|kv kvs IH]; intros d0 d T0 Hf; cbn in Hf.
    - inversion Hf; subst; assumption.
    - destruct (vi (is_strkey (fst kv), fst st) v1 (snd kv)) as [rv|e] eqn:E1; cbn in Hf;
        [|rewrite fold_err in Hf by reflexivity; discriminate Hf].
      destruct (vi st v0 (fst kv)) as [rk|e] eqn:E0; cbn in Hf;
        [|rewrite fold_err in Hf by reflexivity; discriminate Hf].
      destruct (hashable rk); [|rewrite fold_err in Hf by reflexivity; discriminate Hf].
      apply (IH _ _ (dict_set_typed _ _ _ _ _ (Hvi _ _ _ _ E0) (Hvi _ _ _ _ E1) T0) Hf). }
  apply (G kvs [] d eq_refl Hf).
Qed.

Lemma validate_config_item_g_sound (vi : ivalidator) (P : str -> yv -> bool) :
  (forall st va it r, vi st va it = Ok r -> P va r = true) ->
  forall st ty va de item r,
  validate_config_item_g vi st ty va de item = Ok r -> has_item_type_g P ty va r = true.
Proof.
  intros Hvi st ty va de item r.
  unfold validate_config_item_g, has_item_type_g. intro H. apply bindR_ok in H as [it [_ H]].
  destruct (zs_eqb ty s_single); [apply (Hvi _ _ _ _ H)|].
  destruct (zs_eqb ty n_list_ty).
  { apply bindR_ok in H as [l [_ H]]. apply bindR_ok in H as [rs [Hm H]]. inversion H.
    assert (Hf : forall i y, (if is_blank i then Err (ECfg 15) else vi st va i) = Ok y -> P va y = true).
    { intros i y Hy. destruct (is_blank i); [discriminate Hy|exact (Hvi _ _ _ _ Hy)]. }
    apply (map_result_forall _ _ Hf _ _ Hm). }
  destruct (zs_eqb ty s_set).
  { destruct (string_to_list it) as [l|e]; [|discriminate H].
    destruct (forallb _ l); [|discriminate H].
    destruct (map_result (vi st va) (dedup l)) as [rs|[]] eqn:Hm; try discriminate H.
    destruct (forallb hashable rs); [|discriminate H]. inversion H.
    apply forallb_dedup. apply (map_result_forall _ _ (fun i y Hy => Hvi _ _ _ _ Hy) _ _ Hm). }
  destruct (zs_eqb ty n_event_handler); cbn [orb].
  { destruct (zs_eqb va s_eh_ms); [|discriminate H].
    apply (validate_dict_g_sound vi P Hvi) in H as [d [E T]]. subst r. exact T. }
  destruct (zs_eqb ty n_dict_ty); [|discriminate H].
  apply (validate_dict_g_sound vi P Hvi) in H as [d [E T]]. subst r. exact T.
Qed.

(* ---------------------------------------------------------------------------------------------- *)
(* 2. colours and int_from_hex                                                                      *)

Lemma kivy_comp_num x y : kivy_comp x = Ok y -> is_numv y = true.
Proof.
  unfold kivy_comp. intro H. apply bindR_ok in H as [z [_ H]].
  destruct (fl_has_bad _); [discriminate H|]. inversion H. reflexivity.
Qed.

Lemma forallb_app_numv a b : forallb is_numv a = true -> forallb is_numv b = true -> forallb is_numv (a ++ b) = true.
Proof. intros Ha Hb. rewrite forallb_app, Ha, Hb. reflexivity. Qed.

Lemma v_kivycolor_weak item r : v_kivycolor item = Ok r -> is_kivy_weak r = true.
Proof.
  unfold v_kivycolor. destruct (negb (truthy item)); [intro H; inversion H; reflexivity|].
  destruct (py_str item) as [s0|]; [|intro H; discriminate H].
  destruct (is_paren (lower s0)) eqn:Ep; [intro H; inversion H; cbn; exact Ep|].
  intro H. apply bindR_ok in H as [comps [_ H]]. apply bindR_ok in H as [fs [Hm H]]. inversion H.
  assert (Hn : forallb is_numv fs = true) by apply (map_result_forall _ _ kivy_comp_num _ _ Hm).
  cbn. destruct (length fs =? 3)%nat; [apply forallb_app_numv; [exact Hn|reflexivity]|exact Hn].
Qed.

Lemma color_comp_int l i y : color_comp l i = Ok y -> exists z, y = YInt z.
Proof.
  unfold color_comp. destruct (nth_error l i) as [[]|]; intro H; try discriminate H.
  destruct (parse_int s); inversion H. eauto.
Qed.

Lemma v_color_weak p item r : v_color p item = Ok r -> is_color_weak r = true.
Proof.
  unfold v_color. destruct (negb (assert_no_param p)); [intro H; discriminate H|].
  destruct (py_str item) as [s|]; [|intro H; discriminate H].
  destruct (named_color s) as [[[r0 g0] b0]|]; [intro H; inversion H; reflexivity|].
  destruct (is_hex_string s); [intro H; inversion H; reflexivity|].
  intro H. apply bindR_ok in H as [l [_ H]].
  apply bindR_ok in H as [a [Ha H]]. apply bindR_ok in H as [b [Hb H]]. apply bindR_ok in H as [c [Hc H]].
  apply color_comp_int in Ha as [za ->]. apply color_comp_int in Hb as [zb ->]. apply color_comp_int in Hc as [zc ->].
  inversion H. reflexivity.
Qed.

Lemma v_int_from_hex_le item r : v_int_from_hex item = Ok r -> exists z, r = YInt z /\ z <= 255.
Proof.
  unfold v_int_from_hex. destruct (py_str item) as [s|]; [|intro H; discriminate H].
  destruct (parse_int16 s) as [z|]; [|intro H; discriminate H].
  intro H. inversion H. destruct (255 <? z) eqn:E.
  - exists 255. split; [reflexivity|lia].
  - exists z. split; [reflexivity|]. apply Z.ltb_ge in E. exact E.
Qed.

(* hex digits *)
Lemma hexv_range c : 0 <= hexv c <= 15.
Proof.
  unfold hexv, hexval. destruct (is_digit c) eqn:E1.
  - unfold is_digit in E1. apply andb_true_iff in E1 as [A B]. apply Z.leb_le in A. apply Z.leb_le in B. lia.
  - destruct ((97 <=? c) && (c <=? 102)) eqn:E2.
    + apply andb_true_iff in E2 as [A B]. apply Z.leb_le in A. apply Z.leb_le in B. lia.
    + destruct ((65 <=? c) && (c <=? 70)) eqn:E3; [|lia].
      apply andb_true_iff in E3 as [A B]. apply Z.leb_le in A. apply Z.leb_le in B. lia.
Qed.

Lemma hex_int_1 a : 0 <= hex_int [a] <= 255.
Proof. unfold hex_int. cbn. pose proof (hexv_range a). lia. Qed.
Lemma hex_int_2 a b : 0 <= hex_int [a; b] <= 255.
Proof. unfold hex_int. cbn. pose proof (hexv_range a). pose proof (hexv_range b). lia. Qed.

(* z / 255 as a binary64, for every byte value: in [0, 1] (checked by computation for the 256 values) *)
Definition byte_ok (z : Z) : bool :=
  match kivy_comp (YInt z) with Ok v => in01 v | Err _ => false end.

Lemma bytes_ok : forallb byte_ok (map Z.of_nat (seq 0 256)) = true.
Proof. vm_compute. reflexivity. Qed.

Lemma byte_ok_all z : 0 <= z <= 255 -> byte_ok z = true.
Proof.
  intro Hz. pose proof bytes_ok as H. rewrite forallb_forall in H. apply H.
  apply in_map_iff. exists (Z.to_nat z). split; [lia|]. apply in_seq. lia.
Qed.

Lemma kivy_comp_byte z : 0 <= z <= 255 -> exists v, kivy_comp (YInt z) = Ok v /\ in01 v = true.
Proof.
  intro Hz. pose proof (byte_ok_all z Hz) as H. unfold byte_ok in H.
  destruct (kivy_comp (YInt z)) as [v|]; [eauto|discriminate H].
Qed.

Lemma map_result_bytes : forall zs, Forall (fun z => 0 <= z <= 255) zs ->
  exists fs, map_result kivy_comp (map YInt zs) = Ok fs /\ forallb in01 fs = true /\ length fs = length zs.
Proof.
  induction zs as [|z zs IH]; intro H.
  - exists []. repeat split.
  - inversion H as [|? ? Hz Hzs]; subst. destruct (IH Hzs) as [fs [E [F L]]].
    destruct (kivy_comp_byte z Hz) as [v [Ev Fv]].
    exists (v :: fs). cbn [map map_result]. rewrite Ev. cbn [bindR]. rewrite E. cbn [bindR].
    repeat split; cbn; [rewrite Fv, F; reflexivity|rewrite L; reflexivity].
Qed.

Lemma pairs_bytes : forall n s, (length s <= n)%nat -> Forall (fun z => 0 <= z <= 255) (map hex_int (pairs s)).
Proof.
  induction n as [|n IH]; intros s Hl.
  - destruct s; [constructor|cbn in Hl; lia].
  - destruct s as [|a [|b t]]; cbn [pairs map].
    + constructor.
    + constructor; [apply hex_int_1|constructor].
    + constructor; [apply hex_int_2|]. apply IH. cbn in Hl. lia.
Qed.

Lemma pairs_length : forall n s, (length s <= n)%nat -> length (pairs s) = Nat.div2 (S (length s)).
Proof.
  induction n as [|n IH]; intros s Hl.
  - destruct s; [reflexivity|cbn in Hl; lia].
  - destruct s as [|a [|b t]]; [reflexivity|reflexivity|].
    cbn [pairs length]. rewrite (IH t) by (cbn in Hl; lia). reflexivity.
Qed.

(* every named colour of rgb_color.py is three bytes (checked by computation over the translated table) *)
Lemma named_bytes : forallb (fun e => let '(_, (r, g, b)) := e in
                                        (0 <=? r) && (r <=? 255) && (0 <=? g) && (g <=? 255) && (0 <=? b) && (b <=? 255))
                            named_colors = true.
Proof. vm_compute. reflexivity. Qed.

Lemma assoc_z_in {V} k (l : list (list Z * V)) v : assoc_z k l = Some v -> In (k, v) l.
Proof.
  induction l as [|[k0 v0] l IH]; cbn; [intro H; discriminate H|].
  destruct (zs_eqb k k0) eqn:E.
  - intro H. inversion H. apply zs_eqb_spec in E. subst. left. reflexivity.
  - intro H. right. apply IH. exact H.
Qed.

Lemma named_color_bytes s r g b : named_color s = Some (r, g, b) ->
  0 <= r <= 255 /\ 0 <= g <= 255 /\ 0 <= b <= 255.
Proof.
  intro H. apply assoc_z_in in H. pose proof named_bytes as N. rewrite forallb_forall in N.
  specialize (N _ H). cbn in N.
  repeat (apply andb_true_iff in N as [N ?]).
  repeat match goal with X : (_ <=? _) = true |- _ => apply Z.leb_le in X end. apply Z.leb_le in N. lia.
Qed.

(* FULL statement for the named and the hex forms: a complete RGBA colour in range.  (The r,g,b LIST form is not:
   kivycolor_type_refuted.) *)
Lemma kivycolor_named_hex_sound_l s0 :
  is_nil s0 = false -> is_paren (lower s0) = false ->
  (named_color (lower s0) <> None \/ is_hex_string (lower s0) = true) ->
  exists r, v_kivycolor (YStr s0) = Ok r /\ is_kivy r = true /\ r <> YNone.
Proof.
  intros Hn Hp Hc. unfold v_kivycolor. cbn [truthy py_str]. rewrite Hn. cbn [negb]. rewrite Hp.
  destruct (named_color (lower s0)) as [[[r g] b]|] eqn:En.
  - destruct (named_color_bytes _ _ _ _ En) as [Hr [Hg Hb]].
    destruct (map_result_bytes [r; g; b]) as [fs [E [F L]]]; [constructor; [assumption|constructor; [assumption|constructor; [assumption|constructor]]]|].
    cbn [bindR]. cbn [map] in E. rewrite E. cbn [bindR]. cbn in L. rewrite L. cbn [Nat.eqb].
    eexists. split; [reflexivity|]. split; [|discriminate].
    cbn [is_kivy]. rewrite app_length, L. cbn. rewrite forallb_app, F. reflexivity.
  - destruct Hc as [Hc|Hc]; [contradiction Hc; reflexivity|]. rewrite Hc. cbn [bindR].
    unfold is_hex_string in Hc. apply andb_true_iff in Hc as [Hc H8]. apply andb_true_iff in Hc as [_ H6].
    apply Z.leb_le in H6. apply Z.leb_le in H8.
    rewrite <- map_map with (f := hex_int) (g := YInt).
    destruct (map_result_bytes (map hex_int (pairs (lower s0)))) as [fs [E [F L]]];
      [apply (pairs_bytes 8); lia|].
    rewrite E. cbn [bindR]. rewrite map_length, (pairs_length 8) in L by lia.
    assert (Hlen : length (lower s0) = 6%nat \/ length (lower s0) = 7%nat \/ length (lower s0) = 8%nat) by lia.
    destruct Hlen as [Hl|[Hl|Hl]]; rewrite Hl in L; cbn in L; rewrite L; cbn [Nat.eqb];
      (eexists; split; [reflexivity|]; split; [|discriminate]); cbn [is_kivy].
    + rewrite app_length, L. cbn. rewrite forallb_app, F. reflexivity.
    + rewrite L. cbn. exact F.
    + rewrite L. cbn. exact F.
Qed.

Lemma color_named_hex_sound_l s :
  (named_color s <> None \/ is_hex_string s = true) ->
  exists r, v_color None (YStr s) = Ok r /\ is_color r = true.
Proof.
  intro Hc. unfold v_color. cbn [assert_no_param negb py_str].
  destruct (named_color s) as [[[r g] b]|] eqn:En.
  - destruct (named_color_bytes _ _ _ _ En) as [Hr [Hg Hb]].
    eexists. split; [reflexivity|]. cbn.
    repeat (apply andb_true_iff; split); apply Z.leb_le; lia.
  - destruct Hc as [Hc|Hc]; [contradiction Hc; reflexivity|]. rewrite Hc.
    eexists. split; [reflexivity|].
    assert (B : forall t, 0 <= hex_int (firstn 2 t) <= 255).
    { intro t. destruct t as [|a [|b t]]; cbn [firstn]; [unfold hex_int; cbn; lia|apply hex_int_1|apply hex_int_2]. }
    cbn [is_color in255].
    pose proof (B s). pose proof (B (skipn 2 s)). pose proof (B (skipn 4 s)).
    repeat (apply andb_true_iff; split); apply Z.leb_le; lia.
Qed.

Definition s_1_2 : str := [49;44;50].                      (* "1,2" *)
Definition s_300_0_0 : str := [51;48;48;44;48;44;48].      (* "300,0,0" *)

Lemma kivycolor_type_refuted_l : exists item r, v_kivycolor item = Ok r /\ is_kivy r = false.
Proof. exists (YStr s_1_2). eexists. split; [vm_compute; reflexivity|vm_compute; reflexivity]. Qed.

Lemma color_range_refuted_l : exists item r, v_color None item = Ok r /\ is_color r = false.
Proof. exists (YStr s_300_0_0). eexists. split; [vm_compute; reflexivity|vm_compute; reflexivity]. Qed.

(* ---------------------------------------------------------------------------------------------- *)
(* 3. validate_item with the remaining validators                                                   *)

Lemma validate_item_x1_sound (sub : subvalidator) (subok : str -> yv -> bool) m :
  (forall st p it r, sub st p it = Ok r -> subok p r = true) ->
  (forall p, subok p (YDict []) = true) ->
  forall st va it r, validate_item_x1 sub m st va it = Ok r -> has_type_x1 subok m va r = true.
Proof.
  intros Hsub Hnil st va it r. unfold validate_item_x1, has_type_x1.
  destruct (parse_validator va) as [name p] eqn:Epv.
  destruct (zs_eqb name n_kivycolor).
  { destruct p; [intro H; discriminate H|]. apply v_kivycolor_weak. }
  destruct (zs_eqb name n_color); [apply v_color_weak|].
  destruct (zs_eqb name n_color_or_token).
  { destruct (none_lower it) as [| | | |s| | | | | | |] eqn:Ei; try (intro H; rewrite (v_color_weak _ _ _ H); destruct r; reflexivity).
    destruct (starts_with s [40] && ends_with s [41]); [intro H; inversion H; reflexivity|].
    intro H. rewrite (v_color_weak _ _ _ H). destruct r; reflexivity. }
  destruct (zs_eqb name n_int_from_hex).
  { destruct p; [intro H; discriminate H|]. intro H. apply v_int_from_hex_le in H as [z [-> Hz]].
    apply Z.leb_le. exact Hz. }
  destruct (zs_eqb name n_subconfig).
  { destruct p as [param|]; [|intro H; discriminate H].
    destruct (none_lower it); try apply Hsub. intro H. inversion H. apply Hnil. }
  intro H. exact (validate_item_sound _ _ _ _ H).
Qed.

Lemma validate_item_x_sound (sub : subvalidator) (subok : str -> yv -> bool) m :
  (forall st p it r, sub st p it = Ok r -> subok p r = true) ->
  (forall p, subok p (YDict []) = true) ->
  forall st va it r, validate_item_x sub m st va it = Ok r -> has_type_x subok m va r = true.
Proof.
  intros Hsub Hnil st va it r. unfold validate_item_x, has_type_x.
  pose proof (validate_item_x1_sound sub subok m Hsub Hnil) as H1.
  destruct (parse_validator va) as [name [[|c param]|]]; try apply H1.
  destruct (zs_eqb name n_dict); [|apply H1].
  destruct (negb (truthy (none_lower it))); [intro H; inversion H; reflexivity|].
  destruct (none_lower it); try (intro H; discriminate H).
  intro H. apply (validate_dict_g_sound _ _ H1) in H as [d [-> T]]. exact T.
Qed.

(* ---------------------------------------------------------------------------------------------- *)
(* 4. the recursive section validation                                                              *)

Definition root_nodup (root : tspec) : Prop :=
  forall path t, tpath root path = Some t -> NoDup (map fst t).

Lemma flat_keys t : map fst (flat t) = map fst t.
Proof. unfold flat. rewrite map_map. reflexivity. Qed.

Lemma lookup_t_nodup root : root_nodup root -> forall names specs,
  lookup_t root names = Some specs -> Forall (fun s => NoDup (map fst s)) specs.
Proof.
  intros Hr. induction names as [|n names IH]; cbn [lookup_t fold_right]; intros specs H.
  - inversion H. constructor.
  - fold (lookup_t root names) in H.
    destruct (tpath root (split_on 58 n)) as [t|] eqn:Et; [|discriminate H].
    destruct (lookup_t root names) as [l|]; [|discriminate H]. inversion H. constructor.
    + rewrite flat_keys. apply (Hr _ _ Et).
    + apply IH. reflexivity.
Qed.

Lemma spec_has_in k e (sp : spec) : In (k, e) sp -> spec_has k sp = true.
Proof.
  unfold spec_has. induction sp as [|[k0 e0] sp IH]; cbn; [contradiction|].
  intros [E|Hin].
  - inversion E; subst. rewrite zs_eqb_refl. reflexivity.
  - destruct (zs_eqb k k0); [reflexivity|apply IH; exact Hin].
Qed.

Lemma dict_set_known sp k v d :
  spec_has k sp = true -> forallb (key_known sp) d = true -> forallb (key_known sp) (dict_set (YStr k) v d) = true.
Proof.
  intros Hk. induction d as [|[k0 v0] d IH]; cbn [dict_set forallb]; intro H.
  - unfold key_known. cbn. rewrite Hk. reflexivity.
  - apply andb_true_iff in H as [H0 H1].
    destruct (key_eqb (YStr k) k0) eqn:E; cbn [forallb].
    + apply key_eqb_str in E. subst k0. unfold key_known at 1. cbn. rewrite Hk, H1. reflexivity.
    + rewrite H0, (IH H1). reflexivity.
Qed.

Lemma check_invalid_known sp kvs :
  check_invalid sp false (YDict kvs) = Ok tt -> forallb (key_known sp) kvs = true.
Proof.
  cbn [check_invalid]. induction kvs as [|[k v] kvs IH]; cbn [iter_result forallb]; [reflexivity|].
  intro H. apply bindR_ok in H as [[] [Hk H]]. rewrite (IH H), andb_true_r.
  unfold key_known. cbn [fst] in *. destruct k; try discriminate Hk.
  unfold check_key in Hk. destruct (spec_has s sp); [reflexivity|].
  destruct s as [|c s]; [discriminate Hk|]. cbn. destruct (c =? 95); [reflexivity|discriminate Hk].
Qed.

Lemma check_invalid_x_known sp st kvs :
  check_invalid_x sp false st (YDict kvs) = Ok tt -> forallb (key_known sp) kvs = true.
Proof.
  unfold check_invalid_x. intro H. apply check_invalid_known.
  destruct (negb (snd st)); [|destruct (negb (fst st)); [|exact H]];
    destruct (check_invalid sp false (YDict kvs)) as [[]|[]]; try reflexivity; try discriminate H;
    destruct (code =? 2) eqn:E; try discriminate H;
    destruct code; try discriminate H; destruct p; try discriminate H; destruct p; try discriminate H.
Qed.

(* what the property asks of the value at one spec key *)
Definition good_key (f : nat) root m ai (sec : str) (subok : str -> yv -> bool) (d : list (yv * yv)) (ke : str * sentry) : bool :=
  match snd ke with
  | SItem ty va de =>
      starts_underscore (fst ke) ||
      match dict_get (YStr (fst ke)) d with
      | Some v => has_item_type_g (has_type_x subok m) ty va v
      | None => false
      end
  | SNested =>
      starts_underscore (fst ke) ||
      match dict_get (YStr (fst ke)) d with
      | Some (YList l) => forallb (typed_cfg f root m ai [sec ++ 58 :: fst ke]) l
      | _ => false
      end
  | _ => true
  end.

Lemma good_key_ext f root m ai sec subok d d' ke :
  dict_get (YStr (fst ke)) d' = dict_get (YStr (fst ke)) d ->
  good_key f root m ai sec subok d' ke = good_key f root m ai sec subok d ke.
Proof. intro E. unfold good_key. rewrite E. reflexivity. Qed.

Section Step.
  Variables (rec : recvalidator) (root : tspec) (m : machine) (ai : bool) (f : nat) (st : pstate) (sec : str).
  Variable subok : str -> yv -> bool.
  Hypothesis Hrec : forall st' names src r, rec st' names src = Ok r -> typed_cfg f root m ai names r = true.
  Hypothesis Hsubok : forall p v, subok p v = match v with YDict [] => true | _ => typed_cfg f root m ai (split_on 44 p) v end.

  Lemma sub_of_ok : forall st' p it r, sub_of rec st' p it = Ok r -> subok p r = true.
  Proof.
    intros st' p it r H. unfold sub_of in H. apply Hrec in H. rewrite Hsubok.
    destruct r; try exact H. destruct kvs; [reflexivity|exact H].
  Qed.

  Lemma subok_nil : forall p, subok p (YDict []) = true.
  Proof. intro p. rewrite Hsubok. reflexivity. Qed.

  Lemma item_g_ok st' ty va de item r :
    validate_config_item_g (validate_item_x (sub_of rec) m) st' ty va de item = Ok r ->
    has_item_type_g (has_type_x subok m) ty va r = true.
  Proof.
    apply validate_config_item_g_sound. apply validate_item_x_sound; [apply sub_of_ok|apply subok_nil].
  Qed.

  (* one step: other keys untouched, spec keys only, and the step's own key good afterwards *)
  Lemma step_x_other a d0 ke d :
    step_x rec m true st sec (Ok d0) ke = Ok d -> fst ke <> a -> dict_get (YStr a) d = dict_get (YStr a) d0.
  Proof.
    unfold step_x. cbn [bindR]. intros H Hne. assert (Hne' : a <> fst ke) by congruence.
    destruct (snd ke) eqn:Es; cbv beta iota in H; [inversion H; reflexivity| | |];
      (destruct (fst ke) as [|c0 k0] eqn:Ek; [discriminate H|];
       destruct (starts_underscore (c0 :: k0)); [inversion H; reflexivity|]).
    - destruct (dict_get (YStr (c0 :: k0)) d0);
        apply bindR_ok in H as [r [_ H]]; inversion H; apply dict_get_set_other; assumption.
    - destruct (dict_get (YStr (c0 :: k0)) d0) as [[]|]; try discriminate H.
      + apply bindR_ok in H as [r [_ H]]. inversion H. apply dict_get_set_other; assumption.
      + inversion H. apply dict_get_set_other; assumption.
    - destruct (dict_get (YStr (c0 :: k0)) d0) as [?|]; try discriminate H.
      inversion H. apply dict_get_set_other; assumption.
  Qed.

  Lemma step_x_known sp d0 ke d :
    spec_has (fst ke) sp = true ->
    step_x rec m true st sec (Ok d0) ke = Ok d -> forallb (key_known sp) d0 = true -> forallb (key_known sp) d = true.
  Proof.
    unfold step_x. cbn [bindR]. intros Hk H H0.
    destruct (snd ke) eqn:Es; cbv beta iota in H; [inversion H; subst; exact H0| | |];
      (destruct (fst ke) as [|c0 k0] eqn:Ek; [discriminate H|];
       destruct (starts_underscore (c0 :: k0)); [inversion H; subst; exact H0|]).
    - destruct (dict_get (YStr (c0 :: k0)) d0);
        apply bindR_ok in H as [r [_ H]]; inversion H; apply dict_set_known; assumption.
    - destruct (dict_get (YStr (c0 :: k0)) d0) as [[]|]; try discriminate H.
      + apply bindR_ok in H as [r [_ H]]. inversion H. apply dict_set_known; assumption.
      + inversion H. apply dict_set_known; assumption.
    - destruct (dict_get (YStr (c0 :: k0)) d0) as [?|]; try discriminate H.
      inversion H. apply dict_set_known; assumption.
  Qed.

  Lemma step_x_good d0 ke d :
    step_x rec m true st sec (Ok d0) ke = Ok d -> good_key f root m ai sec subok d ke = true.
  Proof.
    unfold step_x, good_key. cbn [bindR]. intros H.
    destruct (snd ke) eqn:Es; cbv beta iota in H; [reflexivity| | |reflexivity];
      (destruct (fst ke) as [|c0 k0] eqn:Ek; [discriminate H|];
       destruct (starts_underscore (c0 :: k0)); [reflexivity|]); cbn [orb].
    - destruct (dict_get (YStr (c0 :: k0)) d0);
        apply bindR_ok in H as [r [Hr H]]; inversion H; rewrite dict_get_set_same; apply (item_g_ok _ _ _ _ _ _ Hr).
    - destruct (dict_get (YStr (c0 :: k0)) d0) as [[]|]; try discriminate H.
      + apply bindR_ok in H as [rs [Hm H]]. inversion H. rewrite dict_get_set_same.
        apply (map_result_forall _ _ (fun i y Hy => Hrec _ _ _ _ Hy) _ _ Hm).
      + inversion H. rewrite dict_get_set_same. reflexivity.
  Qed.

  Lemma fold_x_other a : forall sp d0 d,
    fold_left (step_x rec m true st sec) sp (Ok d0) = Ok d -> ~ In a (map fst sp) ->
    dict_get (YStr a) d = dict_get (YStr a) d0.
  Proof.
    induction sp as [|ke sp IH]; cbn [fold_left map]; intros d0 d H Hn.
    - inversion H; reflexivity.
    - destruct (step_x rec m true st sec (Ok d0) ke) as [d1|e] eqn:E.
      + rewrite (IH _ _ H) by (intro Hc; apply Hn; right; exact Hc).
        apply (step_x_other _ _ _ _ E). intro Hc. apply Hn. left. exact Hc.
      + rewrite fold_err in H; [discriminate H|reflexivity].
  Qed.

  Lemma fold_x_known sp0 : forall sp d0 d,
    (forall ke, In ke sp -> spec_has (fst ke) sp0 = true) ->
    fold_left (step_x rec m true st sec) sp (Ok d0) = Ok d ->
    forallb (key_known sp0) d0 = true -> forallb (key_known sp0) d = true.
  Proof.
    induction sp as [|ke sp IH]; cbn [fold_left]; intros d0 d Hin H H0.
    - inversion H; subst; exact H0.
    - destruct (step_x rec m true st sec (Ok d0) ke) as [d1|e] eqn:E.
      + apply (IH _ _ (fun ke' Hi => Hin ke' (or_intror Hi)) H).
        apply (step_x_known _ _ _ _ (Hin ke (or_introl eq_refl)) E H0).
      + rewrite fold_err in H; [discriminate H|reflexivity].
  Qed.

  Lemma fold_x_good : forall sp d0 d,
    NoDup (map fst sp) ->
    fold_left (step_x rec m true st sec) sp (Ok d0) = Ok d ->
    forallb (good_key f root m ai sec subok d) sp = true.
  Proof.
    induction sp as [|ke sp IH]; cbn [fold_left map forallb]; intros d0 d Hnd H; [reflexivity|].
    inversion Hnd as [|x xs Hnot Hnd']; subst.
    destruct (step_x rec m true st sec (Ok d0) ke) as [d1|e] eqn:E;
      [|rewrite fold_err in H; [discriminate H|reflexivity]].
    rewrite (IH _ _ Hnd' H), andb_true_r.
    rewrite (good_key_ext _ _ _ _ _ _ d1 d ke (fold_x_other _ _ _ _ H Hnot)).
    apply (step_x_good _ _ _ E).
  Qed.
End Step.

(* vcfg_sound: the property's predicate holds of every accepted configuration at every nesting depth *)
Lemma vcfg_sound_l root m ai : root_nodup root ->
  forall fuel st names src r,
    vcfg fuel root m ai true st names src = Ok r -> typed_cfg fuel root m ai names r = true.
Proof.
  intro Hroot. induction fuel as [|f IH]; intros st names src r H; [discriminate H|].
  cbn [vcfg] in H. unfold validate_config_x in H. cbn [typed_cfg].
  destruct (lookup_t root names) as [specs|] eqn:El; [|discriminate H].
  pose proof (build_spec_nodup_l specs (lookup_t_nodup _ Hroot _ _ El)) as Hnd.
  set (sp := build_spec specs) in *.
  apply bindR_ok in H as [[] [Hc H]].
  destruct src; try discriminate H.
  apply bindR_ok in H as [d [Hf H]]. inversion H; subst r.
  set (subok := fun (param : str) (v : yv) =>
                  match v with YDict [] => true | _ => typed_cfg f root m ai (split_on 44 param) v end).
  assert (Hrec : forall st' names' src' r', (fun sp' n s => vcfg f root m ai true sp' n s) st' names' src' = Ok r' ->
                                            typed_cfg f root m ai names' r' = true) by (intros; eapply IH; eassumption).
  apply andb_true_iff. split.
  - destruct ai; [reflexivity|]. cbn [orb]. destruct (spec_has s_allow_others sp); [reflexivity|]. cbn [orb].
    refine (fold_x_known _ _ _ _ sp sp kvs d _ Hf (check_invalid_x_known _ _ _ Hc)).
    intros [k e] Hin. apply (spec_has_in _ _ _ Hin).
  - pose proof (fold_x_good _ root m ai f st (hd [] names) subok Hrec (fun p v => eq_refl) sp kvs d Hnd Hf) as G.
    unfold good_key in G. exact G.
Qed.

(* consequences, in the terms of the property: at the level of ANY (sub-)configuration that vcfg accepted *)
Lemma typed_cfg_no_unknown fuel root m names d specs :
  typed_cfg (S fuel) root m false names (YDict d) = true -> lookup_t root names = Some specs ->
  spec_has s_allow_others (build_spec specs) = false ->
  forall k v, In (k, v) d -> exists s, k = YStr s /\ (spec_has s (build_spec specs) = true \/ starts_underscore s = true).
Proof.
  cbn [typed_cfg]. intros H El Ha k v Hin. rewrite El in H. apply andb_true_iff in H as [H _].
  rewrite Ha in H. cbn [orb] in H. rewrite forallb_forall in H. specialize (H _ Hin).
  unfold key_known in H. cbn [fst] in H. destruct k; try discriminate H. exists s. split; [reflexivity|].
  apply orb_true_iff in H. exact H.
Qed.

(* the unknown-key check is inside the recursion: NO call of the recursive validator - top level, subconfig(..) value
   or element of a nested list - accepts a source with a key that is neither in its spec nor private *)
Lemma unknown_key_rejected_deep_l fuel root m add st names kvs specs c k v :
  lookup_t root names = Some specs -> spec_has s_allow_others (build_spec specs) = false ->
  In (YStr (c :: k), v) kvs -> spec_has (c :: k) (build_spec specs) = false -> c <> 95 ->
  exists e, vcfg fuel root m false add st names (YDict kvs) = Err e.
Proof.
  intros El Ha Hin Hk Hc. destruct fuel as [|f]; [cbn; eauto|].
  cbn [vcfg]. unfold validate_config_x. rewrite El, Ha.
  assert (E : exists e, check_invalid_x (build_spec specs) false st (YDict kvs) = Err e).
  { assert (Hx : (fun kv : yv * yv => match fst kv with
                                      | YStr s => check_key (build_spec specs) false s
                                      | _ => Err (ECfg 3)
                                      end) (YStr (c :: k), v) = Err (ECfg 2)).
    { cbn. unfold check_key. rewrite Hk. apply Z.eqb_neq in Hc. rewrite Hc. reflexivity. }
    destruct (iter_result_err _ kvs _ _ Hin Hx) as [e' He'].
    unfold check_invalid_x. cbn [check_invalid]. rewrite He'.
    destruct (negb (snd st)); [|destruct (negb (fst st))]; try (eexists; reflexivity).
    all: destruct e' as [code| | | | | | | |]; try (eexists; reflexivity).
    all: destruct code as [|p|p]; try (eexists; reflexivity).
    all: destruct p as [p|p|]; try (eexists; reflexivity).
    all: destruct p as [p|p|]; eexists; reflexivity. }
  destruct E as [e E]. rewrite E. cbn. eauto.
Qed.

(* ---------------------------------------------------------------------------------------------- *)
(* 5. config-player entry names                                                                     *)

Lemma parse_and_validate_name m b key name ct num :
  parse_and_validate m b key = Ok (name, ct, num) ->
  forallb (name_ok b) name = true /\ name <> [] /\ exists rest, key = name ++ rest.
Proof.
  unfold parse_and_validate, parse_conditional.
  destruct (span_name key) as [nm rest] eqn:Es.
  assert (Hsp : key = nm ++ rest).
  { clear - Es. revert nm rest Es. induction key as [|c t IH]; cbn; intros nm rest Es.
    - inversion Es. reflexivity.
    - destruct (is_namec c).
      + destruct (span_name t) as [w r]. inversion Es; subst. cbn. f_equal. apply IH. reflexivity.
      + inversion Es. reflexivity. }
  destruct (is_nil nm) eqn:En; [intro H; discriminate H|].
  assert (G : forall cond nu, bindR (match cond with
                                   | Some c => mk_template m c_BoolTemplate c
                                   | None => Ok YNone
                                   end)
                 (fun ct0 => if forallb (name_ok b) nm then Ok (nm, ct0, nu) else Err (ECfg 4)) = Ok (name, ct, num) ->
               forallb (name_ok b) name = true /\ name <> [] /\ exists rest, key = name ++ rest).
  { intros cond nu H. apply bindR_ok in H as [ct0 [_ H]].
    destruct (forallb (name_ok b) nm) eqn:F; [|discriminate H]. inversion H; subst.
    split; [exact F|]. split; [destruct name; [discriminate En|discriminate]|eauto]. }
  destruct rest as [|c t]; [apply (G None None)|].
  destruct (c =? 123).
  - destruct (last_close t) as [[[|c1 cond] nu]|]; try (intro H; discriminate H). apply (G (Some (c1 :: cond)) nu).
  - destruct (tail_number (c :: t)) as [[n|]|]; try (intro H; discriminate H). apply (G None (Some n)).
Qed.

(* every name of an accepted variable_player / score_queue_player entry is well formed: ANY key with an illegal
   character at ANY position of its name rejects the entry *)
Lemma var_entry_names m : forall keys d0 d,
  fold_left (fun acc key => bindR acc (fun d =>
               bindR (parse_and_validate m false key) (fun r =>
               let '(name, ct, _) := r in Ok (dict_set (YStr name) ct d)))) keys (Ok d0) = Ok d ->
  forall key, In key keys -> exists name ct num,
    parse_and_validate m false key = Ok (name, ct, num) /\ forallb (name_ok false) name = true.
Proof.
  induction keys as [|k keys IH]; cbn [fold_left]; intros d0 d H key Hin; [contradiction|].
  destruct (parse_and_validate m false k) as [[[name ct] num]|e] eqn:E; cbn [bindR] in H;
    [|rewrite fold_err in H by reflexivity; discriminate H].
  destruct Hin as [<-|Hin].
  - exists name, ct, num. split; [exact E|]. apply (parse_and_validate_name _ _ _ _ _ _ E).
  - apply (IH _ _ H _ Hin).
Qed.

(* ---------------------------------------------------------------------------------------------- *)
(* 6. examples (satisfiability)                                                                     *)
Definition ex_root : tspec :=
  [([115;48], TNested [([111;110;101], TItem s_single (n_subconfig ++ [40;115;49;41]) s_None_C);          (* s0: one: single|subconfig(s1)|None *)
                       ([108], TNested [([118], TItem s_single n_int [48])])]);                              (*     l: nested {v: single|int|0} *)
   ([115;49], TNested [([110], TItem s_single n_str [])])].                                                  (* s1: n: single|str| *)

Example ex_root_nodup : root_nodup ex_root.
Proof.
  intros path t H.
  destruct path as [|a [|b [|c rest]]]; cbn in H.
  - inversion H. cbn. repeat constructor; cbn; intuition discriminate.
  - unfold tpath in H. cbn in H.
    destruct (zs_eqb a [115;48]); [inversion H; cbn; repeat constructor; cbn; intuition discriminate|].
    destruct (zs_eqb a [115;49]); [inversion H; cbn; repeat constructor; cbn; intuition discriminate|discriminate H].
  - unfold tpath in H. cbn in H.
    destruct (zs_eqb a [115;48]); cbn in H.
    + destruct (zs_eqb b [111;110;101]); cbn in H; [discriminate H|].
      destruct (zs_eqb b [108]); cbn in H; [inversion H; cbn; repeat constructor; cbn; intuition discriminate|discriminate H].
    + destruct (zs_eqb a [115;49]); cbn in H; [|discriminate H].
      destruct (zs_eqb b [110]); cbn in H; discriminate H.
  - exfalso. unfold tpath in H. cbn [fold_left] in H.
    assert (N : forall l, fold_left (fun cur comp => match cur with
                             | Some t => match tget comp t with Some (TNested s) => Some s | _ => None end
                             | None => None end) l (@None tspec) = None) by (induction l; cbn; auto).
    cbn in H.
    destruct (zs_eqb a [115;48]); cbn in H.
    + destruct (zs_eqb b [111;110;101]); cbn in H; [rewrite N in H; discriminate H|].
      destruct (zs_eqb b [108]); cbn in H; [|rewrite N in H; discriminate H].
      destruct (zs_eqb c [118]); cbn in H; rewrite N in H; discriminate H.
    + destruct (zs_eqb a [115;49]); cbn in H; [|rewrite N in H; discriminate H].
      destruct (zs_eqb b [110]); cbn in H; rewrite N in H; discriminate H.
Qed.

(* {one: {n: "x"}, l: [{v: "3"}]} is accepted, {one: {n: "x", zz: 1}} (unknown key at depth 2) is rejected *)
Example ex_deep :
  (exists r, vcfg_top 5 ex_root [] false true [[115;48]]
       (YDict [(YStr [111;110;101], YDict [(YStr [110], YStr [120])]); (YStr [108], YList [YDict [(YStr [118], YStr [51])]])]) = Ok r
     /\ typed_cfg 5 ex_root [] false [[115;48]] r = true) /\
  vcfg_top 5 ex_root [] false true [[115;48]]
       (YDict [(YStr [111;110;101], YDict [(YStr [110], YStr [120]); (YStr [122;122], YInt 1)])]) = Err (ECfg 2).
Proof. split; [eexists; split; vm_compute; reflexivity|vm_compute; reflexivity]. Qed.

Example ex_kivy : v_kivycolor (YStr [102;102;48;48;48;48]) = Ok (YList [YFloat (FNum 1) []; YFloat (FNum 0) []; YFloat (FNum 0) []; YInt 1]).
Proof. vm_compute. reflexivity. Qed.

Example ex_player :
  parse_and_validate [] false [98;111;110;117;115;46;116;111;116;97;108] = Err (ECfg 4) /\          (* bonus.total *)
  exists r, parse_and_validate [] false [115;99;111;114;101;124;98;108;111;99;107] = Ok r.          (* score|block *)
Proof. split; [vm_compute; reflexivity|eexists; vm_compute; reflexivity]. Qed.
