(* C12/Model.v — hand model of mpf/core/config_validator.py (ConfigValidator): validate_item and the
   scalar validators, the numeric range check, validate_config_item (single / list / set / dict /
   event_handler, defaults, required), check_for_invalid_sections, build_spec and the section loop
   of _validate_config.  The time validators call the TRANSLATED gen/Time.v.

   The model is of the code as it is after the fix commits d658b1b (time strings; picked up by the
   translator) and 5a156f6 (range check written as `not value >= min`).  pow2 is modelled AS THE CODE
   IS: the item is returned unconverted (known finding pow2-returns-unconverted).  Definitions only; proofs are in Lemmas.v.                                        *)
From Common Require Import Prelude.
From Coq Require Import QArith.
From C12 Require Import Base.
From C12.gen Require Import Time.
Open Scope Z_scope.

(* ---- names ------------------------------------------------------------------------------------ *)
Definition n_str : str := [115;116;114].
Definition n_event_posted : str := [101;118;101;110;116;95;112;111;115;116;101;100].
Definition n_event_handler : str := [101;118;101;110;116;95;104;97;110;100;108;101;114].
Definition n_lstr : str := [108;115;116;114].
Definition n_float : str := [102;108;111;97;116].
Definition n_float_or_token : str := [102;108;111;97;116;95;111;114;95;116;111;107;101;110].
Definition n_int : str := [105;110;116].
Definition n_int_or_token : str := [105;110;116;95;111;114;95;116;111;107;101;110].
Definition n_num : str := [110;117;109].
Definition n_num_or_token : str := [110;117;109;95;111;114;95;116;111;107;101;110].
Definition n_bool : str := [98;111;111;108].
Definition n_bool_or_token : str := [98;111;111;108;95;111;114;95;116;111;107;101;110].
Definition n_boolean : str := [98;111;111;108;101;97;110].
Definition n_ms : str := [109;115].
Definition n_ms_or_token : str := [109;115;95;111;114;95;116;111;107;101;110].
Definition n_secs : str := [115;101;99;115].
Definition n_secs_or_token : str := [115;101;99;115;95;111;114;95;116;111;107;101;110].
Definition n_list : str := [108;105;115;116].
Definition n_dict : str := [100;105;99;116].
Definition n_bool_int : str := [98;111;111;108;95;105;110;116].
Definition n_pow2 : str := [112;111;119;50].
Definition n_enum : str := [101;110;117;109].
Definition n_machine : str := [109;97;99;104;105;110;101].
Definition n_template_float_or_token : str :=
  [116;101;109;112;108;97;116;101;95;102;108;111;97;116;95;111;114;95;116;111;107;101;110].
Definition n_template_float : str := [116;101;109;112;108;97;116;101;95;102;108;111;97;116].
Definition n_template_int : str := [116;101;109;112;108;97;116;101;95;105;110;116].
Definition n_template_bool : str := [116;101;109;112;108;97;116;101;95;98;111;111;108].
Definition n_template_secs : str := [116;101;109;112;108;97;116;101;95;115;101;99;115].
Definition n_template_ms : str := [116;101;109;112;108;97;116;101;95;109;115].
Definition n_template_str : str := [116;101;109;112;108;97;116;101;95;115;116;114].
Definition n_gain : str := [103;97;105;110].
(* validators that exist but are not modelled *)
Definition n_unmodelled : list str := [
  [105;110;116;95;102;114;111;109;95;104;101;120];
  [107;105;118;121;99;111;108;111;114];
  [99;111;108;111;114];
  [99;111;108;111;114;95;111;114;95;116;111;107;101;110];
  [115;117;98;99;111;110;102;105;103]].
(* template classes of mpf/core/placeholder_manager.py *)
Definition c_IntTemplate : str := [73;110;116;84;101;109;112;108;97;116;101].
Definition c_FloatTemplate : str := [70;108;111;97;116;84;101;109;112;108;97;116;101].
Definition c_BoolTemplate : str := [66;111;111;108;84;101;109;112;108;97;116;101].
Definition c_StringTemplate : str := [83;116;114;105;110;103;84;101;109;112;108;97;116;101].
Definition c_TextTemplate : str := [84;101;120;116;84;101;109;112;108;97;116;101].
(* reserved "section" of the machine table: the texts Python's ast.parse(text, mode='eval') accepts (the expression
   grammar is abstract: supplied by the harness for every text of the case, like the device names) *)
Definition n_expr : str := [35;101;120;112;114].

Definition s_none : str := [110;111;110;101].
Definition s_NONE_U : str := [78;79;78;69].
Definition s_no : str := [110;111].
Definition s_yes : str := [121;101;115].
Definition s_single : str := [115;105;110;103;108;101].
Definition s_set : str := [115;101;116].
Definition s_eh_ms : str := [101;118;101;110;116;95;104;97;110;100;108;101;114;58;109;115].
Definition s_allow_others : str := [95;95;97;108;108;111;119;95;111;116;104;101;114;115;95;95].
Definition s_blank : str := [32].
Definition false_words : list str :=
  [[102;97;108;115;101]; [102]; [110;111]; [100;105;115;97;98;108;101]; [111;102;102]].
Definition true_words : list str :=
  [[116;114;117;101]; [116]; [121;101;115]; [101;110;97;98;108;101]; [111;110]].

(* ---- validator kinds ---------------------------------------------------------------------------- *)
Inductive vkind :=
| KStr | KLstr | KFloat | KInt | KNum | KBool | KMs | KSecs | KList | KDict | KBoolInt | KPow2
| KEnum | KMachine
| KTok (k : vkind)          (* _validate_type_or_token(func) *)
| KTplInt | KTplFloat | KTplBool | KTplSecs | KTplMs | KTplStr | KGain
| KUnmodelled | KUnknown.

Definition kind_of (n : str) : vkind :=
  if zs_eqb n n_str || zs_eqb n n_event_posted || zs_eqb n n_event_handler then KStr
  else if zs_eqb n n_lstr then KLstr
  else if zs_eqb n n_float then KFloat
  else if zs_eqb n n_float_or_token then KTok KFloat
  else if zs_eqb n n_int then KInt
  else if zs_eqb n n_int_or_token then KTok KInt
  else if zs_eqb n n_num then KNum
  else if zs_eqb n n_num_or_token then KTok KNum
  else if zs_eqb n n_bool || zs_eqb n n_boolean then KBool
  else if zs_eqb n n_bool_or_token then KTok KBool
  else if zs_eqb n n_ms then KMs
  else if zs_eqb n n_ms_or_token then KTok KMs
  else if zs_eqb n n_secs then KSecs
  else if zs_eqb n n_secs_or_token then KTok KSecs
  else if zs_eqb n n_list then KList
  else if zs_eqb n n_dict then KDict
  else if zs_eqb n n_bool_int then KBoolInt
  else if zs_eqb n n_pow2 then KPow2
  else if zs_eqb n n_enum then KEnum
  else if zs_eqb n n_machine then KMachine
  else if zs_eqb n n_template_int then KTplInt
  else if zs_eqb n n_template_float then KTplFloat
  else if zs_eqb n n_template_float_or_token then KTok KTplFloat
  else if zs_eqb n n_template_bool then KTplBool
  else if zs_eqb n n_template_secs then KTplSecs
  else if zs_eqb n n_template_ms then KTplMs
  else if zs_eqb n n_template_str then KTplStr
  else if zs_eqb n n_gain then KGain
  else if mem_str n n_unmodelled then KUnmodelled
  else KUnknown.

(* does the Python method accept the keyword argument `param`? *)
Definition takes_param (k : vkind) : bool :=
  match k with
  | KFloat | KInt | KNum | KBool | KMs | KSecs | KDict | KEnum | KMachine | KTok _ | KTplFloat => true
  | _ => false
  end.
(* ... and is it a required positional argument? *)
Definition needs_param (k : vkind) : bool :=
  match k with KEnum | KMachine => true | _ => false end.

(* validator string "name(param)" -> (name, Some param) *)
Definition parse_validator (v : str) : str * option str :=
  if mem_z 40 v && ends_with v [41] then
    let '(n, rest) := split_first 40 v in
    (n, Some (drop_last 1 (match rest with Some r => r | None => [] end)))
  else (v, None).

(* ---- numeric range: _validate_range_min_smaller_max (fixed: `not value >= lo`, `not value <= hi`) *)
Definition bound_of (p : str) : result (option fl) :=
  if zs_eqb p s_NONE_U then Ok None
  else match parse_float p with
       | Some f => if fl_has_bad f then Err EUnsup else Ok (Some f)
       | None => Err EValue                         (* float(param[i]) raises: malformed spec *)
       end.

Definition range_check (param : option str) (value : fl) : result unit :=
  match param with
  | None | Some [] => Ok tt                          (* `if param:` *)
  | Some p =>
      match split_on 44 p with
      | p0 :: rest =>
          bindR (bound_of p0) (fun lo =>
          if match lo with Some l => negb (fl_le l value) | None => false end then Err (ECfg 5)
          else match rest with
               | p1 :: _ =>
                   bindR (bound_of p1) (fun hi =>
                   if match hi with Some h => negb (fl_le value h) | None => false end then Err (ECfg 5)
                   else Ok tt)
               | [] => Err EIndex
               end)
      | [] => Err EIndex
      end
  end.

(* ---- conversions ---------------------------------------------------------------------------------- *)
Definition b2z (b : bool) : Z := if b then 1 else 0.
Definition fl_of_int_exact (z : Z) : fl := FNum (inject_Z z).    (* int compared with float: exact *)

Definition to_float (item : yv) : result fl :=                   (* float(item); TypeError/ValueError -> CFE 5 *)
  match item with
  | YBool b => Ok (FNum (inject_Z (b2z b)))
  | YInt z => let f := fl_of_Z z in if fl_has_bad f then Err EUnsup else Ok f
  | YFloat f _ => Ok f
  | YStr s => match parse_float s with
              | Some f => if fl_has_bad f then Err EUnsup else Ok f
              | None => Err (ECfg 5)
              end
  | _ => Err (ECfg 5)
  end.

Definition to_int (item : yv) : result Z :=                      (* int(item) *)
  match item with
  | YBool b => Ok (b2z b)
  | YInt z => Ok z
  | YFloat f _ => match py_int_of_fl f with
                  | Err EValue => Err (ECfg 5)
                  | r => r                                         (* OverflowError escapes *)
                  end
  | YStr s => match parse_int s with Some z => Ok z | None => Err (ECfg 5) end
  | _ => Err (ECfg 5)
  end.

Definition is_pow2 (z : Z) : bool := negb (z =? 0) && (Z.land z (z - 1) =? 0).

Definition truthy (v : yv) : bool :=
  match v with
  | YNone => false | YBool b => b | YInt z => negb (z =? 0)
  | YFloat (FNum q) _ => negb (Qeq_bool q 0) | YFloat _ _ => true
  | YStr s => negb (is_nil s) | YList l => negb (is_nil l) | YDict l => negb (is_nil l)
  | YSet l => negb (is_nil l) | YToken _ | YDev _ _ | YNative _ | YTemplate _ _ => true
  end.

Definition none_or_strip (x : str) : yv := if zs_eqb x s_none then YNone else YStr (strip x).

Definition string_to_list (item : yv) : result (list yv) :=      (* Util.string_to_list *)
  match item with
  | YStr [] => Ok []
  | YStr s => Ok (map none_or_strip (split_on 44 s))
  | YList l => Ok l
  | YNone => Ok []
  | YBool _ | YInt _ | YFloat _ _ => Ok [item]
  | _ => Err EAssert
  end.

(* re.findall(r'([\w|-]+?\{.*?\}|[\w|-]+)', s) on ASCII text: leftmost, non-overlapping; at a start position
   the first alternative (lazy word run, '{', lazy anything-but-newline, '}') can only match when the '{' directly
   follows the MAXIMAL run of word characters and a '}' follows on the same line; otherwise the greedy word run *)
Definition is_wordc (c : Z) : bool := is_alpha c || is_digit c || (c =? 95) || (c =? 124) || (c =? 45).

Fixpoint span_word (s : str) : str * str :=
  match s with
  | c :: t => if is_wordc c then let '(w, r) := span_word t in (c :: w, r) else ([], s)
  | [] => ([], [])
  end.

(* text up to and including the first '}', provided no newline comes first *)
Fixpoint find_close (s : str) : option (str * str) :=
  match s with
  | [] => None
  | c :: t => if c =? 125 then Some ([c], t)
              else if c =? 10 then None
              else match find_close t with Some (b, r) => Some (c :: b, r) | None => None end
  end.

Fixpoint ev_tokens (fuel : nat) (s : str) : list str :=
  match fuel with
  | O => []
  | S f =>
      match s with
      | [] => []
      | c :: t =>
          if is_wordc c then
            let '(w, r) := span_word s in
            match r with
            | 123 :: r' =>
                match find_close r' with
                | Some (body, rest) => (w ++ 123 :: body) :: ev_tokens f rest
                | None => w :: ev_tokens f r
                end
            | _ => w :: ev_tokens f r
            end
          else ev_tokens f t
      end
  end.

Definition string_to_event_list (item : yv) : result (list yv) := (* Util.string_to_event_list *)
  match item with
  | YStr s => if mem_z 123 s then Ok (map none_or_strip (ev_tokens (S (length s)) s))
              else string_to_list item
  | _ => string_to_list item
  end.

(* ---- the machine: section name -> device names ---------------------------------------------------- *)
Definition machine := list (str * list str).
Definition section_of (m : machine) (sec : str) : list str :=
  match assoc_z sec m with Some l => l | None => [] end.

(* ---- scalar validators ------------------------------------------------------------------------------ *)
Definition assert_no_param (param : option str) : bool :=
  match param with None | Some [] => true | _ => false end.

Definition v_bool (item : yv) : result yv :=
  match item with
  | YNone => Ok YNone
  | YBool b => Ok (YBool b)
  | YStr s => if mem_str (lower s) false_words then Ok (YBool false)
              else if mem_str (lower s) true_words then Ok (YBool true)
              else Err (ECfg 13)
  | _ => Err (ECfg 13)
  end.

Definition num_value (item : yv) : result yv :=                  (* _validate_type_num: value *)
  match item with
  | YBool _ | YInt _ | YFloat _ _ => Ok item
  | YStr s => if mem_z 46 s
              then match parse_float s with
                   | Some f => if fl_has_bad f then Err EUnsup else Ok (YFloat f [])
                   | None => Err (ECfg 5)
                   end
              else match parse_int s with Some z => Ok (YInt z) | None => Err (ECfg 5) end
  | _ => Err (ECfg 5)
  end.

Definition as_fl (v : yv) : fl :=
  match v with
  | YBool b => fl_of_int_exact (b2z b)
  | YInt z => fl_of_int_exact z
  | YFloat f _ => f
  | _ => FNaN
  end.

(* ---- templates (placeholder_manager.build_*_template) and gain -------------------------------------- *)
Definition parses (m : machine) (s : str) : bool := mem_str s (section_of m n_expr).

(* XTemplate(self._parse_template(text), text, ...): SyntaxError -> AssertionError *)
Definition mk_template (m : machine) (cls : str) (s : str) : result yv :=
  if parses m s then Ok (YTemplate cls s) else Err EAssert.

Definition build_int_template (m : machine) (item : yv) : result yv :=
  match item with
  | YBool b => Ok (YNative (YInt (b2z b)))                         (* int(True) *)
  | YInt z => Ok (YNative (YInt z))
  | YStr s => match parse_int s with
              | Some z => Ok (YNative (YInt z))
              | None => mk_template m c_IntTemplate s
              end
  | _ => Err EUnsup
  end.

Definition build_float_template (m : machine) (item : yv) : result yv :=
  match item with
  | YBool b => Ok (YNative (YFloat (FNum (inject_Z (b2z b))) []))
  | YInt z => let f := fl_of_Z z in if fl_has_bad f then Err EUnsup else Ok (YNative (YFloat f []))
  | YFloat f _ => Ok (YNative (YFloat f []))
  | YStr s => match parse_float s with
              | Some f => if fl_has_bad f then Err EUnsup else Ok (YNative (YFloat f []))
              | None => mk_template m c_FloatTemplate s
              end
  | _ => Err EUnsup
  end.

Definition str_or_int (item : yv) : bool :=                        (* isinstance(item, (str, int)) *)
  match item with YStr _ | YInt _ | YBool _ => true | _ => false end.

Definition fl_clamp01 (f : fl) : fl :=                             (* min(max(f, 0.0), 1.0); NaN stays NaN *)
  match f with
  | FNum q => if Qle_bool q 0 then FNum 0 else if Qle_bool 1 q then FNum 1 else f
  | FInf true => FNum 0
  | FInf false => FNum 1
  | other => other
  end.

Definition s_minus_inf : str := [45;105;110;102].
Definition s_db : str := [100;98].

(* Util.string_to_gain *)
Definition string_to_gain (item : yv) : result fl :=
  match py_str item with
  | None => Err EUnsup                                             (* str(list/dict) *)
  | Some s0 =>
      let s := lower s0 in
      if starts_with s s_minus_inf then Ok (FNum 0)
      else if ends_with s s_db then
        match parse_float (filter (fun c => negb (is_alpha c)) s) with
        | None => Err EValue                                       (* float('') escapes as ValueError *)
        | Some _ => Err EUnsup                                     (* 10 ** (db / 20): not modelled *)
        end
      else match parse_float s with
           | Some f => if fl_has_bad f then Err EUnsup else Ok (fl_clamp01 f)
           | None => Ok (FNum 1)
           end
  end.

Fixpoint validate_scalar (m : machine) (k : vkind) (param : option str) (item : yv) : result yv :=
  match k with
  | KStr =>
      match item with
      | YList _ | YDict _ => Err (ECfg 5)
      | YNone => Ok YNone
      | _ => match py_str item with Some s => Ok (YStr s) | None => Err EUnsup end
      end
  | KLstr =>
      match item with
      | YNone => Ok YNone
      | _ => match py_str item with Some s => Ok (YStr (lower s)) | None => Err EUnsup end
      end
  | KFloat =>
      match item with
      | YNone => Ok YNone
      | _ => bindR (to_float item) (fun v => bindR (range_check param v) (fun _ => Ok (YFloat v [])))
      end
  | KInt =>
      match item with
      | YNone => Ok YNone
      | _ => bindR (to_int item) (fun z =>
             bindR (range_check param (fl_of_int_exact z)) (fun _ => Ok (YInt z)))
      end
  | KNum =>
      match item with
      | YNone => Ok YNone
      | _ => bindR (num_value item) (fun v => bindR (range_check param (as_fl v)) (fun _ => Ok v))
      end
  | KBool => if assert_no_param param then v_bool item else Err EAssert
  | KMs =>
      if assert_no_param param then
        match item with
        | YNone => Ok YNone
        | _ => match string_to_ms item with
               | Ok z => Ok (YInt z)
               | Err EValue => Err (ECfg 11)
               | Err e => Err e
               end
        end
      else Err EAssert
  | KSecs =>
      if assert_no_param param then
        match item with
        | YNone => Ok YNone
        | _ => match string_to_secs item with
               | Ok f => if fl_has_bad f then Err EUnsup else Ok (YFloat f [])
               | Err EValue => Err (ECfg 11)
               | Err e => Err e
               end
        end
      else Err EAssert
  | KList => bindR (string_to_list item) (fun l => Ok (YList l))
  | KDict =>
      if negb (truthy item) then Ok (YDict [])
      else match item with
           | YDict kvs => if assert_no_param param then Ok item else Err EUnsup   (* dict(k:v) not modelled *)
           | _ => Err (ECfg 5)
           end
  | KBoolInt => bindR (v_bool item) (fun b => Ok (YInt (b2z (truthy b))))
  | KPow2 =>
      (* _validate_type_pow2: Util.is_power2(item) converts with int() (TypeError/ValueError -> not a power
         of two) but the validator then returns ITEM ITSELF, unconverted (recorded finding
         pow2-returns-unconverted) *)
      match item with
      | YNone => Ok YNone
      | _ => match to_int item with
             | Ok z => if is_pow2 z then Ok item else Err (ECfg 5)
             | Err (ECfg _) => Err (ECfg 5)
             | Err e => Err e
             end
      end
  | KEnum =>
      match param with
      | None => Err EType
      | Some p =>
          let values := split_on 44 (lower p) in
          let item' := match item with YStr s => YStr (lower s) | _ => item end in
          match item' with
          | YList _ | YDict _ => Err (ECfg 5)          (* str(container) is assumed not to be an enum value *)
          | _ =>
            if match item' with YNone => mem_str s_none values | _ => false end then Ok YNone
            else match py_str item' with
                 | Some t =>
                     if mem_str t values then Ok (YStr t)
                     else match item' with
                          | YBool false => if mem_str s_no values then Ok (YStr s_no) else Err (ECfg 5)
                          | YBool true => if mem_str s_yes values then Ok (YStr s_yes) else Err (ECfg 5)
                          | _ => Err (ECfg 5)
                          end
                 | None => Err EUnsup
                 end
          end
      end
  | KMachine =>
      match param with
      | None => Err EType
      | Some p =>
          match item with
          | YNone => Ok YNone
          | YStr [] => Err (ECfg 14)
          | YStr s => if mem_str s (section_of m p) then Ok (YDev p s) else Err (ECfg 6)
          | _ => Err (ECfg 10)
          end
      end
  | KTok k' =>
      match item with
      | YStr s => if starts_with s [40] && ends_with s [41]
                  then Ok (YToken (drop_last 1 (tl s)))
                  else validate_scalar m k' param item
      | _ => validate_scalar m k' param item
      end
  | KTplInt =>
      match item with
      | YNone => Ok YNone
      | _ => if str_or_int item then build_int_template m item else Err (ECfg 5)
      end
  | KTplFloat =>                                                   (* param is accepted and ignored *)
      match item with
      | YNone => Ok YNone
      | YStr _ | YInt _ | YBool _ | YFloat _ _ => build_float_template m item
      | _ => Err (ECfg 5)
      end
  | KTplBool =>
      match item with
      | YNone => Ok YNone
      | YBool b => Ok (YNative (YBool b))
      | YStr s => mk_template m c_BoolTemplate s
      | _ => Err (ECfg 5)
      end
  | KTplSecs =>
      match item with
      | YNone => Ok YNone
      | _ => if str_or_int item then
               match string_to_secs item with
               | Ok f => if fl_has_bad f then Err EUnsup else Ok (YNative (YFloat f []))
               | Err EValue => build_float_template m item         (* "it will be a template" *)
               | Err e => Err e
               end
             else Err (ECfg 5)
      end
  | KTplMs =>
      match item with
      | YNone => Ok YNone
      | _ => if str_or_int item then
               match string_to_ms item with
               | Ok z => Ok (YNative (YInt z))
               | Err EValue => build_int_template m item
               | Err e => Err e
               end
             else Err (ECfg 5)
      end
  | KTplStr =>
      match item with
      | YNone => Ok YNone
      | _ => match py_str item with
             | None => Err EUnsup
             | Some s =>
                 if mem_z 123 s then Ok (YTemplate c_TextTemplate s)
                 else if starts_with s [40] && ends_with s [41] then mk_template m c_StringTemplate s
                 else Ok (YNative (YStr s))
             end
      end
  | KGain =>
      match item with
      | YNone => Ok YNone
      | _ => bindR (string_to_gain item) (fun f => Ok (YFloat f []))
      end
  | KUnmodelled => Err EUnsup
  | KUnknown => Err EUnsup
  end.

Definition none_lower (item : yv) : yv :=
  match item with
  | YStr s => if zs_eqb (lower s) s_none then YNone else item
  | _ => item
  end.

(* ConfigValidator.validate_item *)
Definition validate_item (m : machine) (validator : str) (item : yv) : result yv :=
  let item := none_lower item in
  match parse_validator validator with
  | (name, Some param) =>
      match kind_of name with
      | KUnknown => Err EKey                                   (* self.validator_list[validator] *)
      | KUnmodelled => Err EUnsup
      | k => if takes_param k then validate_scalar m k (Some param) item else Err EType
      end
  | (name, None) =>
      match kind_of name with
      | KUnknown => Err (ECfg 4)
      | KUnmodelled => Err EUnsup
      | k => if needs_param k then Err EType else validate_scalar m k None item
      end
  end.

(* ---- Python dict keys ----------------------------------------------------------------------------- *)
Definition hashable (v : yv) : bool :=
  match v with YList _ | YDict _ | YSet _ | YNative _ => false | _ => true end.   (* NativeTypeTemplate has __eq__ only *)

Definition key_num (v : yv) : option fl :=
  match v with
  | YBool b => Some (fl_of_int_exact (b2z b))
  | YInt z => Some (fl_of_int_exact z)
  | YFloat f _ => Some f
  | _ => None
  end.

(* == between hashable scalars (1 == 1.0 == True) *)
Definition key_eqb (a b : yv) : bool :=
  match key_num a, key_num b with
  | Some x, Some y => fl_eqb x y && negb (match x with FNaN => true | _ => false end)
  | None, None =>
      match a, b with
      | YNone, YNone => true
      | YStr x, YStr y => zs_eqb x y
      | YToken x, YToken y => zs_eqb x y
      | YDev s x, YDev t y => zs_eqb s t && zs_eqb x y
      | _, _ => false
      end
  | _, _ => false
  end.

Fixpoint dict_get (k : yv) (d : list (yv * yv)) : option yv :=
  match d with
  | [] => None
  | (k', v) :: t => if key_eqb k k' then Some v else dict_get k t
  end.

(* d[k] = v : an existing equal key keeps its position and its key object *)
Fixpoint dict_set (k v : yv) (d : list (yv * yv)) : list (yv * yv) :=
  match d with
  | [] => [(k, v)]
  | (k', v') :: t => if key_eqb k k' then (k', v) :: t else (k', v') :: dict_set k v t
  end.

Definition dict_has (k : yv) (d : list (yv * yv)) : bool :=
  match dict_get k d with Some _ => true | None => false end.

(* ---- validate_config_item --------------------------------------------------------------------------- *)
Fixpoint map_result {A B} (f : A -> result B) (l : list A) : result (list B) :=
  match l with
  | [] => Ok []
  | x :: t => bindR (f x) (fun y => bindR (map_result f t) (fun ys => Ok (y :: ys)))
  end.

Definition is_blank (v : yv) : bool :=
  match v with YStr s => is_nil s || zs_eqb s s_blank | _ => false end.

Definition s_None_C : str := [78;111;110;101].

Definition event_config_to_dict (item : yv) : result (list (yv * yv)) :=
  let of_list (l : list yv) :=
    if forallb hashable l then Ok (fold_left (fun d e => dict_set e (YInt 0) d) l [])
    else Err (ECfg 8) in
  match item with
  | YDict kvs => Ok kvs
  | YStr s => if zs_eqb s s_None_C then Ok []
              else bindR (string_to_event_list item) of_list
  | YList l => of_list l
  | _ => Ok []
  end.

Definition validate_dict (m : machine) (is_eh : bool) (validation : str) (item : yv) : result yv :=
  if negb (mem_z 58 validation) then Err (ECfg 5)
  else
    let vs := split_on 58 validation in
    let v0 := nth 0 vs [] in
    let v1 := nth 1 vs [] in
    bindR (if is_eh then event_config_to_dict item
           else match item with
                | YNone => Ok []
                | YDict kvs => Ok kvs
                | YStr s => if zs_eqb s s_None_C then Ok [] else Err (ECfg 12)
                | _ => Err (ECfg 12)
                end)
    (fun kvs =>
       bindR (fold_left (fun acc kv =>
                bindR acc (fun d =>
                bindR (validate_item m v1 (snd kv)) (fun rv =>       (* the value is evaluated first *)
                bindR (validate_item m v0 (fst kv)) (fun rk =>
                if hashable rk then Ok (dict_set rk rv d) else Err EType))))
              kvs (Ok []))
       (fun d => Ok (YDict d))).

Fixpoint dedup (l : list yv) : list yv :=
  match l with
  | [] => []
  | x :: t => if existsb (key_eqb x) t then dedup t else x :: dedup t
  end.

Definition n_list_ty : str := n_list.
Definition n_dict_ty : str := n_dict.

(* item : None = "item not in config" *)
Definition validate_config_item (m : machine) (ty validation default : str) (item : option yv)
  : result yv :=
  bindR (match item with
         | Some i => Ok i
         | None => if zs_eqb (lower default) s_none then Ok YNone
                   else if is_nil default then Err (ECfg 9)
                   else Ok (YStr default)
         end)
  (fun item =>
     if zs_eqb ty s_single then validate_item m validation item
     else if zs_eqb ty n_list_ty then
       bindR (if zs_eqb validation n_event_posted || zs_eqb validation n_event_handler
              then string_to_list item else string_to_event_list item)
       (fun l => bindR (map_result (fun i => if is_blank i then Err (ECfg 15)
                                             else validate_item m validation i) l)
                 (fun rs => Ok (YList rs)))
     else if zs_eqb ty s_set then
       (* a set has no iteration order: WHICH error is raised is not modelled (all become ECfg 0) *)
       match string_to_list item with
       | Err _ => Err (ECfg 0)
       | Ok l =>
           if forallb (fun i => match i with YStr _ | YNone => true | _ => false end) l
           then match map_result (validate_item m validation) (dedup l) with
                | Ok rs => if forallb hashable rs then Ok (YSet (dedup rs)) else Err (ECfg 0)
                | Err EUnsup => Err EUnsup
                | Err _ => Err (ECfg 0)
                end
           else Err EUnsup
       end
     else if zs_eqb ty n_event_handler then
       if zs_eqb validation s_eh_ms then validate_dict m true validation item else Err EAssert
     else if zs_eqb ty n_dict_ty then validate_dict m false validation item
     else Err (ECfg 1)).

(* ---- specs and sections ------------------------------------------------------------------------------ *)
Inductive sentry :=
| SIgnore                                   (* 'ignore' *)
| SItem (ty validation default : str)       (* "type|validation|default".split('|') *)
| SNested                                   (* a nested dict: list of sub-configs (not modelled further) *)
| SRaw.                                     (* value of a "__x__" key *)

Definition spec := list (str * sentry).

Fixpoint spec_get (k : str) (s : spec) : option sentry :=
  match s with
  | [] => None
  | (k', e) :: t => if zs_eqb k k' then Some e else spec_get k t
  end.
Definition spec_has (k : str) (s : spec) : bool :=
  match spec_get k s with Some _ => true | None => false end.

Fixpoint spec_set (k : str) (e : sentry) (s : spec) : spec :=
  match s with
  | [] => [(k, e)]
  | (k', e') :: t => if zs_eqb k k' then (k', e) :: t else (k', e') :: spec_set k e t
  end.

(* dict.update *)
Definition spec_update (base over : spec) : spec :=
  fold_left (fun acc ke => spec_set (fst ke) (snd ke) acc) over base.

(* ConfigValidator.build_spec: spec_list = [config_spec] + base_specs *)
Definition build_spec (specs : list spec) : spec :=
  fold_left (fun this elem => spec_update elem this) specs [].

Definition check_key (sp : spec) (allow_invalid : bool) (s : str) : result unit :=
  if spec_has s sp then Ok tt
  else match s with
       | [] => Err EIndex                                     (* k[0] on '' *)
       | c :: _ => if c =? 95 then Ok tt
                   else if allow_invalid then Ok tt else Err (ECfg 2)
       end.

Fixpoint iter_result {A} (f : A -> result unit) (l : list A) : result unit :=
  match l with
  | [] => Ok tt
  | x :: t => bindR (f x) (fun _ => iter_result f t)
  end.

(* ConfigValidator.check_for_invalid_sections *)
Definition check_invalid (sp : spec) (allow_invalid : bool) (source : yv) : result unit :=
  match source with
  | YDict kvs =>
      iter_result (fun kv => match fst kv with
                             | YStr s => check_key sp allow_invalid s
                             | _ => Err (ECfg 3)                 (* k[0] on a non-string: TypeError *)
                             end) kvs
  | YStr s => iter_result (fun c => check_key sp allow_invalid [c]) s
  | YList l =>
      iter_result (fun e => match e with
                            | YDict _ => Ok tt
                            | YStr s => check_key sp allow_invalid s
                            | _ => Err (ECfg 3)
                            end) l
  | _ => Err (ECfg 3)                                          (* not iterable *)
  end.

Definition starts_underscore (k : str) : bool :=
  match k with c :: _ => c =? 95 | [] => false end.

Definition section_step (m : machine) (add_missing : bool) (acc : result (list (yv * yv)))
           (ke : str * sentry) : result (list (yv * yv)) :=
  bindR acc (fun d =>
    let k := fst ke in
    match snd ke with
    | SIgnore => Ok d
    | e =>
        match k with
        | [] => Err EIndex                                      (* k[0] on an empty spec key *)
        | _ =>
          if starts_underscore k then Ok d
          else
            match dict_get (YStr k) d, e with
            | Some v, SItem ty va de =>
                bindR (validate_config_item m ty va de (Some v)) (fun r => Ok (dict_set (YStr k) r d))
            | Some _, _ => Err EUnsup                           (* nested list of sub-configs *)
            | None, SItem ty va de =>
                if add_missing
                then bindR (validate_config_item m ty va de None) (fun r => Ok (dict_set (YStr k) r d))
                else Ok d
            | None, _ => if add_missing then Ok (dict_set (YStr k) (YList []) d) else Ok d
            end
        end
    end).

(* ConfigValidator.validate_config (public entry: None -> {}), spec already built *)
Definition validate_config (m : machine) (allow_invalid add_missing : bool) (sp : spec) (source : yv)
  : result yv :=
  let source := match source with YNone => YDict [] | s => s end in
  bindR (if spec_has s_allow_others sp then Ok tt else check_invalid sp allow_invalid source) (fun _ =>
  match source with
  | YDict kvs => bindR (fold_left (section_step m add_missing) sp (Ok kvs)) (fun d => Ok (YDict d))
  | _ => Err (ECfg 5)
  end).

(* ---- the spec store: config_spec is shared by all validations; build_spec caches its result --------- *)
Record store := { st_specs : list (str * spec); st_cache : list (list str * spec) }.

Fixpoint names_get {V} (k : list str) (l : list (list str * V)) : option V :=
  match l with
  | [] => None
  | (k', v) :: t => if list_eqb zs_eqb k k' then Some v else names_get k t
  end.

Definition lookup_specs (st : store) (names : list str) : option (list spec) :=
  fold_right (fun n acc => match assoc_z n (st_specs st), acc with
                           | Some s, Some l => Some (s :: l)
                           | _, _ => None
                           end) (Some []) names.

(* validate `source` against section names[0] with base specs names[1..]; returns the store afterwards *)
Definition validate_config_st (m : machine) (allow_invalid add_missing : bool) (st : store)
           (names : list str) (source : yv) : store * result yv :=
  match names_get names (st_cache st) with
  | Some sp => (st, validate_config m allow_invalid add_missing sp source)
  | None =>
      match lookup_specs st names with
      | None => (st, Err EKey)
      | Some specs =>
          let sp := build_spec specs in
          ({| st_specs := st_specs st; st_cache := (names, sp) :: st_cache st |},
           validate_config m allow_invalid add_missing sp source)
      end
  end.

(* a history of validations against one validator object (shared config_spec, shared build_spec cache):
   step = (add_missing_keys, [section; base specs...], source) *)
Definition vstep := (bool * list str * yv)%type.

Fixpoint run_steps (m : machine) (allow_invalid : bool) (st : store) (steps : list vstep)
  : store * list (result yv) :=
  match steps with
  | [] => (st, [])
  | (add_missing, names, src) :: t =>
      let '(st1, r) := validate_config_st m allow_invalid add_missing st names src in
      let '(st2, rs) := run_steps m allow_invalid st1 t in
      (st2, r :: rs)
  end.

(* what the property asks of one step: validation against a FRESH merge of the (unchanged) specs *)
Definition fresh_validate (m : machine) (allow_invalid : bool) (st : store) (step : vstep) : result yv :=
  let '(add_missing, names, src) := step in
  match lookup_specs st names with
  | Some specs => validate_config m allow_invalid add_missing (build_spec specs) src
  | None => Err EKey
  end.

(* ---- declared result types ------------------------------------------------------------------------------ *)
Definition within (param : option str) (v : fl) : bool :=
  match param with
  | None | Some [] => true
  | Some p =>
      match split_on 44 p with
      | p0 :: p1 :: _ =>
          match bound_of p0, bound_of p1 with
          | Ok lo, Ok hi =>
              match lo with Some l => fl_le l v | None => true end &&
              match hi with Some h => fl_le v h | None => true end
          | _, _ => false
          end
      | _ => false
      end
  end.

Definition gain_ok (f : fl) : bool :=
  match f with FNaN => true | _ => fl_le (FNum 0) f && fl_le f (FNum 1) end.

Fixpoint has_kind (m : machine) (k : vkind) (param : option str) (r : yv) : bool :=
  match k with
  | KStr => match r with YNone | YStr _ => true | _ => false end
  | KLstr => match r with YNone => true | YStr s => zs_eqb s (lower s) | _ => false end
  | KFloat => match r with YNone => true | YFloat f _ => within param f | _ => false end
  | KInt => match r with YNone => true | YInt z => within param (fl_of_int_exact z) | _ => false end
  | KNum => match r with
            | YNone => true
            | YInt _ | YFloat _ _ | YBool _ => within param (as_fl r)      (* Python: bool is an int *)
            | _ => false
            end
  | KBool => match r with YNone | YBool _ => true | _ => false end
  | KMs => match r with YNone | YInt _ => true | _ => false end
  | KSecs => match r with YNone | YFloat _ _ => true | _ => false end
  | KList => match r with YList _ => true | _ => false end
  | KDict => match r with YDict _ => true | _ => false end
  | KBoolInt => match r with YInt z => (z =? 0) || (z =? 1) | _ => false end
  | KPow2 =>
      (* what is actually returned: a value WHOSE int() IS a power of two (an int, but also "8", 8.0, 2.5,
         True): weaker than the declared type "int that is a power of two", see pow2_type_refuted *)
      match r with
      | YNone => true
      | _ => match to_int r with Ok z => (0 <? z) && (z =? 2 ^ Z.log2 z) | Err _ => false end
      end
  | KEnum => match r, param with
             | YNone, _ => true
             | YStr s, Some p => mem_str s (split_on 44 (lower p))
             | _, _ => false
             end
  | KMachine => match r, param with
                | YNone, _ => true
                | YDev sec name, Some p => zs_eqb sec p && mem_str name (section_of m p)
                | _, _ => false
                end
  | KTok k' => match r with YToken _ => true | _ => has_kind m k' param r end
  | KTplInt | KTplMs =>
      match r with
      | YNone | YNative (YInt _) => true
      | YTemplate c t => zs_eqb c c_IntTemplate && parses m t
      | _ => false
      end
  | KTplFloat | KTplSecs =>
      match r with
      | YNone | YNative (YFloat _ _) => true
      | YTemplate c t => zs_eqb c c_FloatTemplate && parses m t
      | _ => false
      end
  | KTplBool =>
      match r with
      | YNone | YNative (YBool _) => true
      | YTemplate c t => zs_eqb c c_BoolTemplate && parses m t
      | _ => false
      end
  | KTplStr =>
      match r with
      | YNone | YNative (YStr _) => true
      | YTemplate c t => (zs_eqb c c_TextTemplate && mem_z 123 t) || (zs_eqb c c_StringTemplate && parses m t)
      | _ => false
      end
  | KGain =>
      (* what is returned: None, a float in [0, 1], or NaN (min(max(nan, 0.0), 1.0) is nan: finding
         gain-nan-unclamped); the declared range alone is [is_gain] below *)
      match r with
      | YNone => true
      | YFloat f _ => gain_ok f
      | _ => false
      end
  | KUnmodelled | KUnknown => false
  end.

(* the DECLARED type of gain: None or a float in [0.0, 1.0] *)
Definition is_gain (r : yv) : bool :=
  match r with YNone => true | YFloat f _ => fl_le (FNum 0) f && fl_le f (FNum 1) | _ => false end.

(* the DECLARED type of pow2: None or an int that is a power of two *)
Definition is_pow2_int (r : yv) : bool :=
  match r with YNone => true | YInt z => (0 <? z) && (z =? 2 ^ Z.log2 z) | _ => false end.

Definition has_type (m : machine) (validator : str) (r : yv) : bool :=
  let '(name, param) := parse_validator validator in has_kind m (kind_of name) param r.

Definition has_item_type (m : machine) (ty validation : str) (r : yv) : bool :=
  if zs_eqb ty s_single then has_type m validation r
  else if zs_eqb ty n_list_ty then
    match r with YList l => forallb (has_type m validation) l | _ => false end
  else if zs_eqb ty s_set then
    match r with YSet l => forallb (has_type m validation) l | _ => false end
  else if zs_eqb ty n_event_handler || zs_eqb ty n_dict_ty then
    match r with
    | YDict d =>
        let vs := split_on 58 validation in
        forallb (fun kv => has_type m (nth 0 vs []) (fst kv) && has_type m (nth 1 vs []) (snd kv)) d
    | _ => false
    end
  else false.

(* ---- observable equality (what the correspondence run compares) ------------------------------------------- *)
Fixpoint yv_eqb (a b : yv) : bool :=
  match a, b with
  | YNone, YNone => true
  | YBool x, YBool y => Bool.eqb x y
  | YInt x, YInt y => x =? y
  | YFloat f _, YFloat g _ => fl_eqb f g
  | YStr x, YStr y => zs_eqb x y
  | YList x, YList y =>
      (fix go (p q : list yv) : bool :=
         match p, q with
         | [], [] => true
         | e1 :: p', e2 :: q' => yv_eqb e1 e2 && go p' q'
         | _, _ => false
         end) x y
  | YDict x, YDict y =>
      (fix go (p q : list (yv * yv)) : bool :=
         match p, q with
         | [], [] => true
         | (k1, v1) :: p', (k2, v2) :: q' => yv_eqb k1 k2 && yv_eqb v1 v2 && go p' q'
         | _, _ => false
         end) x y
  | YSet x, YSet y =>
      (* Python set equality: elements compared with == (5 == 5.0) *)
      forallb (fun e => existsb (fun e2 => key_eqb e e2 || yv_eqb e e2) y) x &&
      forallb (fun e => existsb (fun e' => key_eqb e' e || yv_eqb e' e) x) y
  | YToken x, YToken y => zs_eqb x y
  | YDev _ x, YDev _ y => zs_eqb x y       (* by name: the same device object can sit in several collections *)
  | YNative x, YNative y => yv_eqb x y
  | YTemplate c x, YTemplate d y => zs_eqb c d && zs_eqb x y
  | _, _ => false
  end.

Definition res_eqb {A} (eqb : A -> A -> bool) (a b : result A) : bool :=
  match a, b with
  | Ok x, Ok y => eqb x y
  | Err x, Err y => err_eqb x y
  | _, _ => false
  end.

(* ---- entry points of the correspondence suites ---------------------------------------------------------------- *)
Definition time_run (v : yv) : result Z * result fl := (string_to_ms v, string_to_secs v).
Definition time_out_eqb (a b : result Z * result fl) : bool :=
  res_eqb Z.eqb (fst a) (fst b) && res_eqb fl_eqb (snd a) (snd b).

Definition item_run (i : machine * (str * str * str) * option yv) : result yv :=
  let '(m, (ty, va, de), item) := i in validate_config_item m ty va de item.
Definition item_out_eqb : result yv -> result yv -> bool := res_eqb yv_eqb.

Definition section_run (i : machine * bool * bool * list spec * yv) : result yv :=
  let '(m, allow_invalid, add_missing, specs, source) := i in
  validate_config m allow_invalid add_missing (build_spec specs) source.
Definition section_out_eqb : result yv -> result yv -> bool := res_eqb yv_eqb.

Definition store_run (i : machine * bool * list (str * spec) * list vstep) : list (result yv) :=
  let '(m, allow_invalid, specs, steps) := i in
  snd (run_steps m allow_invalid {| st_specs := specs; st_cache := [] |} steps).
Fixpoint store_out_eqb (a b : list (result yv)) : bool :=
  match a, b with
  | [], [] => true
  | x :: a', y :: b' => res_eqb yv_eqb x y && store_out_eqb a' b'
  | _, _ => false
  end.
