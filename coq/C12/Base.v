(* C12/Base.v — value universe and the Python primitives the config validator relies on:
   binary64 rounding on exact rationals, int()/float()/round()/str() on the ASCII decimal grammar,
   str.upper/lower/strip/endswith/split.  Definitions only.  Used by the TRANSLATED gen/Time.v
   (Util.string_to_ms / string_to_secs) and by the hand model in Model.v.

   Strings are lists of code points (Z).  The model's stated domain is ASCII (0..127); the
   correspondence harness does not feed non-ASCII strings to the model (counted).               *)
From Common Require Import Prelude.
From Coq Require Import QArith Qround Qabs.
Open Scope Z_scope.

Definition str := list Z.

(* ---- errors and results -------------------------------------------------------------------- *)
Inductive err :=
| ECfg (code : Z)     (* mpf ConfigFileError with its error number *)
| EValue | EType | EOverflow | EAttr | EAssert | EIndex | EKey
| EUnsup.             (* outside the modelled domain (never equal to an observed outcome) *)

Inductive result (A : Type) := Ok (a : A) | Err (e : err).
Arguments Ok {A} a.
Arguments Err {A} e.

Definition bindR {A B} (r : result A) (f : A -> result B) : result B :=
  match r with Ok a => f a | Err e => Err e end.

Definition err_eqb (a b : err) : bool :=
  match a, b with
  | ECfg x, ECfg y => x =? y
  | EValue, EValue | EType, EType | EOverflow, EOverflow | EAttr, EAttr
  | EAssert, EAssert | EIndex, EIndex | EKey, EKey => true
  | _, _ => false                      (* EUnsup equals nothing, not even itself *)
  end.

(* ---- binary64 floats as exact rationals ------------------------------------------------------ *)
Inductive fl :=
| FNum (q : Q)            (* a finite double, as the exact rational it denotes (-0.0 is 0) *)
| FNaN
| FInf (neg : bool)
| FBad.                   (* magnitude outside [2^-1000, 2^1000): overflow/subnormals are not modelled *)

Definition two_pow (e : Z) : Q :=
  if 0 <=? e then inject_Z (2 ^ e) else Qmake 1 (Z.to_pos (2 ^ (- e))).

Definition round_half_even (q : Q) : Z :=
  let f := Qfloor q in
  match Qcompare (q - inject_Z f)%Q (1 # 2)%Q with
  | Lt => f
  | Gt => f + 1
  | Eq => if Z.even f then f else f + 1
  end.

(* round the positive rational [a] to 53 significant bits with exponent [e], if [e] is the right
   exponent for it (mantissa floor in [2^52, 2^53)) *)
Definition try_exp (a : Q) (e : Z) : option Q :=
  let x := (a / two_pow e)%Q in
  let m := Qfloor x in
  if (2 ^ 52 <=? m) && (m <? 2 ^ 53)
  then Some (inject_Z (round_half_even x) * two_pow e)%Q
  else None.

Definition rnd53_pos (a : Q) : Q :=
  let e0 := Z.log2 (Qnum a) - Z.log2 (Zpos (Qden a)) - 52 in
  match try_exp a e0 with
  | Some r => r
  | None =>
      match try_exp a (e0 - 1) with
      | Some r => r
      | None => match try_exp a (e0 + 1) with Some r => r | None => a end
      end
  end.

(* IEEE-754 binary64 round-to-nearest-even of an exact rational (normal range) *)
Definition rnd53 (q : Q) : Q :=
  match Qcompare q 0%Q with
  | Eq => 0%Q
  | Gt => rnd53_pos q
  | Lt => (- rnd53_pos (- q))%Q
  end.

Definition in_fl_range (q : Q) : bool :=
  Qle_bool (two_pow (-1000)) (Qabs q) && negb (Qle_bool (two_pow 1000) (Qabs q)).

Definition fnum (q : Q) : fl :=
  if Qeq_bool q 0%Q then FNum 0%Q
  else if in_fl_range q then FNum (Qred (rnd53 q)) else FBad.

Definition fl_of_Z (z : Z) : fl := fnum (inject_Z z).         (* float(int) *)

Definition fmul (a b : fl) : fl :=
  match a, b with
  | FBad, _ | _, FBad => FBad
  | FNaN, _ | _, FNaN => FNaN
  | FInf s, FInf t => FInf (xorb s t)
  | FInf s, FNum q | FNum q, FInf s =>
      match Qcompare q 0%Q with Eq => FNaN | Lt => FInf (negb s) | Gt => FInf s end
  | FNum x, FNum y => fnum (x * y)%Q
  end.

(* a / b for a finite positive divisor constant *)
Definition fdiv_pos (a : fl) (k : Z) : fl :=
  match a with
  | FNum x => fnum (x / inject_Z k)%Q
  | other => other
  end.

Definition Qtrunc (q : Q) : Z := if Qle_bool 0%Q q then Qfloor q else Qceiling q.

Definition py_int_of_fl (f : fl) : result Z :=          (* int(float) *)
  match f with
  | FNum q => Ok (Qtrunc q)
  | FNaN => Err EValue
  | FInf _ => Err EOverflow
  | FBad => Err EUnsup
  end.

Definition py_round_fl (f : fl) : result Z :=           (* round(float) -> int, half to even *)
  match f with
  | FNum q => Ok (round_half_even q)
  | FNaN => Err EValue
  | FInf _ => Err EOverflow
  | FBad => Err EUnsup
  end.

(* comparisons: all false on NaN *)
Definition fl_le (a b : fl) : bool :=
  match a, b with
  | FNaN, _ | _, FNaN | FBad, _ | _, FBad => false
  | FNum x, FNum y => Qle_bool x y
  | FInf true, _ => true
  | _, FInf false => true
  | FInf false, _ => false
  | _, FInf true => false
  end.
Definition fl_lt (a b : fl) : bool :=
  match a, b with
  | FNaN, _ | _, FNaN | FBad, _ | _, FBad => false
  | _, _ => negb (fl_le b a)
  end.
Definition fl_has_bad (a : fl) : bool := match a with FBad => true | _ => false end.

Definition fl_eqb (a b : fl) : bool :=
  match a, b with
  | FNum x, FNum y => Qeq_bool x y
  | FNaN, FNaN => true
  | FInf s, FInf t => Bool.eqb s t
  | _, _ => false
  end.

(* ---- the YAML value universe ------------------------------------------------------------------ *)
Inductive yv :=
| YNone
| YBool (b : bool)
| YInt (z : Z)
| YFloat (f : fl) (repr : str)   (* repr(float) is CPython's shortest-repr algorithm: carried as data *)
| YStr (s : str)
| YList (l : list yv)
| YDict (kvs : list (yv * yv))
(* results only *)
| YSet (l : list yv)
| YToken (s : str)               (* RuntimeToken(token) *)
| YDev (section name : str)      (* the device object machine.<section>[name] *)
| YNative (v : yv)               (* placeholder_manager.NativeTypeTemplate(value) *)
| YTemplate (cls text : str).    (* an Int/Float/Bool/String/TextTemplate built from the text (opaque) *)

(* ---- characters and strings ------------------------------------------------------------------- *)
Definition is_digit (c : Z) : bool := (48 <=? c) && (c <=? 57).
Definition is_upper (c : Z) : bool := (65 <=? c) && (c <=? 90).
Definition is_lower (c : Z) : bool := (97 <=? c) && (c <=? 122).
Definition is_alpha (c : Z) : bool := is_upper c || is_lower c.
(* str.strip() / int() / float() whitespace, ASCII part *)
Definition is_ws (c : Z) : bool := (c =? 32) || ((9 <=? c) && (c <=? 13)) || ((28 <=? c) && (c <=? 31)).
Definition is_ascii (c : Z) : bool := (0 <=? c) && (c <? 128).

Definition upper_c (c : Z) : Z := if is_lower c then c - 32 else c.
Definition lower_c (c : Z) : Z := if is_upper c then c + 32 else c.
Definition upper (s : str) : str := map upper_c s.
Definition lower (s : str) : str := map lower_c s.

Fixpoint lstrip (s : str) : str :=
  match s with c :: t => if is_ws c then lstrip t else s | [] => [] end.
Definition strip (s : str) : str := List.rev (lstrip (List.rev (lstrip s))).

Definition ends_with (s suf : str) : bool := zs_prefixb (List.rev suf) (List.rev s).
Definition starts_with (s pre : str) : bool := zs_prefixb pre s.
Definition drop_last (n : nat) (s : str) : str := List.rev (skipn n (List.rev s)).   (* s[:-n], n <= len s *)

Fixpoint mem_z (c : Z) (s : str) : bool :=
  match s with [] => false | x :: t => (x =? c) || mem_z c t end.
Fixpoint mem_str (k : str) (l : list str) : bool :=
  match l with [] => false | x :: t => zs_eqb k x || mem_str k t end.

(* str.split(sep) for a one-character separator *)
Fixpoint split_on (sep : Z) (s : str) : list str :=
  match s with
  | [] => [[]]
  | c :: t =>
      if c =? sep then [] :: split_on sep t
      else match split_on sep t with
           | [] => [[c]]
           | h :: r => (c :: h) :: r
           end
  end.

(* str.split(sep, 1) *)
Fixpoint split_first (sep : Z) (s : str) : str * option str :=
  match s with
  | [] => ([], None)
  | c :: t =>
      if c =? sep then ([], Some t)
      else let '(a, b) := split_first sep t in (c :: a, b)
  end.

(* ---- int() and float() on text ---------------------------------------------------------------- *)
(* digitpart ::= digit (["_"] digit)* ; returns the digits read and the rest *)
Fixpoint scan_digits (s : str) : list Z * str :=
  match s with
  | [] => ([], [])
  | c :: t =>
      if is_digit c then
        match t with
        | u :: ((c2 :: _) as t2) =>
            if (u =? 95) && is_digit c2
            then let '(ds, r) := scan_digits t2 in (c - 48 :: ds, r)
            else let '(ds, r) := scan_digits t in (c - 48 :: ds, r)
        | _ => let '(ds, r) := scan_digits t in (c - 48 :: ds, r)
        end
      else ([], s)
  end.

Definition digits_val (ds : list Z) : Z := fold_left (fun a d => a * 10 + d) ds 0.

Definition is_nil {A} (l : list A) : bool := match l with [] => true | _ => false end.

(* optional sign: returns (negative?, rest) *)
Definition scan_sign (s : str) : bool * str :=
  match s with
  | 43 :: t => (false, t)
  | 45 :: t => (true, t)
  | _ => (false, s)
  end.

Definition parse_int (s0 : str) : option Z :=           (* int(str), base 10 *)
  let '(neg, s) := scan_sign (strip s0) in
  let '(ds, r) := scan_digits s in
  if is_nil ds || negb (is_nil r) then None
  else Some (if neg then - digits_val ds else digits_val ds).

Definition pow10 (e : Z) : Q :=
  if 0 <=? e then inject_Z (10 ^ e) else Qmake 1 (Z.to_pos (10 ^ (- e))).

Definition exp_limit : Z := 400.

Definition s_inf : str := [105; 110; 102].
Definition s_infinity : str := [105; 110; 102; 105; 110; 105; 116; 121].
Definition s_nan : str := [110; 97; 110].

Definition parse_float (s0 : str) : option fl :=        (* float(str) *)
  let '(neg, s) := scan_sign (strip s0) in
  let ls := lower s in
  if zs_eqb ls s_inf || zs_eqb ls s_infinity then Some (FInf neg)
  else if zs_eqb ls s_nan then Some FNaN
  else
    let '(ip, r1) := scan_digits s in
    let '(fp, r2) := match r1 with
                     | 46 :: t => scan_digits t
                     | _ => ([], r1)
                     end in
    (* "1_.5" leaves r1 = "_.5": rejected below because r2 is not empty / not an exponent *)
    if is_nil ip && is_nil fp then None
    else
      let mant := digits_val (ip ++ fp) in
      let fd := Z.of_nat (length fp) in
      let mk (e : Z) : option fl :=
        if (exp_limit <? Z.abs e) || (exp_limit <? Z.of_nat (length (ip ++ fp))) then Some FBad
        else
          let q := (inject_Z mant * pow10 (e - fd))%Q in
          Some (fnum (if neg then (- q)%Q else q)) in
      match r2 with
      | [] => mk 0
      | c :: t =>
          if (c =? 101) || (c =? 69) then
            let '(eneg, t1) := scan_sign t in
            let '(ed, r3) := scan_digits t1 in
            if is_nil ed || negb (is_nil r3) then None
            else if exp_limit <? Z.of_nat (length ed) then Some FBad
            else mk (if eneg then - digits_val ed else digits_val ed)
          else None
      end.

(* str(int) *)
Fixpoint pos_digits (fuel : nat) (z : Z) (acc : str) : str :=
  match fuel with
  | O => acc
  | S f => if z <? 10 then (48 + z) :: acc else pos_digits f (z / 10) ((48 + z mod 10) :: acc)
  end.
Definition print_nat_z (z : Z) : str := pos_digits (S (Z.to_nat (Z.log2 z))) z [].
Definition print_int (z : Z) : str := if z <? 0 then 45 :: print_nat_z (- z) else print_nat_z z.

Definition s_None : str := [78; 111; 110; 101].
Definition s_True : str := [84; 114; 117; 101].
Definition s_False : str := [70; 97; 108; 115; 101].

(* str(x) for scalars; containers are outside the model *)
Definition py_str (v : yv) : option str :=
  match v with
  | YNone => Some s_None
  | YBool b => Some (if b then s_True else s_False)
  | YInt z => Some (print_int z)
  | YFloat _ r => Some r
  | YStr s => Some s
  | _ => None
  end.

(* result-level combinators used by the translated code *)
Definition e_int_of_str (s : str) : result Z :=
  match parse_int s with Some z => Ok z | None => Err EValue end.
Definition e_float_of_str (s : str) : result fl :=
  match parse_float s with Some f => Ok f | None => Err EValue end.
Definition r_fmul (r : result fl) (k : Z) : result fl := bindR r (fun f => Ok (fmul f (fl_of_Z k))).
Definition r_int (r : result fl) : result Z := bindR r py_int_of_fl.
Definition r_round (r : result fl) : result Z := bindR r py_round_fl.
Definition r_id (r : result Z) : result Z := r.                       (* int(<int>) *)
