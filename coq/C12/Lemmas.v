(* C12/Lemmas.v — proofs about Model.v / Base.v / gen/Time.v *)
From Common Require Import Prelude.
From Coq Require Import QArith Qround Qabs Lqa.
From C12 Require Import Base Model.
From C12.gen Require Import Time.
Open Scope Z_scope.

(* ---------------------------------------------------------------------------------------------- *)
(* 1. the range check implies the declared range (IEEE <=, false on NaN)                           *)
Lemma range_within p v : range_check p v = Ok tt -> within p v = true.
Proof.
  unfold range_check, within. destruct p as [[|c p]|]; auto.
  destruct (split_on 44 (c :: p)) as [|p0 [|p1 rest]]; try discriminate.
  - destruct (bound_of p0) as [lo|e]; cbn [bindR]; try discriminate.
    destruct lo as [l|]; [destruct (fl_le l v)|]; cbn; discriminate.
  - destruct (bound_of p0) as [lo|e]; cbn [bindR]; try discriminate.
    destruct (bound_of p1) as [hi|e]; cbn [bindR].
    + destruct lo as [l|]; [destruct (fl_le l v); cbn; try discriminate|];
        (destruct hi as [h|]; [destruct (fl_le v h); cbn; try discriminate|]); reflexivity.
    + destruct lo as [l|]; [destruct (fl_le l v); cbn; discriminate|]; cbn; discriminate.
Qed.

Lemma fl_le_not_nan_l a b : fl_le a b = true -> a <> FNaN.
Proof. destruct a; cbn; congruence. Qed.
Lemma fl_le_not_nan_r a b : fl_le a b = true -> b <> FNaN.
Proof. destruct a, b; cbn; try congruence; destruct neg; congruence. Qed.

(* a value inside a range that has at least one bound is not NaN *)
Lemma within_not_nan p0 p1 rest c p :
  split_on 44 (c :: p) = p0 :: p1 :: rest ->
  (zs_eqb p0 s_NONE_U = false \/ zs_eqb p1 s_NONE_U = false) ->
  within (Some (c :: p)) FNaN = false.
Proof.
  intros Hs Hb. unfold within. rewrite Hs. unfold bound_of.
  destruct Hb as [Hb|Hb]; rewrite Hb.
  - destruct (parse_float p0) as [f|]; [|reflexivity].
    destruct (fl_has_bad f); [reflexivity|].
    destruct (if zs_eqb p1 s_NONE_U then _ else _); [|reflexivity].
    destruct f as [q| |[]|]; reflexivity.
  - destruct (if zs_eqb p0 s_NONE_U then _ else _) as [lo|]; [|reflexivity].
    destruct (parse_float p1) as [f|]; [|reflexivity].
    destruct (fl_has_bad f); [reflexivity|].
    destruct lo as [l|]; [destruct (fl_le l FNaN) eqn:E|]; cbn; try reflexivity.
Qed.

(* ---------------------------------------------------------------------------------------------- *)
(* 2. scalar validators are sound                                                                  *)
Lemma bindR_ok {A B} (r : result A) (f : A -> result B) y :
  bindR r f = Ok y -> exists x, r = Ok x /\ f x = Ok y.
Proof. destruct r; cbn; intro H; [eauto|discriminate H]. Qed.

Lemma v_bool_kind item r : v_bool item = Ok r -> r = YNone \/ exists b, r = YBool b.
Proof.
  unfold v_bool. destruct item; intro H; try discriminate H; try (inversion H; eauto; fail).
  destruct (mem_str (lower s) false_words); [inversion H; eauto|].
  destruct (mem_str (lower s) true_words); [inversion H; eauto|discriminate H].
Qed.

Lemma num_value_kind item v :
  num_value item = Ok v -> (exists b, v = YBool b) \/ (exists z, v = YInt z) \/ (exists f t, v = YFloat f t).
Proof.
  unfold num_value. destruct item; intro H; try discriminate H; try (inversion H; eauto; fail).
  destruct (mem_z 46 s).
  - destruct (parse_float s) as [f|]; [|discriminate H]. destruct (fl_has_bad f); [discriminate H|].
    inversion H; eauto 6.
  - destruct (parse_int s); inversion H; eauto.
Qed.

Lemma is_pow2_spec z : is_pow2 z = true -> (0 <? z) && (z =? 2 ^ Z.log2 z) = true.
Proof.
  unfold is_pow2. intro H. apply andb_true_iff in H as [Hz Hl].
  apply negb_true_iff in Hz. apply Z.eqb_neq in Hz. apply Z.eqb_eq in Hl.
  assert (Hpos : 0 < z).
  { destruct (Z.lt_trichotomy z 0) as [Hn|[E|Hp]]; [|contradiction|assumption].
    exfalso. assert (Z.land z (z - 1) < 0) by (apply Z.land_neg; lia). lia. }
  apply andb_true_iff; split; [apply Z.ltb_lt; assumption|]. apply Z.eqb_eq.
  pose proof (Z.log2_spec z Hpos) as [Hlo Hhi].
  set (k := Z.log2 z) in *. assert (Hk : 0 <= k) by apply Z.log2_nonneg.
  destruct (Z.eq_dec z (2 ^ k)) as [E|NE]; [assumption|exfalso].
  (* z = 2^k + r with 0 < r < 2^k: bit k is set in z and in z-1 *)
  assert (Hb1 : Z.testbit z k = true) by (apply Z.bit_log2; assumption).
  assert (Hb2 : Z.testbit (z - 1) k = true).
  { assert (Hz1 : 0 < z - 1) by lia.
    assert (Z.log2 (z - 1) = k).
    { apply Z.log2_unique; [assumption|]. lia. }
    rewrite <- H. apply Z.bit_log2. assumption. }
  assert (Z.testbit (Z.land z (z - 1)) k = true) by (rewrite Z.land_spec, Hb1, Hb2; reflexivity).
  rewrite Hl in H. rewrite Z.bits_0 in H. discriminate H.
Qed.

Lemma lower_c_idem c : lower_c (lower_c c) = lower_c c.
Proof.
  unfold lower_c, is_upper. destruct ((65 <=? c) && (c <=? 90)) eqn:E.
  - apply andb_true_iff in E as [E1 E2]. apply Z.leb_le in E1. apply Z.leb_le in E2.
    replace (c + 32 <=? 90) with false by (symmetry; apply Z.leb_gt; lia).
    rewrite andb_false_r. reflexivity.
  - rewrite E. reflexivity.
Qed.

Lemma lower_idem s : zs_eqb (lower s) (lower (lower s)) = true.
Proof.
  apply zs_eqb_spec. unfold lower. rewrite map_map. apply map_ext. intro c.
  symmetry. apply lower_c_idem.
Qed.

Lemma mk_template_ok m cls s r :
  mk_template m cls s = Ok r -> r = YTemplate cls s /\ parses m s = true.
Proof. unfold mk_template. destruct (parses m s); intro H; [inversion H; auto|discriminate H]. Qed.

Lemma build_int_kind m item r :
  build_int_template m item = Ok r ->
  (exists z, r = YNative (YInt z)) \/ (exists t, r = YTemplate c_IntTemplate t /\ parses m t = true).
Proof.
  unfold build_int_template. destruct item; intro H; try discriminate H; try (inversion H; eauto; fail).
  destruct (parse_int s); [inversion H; eauto|]. apply mk_template_ok in H as [E P]. eauto.
Qed.

Lemma build_float_kind m item r :
  build_float_template m item = Ok r ->
  (exists f t, r = YNative (YFloat f t)) \/ (exists t, r = YTemplate c_FloatTemplate t /\ parses m t = true).
Proof.
  unfold build_float_template. destruct item; intro H; try discriminate H; try (inversion H; eauto; fail).
  - destruct (fl_has_bad (fl_of_Z z)); [discriminate H|inversion H; eauto].
  - destruct (parse_float s) as [f|]; [destruct (fl_has_bad f); [discriminate H|inversion H; eauto]|].
    apply mk_template_ok in H as [E P]. eauto.
Qed.

Lemma has_int_tpl m r :
  (exists z, r = YNative (YInt z)) \/ (exists t, r = YTemplate c_IntTemplate t /\ parses m t = true) ->
  match r with
  | YNone | YNative (YInt _) => true
  | YTemplate c t => zs_eqb c c_IntTemplate && parses m t
  | _ => false
  end = true.
Proof. intros [[z E]|[t [E P]]]; subst r; [reflexivity|]. rewrite P. reflexivity. Qed.

Lemma has_float_tpl m r :
  (exists f t, r = YNative (YFloat f t)) \/ (exists t, r = YTemplate c_FloatTemplate t /\ parses m t = true) ->
  match r with
  | YNone | YNative (YFloat _ _) => true
  | YTemplate c t => zs_eqb c c_FloatTemplate && parses m t
  | _ => false
  end = true.
Proof. intros [[f [t E]]|[t [E P]]]; subst r; [reflexivity|]. rewrite P. reflexivity. Qed.

Lemma fl_clamp01_range f : gain_ok (fl_clamp01 f) = true \/ fl_clamp01 f = FBad.
Proof.
  unfold gain_ok. destruct f as [q| |[]|]; cbn; auto.
  destruct (Qle_bool q 0) eqn:E0; [left; reflexivity|].
  destruct (Qle_bool 1 q) eqn:E1; [left; reflexivity|].
  left. cbn. apply andb_true_iff. split.
  - apply Qle_bool_iff. destruct (Qlt_le_dec 0 q) as [L|L]; [apply Qlt_le_weak; exact L|].
    apply Qle_bool_iff in L. rewrite L in E0. discriminate E0.
  - apply Qle_bool_iff. destruct (Qlt_le_dec q 1) as [L|L]; [apply Qlt_le_weak; exact L|].
    apply Qle_bool_iff in L. rewrite L in E1. discriminate E1.
Qed.

Lemma string_to_gain_range item f :
  string_to_gain item = Ok f -> gain_ok f = true.
Proof.
  unfold string_to_gain. destruct (py_str item) as [s0|]; [|intro H; discriminate H].
  destruct (starts_with (lower s0) s_minus_inf); [intro H; inversion H; reflexivity|].
  destruct (ends_with (lower s0) s_db).
  { destruct (parse_float _); intro H; discriminate H. }
  destruct (parse_float (lower s0)) as [g|]; [|intro H; inversion H; reflexivity].
  destruct (fl_has_bad g) eqn:B; intro H; [discriminate H|]. inversion H; subst f.
  destruct (fl_clamp01_range g) as [R|R]; [exact R|].
  destruct g as [q| |[]|]; cbn in R; try discriminate R; try discriminate B.
  destruct (Qle_bool q 0); [discriminate R|]. destruct (Qle_bool 1 q); discriminate R.
Qed.

Lemma validate_scalar_sound m k : forall param item r,
  validate_scalar m k param item = Ok r -> has_kind m k param r = true.
Proof.
  induction k; intros param item r H; cbn [validate_scalar] in H; cbn [has_kind].
  - (* KStr *) destruct item; try discriminate H; try (inversion H; reflexivity);
      cbn in H; inversion H; reflexivity.
  - (* KLstr *)
    destruct item; try discriminate H; try (inversion H; reflexivity); cbn in H; inversion H;
      apply lower_idem.
  - (* KFloat *)
    destruct item; try (inversion H; reflexivity);
      apply bindR_ok in H as [v [_ H]]; apply bindR_ok in H as [[] [Hr H]]; inversion H;
      apply range_within; assumption.
  - (* KInt *)
    destruct item; try (inversion H; reflexivity);
      apply bindR_ok in H as [v [_ H]]; apply bindR_ok in H as [[] [Hr H]]; inversion H;
      apply range_within; assumption.
  - (* KNum *)
    destruct item; try (inversion H; reflexivity);
      apply bindR_ok in H as [v [Hv H]]; apply bindR_ok in H as [[] [Hr H]]; inversion H; subst r;
      apply range_within in Hr;
      apply num_value_kind in Hv as [[b0 E]|[[z0 E]|[f0 [t0 E]]]]; subst v; assumption.
  - (* KBool *)
    destruct (assert_no_param param); [|discriminate H].
    apply v_bool_kind in H as [E|[b E]]; subst r; reflexivity.
  - (* KMs *)
    destruct (assert_no_param param); [|discriminate H].
    destruct item; try (inversion H; reflexivity);
      match type of H with context [string_to_ms ?x] => destruct (string_to_ms x) as [z0|[]] end;
      inversion H; reflexivity.
  - (* KSecs *)
    destruct (assert_no_param param); [|discriminate H].
    destruct item; try (inversion H; reflexivity);
      match type of H with context [string_to_secs ?x] => destruct (string_to_secs x) as [f0|[]] end;
      try discriminate H; try (destruct (fl_has_bad f0)); inversion H; reflexivity.
  - (* KList *) apply bindR_ok in H as [l [_ H]]. inversion H. reflexivity.
  - (* KDict *)
    destruct (negb (truthy item)); [inversion H; reflexivity|].
    destruct item; try discriminate H. destruct (assert_no_param param); inversion H. reflexivity.
  - (* KBoolInt *)
    apply bindR_ok in H as [b [_ H]]. inversion H. destruct (truthy b); reflexivity.
  - (* KPow2 *)
    destruct item; try (inversion H; reflexivity);
      match type of H with context [to_int ?x] => destruct (to_int x) as [z0|[]] eqn:Ez end; try discriminate H;
      destruct (is_pow2 z0) eqn:E; try discriminate H; inversion H; subst r; rewrite Ez;
      apply is_pow2_spec; assumption.
  - (* KEnum *)
    destruct param as [p|]; [|discriminate H].
    set (values := split_on 44 (lower p)) in *.
    destruct (match item with YStr s => YStr (lower s) | _ => item end) as [| b | z | f t | s | l | d | l | s | s n | nv | tc tt] eqn:Ei;
      try discriminate H.
    + (* None *) destruct (mem_str s_none values); [inversion H; reflexivity|].
      cbn in H. destruct (mem_str s_None values) eqn:E2; [inversion H; assumption|discriminate H].
    + cbn in H. destruct (mem_str (if b then s_True else s_False) values) eqn:E; [inversion H; assumption|].
      destruct b; [destruct (mem_str s_yes values) eqn:E2|destruct (mem_str s_no values) eqn:E2];
        inversion H; assumption.
    + cbn in H. destruct (mem_str (print_int z) values) eqn:E; inversion H; assumption.
    + cbn in H. destruct (mem_str t values) eqn:E; inversion H; assumption.
    + cbn in H. destruct (mem_str s values) eqn:E; inversion H; assumption.
  - (* KMachine *)
    destruct param as [p|]; [|discriminate H].
    destruct item; try discriminate H; try (inversion H; reflexivity).
    destruct s as [|c s]; [discriminate H|].
    destruct (mem_str (c :: s) (section_of m p)) eqn:E; inversion H.
    rewrite E. rewrite (proj2 (zs_eqb_spec p p) eq_refl). reflexivity.
  - (* KTok *)
    assert (Hin : forall r, has_kind m k param r = true ->
                       match r with YToken _ => true | _ => has_kind m k param r end = true)
      by (intros r0 Hr; destruct r0; auto).
    destruct item; try (apply Hin; apply (IHk _ _ _ H)).
    destruct (starts_with s [40] && ends_with s [41]); [inversion H; reflexivity|].
    apply Hin; apply (IHk _ _ _ H).
  - (* KTplInt *)
    destruct item; try (inversion H; reflexivity); cbn [str_or_int] in H; try discriminate H;
      apply (has_int_tpl _ _ (build_int_kind _ _ _ H)).
  - (* KTplFloat *)
    destruct item; try (inversion H; reflexivity); try discriminate H;
      apply (has_float_tpl _ _ (build_float_kind _ _ _ H)).
  - (* KTplBool *)
    destruct item; try (inversion H; reflexivity); try discriminate H.
    apply mk_template_ok in H as [E P]. subst r. rewrite P. reflexivity.
  - (* KTplSecs *)
    destruct item; try (inversion H; reflexivity); cbn [str_or_int] in H; try discriminate H;
      match type of H with context [string_to_secs ?x] => destruct (string_to_secs x) as [f0|[]] end;
      try discriminate H;
      try (destruct (fl_has_bad f0); [discriminate H|inversion H; reflexivity]);
      apply (has_float_tpl _ _ (build_float_kind _ _ _ H)).
  - (* KTplMs *)
    destruct item; try (inversion H; reflexivity); cbn [str_or_int] in H; try discriminate H;
      match type of H with context [string_to_ms ?x] => destruct (string_to_ms x) as [z0|[]] end;
      try discriminate H; try (inversion H; reflexivity);
      apply (has_int_tpl _ _ (build_int_kind _ _ _ H)).
  - (* KTplStr *)
    destruct item; try (inversion H; reflexivity);
      match type of H with context [py_str ?x] => destruct (py_str x) as [s0|] end; try discriminate H;
      (destruct (mem_z 123 s0) eqn:E1; [inversion H; cbn; rewrite E1; reflexivity|]);
      (destruct (starts_with s0 [40] && ends_with s0 [41]); [|inversion H; reflexivity]);
      apply mk_template_ok in H as [E P]; subst r; cbn; rewrite P; rewrite ?orb_true_r; reflexivity.
  - (* KGain *)
    destruct item; try (inversion H; reflexivity);
      apply bindR_ok in H as [g0 [Hg H]]; inversion H; apply (string_to_gain_range _ _ Hg).
  - discriminate H.
  - discriminate H.
Qed.

Lemma validate_item_sound m validator item r :
  validate_item m validator item = Ok r -> has_type m validator r = true.
Proof.
  unfold validate_item, has_type. destruct (parse_validator validator) as [name [param|]].
  - destruct (kind_of name) eqn:K; cbn [takes_param]; intro H; try discriminate H;
      apply (validate_scalar_sound _ _ _ _ _ H).
  - destruct (kind_of name) eqn:K; cbn [needs_param]; intro H; try discriminate H;
      apply (validate_scalar_sound _ _ _ _ _ H).
Qed.

(* ---------------------------------------------------------------------------------------------- *)
(* 3. item types: list / set / dict / event_handler                                                *)
Lemma map_result_forall {A B} (f : A -> result B) (P : B -> bool) :
  (forall x y, f x = Ok y -> P y = true) ->
  forall l rs, map_result f l = Ok rs -> forallb P rs = true.
Proof.
  intros Hf. induction l as [|a l IH]; cbn; intros rs H.
  - inversion H; reflexivity.
  - apply bindR_ok in H as [y [Hy H]]. apply bindR_ok in H as [ys [Hys H]]. inversion H. cbn.
    rewrite (Hf _ _ Hy), (IH _ Hys). reflexivity.
Qed.

Lemma forallb_dedup P l : forallb P l = true -> forallb P (dedup l) = true.
Proof.
  induction l as [|a l IH]; cbn; auto. intro H. apply andb_true_iff in H as [H1 H2].
  destruct (existsb (key_eqb a) l); cbn; auto. rewrite H1. auto.
Qed.

Definition typed_d (P Q : yv -> bool) (d : list (yv * yv)) : bool :=
  forallb (fun kv => P (fst kv) && Q (snd kv)) d.

Lemma dict_set_typed P Q k v d :
  P k = true -> Q v = true -> typed_d P Q d = true -> typed_d P Q (dict_set k v d) = true.
Proof.
  intros Hk Hv. unfold typed_d. induction d as [|[k' v'] d IH]; cbn; intro H.
  - rewrite Hk, Hv. reflexivity.
  - apply andb_true_iff in H as [H1 H2]. apply andb_true_iff in H1 as [H1 H1'].
    destruct (key_eqb k k'); cbn.
    + rewrite H1, Hv, H2. reflexivity.
    + rewrite H1, H1', (IH H2). reflexivity.
Qed.

Lemma fold_err {A B} (step : result A -> B -> result A) (l : list B) e :
  (forall x, step (Err e) x = Err e) -> fold_left step l (Err e) = Err e.
Proof. intro Hs. induction l as [|x l IH]; cbn; [reflexivity|]. rewrite Hs. exact IH. Qed.

Lemma validate_dict_sound m is_eh validation item r :
  validate_dict m is_eh validation item = Ok r ->
  exists d, r = YDict d /\
    typed_d (has_type m (nth 0 (split_on 58 validation) [])) (has_type m (nth 1 (split_on 58 validation) [])) d = true.
Proof.
  unfold validate_dict. destruct (negb (mem_z 58 validation)); [intro H; discriminate H|].
  set (v0 := nth 0 (split_on 58 validation) []). set (v1 := nth 1 (split_on 58 validation) []).
  intro H. apply bindR_ok in H as [kvs [_ H]]. apply bindR_ok in H as [d [Hf H]]. inversion H; subst r.
  exists d. split; [reflexivity|].
  assert (G : forall kvs d0 d, typed_d (has_type m v0) (has_type m v1) d0 = true ->
               fold_left (fun acc kv =>
                 bindR acc (fun d1 => bindR (validate_item m v1 (snd kv)) (fun rv =>
                 bindR (validate_item m v0 (fst kv)) (fun rk =>
                 if hashable rk then Ok (dict_set rk rv d1) else Err EType)))) kvs (Ok d0) = Ok d ->
               typed_d (has_type m v0) (has_type m v1) d = true).
  { clear. induction kvs as [|kv kvs IH]; intros d0 d T0 Hf; cbn in Hf.
    - inversion Hf; subst; assumption.
    - destruct (validate_item m v1 (snd kv)) as [rv|e] eqn:E1; cbn in Hf;
        [|rewrite fold_err in Hf by reflexivity; discriminate Hf].
      destruct (validate_item m v0 (fst kv)) as [rk|e] eqn:E0; cbn in Hf;
        [|rewrite fold_err in Hf by reflexivity; discriminate Hf].
      destruct (hashable rk); [|rewrite fold_err in Hf by reflexivity; discriminate Hf].
      apply (IH _ _ (dict_set_typed _ _ _ _ _ (validate_item_sound _ _ _ _ E0)
                                     (validate_item_sound _ _ _ _ E1) T0) Hf). }
  apply (G kvs [] d eq_refl Hf).
Qed.

Lemma validate_config_item_sound m ty va de item r :
  validate_config_item m ty va de item = Ok r -> has_item_type m ty va r = true.
Proof.
  unfold validate_config_item, has_item_type. intro H. apply bindR_ok in H as [it [_ H]].
  destruct (zs_eqb ty s_single); [apply (validate_item_sound _ _ _ _ H)|].
  destruct (zs_eqb ty n_list_ty).
  { apply bindR_ok in H as [l [_ H]]. apply bindR_ok in H as [rs [Hm H]]. inversion H.
    assert (Hf : forall i y, (if is_blank i then Err (ECfg 15) else validate_item m va i) = Ok y ->
                             has_type m va y = true).
    { intros i y Hy. destruct (is_blank i); [discriminate Hy|exact (validate_item_sound _ _ _ _ Hy)]. }
    apply (map_result_forall _ _ Hf _ _ Hm). }
  destruct (zs_eqb ty s_set).
  { destruct (string_to_list it) as [l|e]; [|discriminate H].
    destruct (forallb _ l); [|discriminate H].
    destruct (map_result (validate_item m va) (dedup l)) as [rs|[]] eqn:Hm; try discriminate H.
    destruct (forallb hashable rs); [|discriminate H]. inversion H.
    apply forallb_dedup. apply (map_result_forall _ _ (fun i y Hy => validate_item_sound _ _ _ _ Hy) _ _ Hm). }
  destruct (zs_eqb ty n_event_handler); cbn [orb].
  { destruct (zs_eqb va s_eh_ms); [|discriminate H].
    apply validate_dict_sound in H as [d [E T]]. subst r. exact T. }
  destruct (zs_eqb ty n_dict_ty); [|discriminate H].
  apply validate_dict_sound in H as [d [E T]]. subst r. exact T.
Qed.

(* ---------------------------------------------------------------------------------------------- *)
(* 4. sections                                                                                     *)
Lemma iter_result_err {A} (f : A -> result unit) l x e :
  In x l -> f x = Err e -> exists e', iter_result f l = Err e'.
Proof.
  induction l as [|a l IH]; cbn; intros Hin Hx; [contradiction|].
  destruct Hin as [E|Hin].
  - subst a. rewrite Hx. cbn. eauto.
  - destruct (f a) as [[]|e0]; cbn; [apply (IH Hin Hx)|eauto].
Qed.

Lemma unknown_key_rejected_l m add_missing sp kvs k c v :
  spec_has s_allow_others sp = false ->
  In (YStr (c :: k), v) kvs ->
  spec_has (c :: k) sp = false ->
  c <> 95 ->
  exists e, validate_config m false add_missing sp (YDict kvs) = Err e.
Proof.
  intros Ha Hin Hk Hc. unfold validate_config. rewrite Ha.
  destruct (iter_result_err (fun kv => match fst kv with
                                       | YStr s => check_key sp false s
                                       | _ => Err (ECfg 3)
                                       end) kvs (YStr (c :: k), v) (ECfg 2) Hin) as [e' He'].
  { cbn. unfold check_key. rewrite Hk. apply Z.eqb_neq in Hc. rewrite Hc. reflexivity. }
  cbn [check_invalid]. rewrite He'. cbn. eauto.
Qed.

Lemma dict_set_has k' v d k : dict_has k d = true -> dict_has k (dict_set k' v d) = true.
Proof.
  unfold dict_has. induction d as [|[k0 v0] d IH]; cbn; [intro H; discriminate H|].
  destruct (key_eqb k' k0) eqn:E; cbn.
  - destruct (key_eqb k k0); auto.
  - destruct (key_eqb k k0); auto.
Qed.

Lemma section_step_keeps m add k acc ke d :
  section_step m add acc ke = Ok d -> exists d0, acc = Ok d0 /\ (dict_has k d0 = true -> dict_has k d = true).
Proof.
  unfold section_step. intro H. apply bindR_ok in H as [d0 [E H]]. exists d0. split; [assumption|].
  intro Hk. destruct (snd ke) eqn:Es.
  - inversion H; subst; assumption.
  - destruct (fst ke) as [|c0 k0] eqn:Ek; [discriminate H|]. destruct (starts_underscore (c0 :: k0)); [inversion H; subst; assumption|].
    destruct (dict_get (YStr (c0 :: k0)) d0).
    + apply bindR_ok in H as [r [_ H]]. inversion H. apply dict_set_has. assumption.
    + destruct add; [|inversion H; subst; assumption].
      apply bindR_ok in H as [r [_ H]]. inversion H. apply dict_set_has. assumption.
  - destruct (fst ke) as [|c0 k0] eqn:Ek; [discriminate H|]. destruct (starts_underscore (c0 :: k0)); [inversion H; subst; assumption|].
    destruct (dict_get (YStr (c0 :: k0)) d0); [discriminate H|].
    destruct add; inversion H; subst; [apply dict_set_has|]; assumption.
  - destruct (fst ke) as [|c0 k0] eqn:Ek; [discriminate H|]. destruct (starts_underscore (c0 :: k0)); [inversion H; subst; assumption|].
    destruct (dict_get (YStr (c0 :: k0)) d0); [discriminate H|].
    destruct add; inversion H; subst; [apply dict_set_has|]; assumption.
Qed.

Lemma section_fold_keeps m add k : forall sp d0 d,
  fold_left (section_step m add) sp (Ok d0) = Ok d -> dict_has k d0 = true -> dict_has k d = true.
Proof.
  induction sp as [|ke sp IH]; cbn [fold_left]; intros d0 d H Hk.
  - inversion H; subst; assumption.
  - destruct (section_step m add (Ok d0) ke) as [d1|e] eqn:E.
    + destruct (section_step_keeps _ _ k _ _ _ E) as [d0' [E0 Hd]]. inversion E0; subst d0'.
      apply (IH _ _ H (Hd Hk)).
    + rewrite fold_err in H; [discriminate H|reflexivity].
Qed.

Lemma dict_has_in k v kvs : In (k, v) kvs -> key_eqb k k = true -> dict_has k kvs = true.
Proof.
  unfold dict_has. induction kvs as [|[k0 v0] kvs IH]; cbn; intros Hin Hr; [contradiction|].
  destruct Hin as [E|Hin].
  - inversion E; subst. rewrite Hr. reflexivity.
  - destruct (key_eqb k k0); [reflexivity|]. apply IH; assumption.
Qed.

Lemma provided_key_kept_l m ai add sp kvs d k v :
  validate_config m ai add sp (YDict kvs) = Ok (YDict d) ->
  In (k, v) kvs -> key_eqb k k = true -> dict_has k d = true.
Proof.
  unfold validate_config. intros H Hin Hr. apply bindR_ok in H as [[] [_ H]].
  apply bindR_ok in H as [d' [Hf H]]. inversion H; subst d'.
  apply (section_fold_keeps _ _ _ _ _ _ Hf). apply (dict_has_in _ _ _ Hin Hr).
Qed.

(* completeness: every non-private spec key is present and well typed *)
Lemma key_eqb_str a x : key_eqb (YStr a) x = true -> x = YStr a.
Proof.
  destruct x; cbn; intro H; try discriminate H.
  apply zs_eqb_spec in H. subst; reflexivity.
Qed.

Lemma key_eqb_str_refl a : key_eqb (YStr a) (YStr a) = true.
Proof. cbn. apply zs_eqb_spec. reflexivity. Qed.

Lemma dict_get_set_same a v d : dict_get (YStr a) (dict_set (YStr a) v d) = Some v.
Proof.
  induction d as [|[k0 v0] d IH]; cbn [dict_get dict_set].
  - rewrite key_eqb_str_refl. reflexivity.
  - destruct (key_eqb (YStr a) k0) eqn:E; cbn [dict_get]; rewrite E; [reflexivity|exact IH].
Qed.

Lemma key_eqb_str_ne a b : a <> b -> key_eqb (YStr a) (YStr b) = false.
Proof.
  intro Hne. cbn. destruct (zs_eqb a b) eqn:E; [apply zs_eqb_spec in E; contradiction|reflexivity].
Qed.

Lemma dict_get_set_other a b v d :
  a <> b -> dict_get (YStr a) (dict_set (YStr b) v d) = dict_get (YStr a) d.
Proof.
  intro Hne. induction d as [|[k0 v0] d IH]; cbn [dict_get dict_set].
  - rewrite (key_eqb_str_ne _ _ Hne). reflexivity.
  - destruct (key_eqb (YStr b) k0) eqn:E; cbn [dict_get].
    + apply key_eqb_str in E. subst k0. rewrite (key_eqb_str_ne _ _ Hne). reflexivity.
    + destruct (key_eqb (YStr a) k0); [reflexivity|exact IH].
Qed.

Lemma section_step_get_other m add a d0 ke d :
  section_step m add (Ok d0) ke = Ok d -> fst ke <> a -> dict_get (YStr a) d = dict_get (YStr a) d0.
Proof.
  unfold section_step. cbn [bindR]. intros H Hne.
  assert (Hne' : a <> fst ke) by congruence.
  destruct (snd ke) eqn:Es.
  - inversion H; reflexivity.
  - destruct (fst ke) as [|c0 k0] eqn:Ek; [discriminate H|].
    destruct (starts_underscore (c0 :: k0)); [inversion H; reflexivity|].
    destruct (dict_get (YStr (c0 :: k0)) d0).
    + apply bindR_ok in H as [r [_ H]]. inversion H. apply dict_get_set_other; assumption.
    + destruct add; [|inversion H; reflexivity].
      apply bindR_ok in H as [r [_ H]]. inversion H. apply dict_get_set_other; assumption.
  - destruct (fst ke) as [|c0 k0] eqn:Ek; [discriminate H|].
    destruct (starts_underscore (c0 :: k0)); [inversion H; reflexivity|].
    destruct (dict_get (YStr (c0 :: k0)) d0); [discriminate H|].
    destruct add; inversion H; [apply dict_get_set_other; assumption|reflexivity].
  - destruct (fst ke) as [|c0 k0] eqn:Ek; [discriminate H|].
    destruct (starts_underscore (c0 :: k0)); [inversion H; reflexivity|].
    destruct (dict_get (YStr (c0 :: k0)) d0); [discriminate H|].
    destruct add; inversion H; [apply dict_get_set_other; assumption|reflexivity].
Qed.

Lemma section_fold_get_other m add a : forall sp d0 d,
  fold_left (section_step m add) sp (Ok d0) = Ok d -> ~ In a (map fst sp) ->
  dict_get (YStr a) d = dict_get (YStr a) d0.
Proof.
  induction sp as [|ke sp IH]; cbn [fold_left map]; intros d0 d H Hn.
  - inversion H; reflexivity.
  - destruct (section_step m add (Ok d0) ke) as [d1|e] eqn:E.
    + rewrite (IH _ _ H) by (intro Hc; apply Hn; right; exact Hc).
      apply (section_step_get_other _ _ _ _ _ _ E). intro Hc. apply Hn. left. exact Hc.
    + rewrite fold_err in H; [discriminate H|reflexivity].
Qed.

Lemma section_step_item m d0 k ty va de d :
  section_step m true (Ok d0) (k, SItem ty va de) = Ok d -> starts_underscore k = false ->
  exists v, dict_get (YStr k) d = Some v /\ has_item_type m ty va v = true.
Proof.
  unfold section_step. cbn [bindR fst snd]. intros H Hu.
  destruct k as [|c0 k0]; [discriminate H|]. rewrite Hu in H.
  destruct (dict_get (YStr (c0 :: k0)) d0);
    apply bindR_ok in H as [r [Hr H]]; inversion H; exists r;
    (split; [apply dict_get_set_same|apply (validate_config_item_sound _ _ _ _ _ _ Hr)]).
Qed.

Lemma section_fold_complete m : forall sp d0 d,
  NoDup (map fst sp) ->
  fold_left (section_step m true) sp (Ok d0) = Ok d ->
  forall k ty va de, In (k, SItem ty va de) sp -> starts_underscore k = false ->
    exists v, dict_get (YStr k) d = Some v /\ has_item_type m ty va v = true.
Proof.
  induction sp as [|ke sp IH]; cbn [fold_left map]; intros d0 d Hnd H k ty va de Hin Hu; [contradiction|].
  inversion Hnd as [|x xs Hnot Hnd']; subst.
  destruct (section_step m true (Ok d0) ke) as [d1|e] eqn:E;
    [|rewrite fold_err in H; [discriminate H|reflexivity]].
  destruct Hin as [Eq|Hin].
  - subst ke. cbn [fst] in Hnot. destruct (section_step_item _ _ _ _ _ _ _ E Hu) as [v [Hg Ht]].
    exists v. split; [|exact Ht].
    rewrite (section_fold_get_other _ _ _ _ _ _ H Hnot). exact Hg.
  - apply (IH _ _ Hnd' H _ _ _ _ Hin Hu).
Qed.

Lemma validate_config_complete_l m ai sp kvs d :
  NoDup (map fst sp) ->
  validate_config m ai true sp (YDict kvs) = Ok (YDict d) ->
  forall k ty va de, In (k, SItem ty va de) sp -> starts_underscore k = false ->
    exists v, dict_get (YStr k) d = Some v /\ has_item_type m ty va v = true.
Proof.
  unfold validate_config. intros Hnd H. apply bindR_ok in H as [[] [_ H]].
  apply bindR_ok in H as [d' [Hf H]]. inversion H; subst d'.
  apply (section_fold_complete _ _ _ _ Hnd Hf).
Qed.

(* the result of validate_config is a dict or an error *)
Lemma validate_config_dict m ai add sp src r :
  validate_config m ai add sp src = Ok r -> exists d, r = YDict d.
Proof.
  unfold validate_config. intro H. apply bindR_ok in H as [[] [_ H]].
  destruct (match src with YNone => YDict [] | s => s end); try discriminate H.
  apply bindR_ok in H as [d [_ H]]. inversion H. eauto.
Qed.

(* the spec store is never modified by a validation, and the cache only ever holds fresh merges *)
Definition cache_ok (st : store) : Prop :=
  forall names sp, names_get names (st_cache st) = Some sp ->
                   exists specs, lookup_specs st names = Some specs /\ sp = build_spec specs.

Lemma spec_unchanged_l m ai add st names src :
  st_specs (fst (validate_config_st m ai add st names src)) = st_specs st.
Proof.
  unfold validate_config_st. destruct (names_get names (st_cache st)); [reflexivity|].
  destruct (lookup_specs st names); reflexivity.
Qed.

Lemma cache_ok_preserved m ai add st names src :
  cache_ok st -> cache_ok (fst (validate_config_st m ai add st names src)).
Proof.
  unfold validate_config_st. intro Hc. destruct (names_get names (st_cache st)) eqn:E; [exact Hc|].
  destruct (lookup_specs st names) as [specs|] eqn:L; [|exact Hc].
  cbn [fst]. intros n sp. cbn [st_cache names_get].
  destruct (list_eqb zs_eqb n names) eqn:En.
  - intro H. inversion H; subst sp. apply (list_eqb_spec zs_eqb zs_eqb_spec) in En. subst n.
    exists specs. split; [exact L|reflexivity].
  - intro H. destruct (Hc _ _ H) as [sp' [L' E']]. exists sp'. split; [exact L'|exact E'].
Qed.

(* a validation through the store gives the same answer as one against a freshly built spec *)
Lemma store_result_fresh m ai add st names src specs :
  cache_ok st -> lookup_specs st names = Some specs ->
  snd (validate_config_st m ai add st names src) = validate_config m ai add (build_spec specs) src.
Proof.
  unfold validate_config_st. intros Hc L. destruct (names_get names (st_cache st)) as [sp|] eqn:E.
  - destruct (Hc _ _ E) as [specs' [L' E']]. rewrite L in L'. inversion L'; subst. reflexivity.
  - rewrite L. reflexivity.
Qed.

(* build_spec: the section's own declarations win, base specs only fill in the keys not declared before them *)
Fixpoint first_decl (k : str) (specs : list spec) : option sentry :=
  match specs with
  | [] => None
  | s :: t => match spec_get k s with Some e => Some e | None => first_decl k t end
  end.

Lemma zs_eqb_refl a : zs_eqb a a = true.
Proof. apply zs_eqb_spec. reflexivity. Qed.
Lemma zs_eqb_neq a b : a <> b -> zs_eqb a b = false.
Proof. intro H. destruct (zs_eqb a b) eqn:E; [apply zs_eqb_spec in E; contradiction|reflexivity]. Qed.

Lemma spec_get_set_same k e s : spec_get k (spec_set k e s) = Some e.
Proof.
  induction s as [|[k' e'] s IH]; cbn [spec_set spec_get].
  - rewrite zs_eqb_refl. reflexivity.
  - destruct (zs_eqb k k') eqn:E; cbn [spec_get]; rewrite E; [reflexivity|exact IH].
Qed.

Lemma spec_get_set_other k k' e s : k <> k' -> spec_get k (spec_set k' e s) = spec_get k s.
Proof.
  intro Hne. induction s as [|[k0 e0] s IH]; cbn [spec_set spec_get].
  - rewrite (zs_eqb_neq _ _ Hne). reflexivity.
  - destruct (zs_eqb k' k0) eqn:E; cbn [spec_get].
    + apply zs_eqb_spec in E. subst k0. rewrite (zs_eqb_neq _ _ Hne). reflexivity.
    + destruct (zs_eqb k k0); [reflexivity|exact IH].
Qed.

Lemma spec_get_none_notin k s : ~ In k (map fst s) -> spec_get k s = None.
Proof.
  induction s as [|[k0 e0] s IH]; cbn [map fst spec_get In]; intro H; [reflexivity|].
  rewrite zs_eqb_neq by (intro E; apply H; left; symmetry; exact E).
  apply IH. intro Hc. apply H. right. exact Hc.
Qed.

Lemma spec_set_keys k e s k' : In k' (map fst (spec_set k e s)) <-> k' = k \/ In k' (map fst s).
Proof.
  induction s as [|[k0 e0] s IH]; cbn [spec_set map fst In].
  - intuition.
  - destruct (zs_eqb k k0) eqn:E; cbn [map fst In].
    + apply zs_eqb_spec in E. subst k0. intuition.
    + rewrite IH. intuition.
Qed.

Lemma spec_set_nodup k e s : NoDup (map fst s) -> NoDup (map fst (spec_set k e s)).
Proof.
  induction s as [|[k0 e0] s IH]; cbn [spec_set map fst]; intro H.
  - constructor; [intros []|constructor].
  - inversion H as [|x xs Hn Hd]; subst. destruct (zs_eqb k k0) eqn:E; cbn [map fst].
    + constructor; assumption.
    + constructor; [|apply IH; assumption].
      rewrite spec_set_keys. intros [Hc|Hc]; [|contradiction].
      subst k0. rewrite zs_eqb_refl in E. discriminate E.
Qed.

Lemma spec_update_get k : forall over base,
  NoDup (map fst over) ->
  spec_get k (spec_update base over) = match spec_get k over with Some e => Some e | None => spec_get k base end.
Proof.
  unfold spec_update. induction over as [|[k1 e1] t IH]; intros base Hnd; cbn [fold_left spec_get fst snd].
  - reflexivity.
  - inversion Hnd as [|x xs Hn Hd]; subst. rewrite (IH _ Hd).
    destruct (zs_eqb k k1) eqn:E.
    + apply zs_eqb_spec in E. subst k1. rewrite (spec_get_none_notin _ _ Hn). apply spec_get_set_same.
    + destruct (spec_get k t); [reflexivity|]. apply spec_get_set_other.
      intro Hc. subst k1. rewrite zs_eqb_refl in E. discriminate E.
Qed.

Lemma spec_update_nodup : forall over base, NoDup (map fst base) -> NoDup (map fst (spec_update base over)).
Proof.
  unfold spec_update. induction over as [|[k1 e1] t IH]; intros base H; cbn [fold_left]; [exact H|].
  apply IH. apply spec_set_nodup. exact H.
Qed.

Lemma build_spec_get k : forall specs acc,
  Forall (fun s => NoDup (map fst s)) specs -> NoDup (map fst acc) ->
  spec_get k (fold_left (fun this elem => spec_update elem this) specs acc) =
  match spec_get k acc with Some e => Some e | None => first_decl k specs end.
Proof.
  induction specs as [|s t IH]; intros acc Hf Ha; cbn [fold_left first_decl].
  - destruct (spec_get k acc); reflexivity.
  - inversion Hf as [|x xs Hs Ht]; subst.
    rewrite (IH _ Ht (spec_update_nodup _ _ Hs)). rewrite (spec_update_get _ _ _ Ha).
    destruct (spec_get k acc); reflexivity.
Qed.

Lemma build_spec_own_first_l k specs :
  Forall (fun s => NoDup (map fst s)) specs -> spec_get k (build_spec specs) = first_decl k specs.
Proof. intro Hf. unfold build_spec. rewrite (build_spec_get k specs [] Hf (NoDup_nil _)). reflexivity. Qed.

Lemma build_spec_nodup_l specs :
  Forall (fun s => NoDup (map fst s)) specs -> NoDup (map fst (build_spec specs)).
Proof.
  unfold build_spec. assert (G : forall specs acc, Forall (fun s => NoDup (map fst s)) specs -> NoDup (map fst acc) ->
    NoDup (map fst (fold_left (fun this elem => spec_update elem this) specs acc))).
  { clear. induction specs as [|s t IH]; intros acc Hf Ha; cbn [fold_left]; [exact Ha|].
    inversion Hf; subst. apply IH; [assumption|]. apply spec_update_nodup. assumption. }
  intro Hf. apply G; [exact Hf|constructor].
Qed.

(* any HISTORY of validations against one validator: the specs never change, the cache stays coherent, and
   every answer is the answer of a validation against a fresh merge of the original specs *)
Lemma lookup_specs_ext st st' names :
  st_specs st' = st_specs st -> lookup_specs st' names = lookup_specs st names.
Proof. intro E. unfold lookup_specs. rewrite E. reflexivity. Qed.

Lemma cache_hit_lookup st names sp :
  cache_ok st -> names_get names (st_cache st) = Some sp -> exists specs, lookup_specs st names = Some specs.
Proof. intros Hc H. destruct (Hc _ _ H) as [specs [L _]]. eauto. Qed.

Lemma step_result_fresh m ai add st names src :
  cache_ok st ->
  snd (validate_config_st m ai add st names src) = fresh_validate m ai st (add, names, src).
Proof.
  intro Hc. unfold fresh_validate. destruct (lookup_specs st names) as [specs|] eqn:L.
  - apply store_result_fresh; assumption.
  - unfold validate_config_st. destruct (names_get names (st_cache st)) as [sp|] eqn:E.
    + destruct (cache_hit_lookup _ _ _ Hc E) as [specs L']. rewrite L in L'. discriminate L'.
    + rewrite L. reflexivity.
Qed.

Lemma fresh_validate_ext m ai st st' step :
  st_specs st' = st_specs st -> fresh_validate m ai st' step = fresh_validate m ai st step.
Proof.
  intro E. destruct step as [[add names] src]. unfold fresh_validate.
  rewrite (lookup_specs_ext _ _ _ E). reflexivity.
Qed.

Lemma history_l m ai : forall steps st,
  cache_ok st ->
  st_specs (fst (run_steps m ai st steps)) = st_specs st /\
  cache_ok (fst (run_steps m ai st steps)) /\
  snd (run_steps m ai st steps) = map (fresh_validate m ai st) steps.
Proof.
  induction steps as [|[[add names] src] t IH]; intros st Hc; cbn [run_steps].
  - cbn. auto.
  - pose proof (spec_unchanged_l m ai add st names src) as Hs.
    pose proof (cache_ok_preserved m ai add st names src Hc) as Hc1.
    pose proof (step_result_fresh m ai add st names src Hc) as Hr.
    destruct (validate_config_st m ai add st names src) as [st1 r] eqn:E1. cbn [fst snd] in Hs, Hc1, Hr.
    destruct (IH st1 Hc1) as [Ha [Hb Hd]].
    destruct (run_steps m ai st1 t) as [st2 rs] eqn:E2. cbn [fst snd] in *.
    split; [congruence|]. split; [assumption|].
    cbn [map]. rewrite Hr, Hd. f_equal.
    apply map_ext. intro step. apply fresh_validate_ext. assumption.
Qed.

(* ---------------------------------------------------------------------------------------------- *)
(* 5. time strings: the TRANSLATED suffix chain (gen/Time.v) gives value times unit                 *)
From C12 Require Import FloatLemmas.
Open Scope Z_scope.

Definition is_num_end (c : Z) : bool := is_digit c || (c =? 46).     (* a digit or '.' *)

Lemma ends_with_app s suf : ends_with (s ++ suf) suf = true.
Proof. unfold ends_with. rewrite rev_app_distr. apply zs_prefixb_app. Qed.

Lemma drop_last_app s suf : drop_last (length suf) (s ++ suf) = s.
Proof.
  unfold drop_last. rewrite rev_app_distr. rewrite <- (rev_length suf).
  rewrite skipn_app, Nat.sub_diag, skipn_all. cbn. apply rev_involutive.
Qed.

Lemma upper_num_end c : is_num_end c = true -> upper_c c = c.
Proof.
  unfold is_num_end, is_digit, upper_c, is_lower. intro H.
  destruct ((97 <=? c) && (c <=? 122)) eqn:E; [|reflexivity].
  apply andb_true_iff in E as [E1 E2]. apply Z.leb_le in E1.
  apply orb_true_iff in H as [H|H].
  - apply andb_true_iff in H as [_ H]. apply Z.leb_le in H. lia.
  - apply Z.eqb_eq in H. lia.
Qed.

Lemma upper_body bs c suf :
  is_num_end c = true -> upper ((bs ++ [c]) ++ suf) = (upper bs ++ [c]) ++ upper suf.
Proof.
  intro H. unfold upper. rewrite !map_app. cbn [map]. fold (upper_c c). rewrite (upper_num_end _ H). reflexivity.
Qed.

Lemma num_end_not_letter c : is_num_end c = true ->
  (c =? 67) = false /\ (c =? 68) = false /\ (c =? 69) = false /\ (c =? 72) = false /\
  (c =? 77) = false /\ (c =? 83) = false.
Proof.
  unfold is_num_end, is_digit. intro H.
  assert (c <= 57)%Z.
  { apply orb_true_iff in H as [H|H]; [apply andb_true_iff in H as [_ H]; apply Z.leb_le in H; lia|
                                     apply Z.eqb_eq in H; lia]. }
  repeat split; apply Z.eqb_neq; lia.
Qed.

(* which branch of the chain a string "<body><SUFFIX>" takes, for a body ending in a digit or '.' *)
Ltac eval_const_eqb :=
  repeat match goal with
         | |- context [Z.eqb (Zpos ?a) (Zpos ?b)] =>
             let r := eval vm_compute in (Z.eqb (Zpos a) (Zpos b)) in
             change (Z.eqb (Zpos a) (Zpos b)) with r
         end.

Ltac chain_dispatch Hc :=
  unfold string_to_ms_chain, ends_with; rewrite !rev_app_distr; cbn [rev app zs_prefixb];
  destruct (num_end_not_letter _ Hc) as (N67 & N68 & N69 & N72 & N77 & N83);
  eval_const_eqb;
  rewrite ?(Z.eqb_sym 67), ?(Z.eqb_sym 68), ?(Z.eqb_sym 69), ?(Z.eqb_sym 72), ?(Z.eqb_sym 77), ?(Z.eqb_sym 83);
  rewrite ?N67, ?N68, ?N69, ?N72, ?N77, ?N83; cbn [andb orb].

Lemma chain_S b c : is_num_end c = true ->
  string_to_ms_chain ((b ++ [c]) ++ [83]) = r_id (r_round (r_fmul (e_float_of_str (b ++ [c])) 1000)).
Proof.
  intro Hc. rewrite <- (drop_last_app (b ++ [c]) [83]) at 2. chain_dispatch Hc. reflexivity.
Qed.
Lemma chain_SEC b c : is_num_end c = true ->
  string_to_ms_chain ((b ++ [c]) ++ [83;69;67]) = r_id (r_round (r_fmul (e_float_of_str (b ++ [c])) 1000)).
Proof.
  intro Hc. rewrite <- (drop_last_app (b ++ [c]) [83;69;67]) at 2. chain_dispatch Hc. reflexivity.
Qed.
Lemma chain_M b c : is_num_end c = true ->
  string_to_ms_chain ((b ++ [c]) ++ [77]) =
  r_id (r_round (r_fmul (r_fmul (e_float_of_str (b ++ [c])) 60) 1000)).
Proof.
  intro Hc. rewrite <- (drop_last_app (b ++ [c]) [77]) at 2. chain_dispatch Hc. reflexivity.
Qed.
Lemma chain_H b c : is_num_end c = true ->
  string_to_ms_chain ((b ++ [c]) ++ [72]) =
  r_id (r_round (r_fmul (r_fmul (e_float_of_str (b ++ [c])) 3600) 1000)).
Proof.
  intro Hc. rewrite <- (drop_last_app (b ++ [c]) [72]) at 2. chain_dispatch Hc. reflexivity.
Qed.
Lemma chain_D b c : is_num_end c = true ->
  string_to_ms_chain ((b ++ [c]) ++ [68]) =
  r_id (r_round (r_fmul (r_fmul (e_float_of_str (b ++ [c])) 86400) 1000)).
Proof.
  intro Hc. rewrite <- (drop_last_app (b ++ [c]) [68]) at 2. chain_dispatch Hc. reflexivity.
Qed.
Lemma chain_MS b c : is_num_end c = true ->
  string_to_ms_chain ((b ++ [c]) ++ [77;83]) = e_int_of_str (b ++ [c]).
Proof.
  intro Hc. rewrite <- (drop_last_app (b ++ [c]) [77;83]) at 2. chain_dispatch Hc. reflexivity.
Qed.
Lemma chain_MSEC b c : is_num_end c = true ->
  string_to_ms_chain ((b ++ [c]) ++ [77;83;69;67]) = e_int_of_str (b ++ [c]).
Proof.
  intro Hc. rewrite <- (drop_last_app (b ++ [c]) [77;83;69;67]) at 2. chain_dispatch Hc. reflexivity.
Qed.

Lemma fl_1000 : fl_of_Z 1000 = FNum (1000 # 1). Proof. vm_compute. reflexivity. Qed.
Lemma fl_60 : fl_of_Z 60 = FNum (60 # 1). Proof. vm_compute. reflexivity. Qed.
Lemma fl_3600 : fl_of_Z 3600 = FNum (3600 # 1). Proof. vm_compute. reflexivity. Qed.
Lemma fl_86400 : fl_of_Z 86400 = FNum (86400 # 1). Proof. vm_compute. reflexivity. Qed.

Definition unit_ms (u : str) : option Q :=
  if zs_eqb u [83] || zs_eqb u [83;69;67] then Some (1000 # 1)%Q
  else if zs_eqb u [77] then Some (60000 # 1)%Q
  else if zs_eqb u [72] then Some (3600000 # 1)%Q
  else if zs_eqb u [68] then Some (86400000 # 1)%Q
  else None.

(* value times unit, for the float-valued suffixes: s sec m h d in any letter case *)
Lemma time_float_units b c suf unit x N :
  is_num_end c = true ->
  unit_ms (upper suf) = Some unit ->
  e_float_of_str (upper b ++ [c]) = Ok (fnum x) ->        (* float() reads the text before the suffix as x *)
  (0 <= x)%Q -> (x * unit == inject_Z N)%Q -> (N < 2 ^ 49)%Z ->
  string_to_ms (YStr ((b ++ [c]) ++ suf)) = Ok N.
Proof.
  intros Hc Hu Hf Hx HN Hlt. cbn [string_to_ms py_str]. rewrite (upper_body _ _ _ Hc).
  unfold unit_ms in Hu.
  destruct (zs_eqb (upper suf) [83] || zs_eqb (upper suf) [83;69;67])%bool eqn:E1.
  { inversion Hu; subst unit. apply orb_true_iff in E1 as [E|E]; apply zs_eqb_spec in E; rewrite E;
      [rewrite (chain_S _ _ Hc)|rewrite (chain_SEC _ _ Hc)]; rewrite Hf;
      apply (chain1 1000 (1000 # 1)%Q x N fl_1000); try assumption; lra. }
  destruct (zs_eqb (upper suf) [77]) eqn:E2.
  { inversion Hu; subst unit. apply zs_eqb_spec in E2. rewrite E2, (chain_M _ _ Hc), Hf.
    apply (chain2 60 1000 (60 # 1) (1000 # 1) x N fl_60 fl_1000); try assumption; try lra; rewrite <- HN; ring. }
  destruct (zs_eqb (upper suf) [72]) eqn:E3.
  { inversion Hu; subst unit. apply zs_eqb_spec in E3. rewrite E3, (chain_H _ _ Hc), Hf.
    apply (chain2 3600 1000 (3600 # 1) (1000 # 1) x N fl_3600 fl_1000); try assumption; try lra; rewrite <- HN; ring. }
  destruct (zs_eqb (upper suf) [68]) eqn:E4; [|discriminate Hu].
  inversion Hu; subst unit. apply zs_eqb_spec in E4. rewrite E4, (chain_D _ _ Hc), Hf.
  apply (chain2 86400 1000 (86400 # 1) (1000 # 1) x N fl_86400 fl_1000); try assumption; try lra; rewrite <- HN; ring.
Qed.

(* FRACTIONAL products (binary rounding matters): for every decimal value x (zero, or at least 10^-9) with
   x*unit < 2^49 the result is an integer within 3/4 ms of the exact value times unit *)
Lemma time_float_units_frac b c suf unit x :
  is_num_end c = true ->
  unit_ms (upper suf) = Some unit ->
  e_float_of_str (upper b ++ [c]) = Ok (fnum x) ->
  (x == 0 \/ XLO <= x)%Q -> (x * unit < P49)%Q ->
  exists N, string_to_ms (YStr ((b ++ [c]) ++ suf)) = Ok N /\ (Qabs (inject_Z N - x * unit) <= 3 # 4)%Q.
Proof.
  intros Hc Hu Hf Hx Hlt. cbn [string_to_ms py_str]. rewrite (upper_body _ _ _ Hc).
  unfold unit_ms in Hu.
  destruct (zs_eqb (upper suf) [83] || zs_eqb (upper suf) [83;69;67])%bool eqn:E1.
  { inversion Hu; subst unit. apply orb_true_iff in E1 as [E|E]; apply zs_eqb_spec in E; rewrite E;
      [rewrite (chain_S _ _ Hc)|rewrite (chain_SEC _ _ Hc)]; rewrite Hf;
      apply (chain1f 1000 (1000 # 1)%Q x fl_1000); try assumption; lra. }
  destruct (zs_eqb (upper suf) [77]) eqn:E2.
  { inversion Hu; subst unit. apply zs_eqb_spec in E2. rewrite E2, (chain_M _ _ Hc), Hf.
    assert (E : (x * (60000 # 1) == x * (60 # 1) * (1000 # 1))%Q) by ring.
    destruct (chain2f 60 1000 (60 # 1) (1000 # 1) x fl_60 fl_1000) as [N [HN HB]]; try assumption; try lra.
    exists N. split; [exact HN|]. rewrite E. exact HB. }
  destruct (zs_eqb (upper suf) [72]) eqn:E3.
  { inversion Hu; subst unit. apply zs_eqb_spec in E3. rewrite E3, (chain_H _ _ Hc), Hf.
    assert (E : (x * (3600000 # 1) == x * (3600 # 1) * (1000 # 1))%Q) by ring.
    destruct (chain2f 3600 1000 (3600 # 1) (1000 # 1) x fl_3600 fl_1000) as [N [HN HB]]; try assumption; try lra.
    exists N. split; [exact HN|]. rewrite E. exact HB. }
  destruct (zs_eqb (upper suf) [68]) eqn:E4; [|discriminate Hu].
  inversion Hu; subst unit. apply zs_eqb_spec in E4. rewrite E4, (chain_D _ _ Hc), Hf.
  assert (E : (x * (86400000 # 1) == x * (86400 # 1) * (1000 # 1))%Q) by ring.
  destruct (chain2f 86400 1000 (86400 # 1) (1000 # 1) x fl_86400 fl_1000) as [N [HN HB]]; try assumption; try lra.
  exists N. split; [exact HN|]. rewrite E. exact HB.
Qed.

(* the same WITHOUT the hypothesis on float(): for a plain decimal text  d+ "." d*  the model's float() is fnum of
   the exact decimal rational (DecText.parse_decimal), so the statement is about the text itself *)
From C12 Require Import DecText.

Lemma forallb_num_end_upper l : forallb is_num_end l = true -> upper l = l.
Proof.
  induction l as [|a l IH]; cbn [forallb upper map]; [reflexivity|]. intro H.
  apply andb_true_iff in H as [Ha Hl]. fold (upper l). rewrite (IH Hl), (upper_num_end _ Ha). reflexivity.
Qed.

Lemma dec_text_num_end c ip fp :
  is_digit c = true -> all_digits ip = true -> all_digits fp = true ->
  forallb is_num_end (dec_text (c :: ip) fp) = true.
Proof.
  intros Hc Hi Hf. unfold dec_text. cbn [app forallb]. unfold is_num_end at 1. rewrite Hc. cbn [orb andb].
  unfold all_digits in *. rewrite forallb_forall in Hi, Hf.
  rewrite forallb_app. apply andb_true_iff; split.
  - apply forallb_forall. intros y Hy. unfold is_num_end. rewrite (Hi y Hy). reflexivity.
  - cbn [forallb]. apply andb_true_iff; split; [reflexivity|].
    apply forallb_forall. intros y Hy. unfold is_num_end. rewrite (Hf y Hy). reflexivity.
Qed.

Lemma injZ_close N M : (Qabs (inject_Z N - inject_Z M) <= 3 # 4)%Q -> N = M.
Proof.
  intro H. apply Qabs_Qle_condition in H as [H1 H2].
  unfold Qle, Qminus, Qplus, Qopp, inject_Z in *. cbn in *. lia.
Qed.

Lemma time_decimal_l c ip fp suf unit :
  is_digit c = true -> all_digits ip = true -> all_digits fp = true ->
  (length (c :: ip) + length fp <= 400)%nat ->
  unit_ms (upper suf) = Some unit ->
  (dec_q (c :: ip) fp == 0 \/ XLO <= dec_q (c :: ip) fp)%Q -> (dec_q (c :: ip) fp * unit < P49)%Q ->
  exists N, string_to_ms (YStr (dec_text (c :: ip) fp ++ suf)) = Ok N /\
            (Qabs (inject_Z N - dec_q (c :: ip) fp * unit) <= 3 # 4)%Q /\
            (forall M, (dec_q (c :: ip) fp * unit == inject_Z M)%Q -> N = M).
Proof.
  intros Hc Hi Hf Hlen Hu Hx Hlt.
  pose proof (dec_text_num_end _ _ _ Hc Hi Hf) as Hall.
  assert (Hne : dec_text (c :: ip) fp <> []) by (unfold dec_text; cbn; discriminate).
  destruct (exists_last Hne) as [b [a E]].
  assert (Hb : forallb is_num_end b = true /\ is_num_end a = true).
  { rewrite E, forallb_app in Hall. apply andb_true_iff in Hall as [A B]. cbn in B.
    rewrite andb_true_r in B. auto. }
  destruct Hb as [Hb Ha].
  assert (Hfl : e_float_of_str (upper b ++ [a]) = Ok (fnum (dec_q (c :: ip) fp))).
  { rewrite (forallb_num_end_upper _ Hb), <- E. unfold e_float_of_str.
    rewrite (parse_decimal _ _ _ Hc Hi Hf Hlen). reflexivity. }
  destruct (time_float_units_frac b a suf unit _ Ha Hu Hfl Hx Hlt) as [N [HN HB]].
  exists N. rewrite E. split; [exact HN|]. split; [exact HB|].
  intros M HM. apply injZ_close. rewrite <- HM. exact HB.
Qed.

(* ... and for the integer-valued suffixes ms / msec *)
Lemma time_int_units b c suf N :
  is_num_end c = true ->
  (upper suf = [77;83] \/ upper suf = [77;83;69;67]) ->
  e_int_of_str (upper b ++ [c]) = Ok N ->
  string_to_ms (YStr ((b ++ [c]) ++ suf)) = Ok N.
Proof.
  intros Hc Hs Hi. cbn [string_to_ms py_str]. rewrite (upper_body _ _ _ Hc).
  destruct Hs as [E|E]; rewrite E; [rewrite (chain_MS _ _ Hc)|rewrite (chain_MSEC _ _ Hc)]; exact Hi.
Qed.

(* string_to_secs is string_to_ms / 1000.0 once the text has a letter in it *)
Lemma secs_of_ms s z :
  existsb is_alpha s = true -> string_to_ms (YStr s) = Ok z ->
  string_to_secs (YStr s) = Ok (fdiv_pos (fl_of_Z z) 1000).
Proof.
  intros Ha Hm. unfold string_to_secs. cbn [py_str]. rewrite Ha, Hm. reflexivity.
Qed.

(* ---------------------------------------------------------------------------------------------- *)
(* 6. the variants the unfixed code used are wrong (witnesses by computation)                       *)
Lemma time_trunc_variant_refuted_l :
  exists (s : str) (N : Z),
    e_float_of_str s = Ok (fnum (1001 # 1000)) /\ ((1001 # 1000) * (1000 # 1) == inject_Z N)%Q /\
    r_int (r_fmul (e_float_of_str s) 1000) <> Ok N.
Proof.
  exists [49;46;48;48;49], 1001. split; [vm_compute; reflexivity|]. split; [reflexivity|].
  vm_compute. intro H. discriminate H.
Qed.

Lemma range_lt_variant_accepts_nan_l :
  forall lo hi, fl_lt FNaN lo = false /\ fl_lt hi FNaN = false.
Proof. intros lo hi. split; [reflexivity|destruct hi; reflexivity]. Qed.

(* ---------------------------------------------------------------------------------------------- *)
(* pow2: the declared type is "int that is a power of two"; the code returns the item unconverted *)
Lemma pow2_type_refuted_l :
  exists m item r, validate_item m n_pow2 item = Ok r /\ is_pow2_int r = false.
Proof. exists [], (YStr [56]), (YStr [56]). split; vm_compute; reflexivity. Qed.

(* ... it is an int exactly when the input was one *)
Lemma pow2_int_input_l m z r : validate_item m n_pow2 (YInt z) = Ok r -> is_pow2_int r = true.
Proof.
  intro H. pose proof (validate_item_sound _ _ _ _ H) as T.
  unfold validate_item in H. cbn in H. destruct (is_pow2 z); [|discriminate H]. inversion H; subst r.
  unfold has_type in T. cbn in T. exact T.
Qed.

(* gain: the documented range is 0.0 .. 1.0; min(max(nan, 0.0), 1.0) is nan *)
Lemma gain_range_refuted_l : exists m item r, validate_item m n_gain item = Ok r /\ is_gain r = false.
Proof. exists [], (YStr [110;97;110]), (YFloat FNaN []). split; vm_compute; reflexivity. Qed.

Lemma gain_range_partial_l m item f t :
  validate_item m n_gain item = Ok (YFloat f t) -> f <> FNaN -> is_gain (YFloat f t) = true.
Proof.
  intros H Hn. pose proof (validate_item_sound _ _ _ _ H) as T. unfold has_type in T. cbn in T.
  unfold gain_ok in T. unfold is_gain. destruct f; try exact T. contradiction.
Qed.

(* 7. the hypotheses of the theorems are satisfiable on non-trivial inputs                           *)
Definition ex_machine : machine := [([115;119], [[115;49]; [115;50]])].          (* sw: s1 s2 *)
Definition v_int_0_255 : str := [105;110;116;40;48;44;50;53;53;41].               (* int(0,255) *)

Example ex_validate_sound :
  validate_item ex_machine v_int_0_255 (YStr [32;50;53;32]) = Ok (YInt 25) /\
  has_type ex_machine v_int_0_255 (YInt 25) = true /\
  validate_item ex_machine v_int_0_255 (YInt 256) = Err (ECfg 5) /\
  validate_item ex_machine [102;108;111;97;116;40;48;44;49;41] (YFloat FNaN []) = Err (ECfg 5).
Proof. vm_compute. repeat split. Qed.

Definition ex_spec : spec :=
  [([97], SItem s_single v_int_0_255 [53]);                                       (* a: single|int(0,255)|5 *)
   ([98], SItem n_list_ty n_str s_None_C);                                        (* b: list|str|None *)
   ([95;120], SRaw)].
Example ex_section :
  NoDup (map fst ex_spec) /\
  validate_config ex_machine false true ex_spec (YDict [(YStr [98], YStr [120;44;32;121])]) =
    Ok (YDict [(YStr [98], YList [YStr [120]; YStr [121]]); (YStr [97], YInt 5)]) /\
  exists e, validate_config ex_machine false true ex_spec (YDict [(YStr [122], YInt 1)]) = Err e.
Proof.
  split; [|split; [vm_compute; reflexivity|eexists; vm_compute; reflexivity]].
  repeat constructor; cbn; intuition discriminate.
Qed.

(* "1.001s" : b = "1.00", c = "1", x = 1001/1000, N = 1001 *)
Example ex_time_1001 :
  is_num_end 49 = true /\ unit_ms (upper [115]) = Some (1000 # 1)%Q /\
  e_float_of_str (upper [49;46;48;48] ++ [49]) = Ok (fnum (1001 # 1000)) /\
  string_to_ms (YStr (([49;46;48;48] ++ [49]) ++ [115])) = Ok 1001 /\
  string_to_ms (YStr [50;48;48;109;115;101;99]) = Ok 200.                         (* "200msec" *)
Proof. vm_compute. repeat split. Qed.

(* section declares a: int(0,255) default 5; the base declares a: str default "x" and c *)
Example ex_own_first :
  let base := [([97], SItem s_single n_str [120]); ([99], SItem s_single n_str [121])] in
  Forall (fun s => NoDup (map fst s)) [ex_spec; base] /\
  spec_get [97] (build_spec [ex_spec; base]) = Some (SItem s_single v_int_0_255 [53]) /\
  spec_get [99] (build_spec [ex_spec; base]) = Some (SItem s_single n_str [121]).
Proof.
  cbn zeta. split; [|split; vm_compute; reflexivity].
  repeat constructor; cbn; intuition discriminate.
Qed.

Example ex_history :
  let st := {| st_specs := [([115], ex_spec); ([116], [([97], SItem s_single n_str [120])])]; st_cache := [] |} in
  cache_ok st /\
  snd (run_steps ex_machine false st
         [(true, [[115]; [116]], YDict []); (true, [[116]; [115]], YDict []); (true, [[115]; [116]], YDict [(YStr [97], YInt 7)])]) =
    [Ok (YDict [(YStr [97], YInt 5); (YStr [98], YList [])]);
     Ok (YDict [(YStr [97], YStr [120]); (YStr [98], YList [])]);
     Ok (YDict [(YStr [97], YInt 7); (YStr [98], YList [])])].
Proof. split; [intros n sp H; discriminate H|vm_compute; reflexivity]. Qed.

(* "0.0005s": x = 1/2000, x*1000 = 1/2 exactly between 0 and 1 (binary rounding decides); "2.675m" *)
Example ex_time_frac :
  e_float_of_str (upper [48;46;48;48;48] ++ [53]) = Ok (fnum (1 # 2000)) /\
  (XLO <= 1 # 2000)%Q /\ ((1 # 2000) * (1000 # 1) < P49)%Q /\
  string_to_ms (YStr [48;46;48;48;48;53;115]) = Ok 0 /\
  string_to_ms (YStr [50;46;54;55;53;109]) = Ok 160500.
Proof. repeat split; try (vm_compute; reflexivity); vm_compute; discriminate. Qed.

(* "2.675m": c = "2", ip = "", fp = "675"; 2.675 * 60000 = 160500 *)
Definition ex_two : str := [50].
Definition ex_675 : str := [54;55;53].
Example ex_time_decimal :
  dec_text ex_two ex_675 = [50;46;54;55;53] /\ (dec_q ex_two ex_675 == 2675 # 1000)%Q /\
  (XLO <= dec_q ex_two ex_675)%Q /\ (dec_q ex_two ex_675 * (60000 # 1) < P49)%Q /\
  (dec_q ex_two ex_675 * (60000 # 1) == inject_Z 160500)%Q.
Proof. repeat split; try (vm_compute; reflexivity); vm_compute; discriminate. Qed.

Example ex_gain :
  validate_item [] n_gain (YStr [48;46;50;53]) = Ok (YFloat (FNum (1 # 4)) []) /\
  validate_item [] n_gain (YInt 7) = Ok (YFloat (FNum 1) []) /\
  validate_item [([35;101;120;112;114], [[97;32;43;32;49]])] n_template_int (YStr [97;32;43;32;49]) =
    Ok (YTemplate c_IntTemplate [97;32;43;32;49]) /\
  validate_item [] n_template_int (YStr [97;32;43]) = Err EAssert /\
  validate_item [] n_template_ms (YStr [50;115]) = Ok (YNative (YInt 2000)) /\
  string_to_event_list (YStr [101;118;49;123;120;62;49;44;50;125;44;32;101;50]) =
    Ok [YStr [101;118;49;123;120;62;49;44;50;125]; YStr [101;50]].     (* "ev1{x>1,2}, e2" *)
Proof. vm_compute. repeat split. Qed.

Example ex_store :
  let st := {| st_specs := [([115], ex_spec)]; st_cache := [] |} in
  cache_ok st /\
  snd (validate_config_st ex_machine false true st [[115]] (YDict [])) =
    Ok (YDict [(YStr [97], YInt 5); (YStr [98], YList [])]).
Proof. split; [intros n sp H; discriminate H|vm_compute; reflexivity]. Qed.
