From C12 Require Import Model.
