(* C12/Player.v — hand model of the entry validation of the config players under the property's anchors
   (mpf/core/config_player.py ConfigPlayer._parse_and_validate_conditional, used by
   mpf/config_players/variable_player.py, score_queue_player.py and event_player.py validate_config_entry):
   the keys of an entry are `name{condition}|number`; PlaceholderManager.parse_conditional_template splits them with
       ^(?P<name>[^{}:| ]+)({(?P<condition>.+)})?([|:](?P<number>.+))?$
   the condition becomes a BoolTemplate (Python expression grammar abstract, section #expr of the machine table, as in
   Model.v) and the NAME must match ^[0-9a-zA-Z_-]+$ (error 4 otherwise).  Domain: printable ASCII keys without
   newline.  Definitions only.                                                                                  *)
From Common Require Import Prelude.
From Coq Require Import QArith.
From C12 Require Import Base Model.
From C12.gen Require Import Time.
Open Scope Z_scope.

(* [^{}:| ] *)
Definition is_namec (c : Z) : bool := negb ((c =? 123) || (c =? 125) || (c =? 58) || (c =? 124) || (c =? 32)).

Fixpoint span_name (s : str) : str * str :=
  match s with
  | c :: t => if is_namec c then let '(w, r) := span_name t in (c :: w, r) else ([], s)
  | [] => ([], [])
  end.

Definition is_sep (c : Z) : bool := (c =? 124) || (c =? 58).          (* [|:] *)

(* what may follow the closing brace: nothing, or [|:] and at least one character *)
Definition tail_number (t : str) : option (option str) :=
  match t with
  | [] => Some None
  | c :: n => if is_sep c && negb (is_nil n) then Some (Some n) else None
  end.

(* `.+\}` greedy: the LAST '}' after which the rest of the pattern still matches; returns (condition, number) *)
Fixpoint last_close (t : str) : option (str * option str) :=
  match t with
  | [] => None
  | c :: t' =>
      match last_close t' with
      | Some (cond, num) => Some (c :: cond, num)
      | None => if c =? 125 then match tail_number t' with Some num => Some ([], num) | None => None end
                else None
      end
  end.

(* PlaceholderManager.parse_conditional_template: (name, condition text, number text) or no match *)
Definition parse_conditional (key : str) : option (str * option str * option str) :=
  let '(name, rest) := span_name key in
  if is_nil name then None
  else match rest with
       | [] => Some (name, None, None)
       | c0 :: t =>
           if c0 =? 123 then
             match last_close t with
             | Some (c :: cond, num) => Some (name, Some (c :: cond), num)
             | _ => None
             end
           else match tail_number rest with
                | Some (Some n) => Some (name, None, Some n)
                | _ => None
                end
       end.

(* [0-9a-zA-Z_-]  (and ( ) . when allow_brackets) *)
Definition name_ok (allow_brackets : bool) (c : Z) : bool :=
  is_digit c || is_alpha c || (c =? 95) || (c =? 45) ||
  (allow_brackets && ((c =? 40) || (c =? 41) || (c =? 46))).

(* ConfigPlayer._parse_and_validate_conditional: (name, condition template or None, number text or None) *)
Definition parse_and_validate (m : machine) (allow_brackets : bool) (key : str) : result (str * yv * option str) :=
  match parse_conditional key with
  | None => Err EAssert                                             (* "Invalid template string" *)
  | Some (name, cond, num) =>
      bindR (match cond with
             | Some c => mk_template m c_BoolTemplate c             (* build_bool_template: SyntaxError -> AssertionError *)
             | None => Ok YNone
             end)
      (fun ct => if forallb (name_ok allow_brackets) name then Ok (name, ct, num) else Err (ECfg 4))
  end.

(* variable_player / score_queue_player validate_config_entry, keys only (the values handed in by the harness are
   always valid): config[name] = {..., "condition": condition} in key order *)
Definition var_entry (m : machine) (keys : list str) : result (list (yv * yv)) :=
  fold_left (fun acc key => bindR acc (fun d =>
               bindR (parse_and_validate m false key) (fun r =>
               let '(name, ct, _) := r in Ok (dict_set (YStr name) ct d))))
            keys (Ok []).

(* event_player.validate_config_entry: an event with "(" is kept verbatim (a placeholder name); the others are parsed;
   final_config[name].append({condition, number: string_to_ms(number)}) *)
Definition ev_append (name : str) (e : yv) (d : list (yv * yv)) : list (yv * yv) :=
  match dict_get (YStr name) d with
  | Some (YList l) => dict_set (YStr name) (YList (l ++ [e])) d
  | _ => dict_set (YStr name) (YList [e]) d
  end.

Definition event_entry (m : machine) (keys : list yv) : result (list (yv * yv)) :=
  fold_left (fun acc key => bindR acc (fun d =>
               match key with
               | YStr e =>
                   if mem_z 40 e then Ok (ev_append e (YList [YNone; YNone]) d)
                   else bindR (parse_and_validate m false e) (fun r =>
                        let '(name, ct, num) := r in
                        bindR (match num with
                               | Some n => bindR (string_to_ms (YStr n)) (fun z => Ok (YInt z))
                               | None => Ok YNone
                               end) (fun nv => Ok (ev_append name (YList [ct; nv]) d)))
               | _ => Err EType                                       (* "(" in None *)
               end))
            keys (Ok []).

(* the express / list / dict forms of an event_player entry: get_list_config builds {event: {}} (a repeated
   event keeps its first position) *)
Definition dedup_first (l : list yv) : list yv := List.rev (dedup (List.rev l)).

Definition event_entry_of (m : machine) (settings : yv) : result (list (yv * yv)) :=
  match settings with
  | YStr _ => bindR (string_to_event_list settings) (fun l => event_entry m (dedup_first l))
  | YList l => event_entry m (dedup_first l)
  | YDict kvs => event_entry m (map fst kvs)
  | _ => Err EUnsup
  end.

Definition key_text (k : yv) : option str := match k with YStr s => Some s | _ => None end.

Fixpoint all_texts (l : list yv) : option (list str) :=
  match l with
  | [] => Some []
  | k :: t => match key_text k, all_texts t with Some s, Some r => Some (s :: r) | _, _ => None end
  end.

Definition player_run (i : machine * bool * yv) : result yv :=
  let '(m, is_event, settings) := i in
  if is_event then bindR (event_entry_of m settings) (fun d => Ok (YDict d))
  else match settings with
       | YDict kvs =>
           match all_texts (map fst kvs) with
           | Some keys => bindR (var_entry m keys) (fun d => Ok (YDict d))
           | None => Err EUnsup
           end
       | _ => Err (ECfg 5)
       end.
Definition player_out_eqb : result yv -> result yv -> bool := res_eqb yv_eqb.
