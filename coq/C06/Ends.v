(* C06/Ends.v — why balls and games end, and extra balls: three monitors over the trace of the fixed model.
     cstep : a ball ends (ball_will_end) only after a cause since its ball_will_start — an end request, or
             balls_in_play going from > 0 to 0 at an operation — and the game never idles in the live phase of a ball
             once a cause has occurred (the ball ends at once);
     estep : game_will_end follows only an end_game request, a slam tilt, or the turn of the last player on ball
             >= balls_per_game; after such a turn (or after end_game) no further turn starts;
     xstep : extra balls played never exceed extra balls awarded (per player), and a turn ends with all awarded
             extra balls played unless the machine was slam-tilted. *)
From Common Require Import Prelude.
From C06 Require Import Model Lemmas Turns.
Open Scope Z_scope.

(* ------------------------------------------------------------------------------------------- *)
(* facts about single operations *)
Lemma set_bip_endev c x s : 0 <= bip s ->
  endev (set_bip c x s) = endev s || ((0 <? bip s) && (clamp c x =? 0)).
Proof.
  intro H. unfold set_bip.
  assert (E : negb (bip s =? 0) = (0 <? bip s)).
  { destruct (bip s =? 0) eqn:A; [apply Z.eqb_eq in A; rewrite A; reflexivity|].
    apply Z.eqb_neq in A. symmetry. apply Z.ltb_lt. lia. }
  rewrite E. destruct ((0 <? bip s) && (clamp c x =? 0)); cbn; [rewrite orb_true_r | rewrite orb_false_r]; reflexivity.
Qed.

Lemma pos_zero_false b : (0 <? b) && (b =? 0) = false.
Proof. destruct (b =? 0) eqn:A; [apply Z.eqb_eq in A; subst; reflexivity | apply andb_false_r]. Qed.

Definition is_req (code : Z) : bool := (code =? 1) || (code =? 2) || (code =? 3).

(* an operation sets the end-of-ball event exactly when it is an end request or takes balls_in_play from > 0 to 0 *)
Lemma endev_op_st v c s o : 0 <= bip s ->
  endev (op_st v c s o) = endev s || (is_req (opcode s o) || ((0 <? bip s) && (bip (op_st v c s o) =? 0))).
Proof.
  intro H. destruct o; cbn [op_st opcode].
  - change (endev (set_pf ?a ?x)) with (endev x). change (bip (set_pf ?a ?x)) with (bip x).
    destruct (drainh s && negb (n =? 0)).
    + rewrite set_bip_endev by exact H. rewrite bip_set_bip. reflexivity.
    + rewrite pos_zero_false. cbn. rewrite orb_false_r. reflexivity.
  - change (endev (set_pf ?a ?x)) with (endev x). change (bip (set_pf ?a ?x)) with (bip x).
    rewrite pos_zero_false. cbn. rewrite orb_false_r. reflexivity.
  - rewrite set_bip_endev by exact H. rewrite bip_set_bip. reflexivity.
  - cbn. rewrite orb_true_r. reflexivity.
  - cbn. rewrite orb_true_r. reflexivity.
  - destruct (ending s); cbn.
    + rewrite pos_zero_false, orb_false_r. reflexivity.
    + rewrite orb_true_r. reflexivity.
  - destruct (gate v c s && allowed); cbn; rewrite pos_zero_false, orb_false_r; reflexivity.
  - destruct (if newest then rev (heldq s) else heldq s); cbn; rewrite pos_zero_false, orb_false_r; reflexivity.
  - rewrite bip_upd_cur. rewrite pos_zero_false. cbn. rewrite orb_false_r.
    unfold upd_cur. destruct (cur s); reflexivity.
  - rewrite pos_zero_false. cbn. rewrite orb_false_r. reflexivity.
Qed.

Lemma bip_op_st_bounds v c s o : 0 <= nbk c -> 0 <= bip s <= nbk c -> 0 <= bip (op_st v c s o) <= nbk c.
Proof.
  intros Hn H. destruct o; cbn [op_st].
  - change (bip (set_pf ?a ?x)) with (bip x).
    destruct (drainh s && negb (n =? 0)); [rewrite bip_set_bip; apply clamp_bounds; exact Hn | exact H].
  - exact H.
  - rewrite bip_set_bip; apply clamp_bounds; exact Hn.
  - exact H.
  - exact H.
  - destruct (ending s); exact H.
  - destruct (gate v c s && allowed); exact H.
  - destruct (if newest then rev (heldq s) else heldq s); exact H.
  - rewrite bip_upd_cur. exact H.
  - exact H.
Qed.

Lemma flush_keeps v c s : bip (flush v c s) = bip s /\ endev (flush v c s) = endev s /\ slam (flush v c s) = slam s /\
                          pf (flush v c s) = pf s /\ drainh (flush v c s) = drainh s.
Proof. flush_cases; simpl; auto. Qed.

Lemma apply_op_out v c s o :
  snd (apply_op v c s o) = match o with AwardExtra => [Award (cur s)] | _ => [] end ++ [OpObs (opcode s o) (bip (op_st v c s o))].
Proof. reflexivity. Qed.

(* ------------------------------------------------------------------------------------------- *)
(* 1. a ball ends iff balls in play reached zero or an end was requested *)
Record cm := mkcm { cwin : bool; clive : bool; ccause : bool; cprev : Z }.
Definition cm0 : cm := mkcm false false false 0.

Definition cstep (m : cm) (o : out) : option cm :=
  match o with
  | Ev k _ _ _ bp _ =>
      match k with
      | BWS => Some (mkcm true false false bp)                 (* the window of a ball opens *)
      | BSd => Some (mkcm (cwin m) true (ccause m) bp)         (* the ball is live *)
      | BWE => if cwin m && negb (ccause m) then None          (* a ball must not end without a cause *)
               else Some (mkcm false false false bp)
      | _ => Some (mkcm (cwin m) (clive m) (ccause m) bp)
      end
  | OpObs code bp =>
      Some (mkcm (cwin m) (clive m)
                 (ccause m || (cwin m && (is_req code || ((0 <? cprev m) && (bp =? 0))))) bp)
  | Idle bp _ _ => if clive m && ccause m then None             (* a live ball with a cause does not go on *)
                   else Some (mkcm (cwin m) (clive m) (ccause m) bp)
  | Award _ => Some m
  | Fin => Some m
  end.

Definition ball_ends_ok (tr : list out) : Prop := exists m, mrun cstep cm0 tr = Some m.

Definition inwin (p : pc_t) : bool :=
  match p with AtEv (BWS | BSg | BSd) | WaitEmpty | WaitBall => true | _ => false end.
Definition islive (p : pc_t) : bool := match p with AtEv BSd | WaitBall => true | _ => false end.

Definition Rc (c : cfg) (s : st) (m : cm) : Prop :=
  0 <= bip s <= nbk c /\ cprev m = bip s /\ cwin m = inwin (pc s) /\ clive m = islive (pc s) /\
  (inwin (pc s) = true -> ccause m = endev s).

Lemma Rc_op c s m o : 0 <= nbk c -> Rc c s m ->
  exists m', mrun cstep m (snd (apply_op fixed c s o)) = Some m' /\ Rc c (fst (apply_op fixed c s o)) m'.
Proof.
  intros Hn (B & P & W & L & C).
  pose proof (pc_apply_op fixed c s o) as Epc. cbn [apply_op fst] in Epc.
  pose proof (endev_op_st fixed c s o (proj1 B)) as Een.
  pose proof (bip_op_st_bounds fixed c s o Hn B) as B'.
  rewrite apply_op_out. cbn [apply_op fst].
  eexists. split.
  - destruct o; cbn [app mrun cstep]; reflexivity.
  - unfold Rc. cbn [cwin clive ccause cprev]. rewrite Epc. repeat split; try tauto.
    intro I. rewrite Een, (C I), W, I, P. cbn [andb]. reflexivity.
Qed.

Lemma Rc_flush c s m : Rc c s m -> Rc c (flush fixed c s) m.
Proof.
  intros (B & P & W & L & C). destruct (flush_keeps fixed c s) as (F1 & F2 & _).
  unfold Rc. rewrite pc_flush, F1, F2. tauto.
Qed.

(* an event that neither opens nor closes a window, posted from outside a window *)
Lemma goto_c_out c k s m :
  inwin (AtEv k) = false -> k <> BWE -> 0 <= bip s <= nbk c -> cprev m = bip s -> cwin m = false -> clive m = false ->
  exists m', mrun cstep m (snd (goto k s)) = Some m' /\ Rc c (fst (goto k s)) m'.
Proof.
  intros Hk Hk2 B P W L. cbn [goto fst snd mrun]. unfold ev_of.
  destruct k; try discriminate Hk; try congruence; cbn [cstep];
    (eexists; split; [reflexivity|]; unfold Rc; cbn; rewrite W, L; repeat split; try tauto; try discriminate).
Qed.

Lemma loop_head_c c s m : 0 <= bip s <= nbk c -> cprev m = bip s -> cwin m = false -> clive m = false ->
  exists m', mrun cstep m (snd (loop_head s)) = Some m' /\ Rc c (fst (loop_head s)) m'.
Proof.
  intros B P W L. unfold loop_head. destruct (ending s).
  - apply goto_c_out; auto; discriminate.
  - apply goto_c_out; auto; try discriminate; destruct (cur s =? 0)%nat; assumption.
Qed.

Lemma run_ball_c c x s m : 0 <= bip s <= nbk c ->
  exists m', mrun cstep m (snd (run_ball x s)) = Some m' /\ Rc c (fst (run_ball x s)) m'.
Proof.
  intro B. unfold run_ball. cbn [goto fst snd mrun]. unfold ev_of. cbn [cstep].
  eexists. split; [reflexivity|]. unfold Rc. cbn. repeat split; try tauto.
Qed.

Lemma end_ball_c c s m : 0 <= nbk c -> cwin m = true -> ccause m = true ->
  exists m', mrun cstep m (snd (end_ball s)) = Some m' /\ Rc c (fst (end_ball s)) m'.
Proof.
  intros Hn W C. unfold end_ball. cbn [goto fst snd mrun]. unfold ev_of. cbn [cstep]. rewrite W, C. cbn.
  eexists. split; [reflexivity|]. unfold Rc. cbn. repeat split; try lia; discriminate.
Qed.

Lemma Rc_adv c s m : 0 <= nbk c -> Rc c s m -> enabled fixed s ->
  exists m', mrun cstep m (snd (advance fixed c s)) = Some m' /\ Rc c (fst (advance fixed c s)) m'.
Proof.
  intros Hn (B & P & W & L & C) En. unfold advance. unfold enabled in En.
  destruct (pc s) as [[]| | | |] eqn:Epc; cbn [inwin islive] in *;
    try (apply goto_c_out; auto; discriminate).
  - (* GSg *)
    destruct (0 <? np s)%nat; [apply goto_c_out; auto; discriminate|].
    assert (A : forall x, bip x = bip s -> pc x = pc s ->
             exists m', mrun cstep m (snd (if fix_wait fixed && ending x || pev x then goto GSd x else (set_pc WaitPlayer x, []))) = Some m' /\
                        Rc c (fst (if fix_wait fixed && ending x || pev x then goto GSd x else (set_pc WaitPlayer x, []))) m').
    { intros x Bx Px. destruct (fix_wait fixed && ending x || pev x).
      - apply goto_c_out; auto; try discriminate; rewrite Bx; assumption.
      - eexists. split; [reflexivity|]. unfold Rc. cbn. rewrite Bx, W, L. repeat split; try tauto; discriminate. }
    destruct (gate fixed c (set_pev false s) && own_ok c).
    + apply A; unfold add_first_player; destruct (hold_adds c); reflexivity.
    + apply A; reflexivity.
  - (* GSd *) apply loop_head_c; auto.
  - (* GEd *) eexists. split; [reflexivity|]. unfold Rc. cbn. rewrite W, L. repeat split; try tauto; discriminate.
  - (* PTSg *) apply goto_c_out; auto; try discriminate. cbn. rewrite bip_upd_cur. exact B. cbn. rewrite bip_upd_cur. exact P.
  - (* PTSd *) apply run_ball_c. exact B.
  - (* PTEd *) unfold after_turn.
    destruct (slam (set_tactive false s) || _); apply loop_head_c; auto.
  - (* BWS *) destruct (0 <? pf s).
    + eexists. split; [reflexivity|]. unfold Rc. cbn. rewrite W, L. repeat split; try tauto; try (intros _; apply C; reflexivity).
    + cbn [goto fst snd mrun]. unfold ev_of. cbn [cstep]. eexists. split; [reflexivity|].
      unfold Rc. cbn. rewrite W, L. repeat split; try tauto; try (intros _; apply C; reflexivity).
  - (* BSg *)
    cbn [goto fst snd mrun]. unfold ev_of. cbn [cstep]. eexists. split; [reflexivity|].
    assert (E : endev (set_bip c 1 (set_drainh true s)) = endev s).
    { rewrite set_bip_endev by (cbn; tauto). cbn [bip set_drainh endev].
      destruct (0 <? bip s) eqn:Q; [|cbn; apply orb_false_r].
      apply Z.ltb_lt in Q. assert (N : 1 <= nbk c) by lia.
      unfold clamp. destruct (nbk c <? 1) eqn:Q1; [apply Z.ltb_lt in Q1; lia|]. cbn. apply orb_false_r. }
    unfold Rc. cbn [fst pc set_pc bip endev cwin clive ccause cprev inwin islive].
    change (bip (set_pc ?a ?x)) with (bip x). change (endev (set_pc ?a ?x)) with (endev x).
    rewrite E, bip_set_bip. repeat split; try tauto; try (apply clamp_bounds; exact Hn);
      try (intros _; apply C; reflexivity).
  - (* BSd *) unfold await_end. change (endev (set_pf ?a ?x)) with (endev x). destruct (endev s) eqn:Ee.
    + apply end_ball_c; auto; try (rewrite <- Ee; apply C; reflexivity).
    + eexists. split; [reflexivity|]. unfold Rc. cbn. rewrite W, L. repeat split; try tauto; try (intros _; rewrite Ee; apply C; reflexivity).
  - (* BEd *) destruct ((0 <? pextra s)%nat && negb (slam s)).
    + apply run_ball_c. rewrite bip_upd_cur. exact B.
    + apply goto_c_out; auto; discriminate.
  - (* WaitBall *) cbv beta iota in En. unfold await_end. rewrite En. apply end_ball_c; auto; try (rewrite <- En; apply C; reflexivity).
  - (* WaitEmpty *) cbn [goto fst snd mrun]. unfold ev_of. cbn [cstep]. eexists. split; [reflexivity|].
    unfold Rc. cbn. rewrite W, L. repeat split; try tauto; try (intros _; apply C; reflexivity).
  - (* Done *) eexists. split; [reflexivity|]. unfold Rc. cbn [fst]. rewrite Epc. cbn. tauto.
Qed.

Lemma Rc_idle c s m : Rc c s m -> waiting fixed s ->
  exists m', cstep m (Idle (bip s) (np s) (pf s)) = Some m' /\ Rc c s m'.
Proof.
  intros (B & P & W & L & C) Wt. unfold waiting in Wt. cbn [cstep].
  assert (Q : clive m && ccause m = false).
  { rewrite L. destruct (pc s) as [k| | | |] eqn:Epc; try contradiction; cbn; try reflexivity.
    rewrite C by reflexivity. exact Wt. }
  rewrite Q. eexists. split; [reflexivity|]. unfold Rc. cbn. tauto.
Qed.

Lemma ball_ends_iff_l : forall c ins, 0 <= nbk c -> ball_ends_ok (trace c ins).
Proof.
  intros c ins Hn.
  assert (HS : exists m', mrun cstep (mkcm false false false 0) (snd (steps c init ins)) = Some m' /\
                          Rc c (fst (steps c init ins)) m').
  { unfold steps. apply (mon_steps cstep fixed c (Rc c) (Rc c)).
    - auto.
    - intros; apply Rc_op; assumption.
    - intros; apply Rc_flush; assumption.
    - intros; apply Rc_adv; assumption.
    - intros; apply Rc_idle; assumption.
    - unfold Rc, init. cbn. repeat split; try lia; discriminate. }
  destruct HS as [m' [E _]]. exists m'. unfold trace, out0. rewrite mrun_app. cbn. exact E.
Qed.

(* ------------------------------------------------------------------------------------------- *)
(* 2. the game ends after the turn of the last player on the last ball, or on request *)
Record em := mkem { eg : bool; esl : bool; elast : option (nat * nat) }.
Definition em0 : em := mkem false false None.

Definition lastturn (c : cfg) (pb : nat * nat) (n : nat) : bool := ((bpg c <=? snd pb) && (fst pb =? n))%nat.

Definition estep (c : cfg) (m : em) (o : out) : option em :=
  match o with
  | OpObs code _ => Some (mkem (eg m || (code =? 2)) (esl m || ((code =? 3) || (code =? 4))) (elast m))
  | Ev k p b _ _ n =>
      match k with
      | PTEd => Some (mkem (eg m) (esl m) (Some (p, b)))      (* a turn is over: player p, ball b *)
      | PTWS =>                                               (* a turn starts: with n players *)
          if eg m then None else
          match elast m with
          | None => Some m
          | Some pb => if esl m || lastturn c pb n then None else Some m
          end
      | GWE =>                                                (* the game ends: with n players *)
          match elast m with
          | None => if eg m then Some m else None
          | Some pb => if eg m || (esl m || lastturn c pb n) then Some m else None
          end
      | _ => Some m
      end
  | _ => Some m
  end.

Definition game_end_ok (c : cfg) (tr : list out) : Prop := exists m, mrun (estep c) em0 tr = Some m.

Definition Re (s : st) (m : em) : Prop :=
  class_of (pc s) = CEnd \/
  (eg m = ending s /\ esl m = slam s /\
   (class_of (pc s) = CBefore -> elast m = None) /\
   (pc s = AtEv PTEd -> elast m = Some (cur s, pball s))).

Lemma ending_slam_op_st v c s o :
  ending (op_st v c s o) = ending s || (opcode s o =? 2) /\
  slam (op_st v c s o) = slam s || ((opcode s o =? 3) || (opcode s o =? 4)).
Proof.
  Ltac ess := split; cbn; rewrite ?orb_false_r, ?orb_true_r; reflexivity.
  destruct o; cbn [op_st opcode].
  - change (ending (set_pf ?a ?x)) with (ending x). change (slam (set_pf ?a ?x)) with (slam x).
    destruct (drainh s && negb (n =? 0)); [destruct (set_bip_form c (bip s - n) s) as [b [e ->]]|]; ess.
  - ess.
  - destruct (set_bip_form c (bip s + d) s) as [b [e ->]]; ess.
  - ess.
  - ess.
  - destruct (ending s) eqn:E; split; cbn; rewrite ?E, ?orb_false_r, ?orb_true_r; reflexivity.
  - destruct (gate v c s && allowed); ess.
  - destruct (if newest then rev (heldq s) else heldq s); ess.
  - unfold upd_cur. destruct (cur s); ess.
  - ess.
Qed.

Lemma Re_op c s m o : Re s m ->
  exists m', mrun (estep c) m (snd (apply_op fixed c s o)) = Some m' /\ Re (fst (apply_op fixed c s o)) m'.
Proof.
  intro H. pose proof (Keep_apply_op fixed c s o) as (K1 & K2 & K3 & _).
  destruct (ending_slam_op_st fixed c s o) as [E1 E2].
  rewrite apply_op_out. cbn [apply_op fst] in *.
  eexists. split.
  - destruct o; cbn [app mrun estep]; reflexivity.
  - unfold Re in *. rewrite K1, K2, K3, E1, E2. destruct H as [H|(A & B & C & D)]; [left; exact H | right].
    cbn [eg esl elast]. rewrite A, B. auto.
Qed.

Lemma Re_flush c s m : Re s m -> Inv s -> Re (flush fixed c s) m.
Proof.
  intros H (_ & I2 & _). destruct (misc_flush fixed c s) as (_ & _ & X3 & _).
  destruct (flush_keeps fixed c s) as (_ & _ & F3 & _).
  unfold Re in *. rewrite pc_flush, X3, F3. destruct H as [H|(A & B & C & D)]; [left; exact H | right].
  repeat split; auto. intro Epc. rewrite Epc in I2. specialize (I2 eq_refl).
  destruct (pball_flush fixed c s I2) as [P1 P2]. rewrite P1, P2. apply D. exact Epc.
Qed.

(* an event that is neither player_turn_will_start, player_turn_ended nor game_will_end *)
Lemma goto_e c k s m : k <> PTWS -> k <> PTEd -> k <> GWE -> Re (set_pc (AtEv k) s) m ->
  exists m', mrun (estep c) m (snd (goto k s)) = Some m' /\ Re (fst (goto k s)) m'.
Proof.
  intros H1 H2 H3 R. exists m. cbn [goto fst snd mrun]. unfold ev_of.
  destruct k; try congruence; (split; [reflexivity | exact R]).
Qed.

Lemma Re_same s s' m :
  class_of (pc s') = class_of (pc s) -> pc s' <> AtEv PTEd -> ending s' = ending s -> slam s' = slam s ->
  Re s m -> Re s' m.
Proof.
  intros Hc Hp He Hs [H|(A & B & C & D)]; unfold Re; rewrite Hc, He, Hs; [left; exact H | right].
  repeat split; auto. intro; contradiction.
Qed.

Lemma Re_mid s s' m :
  class_of (pc s) <> CEnd -> class_of (pc s') <> CBefore -> pc s' <> AtEv PTEd -> ending s' = ending s -> slam s' = slam s ->
  Re s m -> Re s' m.
Proof.
  intros Hc Hb Hp He Hs [H|(A & B & C & D)]; [contradiction|]. right. rewrite He, Hs.
  repeat split; auto; intro; contradiction.
Qed.

Lemma loop_head_e c s m :
  (ending s = false -> eg m = false /\ esl m = slam s) ->
  match elast m with
  | None => True
  | Some pb => ending s = true \/ (esl m || lastturn c pb (np (if (cur s =? 0)%nat then rotate s else s))) = false
  end ->
  (ending s = true -> match elast m with None => eg m = true | Some pb => eg m || (esl m || lastturn c pb (np s)) = true end) ->
  exists m', mrun (estep c) m (snd (loop_head s)) = Some m' /\ Re (fst (loop_head s)) m'.
Proof.
  intros AB H1 H2. unfold loop_head. destruct (ending s) eqn:En.
  - cbn [goto fst snd mrun]. unfold ev_of. cbn [estep is_game_kind]. specialize (H2 eq_refl).
    destruct (elast m) as [pb|]; rewrite H2; (eexists; split; [reflexivity | left; reflexivity]).
  - destruct (AB eq_refl) as [A B].
    cbn [goto fst snd mrun]. unfold ev_of. cbn [estep is_game_kind]. rewrite A.
    destruct (elast m) as [pb|].
    + destruct H1 as [H1|H1]; [discriminate|]. rewrite H1.
      eexists; split; [reflexivity|]. right. cbn. destruct (cur s =? 0)%nat; cbn; repeat split; auto; try discriminate; try congruence.
    + eexists; split; [reflexivity|]. right. cbn. destruct (cur s =? 0)%nat; cbn; repeat split; auto; try discriminate; try congruence.
Qed.

Lemma Re_adv c s m : Re s m -> Inv s -> enabled fixed s ->
  exists m', mrun (estep c) m (snd (advance fixed c s)) = Some m' /\ Re (fst (advance fixed c s)) m'.
Proof.
  intros H HI En. unfold advance.
  destruct (pc s) as [[]| | | |] eqn:Epc.
  - (* GWS *) apply goto_e; try discriminate. eapply Re_same; [| | | |exact H]; cbn; rewrite ?Epc; auto; discriminate.
  - (* GSg *)
    assert (A : forall x, ending x = ending s -> slam x = slam s ->
             exists m', mrun (estep c) m (snd (if fix_wait fixed && ending x || pev x then goto GSd x else (set_pc WaitPlayer x, []))) = Some m' /\
                        Re (fst (if fix_wait fixed && ending x || pev x then goto GSd x else (set_pc WaitPlayer x, []))) m').
    { intros x Ex Sx. destruct (fix_wait fixed && ending x || pev x).
      - apply goto_e; try discriminate. eapply (Re_same s); [| | | |exact H]; cbn; rewrite ?Epc; auto; discriminate.
      - exists m. split; [reflexivity|]. eapply (Re_same s); [| | | |exact H]; cbn; rewrite ?Epc; auto; discriminate. }
    destruct (0 <? np s)%nat.
    + apply goto_e; try discriminate. eapply (Re_same s); [| | | |exact H]; cbn; rewrite ?Epc; auto; discriminate.
    + destruct (gate fixed c (set_pev false s) && own_ok c).
      * apply A; unfold add_first_player; destruct (hold_adds c); reflexivity.
      * apply A; reflexivity.
  - (* GSd *)
    destruct H as [H|(A & B & C & D)]; [rewrite Epc in H; discriminate|].
    rewrite Epc in C. specialize (C eq_refl).
    apply loop_head_e; [intro En0; rewrite A; auto | rewrite C; exact I | rewrite C; intro En0; rewrite A; exact En0].
  - (* GWE *) apply goto_e; try discriminate. left. reflexivity.
  - (* GEg *) apply goto_e; try discriminate. left. reflexivity.
  - (* GEd *) exists m. split; [reflexivity|]. left. reflexivity.
  - (* PTWS *) apply goto_e; try discriminate. eapply (Re_same s); [| | | |exact H]; cbn; rewrite ?Epc; auto; discriminate.
  - (* PTSg *) apply goto_e; try discriminate.
    eapply (Re_mid s); [| | | | |exact H]; cbn; rewrite ?Epc; try discriminate;
      unfold upd_cur; destruct (cur s); reflexivity.
  - (* PTSd *) unfold run_ball. apply goto_e; try discriminate.
    eapply (Re_mid s); [| | | | |exact H]; cbn; rewrite ?Epc; try discriminate; reflexivity.
  - (* PTWE *) apply goto_e; try discriminate. eapply (Re_mid s); [| | | | |exact H]; cbn; rewrite ?Epc; try discriminate; reflexivity.
  - (* PTEg: player_turn_ended is posted *)
    destruct H as [H|(A & B & C & D)]; [rewrite Epc in H; discriminate|].
    cbn [goto fst snd mrun]. unfold ev_of. cbn [estep is_game_kind].
    eexists. split; [reflexivity|]. right. cbn. repeat split; auto. discriminate.
  - (* PTEd: the decision *)
    destruct H as [H|(A & B & C & D)]; [rewrite Epc in H; discriminate|].
    specialize (D Epc). unfold after_turn. set (s1 := set_tactive false s).
    change (slam s1) with (slam s). change (pball s1) with (pball s). change (cur s1) with (cur s). change (np s1) with (np s).
    destruct (slam s || (bpg c <=? pball s)%nat && (cur s =? np s)%nat) eqn:Cond.
    + apply loop_head_e; cbn [ending set_ending slam set_tactive].
      * intro Q; discriminate Q.
      * rewrite D. left. reflexivity.
      * intros _. rewrite D. unfold lastturn. cbn [fst snd]. change (np (set_ending true s1)) with (np s).
        rewrite B, Cond. apply orb_true_r.
    + destruct HI as (I1 & I2 & _). rewrite Epc in I2. specialize (I2 eq_refl).
      assert (NP : (1 <= np s)%nat) by lia.
      destruct (rotate_facts s1 NP) as ([R1 R2] & R3 & R4 & R5 & R6).
      assert (C0 : (cur (rotate s1) =? 0)%nat = false) by (apply Nat.eqb_neq; lia).
      apply loop_head_e.
      * rewrite R6. change (ending s1) with (ending s). intro En0. rewrite A. auto.
      * rewrite D, C0. right. unfold lastturn. cbn [fst snd]. rewrite R3. change (np s1) with (np s). rewrite B. exact Cond.
      * rewrite R6. change (ending s1) with (ending s). intro En0. rewrite D. rewrite A, En0. reflexivity.
  - (* BWS *) destruct (0 <? pf s).
    + exists m. split; [reflexivity|]. eapply (Re_mid s); [| | | | |exact H]; cbn; rewrite ?Epc; try discriminate; reflexivity.
    + apply goto_e; try discriminate. eapply (Re_mid s); [| | | | |exact H]; cbn; rewrite ?Epc; try discriminate; reflexivity.
  - (* BSg *) destruct (set_bip_form c 1 (set_drainh true s)) as [b [e ->]].
    apply goto_e; try discriminate. eapply (Re_mid s); [| | | | |exact H]; cbn; rewrite ?Epc; try discriminate; reflexivity.
  - (* BSd *) unfold await_end. change (endev (set_pf ?a ?x)) with (endev x). destruct (endev s).
    + unfold end_ball. apply goto_e; try discriminate.
      eapply (Re_mid s); [| | | | |exact H]; cbn; rewrite ?Epc; try discriminate; reflexivity.
    + exists m. split; [reflexivity|]. eapply (Re_mid s); [| | | | |exact H]; cbn; rewrite ?Epc; try discriminate; reflexivity.
  - (* BWE *) apply goto_e; try discriminate. eapply (Re_mid s); [| | | | |exact H]; cbn; rewrite ?Epc; try discriminate; reflexivity.
  - (* BEg *) apply goto_e; try discriminate. eapply (Re_mid s); [| | | | |exact H]; cbn; rewrite ?Epc; try discriminate; reflexivity.
  - (* BEd *) destruct ((0 <? pextra s)%nat && negb (slam s)).
    + unfold run_ball. apply goto_e; try discriminate.
      eapply (Re_mid s); [| | | | |exact H]; cbn; rewrite ?Epc; try discriminate; unfold upd_cur; destruct (cur s); reflexivity.
    + apply goto_e; try discriminate. eapply (Re_mid s); [| | | | |exact H]; cbn; rewrite ?Epc; try discriminate; reflexivity.
  - (* WaitBall *) unfold await_end, enabled in *. rewrite Epc in En. rewrite En. unfold end_ball. apply goto_e; try discriminate.
    eapply (Re_mid s); [| | | | |exact H]; cbn; rewrite ?Epc; try discriminate; reflexivity.
  - (* WaitPlayer *) apply goto_e; try discriminate. eapply (Re_same s); [| | | |exact H]; cbn; rewrite ?Epc; auto; discriminate.
  - (* WaitEmpty *) apply goto_e; try discriminate. eapply (Re_mid s); [| | | | |exact H]; cbn; rewrite ?Epc; try discriminate; reflexivity.
  - (* Done *) exists m. split; [reflexivity|]. exact H.
Qed.

Lemma game_end_iff_l : forall c ins, game_end_ok c (trace c ins).
Proof.
  intros c ins.
  assert (HS : exists m', mrun (estep c) em0 (snd (steps c init ins)) = Some m' /\
                          (Re (fst (steps c init ins)) m' /\ Inv (fst (steps c init ins)))).
  { unfold steps. apply (mon_steps (estep c) fixed c (fun s m => Re s m /\ Inv s) (fun s m => Re s m /\ Inv s)).
    - auto.
    - intros s m o [H HI]. destruct (Re_op c s m o H) as [m' [E R]]. exists m'. split; [exact E|]. split; [exact R|].
      eapply Inv_Keep; [apply Keep_apply_op | apply pev_apply_op | exact HI].
    - intros s m [H HI]. split; [apply Re_flush; assumption|].
      apply (Rg_flush c s (g_of s)). split; [reflexivity | exact HI].
    - intros s m [H HI] En. destruct (Re_adv c s m H HI En) as [m' [E R]].
      exists m'. split; [exact E|]. split; [exact R|].
      destruct (Rg_adv c s (g_of s) (conj eq_refl HI) En) as [g' [_ [_ HI']]]. exact HI'.
    - intros s m H _. exists m. split; [reflexivity | exact H].
    - split; [|apply Rg_init]. right. cbn. repeat split; auto; discriminate. }
  destruct HS as [m' [E _]]. exists m'. unfold trace, out0. rewrite mrun_app. cbn. exact E.
Qed.

(* ------------------------------------------------------------------------------------------- *)
(* 3. extra balls played = extra balls awarded *)
Record xm := mkxm { xsl : bool; xbal : nat -> nat }.     (* xbal p: extra balls awarded to player p and not yet played *)
Definition xm0 : xm := mkxm false (fun _ => 0%nat).
Definition xupd (f : nat -> nat) (p : nat) (g : nat -> nat) : nat -> nat :=
  fun q => if (q =? p)%nat then g (f q) else f q.

Definition xstep (m : xm) (o : out) : option xm :=
  match o with
  | Award p => match p with O => Some m | _ => Some (mkxm (xsl m) (xupd (xbal m) p S)) end
  | OpObs code _ => Some (mkxm (xsl m || ((code =? 3) || (code =? 4))) (xbal m))
  | Ev k p _ x _ _ =>
      match k with
      | BWS => if x then (if (0 <? xbal m p)%nat then Some (mkxm (xsl m) (xupd (xbal m) p pred)) else None)
               else Some m
      | PTWE => if xsl m || (xbal m p =? 0)%nat then Some m else None
      | _ => Some m
      end
  | _ => Some m
  end.

Definition extra_balls_ok (tr : list out) : Prop := exists m, mrun xstep xm0 tr = Some m.

Definition extra_i (s : st) (i : nat) : nat := snd (nth i (players s) (0, 0)%nat).
Definition Rx (s : st) (m : xm) : Prop := xsl m = slam s /\ forall i, xbal m (S i) = extra_i s i.

Lemma extra_i_upd_fst (f : nat * nat -> nat * nat) (Hf : forall be, snd (f be) = snd be) s j i :
  snd (nth i (upd j f (players s)) (0, 0)%nat) = extra_i s i.
Proof.
  unfold extra_i. destruct (Nat.eq_dec j i) as [->|Ne].
  - destruct (Nat.lt_ge_cases i (length (players s))) as [L|L].
    + rewrite nth_upd_same by exact L. apply Hf.
    + rewrite !nth_overflow; [reflexivity | exact L | rewrite upd_length; exact L].
  - rewrite nth_upd_other by exact Ne. reflexivity.
Qed.

Lemma extra_i_upd_snd (g : nat -> nat) s j i : (j < length (players s))%nat ->
  snd (nth i (upd j (fun be => (fst be, g (snd be))) (players s)) (0, 0)%nat) =
  if (S i =? S j)%nat then g (extra_i s i) else extra_i s i.
Proof.
  intro L. unfold extra_i. cbn [Nat.eqb]. destruct (i =? j)%nat eqn:E.
  - apply Nat.eqb_eq in E. subst i. rewrite nth_upd_same by exact L. reflexivity.
  - apply Nat.eqb_neq in E. rewrite nth_upd_other by congruence. reflexivity.
Qed.

Lemma slam_Keepish v c s o : slam (op_st v c s o) = slam s || ((opcode s o =? 3) || (opcode s o =? 4)).
Proof. apply ending_slam_op_st. Qed.

Lemma Rx_op c s m o : Rx s m -> Inv s ->
  exists m', mrun xstep m (snd (apply_op fixed c s o)) = Some m' /\ Rx (fst (apply_op fixed c s o)) m'.
Proof.
  intros [A B] (I1 & _). rewrite apply_op_out. cbn [apply_op fst].
  pose proof (slam_Keepish fixed c s o) as Sl.
  destruct o; cbn [app mrun xstep];
    try (eexists; split; [reflexivity|]; split; [cbn [xsl]; rewrite Sl, A; reflexivity|]; cbn [xbal op_st]; intro i; rewrite B).
  - unfold extra_i. change (players (set_pf ?a ?x)) with (players x).
    destruct (drainh s && negb (n =? 0)); [destruct (set_bip_form c (bip s - n) s) as [b [e ->]]|]; reflexivity.
  - reflexivity.
  - unfold extra_i. destruct (set_bip_form c (bip s + d) s) as [b [e ->]]; reflexivity.
  - reflexivity.
  - reflexivity.
  - unfold extra_i. destruct (ending s); reflexivity.
  - unfold extra_i. destruct (gate fixed c s && allowed); reflexivity.
  - unfold extra_i. destruct (if newest then rev (heldq s) else heldq s); reflexivity.
  - (* AwardExtra *)
    cbn [op_st opcode] in *. unfold upd_cur, np in *. destruct (cur s) as [|j] eqn:Ec.
    + eexists. split; [reflexivity|]. split; [cbn [xsl]; rewrite Sl, A; reflexivity|]. intro i. cbn [xbal]. apply B.
    + eexists. split; [reflexivity|]. split; [cbn [xsl]; rewrite Sl, A; reflexivity|]. intro i. cbn [xbal].
      unfold extra_i at 1. cbn [players set_players]. rewrite (extra_i_upd_snd S s j i) by lia.
      unfold xupd. rewrite B. reflexivity.
  - reflexivity.
Qed.

Lemma Rx_flush c s m : Rx s m -> Rx (flush fixed c s) m.
Proof.
  intros [A B]. destruct (flush_keeps fixed c s) as (_ & _ & F3 & _). split; [rewrite F3; exact A|].
  intro i. rewrite B. unfold extra_i. rewrite players_flush, nth_app_repeat. reflexivity.
Qed.

Lemma goto_x k s m : k <> BWS -> k <> PTWE -> Rx s m ->
  exists m', mrun xstep m (snd (goto k s)) = Some m' /\ Rx (fst (goto k s)) m'.
Proof.
  intros H1 H2 R. exists m. cbn [goto fst snd mrun]. unfold ev_of.
  destruct k; try congruence; (split; [reflexivity | exact R]).
Qed.

Lemma loop_head_x s m : Rx s m ->
  exists m', mrun xstep m (snd (loop_head s)) = Some m' /\ Rx (fst (loop_head s)) m'.
Proof.
  intro R. unfold loop_head. destruct (ending s); apply goto_x; try discriminate; [exact R|].
  destruct (cur s =? 0)%nat; exact R.
Qed.

Lemma pextra_extra_i s : (1 <= cur s)%nat -> pextra s = extra_i s (cur s - 1).
Proof. intro H. unfold pextra, pl, extra_i. destruct (cur s); [lia | reflexivity]. Qed.

Lemma Rx_adv c s m : Rx s m -> Inv s -> enabled fixed s ->
  exists m', mrun xstep m (snd (advance fixed c s)) = Some m' /\ Rx (fst (advance fixed c s)) m'.
Proof.
  intros R (I1 & I2 & _) En. pose proof R as [A B]. unfold advance.
  destruct (pc s) as [[]| | | |] eqn:Epc; cbn [in_turn] in I2;
    try (apply goto_x; [discriminate | discriminate | exact R]).
  - (* GSg *)
    destruct (0 <? np s)%nat eqn:N0; [apply goto_x; try discriminate; exact R|].
    apply Nat.ltb_ge in N0. assert (Pl : players s = []) by (unfold np in N0; destruct (players s); [reflexivity | cbn in N0; lia]).
    assert (Q : forall x, slam x = slam s -> (players x = players s \/ players x = [(0, 0)%nat]) ->
             exists m', mrun xstep m (snd (if fix_wait fixed && ending x || pev x then goto GSd x else (set_pc WaitPlayer x, []))) = Some m' /\
                        Rx (fst (if fix_wait fixed && ending x || pev x then goto GSd x else (set_pc WaitPlayer x, []))) m').
    { intros x Sx Px.
      assert (Rxx : Rx x m).
      { split; [rewrite Sx; exact A|]. intro i. rewrite B. unfold extra_i. rewrite Pl.
        destruct Px as [-> | ->]; [rewrite Pl; reflexivity|]. destruct i as [|[|i]]; reflexivity. }
      destruct (fix_wait fixed && ending x || pev x); [apply goto_x; try discriminate; exact Rxx|].
      exists m. split; [reflexivity | exact Rxx]. }
    destruct (gate fixed c (set_pev false s) && own_ok c).
    + apply Q; unfold add_first_player; destruct (hold_adds c); cbn; auto.
    + apply Q; cbn; auto.
  - (* GSd *) apply loop_head_x; exact R.
  - (* GEd *) exists m. split; [reflexivity | exact R].
  - (* PTSg *) apply goto_x; try discriminate.
    split; [rewrite A; unfold upd_cur; destruct (cur s); reflexivity|]. intro i. rewrite B.
    unfold extra_i at 1. cbn [players set_tactive]. unfold upd_cur. destruct (cur s) as [|j]; [reflexivity|].
    cbn [players set_players]. symmetry. apply (extra_i_upd_fst (fun be => (S (fst be), snd be))). reflexivity.
  - (* PTSd *) unfold run_ball. cbn [goto fst snd mrun]. unfold ev_of. cbn. exists m. split; [reflexivity | exact R].
  - (* PTEd *) unfold after_turn. destruct (slam (set_tactive false s) || _); apply loop_head_x; exact R.
  - (* BWS *) destruct (0 <? pf s); [exists m; split; [reflexivity | exact R] | apply goto_x; try discriminate; exact R].
  - (* BSg *) destruct (set_bip_form c 1 (set_drainh true s)) as [b [e ->]]. apply goto_x; try discriminate. exact R.
  - (* BSd *) unfold await_end. change (endev (set_pf ?a ?x)) with (endev x). destruct (endev s).
    + unfold end_ball. apply goto_x; try discriminate. exact R.
    + exists m. split; [reflexivity | exact R].
  - (* BEd: an extra ball is played, or the turn ends *)
    specialize (I2 eq_refl). pose proof (pextra_extra_i s I2) as Pe.
    assert (Bc : xbal m (cur s) = pextra s).
    { rewrite Pe. destruct (cur s) as [|j] eqn:Ec; [lia|]. cbn. rewrite Nat.sub_0_r. apply B. }
    destruct ((0 <? pextra s)%nat && negb (slam s)) eqn:Cond.
    + apply andb_true_iff in Cond as [C1 C2].
      unfold run_ball. cbn [goto fst snd mrun]. unfold ev_of. cbn [xstep is_ball_start is_game_kind andb].
      change (cur (set_xb true (set_endev false ?x))) with (cur x). change (xb (set_xb true ?x)) with true.
      assert (Cc : cur (upd_cur (fun be => (fst be, pred (snd be))) s) = cur s) by (unfold upd_cur; destruct (cur s) eqn:E0; cbn; congruence).
      rewrite Cc, Bc, C1. eexists. split; [reflexivity|].
      split; [cbn [xsl]; rewrite A; unfold upd_cur; destruct (cur s); reflexivity|].
      intro i. cbn [xbal]. unfold extra_i. cbn [players set_pc set_xb set_endev].
      unfold upd_cur, np in *. destruct (cur s) as [|j] eqn:Ec; [lia|].
      cbn [players set_players]. rewrite (extra_i_upd_snd pred s j i) by lia. unfold xupd. rewrite B. reflexivity.
    + cbn [goto fst snd mrun]. unfold ev_of. cbn [xstep is_ball_start is_game_kind andb]. rewrite Bc, A.
      assert (Q : slam s || (pextra s =? 0)%nat = true).
      { apply andb_false_iff in Cond as [C|C].
        - apply Nat.ltb_ge in C. assert (Z : pextra s = 0%nat) by lia. rewrite Z. apply orb_true_r.
        - apply negb_false_iff in C. rewrite C. reflexivity. }
      rewrite Q. exists m. split; [reflexivity | exact R].
  - (* WaitBall *) unfold await_end, enabled in *. rewrite Epc in En. rewrite En. unfold end_ball. apply goto_x; try discriminate. exact R.
  - (* Done *) exists m. split; [reflexivity | exact R].
Qed.

Lemma extra_balls_l : forall c ins, extra_balls_ok (trace c ins).
Proof.
  intros c ins.
  assert (HS : exists m', mrun xstep xm0 (snd (steps c init ins)) = Some m' /\
                          (Rx (fst (steps c init ins)) m' /\ Inv (fst (steps c init ins)))).
  { unfold steps. apply (mon_steps xstep fixed c (fun s m => Rx s m /\ Inv s) (fun s m => Rx s m /\ Inv s)).
    - auto.
    - intros s m o [H HI]. destruct (Rx_op c s m o H HI) as [m' [E R]]. exists m'. split; [exact E|]. split; [exact R|].
      eapply Inv_Keep; [apply Keep_apply_op | apply pev_apply_op | exact HI].
    - intros s m [H HI]. split; [apply Rx_flush; assumption|].
      apply (Rg_flush c s (g_of s)). split; [reflexivity | exact HI].
    - intros s m [H HI] En. destruct (Rx_adv c s m H HI En) as [m' [E R]].
      exists m'. split; [exact E|]. split; [exact R|].
      destruct (Rg_adv c s (g_of s) (conj eq_refl HI) En) as [g' [_ [_ HI']]]. exact HI'.
    - intros s m H _. exists m. split; [reflexivity | exact H].
    - split; [|apply Rg_init]. split; [reflexivity|]. intro i. unfold extra_i. cbn. destruct i; reflexivity. }
  destruct HS as [m' [E _]]. exists m'. unfold trace, out0. rewrite mrun_app. cbn. exact E.
Qed.
