(* C06/Tilt.v — the requests of the tilt mode (mpf/modes/tilt/code/tilt.py: tilt, slam_tilt, tilt_warning and its switch
   handler) as functions on the part of the game object they read and write.  The tilt mode is the source of the tilt and
   slam-tilt requests of the property; Model.v's operation [SlamTilt] is [slam_req] on a game that is not tilted
   ([slam_req_is_core_op]).  The hold of ball_ending by the tilt mode (balls to collect, settle time) is a handler delay on a
   lifecycle queue event and is not modelled here. *)
From Common Require Import Prelude.
From C06 Require Import Model.
Open Scope Z_scope.

Record tg := mktg {
  t_active : bool;      (* machine.game is not None *)
  t_player : bool;      (* game.player is not None *)
  t_tilted : bool;      (* game.tilted *)
  t_ending : bool;      (* game.ending *)
  t_slam : bool;        (* game.slam_tilted *)
  t_endev : bool;       (* game._end_ball_event.is_set() *)
  t_warn : Z            (* player.tilt_warnings *)
}.

(* Tilt.tilt(): nothing without a game, while tilted, while the game is ending; else tilted = True and game.end_ball() *)
Definition tilt_req (t : tg) : tg :=
  if negb (t_active t) || t_tilted t || t_ending t then t
  else mktg true (t_player t) true (t_ending t) (t_slam t) true (t_warn t).

(* Tilt.slam_tilt(): with a game, slam_tilted = True, then tilt() *)
Definition slam_req (t : tg) : tg :=
  if negb (t_active t) then t
  else tilt_req (mktg true (t_player t) (t_tilted t) (t_ending t) true (t_endev t) (t_warn t)).

(* Tilt._tilt_warning_switch_handler / tilt_warning(): ignored inside the multiple-hit window ([win_ok] = the last warning is
   older than the window); nothing without a game / a player, while ending or tilted; else one more warning, and tilt() when
   the number of warnings reaches warnings_to_tilt *)
Definition warn_req (w2t : Z) (win_ok : bool) (t : tg) : tg :=
  if negb win_ok || negb (t_active t) || negb (t_player t) || t_ending t || t_tilted t then t
  else
    let t1 := mktg true true (t_tilted t) (t_ending t) (t_slam t) (t_endev t) (t_warn t + 1) in
    if w2t <=? t_warn t1 then tilt_req t1 else t1.

(* correspondence: kind 0 = tilt switch, 1 = slam tilt switch, 2 = tilt warning switch;
   pre = [active; player; tilted; ending; slam_tilted; end_ball_event set; warnings; warnings_to_tilt; win_ok] *)
Definition z2b (z : Z) : bool := negb (z =? 0).
Definition tg_of (l : list Z) : tg :=
  mktg (z2b (nth 0 l 0)) (z2b (nth 1 l 0)) (z2b (nth 2 l 0)) (z2b (nth 3 l 0)) (z2b (nth 4 l 0)) (z2b (nth 5 l 0)) (nth 6 l 0).
Definition tg_enc (t : tg) : list Z :=
  [b2z (t_active t); b2z (t_player t); b2z (t_tilted t); b2z (t_ending t); b2z (t_slam t); b2z (t_endev t); t_warn t].
Definition req (kl : Z * list Z) : list Z :=
  let (k, l) := kl in
  let t := tg_of l in
  tg_enc (if k =? 0 then tilt_req t else if k =? 1 then slam_req t else warn_req (nth 7 l 0) (z2b (nth 8 l 0)) t).
Definition tilt_run (rs : list (Z * list Z)) : list (list Z) := map req rs.

(* ------------------------------------------------------------------------------------------- *)
(* a slam-tilt request that reaches a game is never dropped: slam_tilted is set whatever the state of the game
   (tilted, ending, between balls) *)
Lemma slam_req_registers_l : forall t, t_active t = true -> t_slam (slam_req t) = true.
Proof.
  intros t H. unfold slam_req, tilt_req. rewrite H. cbn [negb t_active t_tilted t_ending orb].
  destruct (t_tilted t || t_ending t); reflexivity.
Qed.

(* and it requests the end of the ball unless the ball is already tilted or the game is ending *)
Lemma slam_req_ends_ball_l : forall t, t_active t = true -> t_tilted t = false -> t_ending t = false ->
  t_endev (slam_req t) = true /\ t_tilted (slam_req t) = true.
Proof.
  intros t H1 H2 H3. unfold slam_req, tilt_req. rewrite H1. cbn [negb t_active t_tilted t_ending orb]. rewrite H2, H3.
  split; reflexivity.
Qed.

(* requests never clear slam_tilted, tilted (they only set flags) and never touch ending *)
Lemma reqs_monotone_l : forall t w ok,
  let P := fun t' : tg => (t_slam t = true -> t_slam t' = true) /\ (t_tilted t = true -> t_tilted t' = true) /\
                          (t_endev t = true -> t_endev t' = true) /\ t_ending t' = t_ending t in
  P (tilt_req t) /\ P (slam_req t) /\ P (warn_req w ok t).
Proof.
  intros t w ok P. unfold P, slam_req, warn_req, tilt_req.
  destruct t as [a p ti e sl ev wn]. cbn.
  destruct a, p, ti, e, ok; cbn; try destruct (w <=? wn + 1); cbn; repeat split; auto.
Qed.

(* the abstraction of a state of the coroutine model (a game object that is not tilted) *)
Definition tg_of_st (s : st) : tg := mktg true (negb (cur s =? 0)%nat) false (ending s) (slam s) (endev s) 0.

(* Model.v's SlamTilt operation is the slam-tilt request of the tilt mode on a game that is not tilted *)
Lemma slam_req_is_core_op_l : forall v c s,
  let s' := op_st v c s SlamTilt in
  t_slam (slam_req (tg_of_st s)) = slam s' /\ t_endev (slam_req (tg_of_st s)) = endev s' /\
  t_ending (slam_req (tg_of_st s)) = ending s'.
Proof.
  intros v c s. cbn [op_st]. unfold slam_req, tilt_req, tg_of_st. cbn [negb t_active t_tilted t_ending orb].
  destruct (ending s) eqn:E; cbn; rewrite ?E; repeat split; reflexivity.
Qed.
