(* C06/Slam.v — a slam tilt ends the game: monitor over the trace of the coroutine model.
   After an observation of a slam-tilt request (operation code 3 or 4) no extra ball is started, and once the current turn
   has ended (player_turn_ended seen after the request, or the request arrived in a handler of player_turn_ended) no further
   turn starts.  (A request before the first turn does not prevent that turn: _run enters the loop when [ending] is false.) *)
From Common Require Import Prelude.
From C06 Require Import Model Lemmas Ends.
Open Scope Z_scope.

Record sm := mksm { ssl : bool; sfin : bool; slp : bool }.
(* ssl: a slam tilt was requested; sfin: ... and the turn it fell into has ended; slp: the last lifecycle event is player_turn_ended *)
Definition sm0 : sm := mksm false false false.
Definition is_slam_code (z : Z) : bool := (z =? 3) || (z =? 4).

Definition sstep (m : sm) (o : out) : option sm :=
  match o with
  | OpObs code _ => if is_slam_code code then Some (mksm true (sfin m || slp m) (slp m)) else Some m
  | Ev k _ _ x _ _ =>
      match k with
      | PTWS => if sfin m then None else Some (mksm (ssl m) (sfin m) false)
      | BWS => if x && ssl m then None else Some (mksm (ssl m) (sfin m) false)
      | PTEd => Some (mksm (ssl m) (sfin m || ssl m) true)
      | _ => Some (mksm (ssl m) (sfin m) false)
      end
  | _ => Some m
  end.

Definition slam_ends_game_ok (tr : list out) : Prop := exists m, mrun sstep sm0 tr = Some m.

Definition endzone (p : pc_t) : bool :=
  match p with AtEv PTEd | AtEv GWE | AtEv GEg | AtEv GEd | Done => true | _ => false end.

Definition Rs (s : st) (m : sm) : Prop :=
  (ssl m = true -> slam s = true) /\
  (sfin m = true -> slam s = true /\ endzone (pc s) = true) /\
  (slp m = true -> pc s = AtEv PTEd).

Lemma Rs_op c s m o : Rs s m ->
  exists m', mrun sstep m (snd (apply_op fixed c s o)) = Some m' /\ Rs (fst (apply_op fixed c s o)) m'.
Proof.
  intros (R1 & R2 & R3). rewrite apply_op_out. cbn [apply_op fst].
  pose proof (slam_Keepish fixed c s o) as Sl. pose proof (pc_apply_op fixed c s o) as Pc. cbn [apply_op fst] in Pc.
  assert (A : forall l, mrun sstep m (match o with AwardExtra => [Award (cur s)] | _ => [] end ++ l) = mrun sstep m l)
    by (intro l; destruct o; reflexivity).
  rewrite A. cbn [mrun sstep]. fold (is_slam_code (opcode s o)) in Sl.
  destruct (is_slam_code (opcode s o)) eqn:C.
  - eexists. split; [reflexivity|]. unfold Rs. cbn [ssl sfin slp]. rewrite Sl, Pc, orb_true_r. repeat split; auto.
    apply orb_true_iff in H as [H|H]; [apply R2; exact H | rewrite (R3 H); reflexivity].
  - exists m. split; [reflexivity|]. unfold Rs. rewrite Sl, Pc, orb_false_r. repeat split; auto; apply R2; assumption.
Qed.

Lemma Rs_flush c s m : Rs s m -> Rs (flush fixed c s) m.
Proof.
  intros (R1 & R2 & R3). destruct (flush_keeps fixed c s) as (_ & _ & F3 & _). unfold Rs. rewrite F3, pc_flush. auto.
Qed.

(* an event other than player_turn_will_start / ball_will_start / player_turn_ended *)
Lemma goto_s k s s' m : k <> PTWS -> k <> BWS -> k <> PTEd -> Rs s m -> slam s' = slam s ->
  (sfin m = true -> endzone (AtEv k) = true) ->
  exists m', mrun sstep m (snd (goto k s')) = Some m' /\ Rs (fst (goto k s')) m'.
Proof.
  intros K1 K2 K3 (R1 & R2 & R3) Sl Ez. cbn [goto fst snd mrun]. unfold ev_of.
  exists (mksm (ssl m) (sfin m) false). split.
  - destruct k; try congruence; reflexivity.
  - unfold Rs. cbn [ssl sfin slp pc set_pc]. change (slam (set_pc (AtEv k) s')) with (slam s'). rewrite Sl.
    repeat split; auto; try discriminate. apply R2; assumption.
Qed.

Lemma Rs_stay s s' m : Rs s m -> slam s' = slam s -> pc s <> AtEv PTEd -> pc s' <> AtEv PTEd ->
  endzone (pc s) = false -> Rs s' m.
Proof.
  intros (R1 & R2 & R3) Sl P1 P2 Ez. unfold Rs. rewrite Sl. repeat split; auto.
  - apply R2; assumption.
  - destruct (R2 H) as [_ Z]. congruence.
  - intro H. elim P1. apply R3. exact H.
Qed.

Lemma loop_head_s s s' m : Rs s m -> slam s' = slam s -> (sfin m = true -> ending s' = true) ->
  exists m', mrun sstep m (snd (loop_head s')) = Some m' /\ Rs (fst (loop_head s')) m'.
Proof.
  intros R Sl Hf. unfold loop_head. destruct (ending s') eqn:E.
  - apply (goto_s GWE s s' m); try discriminate; auto.
  - assert (F : sfin m = false) by (destruct (sfin m); [specialize (Hf eq_refl); discriminate | reflexivity]).
    destruct R as (R1 & R2 & R3). destruct m as [a b d]. cbn [ssl sfin slp] in *. subst b.
    cbn [goto fst snd mrun]. unfold ev_of. cbn [sstep ssl sfin slp].
    eexists. split; [reflexivity|]. unfold Rs. cbn [ssl sfin slp].
    match goal with |- context [set_pc (AtEv PTWS) ?y] => change (slam (set_pc (AtEv PTWS) y)) with (slam y) end.
    assert (Sl2 : slam (if (cur s' =? 0)%nat then rotate s' else s') = slam s) by (destruct (cur s' =? 0)%nat; exact Sl).
    rewrite Sl2. repeat split; auto; discriminate.
Qed.

Lemma Rs_adv c s m : Rs s m -> enabled fixed s ->
  exists m', mrun sstep m (snd (advance fixed c s)) = Some m' /\ Rs (fst (advance fixed c s)) m'.
Proof.
  intros R En. pose proof R as (R1 & R2 & R3). unfold advance.
  destruct (pc s) as [[]| | | |] eqn:Epc;
    try (assert (F : sfin m = false)
           by (destruct (sfin m) eqn:F0; [destruct (R2 eq_refl) as [_ Z]; cbn in Z; discriminate | reflexivity]));
    try (apply (goto_s _ s s m); try discriminate; auto; intro H; try congruence; reflexivity).
  - (* GSg *)
    assert (Q : forall x, slam x = slam s ->
      exists m', mrun sstep m (snd (if fix_wait fixed && ending x || pev x then goto GSd x else (set_pc WaitPlayer x, []))) = Some m' /\
                 Rs (fst (if fix_wait fixed && ending x || pev x then goto GSd x else (set_pc WaitPlayer x, []))) m').
    { intros x Sx. destruct (fix_wait fixed && ending x || pev x).
      - apply (goto_s GSd s x m); try discriminate; auto. intro H; congruence.
      - exists m. split; [reflexivity|]. apply (Rs_stay s); auto; try (rewrite Epc; discriminate); try (cbn; discriminate).
        rewrite Epc. reflexivity. }
    destruct (0 <? np s)%nat; [apply (goto_s GSd s _ m); try discriminate; auto; intro H; congruence|].
    destruct (gate fixed c (set_pev false s) && own_ok c).
    + apply Q. unfold add_first_player. destruct (hold_adds c); reflexivity.
    + apply Q. reflexivity.
  - (* GSd *) apply (loop_head_s s s m); auto. intro H; congruence.
  - (* GEd *) cbn [fst snd mrun sstep]. exists m. split; [reflexivity|]. unfold Rs. cbn. repeat split; auto.
    + apply R2; assumption.
    + intro H. specialize (R3 H). congruence.
  - (* PTSg *) apply (goto_s PTSd s _ m); try discriminate; auto.
    + cbn. unfold upd_cur. destruct (cur s); reflexivity.
    + intro H; congruence.
  - (* PTSd *) destruct m as [a b d]. cbn [ssl sfin slp] in *. subst b.
    unfold run_ball. cbn [goto fst snd mrun]. unfold ev_of. cbn [sstep is_ball_start is_game_kind andb ssl sfin slp].
    change (xb (set_xb false ?y)) with false. cbn [andb].
    eexists. split; [reflexivity|]. unfold Rs. cbn. repeat split; auto; discriminate.
  - (* PTEg -> PTEd *) destruct m as [a b d]. cbn [ssl sfin slp] in *. subst b.
    cbn [goto fst snd mrun]. unfold ev_of. cbn [sstep ssl sfin slp]. eexists. split; [reflexivity|].
    unfold Rs. cbn [ssl sfin slp pc set_pc orb endzone]. change (slam (set_pc (AtEv PTEd) s)) with (slam s).
    repeat split; auto.
  - (* PTEd *) unfold after_turn. change (slam (set_tactive false s)) with (slam s).
    destruct (slam s || _) eqn:C.
    + apply (loop_head_s s _ m); auto.
    + apply orb_false_iff in C as [C _]. apply (loop_head_s s _ m); auto.
      intro H. destruct (R2 H) as [Z _]. congruence.
  - (* BWS *) destruct (0 <? pf s).
    + exists m. split; [reflexivity|]. apply (Rs_stay s); auto; try (rewrite Epc; discriminate); try (cbn; discriminate).
      rewrite Epc. reflexivity.
    + apply (goto_s BSg s s m); try discriminate; auto. intro H; congruence.
  - (* BSg *) apply (goto_s BSd s _ m); try discriminate; auto.
    + destruct (set_bip_form c 1 (set_drainh true s)) as [b [e ->]]. reflexivity.
    + intro H; congruence.
  - (* BSd *) unfold await_end. change (endev (set_pf ?a ?y)) with (endev y). destruct (endev s).
    + unfold end_ball. apply (goto_s BWE s _ m); try discriminate; auto. intro H; congruence.
    + exists m. split; [reflexivity|]. apply (Rs_stay s); auto; try (rewrite Epc; discriminate); try (cbn; discriminate).
      rewrite Epc. reflexivity.
  - (* BEd *) destruct ((0 <? pextra s)%nat && negb (slam s)) eqn:Cond.
    + apply andb_true_iff in Cond as [_ C2]. apply negb_true_iff in C2.
      assert (S0 : ssl m = false) by (destruct (ssl m); [rewrite (R1 eq_refl) in C2; discriminate | reflexivity]).
      destruct m as [a b d]. cbn [ssl sfin slp] in *. subst a b.
      unfold run_ball. cbn [goto fst snd mrun]. unfold ev_of. cbn [sstep is_ball_start is_game_kind andb ssl sfin slp].
      change (xb (set_xb true ?y)) with true. cbn [andb].
      eexists. split; [reflexivity|]. unfold Rs. cbn [ssl sfin slp]. repeat split; try discriminate; intro; discriminate.
    + apply (goto_s PTWE s s m); try discriminate; auto. intro H; congruence.
  - (* WaitBall *) unfold await_end, enabled in *. rewrite Epc in En. rewrite En. unfold end_ball.
    apply (goto_s BWE s _ m); try discriminate; auto. intro H; congruence.
  - (* Done *) exists m. split; [reflexivity | exact R].
Qed.

Lemma slam_ends_game_l : forall c ins, slam_ends_game_ok (trace c ins).
Proof.
  intros c ins.
  assert (HS : exists m', mrun sstep sm0 (snd (steps c init ins)) = Some m' /\ Rs (fst (steps c init ins)) m').
  { unfold steps. apply (mon_steps sstep fixed c Rs Rs).
    - auto.
    - intros s m o H. apply Rs_op; exact H.
    - intros s m H. apply Rs_flush; exact H.
    - intros s m H En. apply Rs_adv; assumption.
    - intros s m H _. exists m. split; [reflexivity | exact H].
    - unfold Rs, sm0, init. cbn. repeat split; try discriminate; intro; discriminate. }
  destruct HS as [m' [E _]]. exists m'. unfold trace, out0. cbn [app mrun sstep]. exact E.
Qed.
