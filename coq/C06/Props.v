(* C06/Props.v — property theorems only.  Each is closed by [exact] of a lemma from Lemmas.v and followed by
   Print Assumptions (parsed by the check: must be "Closed under the global context").

   Property C06 (game lifecycle).  The model (Model.v) is the game coroutine WITH fixes/C06-late-player-add.patch,
   fixes/C06-end-game-before-first-player.patch and fixes/C06-first-player-after-held-add.patch applied
   (fixes/C06-ball-start-before-player-added.patch repairs a crash in mode_controller, which the model does not contain); [trace c ins] is the chronological output of a game
   with configuration c under the environment inputs ins (one input per suspension of the coroutine: operations
   issued by handlers of the lifecycle event, batches arriving while a queue handler holds a wait, or the batch
   arriving while the game idles).  All theorems quantify over every configuration and every input list.
   The code before the fixes is refuted by [turn_structure_refuted_unfixed], [game_hangs_refuted_unfixed] and
   [first_player_refuted_unfixed]. *)
From Common Require Import Prelude.
From C06 Require Import Model Lemmas Turns.
Open Scope Z_scope.

(* every trace is accepted by the recogniser of prefixes of the lifecycle grammar (Lemmas.v, [gstep]):
   game_will_start game_starting game_started turn* game_will_end game_ending game_ended,
   turn = player_turn_will_start .. started, ball (extra ball)*, player_turn_will_end .. ended,
   ball = ball_will_start ball_starting ball_started ball_will_end ball_ending ball_ended,
   with the same player number in all events of a turn, the turn's ball number in all of them (one less before
   player_turn_started), is_extra_ball false on the first ball and true on the others *)
Theorem lifecycle_trace_in_grammar : forall c ins, in_grammar (trace c ins).
Proof. exact lifecycle_trace_in_grammar_l. Qed.
Print Assumptions lifecycle_trace_in_grammar.

Example lifecycle_example :
  (* a complete 2-player 1-ball game with an extra ball for player 1: 36 lifecycle events, one Award marker, ends with Fin *)
  let tr := trace (mkcfg 1 2 3 true false)
                  ([mkin [] [] []; mkin [] [] []; mkin [] [] []; mkin [AddPlayerReq true] [] []] ++
                   repeat (mkin [] [] [Drain 1]) 4 ++ [mkin [AwardExtra] [] [Drain 1]] ++
                   repeat (mkin [] [] [Drain 1]) 40) in
  length tr = 38%nat /\ last tr Fin = Fin /\ mrun gstep G0 tr = Some EF.
Proof. vm_compute. repeat split; reflexivity. Qed.
Print Assumptions lifecycle_example.

(* balls in play stays within [0, num_balls_known]: in the final state and in every observation of the trace *)
Theorem bip_bounds : forall c ins, 0 <= nbk c ->
  Forall (bp_ok c) (trace c ins) /\ 0 <= bip (final c ins) <= nbk c.
Proof. exact bip_bounds_l. Qed.
Print Assumptions bip_bounds.

Example bip_bounds_example :
  (* 2 balls known; a multiball adds 5, the setter caps at 2; three drains floor at 0 and end the ball *)
  let c := mkcfg 1 1 2 true false in
  let ins := repeat (mkin [] [] []) 9 ++ [mkin [] [] [AddBip 5]] in
  0 <= nbk c /\ bip (final c ins) = 2 /\ pc (final c (ins ++ [mkin [] [] [Drain 3]])) = AtEv BWE.
Proof. vm_compute. repeat split; congruence. Qed.
Print Assumptions bip_bounds_example.

(* the coroutine has returned exactly when machine.game is cleared, exactly when the trace contains the end marker,
   and from then on no further output is produced whatever the environment does (a new game starts from [init]) *)
Theorem ended_implies_no_game : forall c ins,
  (pc (final c ins) = Done <-> active (final c ins) = false) /\
  (In Fin (trace c ins) <-> pc (final c ins) = Done) /\
  (pc (final c ins) = Done ->
   forall more, trace c (ins ++ more) = trace c ins /\ final c (ins ++ more) = final c ins).
Proof. exact ended_implies_no_game_l. Qed.
Print Assumptions ended_implies_no_game.

Example ended_example : pc (final hang_cfg (hang_ins ++ repeat calm 4)) = Done /\ active init = true.
Proof. vm_compute. split; reflexivity. Qed.
Print Assumptions ended_example.

(* players rotate 1..n, every turn has a ball number in 1..balls_per_game, and nobody joins after round 1:
   every player_turn_started(p, b) event, with n players at that moment, is a legal successor of the previous one
   (Turns.v, [tsuccb]): 1 <= p <= n, 1 <= b <= balls_per_game; the first turn is (1,1); after (p0,b0,n0):
   n0 <= n, (b0 >= 2 -> n = n0), and either (p,b) = (p0+1, b0) or p0 = n and (p,b) = (1, b0+1).
   Hence the turns are (1,1) .. (n,1) (1,2) .. (n,2) .. : one turn per player and ball number, in order.
   (That each turn consists of one ball plus extra balls is part of lifecycle_trace_in_grammar.)
   Not proved here, checked on the implementation by the oracle only: without an end request the game ends exactly
   after turn (n, balls_per_game); the number of extra balls played equals the number awarded. *)
Theorem turn_structure : forall c ins, (1 <= bpg c)%nat -> turns_ok c (trace c ins).
Proof. exact turn_structure_l. Qed.
Print Assumptions turn_structure.

Example turn_structure_example :
  (* three players (two join during ball 1), two balls each: six turns, the last one is player 3 ball 2;
     the same monitor rejects the trace of the unfixed code on the late-add witness *)
  mrun (tstep (mkcfg 2 4 3 true false)) None
       (trace (mkcfg 2 4 3 true false)
              (repeat calm 6 ++ [add_in_handler; add_in_handler] ++ repeat calm 120)) = Some (Some (3, 2, 3)%nat) /\
  mrun (tstep late_add_cfg) None (trace_unfixed late_add_cfg late_add_ins) = None /\
  mrun (tstep late_add_cfg) None (trace late_add_cfg late_add_ins) = Some (Some (1, 2, 1)%nat).
Proof. vm_compute. repeat split; reflexivity. Qed.
Print Assumptions turn_structure_example.

(* the unfixed code: a player-add request accepted between the rotation to player 1 and the start of his second
   turn makes player 1 play ball 3 of a 2-ball game (witness replayed on the implementation: corpus/C06/game.1.json) *)
Theorem turn_structure_refuted_unfixed :
  exists c ins, (1 <= bpg c)%nat /\ existsb (turn_ball_exceeds c) (trace_unfixed c ins) = true.
Proof. exact turn_structure_refuted_unfixed_l. Qed.
Print Assumptions turn_structure_refuted_unfixed.

(* the unfixed code: end_game before the first player exists leaves the game waiting for ever, whatever is tried
   afterwards (witness replayed on the implementation: corpus/C06/game.2.json) *)
Theorem game_hangs_refuted_unfixed :
  exists c ins, forall n,
    let s := fst (steps_g unfixed c init (ins ++ repeat retry n)) in
    pc s = WaitPlayer /\ active s = true.
Proof. exact game_hangs_refuted_unfixed_l. Qed.
Print Assumptions game_hangs_refuted_unfixed.

(* the code without fixes/C06-first-player-after-held-add.patch: when the player_adding queue of player 2 clears
   before that of player 1 and there is no current player yet, the game starts with player 2 (the turn monitor rejects
   the trace); with the fix the same inputs give a legal game (witness replayed: corpus/C06/game.4.json) *)
Theorem first_player_refuted_unfixed :
  exists c ins, (1 <= bpg c)%nat /\
    mrun (tstep c) None (out0 ++ snd (steps_g no_first_fix c init ins)) = None /\
    exists m, mrun (tstep c) None (trace c ins) = Some (Some m).
Proof. exact first_player_refuted_unfixed_l. Qed.
Print Assumptions first_player_refuted_unfixed.

Example witnesses_fixed :
  existsb (turn_ball_exceeds late_add_cfg) (trace late_add_cfg late_add_ins) = false /\
  pc (final hang_cfg (hang_ins ++ repeat calm 4)) = Done.
Proof. split; [exact late_add_fixed_ok | exact (proj2 hang_fixed_ends)]. Qed.
Print Assumptions witnesses_fixed.
