From Common Require Import Prelude.
From C06 Require Import Model Lemmas.
Theorem placeholder : True. Proof. exact placeholder_l. Qed.
Print Assumptions placeholder.
