(* C06/Props.v — property theorems only.  Each is closed by [exact] of a lemma from Lemmas.v and followed by
   Print Assumptions (parsed by the check: must be "Closed under the global context").

   Property C06 (game lifecycle).  The model (Model.v) is the game coroutine WITH fixes/C06-late-player-add.patch,
   fixes/C06-end-game-before-first-player.patch and fixes/C06-first-player-after-held-add.patch applied
   (fixes/C06-ball-start-before-player-added.patch repairs a crash in mode_controller, which the model does not contain); [trace c ins] is the chronological output of a game
   with configuration c under the environment inputs ins (one input per suspension of the coroutine: operations
   issued by handlers of the lifecycle event, batches arriving while a queue handler holds a wait, or the batch
   arriving while the game idles).  All theorems quantify over every configuration and every input list.
   The code before the fixes is refuted by [turn_structure_refuted_unfixed], [game_hangs_refuted_unfixed] and
   [first_player_refuted_unfixed]. *)
From Common Require Import Prelude.
From C06 Require Import Model Lemmas Turns Ends Slam Restart Outer Tilt.
Open Scope Z_scope.

(* every trace is accepted by the recogniser of prefixes of the lifecycle grammar (Lemmas.v, [gstep]):
   game_will_start game_starting game_started turn* game_will_end game_ending game_ended,
   turn = player_turn_will_start .. started, ball (extra ball)*, player_turn_will_end .. ended,
   ball = ball_will_start ball_starting ball_started ball_will_end ball_ending ball_ended,
   with the same player number in all events of a turn, the turn's ball number in all of them (one less before
   player_turn_started), is_extra_ball false on the first ball and true on the others *)
Theorem lifecycle_trace_in_grammar : forall c ins, in_grammar (trace c ins).
Proof. exact lifecycle_trace_in_grammar_l. Qed.
Print Assumptions lifecycle_trace_in_grammar.

Example lifecycle_example :
  (* a complete 2-player 1-ball game with an extra ball for player 1: 36 lifecycle events, one Award marker, five operation observations, ends with Fin *)
  let tr := trace (mkcfg 1 2 3 true false)
                  ([mkin [] [] []; mkin [] [] []; mkin [] [] []; mkin [AddPlayerReq true] [] []] ++
                   repeat (mkin [] [] [Drain 1]) 4 ++ [mkin [AwardExtra] [] [Drain 1]] ++
                   repeat (mkin [] [] [Drain 1]) 40) in
  length tr = 43%nat /\ last tr Fin = Fin /\ mrun gstep G0 tr = Some EF.
Proof. vm_compute. repeat split; reflexivity. Qed.
Print Assumptions lifecycle_example.

(* balls in play stays within [0, num_balls_known]: in the final state and in every observation of the trace *)
Theorem bip_bounds : forall c ins, 0 <= nbk c ->
  Forall (bp_ok c) (trace c ins) /\ 0 <= bip (final c ins) <= nbk c.
Proof. exact bip_bounds_l. Qed.
Print Assumptions bip_bounds.

Example bip_bounds_example :
  (* 2 balls known; a multiball adds 5, the setter caps at 2; three drains floor at 0 and end the ball *)
  let c := mkcfg 1 1 2 true false in
  let ins := repeat (mkin [] [] []) 9 ++ [mkin [] [] [AddBip 5]] in
  0 <= nbk c /\ bip (final c ins) = 2 /\ pc (final c (ins ++ [mkin [] [] [Drain 3]])) = AtEv BWE.
Proof. vm_compute. repeat split; congruence. Qed.
Print Assumptions bip_bounds_example.

(* the coroutine has returned exactly when machine.game is cleared, exactly when the trace contains the end marker,
   and from then on no further output is produced whatever the environment does (a new game starts from [init]) *)
Theorem ended_implies_no_game : forall c ins,
  (pc (final c ins) = Done <-> active (final c ins) = false) /\
  (In Fin (trace c ins) <-> pc (final c ins) = Done) /\
  (pc (final c ins) = Done ->
   forall more, trace c (ins ++ more) = trace c ins /\ final c (ins ++ more) = final c ins).
Proof. exact ended_implies_no_game_l. Qed.
Print Assumptions ended_implies_no_game.

Example ended_example : pc (final hang_cfg (hang_ins ++ repeat calm 4)) = Done /\ active init = true.
Proof. vm_compute. split; reflexivity. Qed.
Print Assumptions ended_example.

(* players rotate 1..n, every turn has a ball number in 1..balls_per_game, and nobody joins after round 1:
   every player_turn_started(p, b) event, with n players at that moment, is a legal successor of the previous one
   (Turns.v, [tsuccb]): 1 <= p <= n, 1 <= b <= balls_per_game; the first turn is (1,1); after (p0,b0,n0):
   n0 <= n, (b0 >= 2 -> n = n0), and either (p,b) = (p0+1, b0) or p0 = n and (p,b) = (1, b0+1).
   Hence the turns are (1,1) .. (n,1) (1,2) .. (n,2) .. : one turn per player and ball number, in order.
   (That each turn consists of one ball plus extra balls is part of lifecycle_trace_in_grammar.)
   Not proved here, checked on the implementation by the oracle only: without an end request the game ends exactly
   after turn (n, balls_per_game); the number of extra balls played equals the number awarded. *)
Theorem turn_structure : forall c ins, (1 <= bpg c)%nat -> turns_ok c (trace c ins).
Proof. exact turn_structure_l. Qed.
Print Assumptions turn_structure.

Example turn_structure_example :
  (* three players (two join during ball 1), two balls each: six turns, the last one is player 3 ball 2;
     the same monitor rejects the trace of the unfixed code on the late-add witness *)
  mrun (tstep (mkcfg 2 4 3 true false)) None
       (trace (mkcfg 2 4 3 true false)
              (repeat calm 6 ++ [add_in_handler; add_in_handler] ++ repeat calm 120)) = Some (Some (3, 2, 3)%nat) /\
  mrun (tstep late_add_cfg) None (trace_unfixed late_add_cfg late_add_ins) = None /\
  mrun (tstep late_add_cfg) None (trace late_add_cfg late_add_ins) = Some (Some (1, 2, 1)%nat).
Proof. vm_compute. repeat split; reflexivity. Qed.
Print Assumptions turn_structure_example.

(* the unfixed code: a player-add request accepted between the rotation to player 1 and the start of his second
   turn makes player 1 play ball 3 of a 2-ball game (witness replayed on the implementation: corpus/C06/game.1.json) *)
Theorem turn_structure_refuted_unfixed :
  exists c ins, (1 <= bpg c)%nat /\ existsb (turn_ball_exceeds c) (trace_unfixed c ins) = true.
Proof. exact turn_structure_refuted_unfixed_l. Qed.
Print Assumptions turn_structure_refuted_unfixed.

(* the unfixed code: end_game before the first player exists leaves the game waiting for ever, whatever is tried
   afterwards (witness replayed on the implementation: corpus/C06/game.2.json) *)
Theorem game_hangs_refuted_unfixed :
  exists c ins, forall n,
    let s := fst (steps_g unfixed c init (ins ++ repeat retry n)) in
    pc s = WaitPlayer /\ active s = true.
Proof. exact game_hangs_refuted_unfixed_l. Qed.
Print Assumptions game_hangs_refuted_unfixed.

(* the code without fixes/C06-first-player-after-held-add.patch: when the player_adding queue of player 2 clears
   before that of player 1 and there is no current player yet, the game starts with player 2 (the turn monitor rejects
   the trace); with the fix the same inputs give a legal game (witness replayed: corpus/C06/game.4.json) *)
Theorem first_player_refuted_unfixed :
  exists c ins, (1 <= bpg c)%nat /\
    mrun (tstep c) None (out0 ++ snd (steps_g no_first_fix c init ins)) = None /\
    exists m, mrun (tstep c) None (trace c ins) = Some (Some m).
Proof. exact first_player_refuted_unfixed_l. Qed.
Print Assumptions first_player_refuted_unfixed.

Example witnesses_fixed :
  existsb (turn_ball_exceeds late_add_cfg) (trace late_add_cfg late_add_ins) = false /\
  pc (final hang_cfg (hang_ins ++ repeat calm 4)) = Done.
Proof. split; [exact late_add_fixed_ok | exact (proj2 hang_fixed_ends)]. Qed.
Print Assumptions witnesses_fixed.

(* ------------------------------------------------------------------------------------------------------------- *)
(* a complete 2-player 1-ball game with an extra ball for player 1 (the game of lifecycle_example) *)
Definition ex_cfg : cfg := mkcfg 1 2 3 true false.
Definition ex_ins : list input :=
  [mkin [] [] []; mkin [] [] []; mkin [] [] []; mkin [AddPlayerReq true] [] []] ++
  repeat (mkin [] [] [Drain 1]) 4 ++ [mkin [AwardExtra] [] [Drain 1]] ++ repeat (mkin [] [] [Drain 1]) 40.

(* "A ball ends exactly when balls in play reaches zero or an end is requested."  The monitor [cstep] (Ends.v) reads
   the trace: every environment operation is followed by an observation OpObs code bip (code 1/2/3 = end_ball /
   end_game / slam-tilt request); a cause is a request or balls_in_play going from > 0 to 0 at an operation; the
   window of a ball opens at ball_will_start.  It rejects a ball_will_end without a cause since ball_will_start, and
   an idle observation in the live phase (after ball_started) once a cause has occurred.  Hence: ball_will_end only
   after a cause, and after a cause the live ball does not go on.  (In the model a drain can only change
   balls_in_play while the ball is live: the ball_drain handler is registered between ball_starting and
   ball_started and removed in _end_ball.) *)
Theorem ball_ends_iff : forall c ins, 0 <= nbk c -> ball_ends_ok (trace c ins).
Proof. exact ball_ends_iff_l. Qed.
Print Assumptions ball_ends_iff.

Example ball_ends_example :
  (* the real game is accepted and ends outside a ball window; a ball that ends after an irrelevant operation is
     rejected; with the drain taking balls_in_play from 1 to 0 it is accepted *)
  mrun cstep cm0 (trace ex_cfg ex_ins) = Some (mkcm false false false 0) /\
  mrun cstep cm0 [Ev BWS 1 1 false 0 1; Ev BSg 1 1 false 0 1; Ev BSd 1 1 false 1 1; OpObs 0 1; Ev BWE 1 1 false 0 1] = None /\
  mrun cstep cm0 [Ev BWS 1 1 false 0 1; Ev BSg 1 1 false 0 1; Ev BSd 1 1 false 1 1; OpObs 0 0; Idle 0 1 0] = None /\
  mrun cstep cm0 [Ev BWS 1 1 false 0 1; Ev BSg 1 1 false 0 1; Ev BSd 1 1 false 1 1; OpObs 0 0; Ev BWE 1 1 false 0 1]
    = Some (mkcm false false false 0).
Proof. vm_compute. repeat split; reflexivity. Qed.
Print Assumptions ball_ends_example.

(* "... for each ball number up to balls_per_game each player in order gets exactly one turn ..., then end."
   The monitor [estep] (Ends.v): game_will_end (with n players) is accepted only after an end_game request, after a
   slam tilt, or directly after the turn (player_turn_ended p b) with p = n and b >= balls_per_game; a new turn
   (player_turn_will_start, with n players) is rejected after an end_game request and after a turn with a slam tilt
   or with p = n and b >= balls_per_game.  Together with turn_structure: without a request the game ends exactly
   after turn (n, balls_per_game).  n is the number of players when the decision is taken, i.e. after the handlers of
   player_turn_ended: a player who joined inside the last player's turn-ending events of ball 1 still gets a turn. *)
Theorem game_ends_after_last_turn : forall c ins, game_end_ok c (trace c ins).
Proof. exact game_end_iff_l. Qed.
Print Assumptions game_ends_after_last_turn.

Example game_ends_example :
  mrun (estep ex_cfg) em0 (trace ex_cfg ex_ins) = Some (mkem false false (Some (2, 1)%nat)) /\
  (* 2-ball game, one player: game_will_end after the first turn without a request is rejected, after the second accepted *)
  mrun (estep (mkcfg 2 1 1 true false)) em0 [Ev PTEd 1 1 false 0 1; Ev GWE 0 0 false 0 1] = None /\
  mrun (estep (mkcfg 2 1 1 true false)) em0 [Ev PTEd 1 2 false 0 1; Ev GWE 0 0 false 0 1] <> None /\
  mrun (estep (mkcfg 2 1 1 true false)) em0 [Ev PTEd 1 2 false 0 1; Ev PTWS 1 2 false 0 1] = None /\
  (* one-ball game: player 2 joined while player 1's turn was ending: the game must go on *)
  mrun (estep (mkcfg 1 2 1 true false)) em0 [Ev PTEd 1 1 false 0 1; Ev GWE 0 0 false 0 2] = None.
Proof. vm_compute. repeat split; try reflexivity; discriminate. Qed.
Print Assumptions game_ends_example.

(* "... one ball plus one more per extra ball awarded".  The monitor [xstep] (Ends.v) keeps per player the number of
   extra balls awarded (Award markers: player.extra_balls += 1) and not yet played; it rejects an extra ball
   (ball_will_start with is_extra_ball) for a player with balance 0, and a player_turn_will_end with a positive
   balance unless the machine was slam-tilted.  The cap max_extra_balls_per_game belongs to the ExtraBall /
   ExtraBallGroup devices, which decide whether player.extra_balls is incremented; it is not part of the game loop. *)
Theorem extra_balls_played_eq_awarded : forall c ins, extra_balls_ok (trace c ins).
Proof. exact extra_balls_l. Qed.
Print Assumptions extra_balls_played_eq_awarded.

Example extra_balls_example :
  (exists m, mrun xstep xm0 (trace ex_cfg ex_ins) = Some m /\ xbal m 1%nat = 0%nat /\ xsl m = false) /\
  existsb (fun o => match o with Ev BWS 1 _ true _ _ => true | _ => false end) (trace ex_cfg ex_ins) = true /\
  mrun xstep xm0 [Ev BWS 1 1 true 0 1] = None /\
  mrun xstep xm0 [Award 1; Ev PTWE 1 1 false 0 1] = None.
Proof. split; [eexists; vm_compute; repeat split; reflexivity | vm_compute; repeat split; reflexivity]. Qed.
Print Assumptions extra_balls_example.

(* "... after the game has ended no game is active and a new one can start."  A second game on the same mode
   object ([start_game] = the re-initialisation at the top of Game._run, which leaves the ball_drain handler
   registration, the player-add chains and the playfield alone) started after ANY history of a first game that has
   ended is, field by field, in the initial state of a first game (on a playfield that holds the balls left there),
   so it behaves exactly like a first game for every configuration and every further history.  Hypothesis: no
   player_adding queue is still held open by a handler when the game ends (such a queue would complete in the new
   game; not generated by the harness). *)
Theorem new_game_starts_clean : forall c ins,
  pc (final c ins) = Done -> heldq (final c ins) = [] ->
  start_game (final c ins) = set_pf (pf (final c ins)) init /\
  forall c2 ins2, steps c2 (start_game (final c ins)) ins2 = steps c2 (set_pf (pf (final c ins)) init) ins2.
Proof. exact new_game_starts_clean_l. Qed.
Print Assumptions new_game_starts_clean.

(* the correspondence run evaluates [games boot]; for one game that is [trace] *)
Theorem first_game_is_trace : forall c ins, games boot [(c, ins)] = trace c ins.
Proof. exact Restart.first_game_is_trace. Qed.
Print Assumptions first_game_is_trace.

Example new_game_example :
  (* the first game ends slam-tilted with a ball left on the playfield and an unplayed extra ball; the second game
     (3 balls) starts with player 1 ball 1 and waits for the playfield to empty *)
  let ins1 := repeat (mkin [] [] []) 9 ++ [mkin [] [] [AwardExtra; SlamTilt]] ++ repeat (mkin [] [] []) 12 in
  let s1 := final ex_cfg ins1 in
  pc s1 = Done /\ heldq s1 = [] /\ slam s1 = true /\ pf s1 = 1 /\ slam (start_game s1) = false /\
  length (games boot [(ex_cfg, ins1); (mkcfg 3 1 3 true false, repeat (mkin [] [] []) 8)]) = 30%nat.
Proof. vm_compute. repeat split; reflexivity. Qed.
Print Assumptions new_game_example.

(* ------------------------------------------------------------------------------------------------------------- *)
(* The surroundings of the coroutine (Outer.v): the stop procedure of the game mode (Mode.stop -> mode_game_stopping ->
   Game._stop_game_modes waits for all game modes -> AsyncMode._stopped cancels the task, Game.mode_stop clears
   machine.game) under external stop requests at every quiescent suspension point, and a further game mode whose own stop
   can be held by a handler.  The correspondence run evaluates [orun] = [ogames boot]. *)

(* without [Aux] operations the outer model is the coroutine model: every theorem above is about the same runs *)
Theorem outer_refines_model : forall c s i, plain_in i = true -> (pc s = AtEv GEd -> drainh s = false) ->
  ostep c (s, x0) i = ((fst (step c s i), x0), map Core (snd (step c s i))).
Proof. exact ostep_plain. Qed.
Print Assumptions outer_refines_model.

(* "... after the game has ended no game is active ...", for a game that is stopped from OUTSIDE (service mode entered,
   modes.game.stop()) at any suspension point, also inside held lifecycle queue events: in the step in which the stop of the
   game mode completes, only observations of operations are output — no lifecycle event —, machine.game is cleared, the
   ball_drain handler is gone and no game mode is left; and from then on, whatever arrives (releases of the queues the
   stopped coroutine was waiting in included), nothing is output and nothing changes *)
Theorem stopped_game_posts_nothing : forall c s x i, stops_here c s x i = true ->
  stopped_result (live_step c s x i) /\
  forall more, osteps c (fst (live_step c s x i)) more = (fst (live_step c s x i), []).
Proof. exact stopped_game_posts_nothing_l. Qed.
Print Assumptions stopped_game_posts_nothing.

Example stopped_example :
  (* a 1-ball game; the game mode is stopped while a handler holds ball_ending (second batch of the hold); the handler
     finishes, further drains arrive: the trace ends with the stop marker, ball_ended is never posted *)
  let c := mkcfg 1 1 3 true false in
  let ins := repeat calm 11 ++ [mkin [] [[]; [Aux StopGame]; [Drain 1]] []] in
  let r := osteps c (init, x0) (ins ++ repeat calm 5) in
  stops_here c (fst (fst (osteps c (init, x0) (repeat calm 11)))) x0 (mkin [] [[]; [Aux StopGame]; [Drain 1]] []) = true /\
  pc (fst (fst (osteps c (init, x0) (repeat calm 11)))) = AtEv BEg /\
  over (fst r) = true /\ last (snd r) (Core Fin) = Killed /\
  forallb (fun o => match o with Core (Ev BEd _ _ _ _ _) => false | _ => true end) (snd r) = true.
Proof. vm_compute. repeat split; reflexivity. Qed.
Print Assumptions stopped_example.

(* machine.game is cleared only when every game mode has stopped and no stop of the game mode is pending: in every state
   reachable from the start of a game by any inputs *)
Theorem game_cleared_only_when_modes_stopped : forall c s ins,
  let sx := fst (osteps c (start_game s, x0) ins) in
  active (fst sx) = false -> md (snd sx) = MOff /\ gstop (snd sx) = false.
Proof. exact game_cleared_only_when_modes_stopped_l. Qed.
Print Assumptions game_cleared_only_when_modes_stopped.

Example modes_example :
  (* gm0 starts at ball_ended, gets its stop event at player_turn_will_end and a handler holds that stop; the game ends:
     game_ended is posted, but machine.game stays set while the game mode waits for gm0 (idle observation); the release
     completes the stop: end marker, machine.game cleared *)
  let c := mkcfg 1 1 3 true false in
  let ins := repeat calm 12 ++ [mkin [Aux MStart] [] []; mkin [Aux (MStop true)] [] []] ++ repeat calm 5 in
  let r1 := osteps c (init, x0) ins in
  let r2 := osteps c (init, x0) (ins ++ [mkin [] [] []; mkin [] [] [Aux MRelease]]) in
  pc (fst (fst r1)) = Done /\ active (fst (fst r1)) = true /\ snd (fst r1) = mkx MHeld true /\
  existsb (fun o => match o with Core (Ev GEd _ _ _ _ _) => true | _ => false end) (snd r1) = true /\
  existsb (fun o => match o with Core Fin => true | _ => false end) (snd r1) = false /\
  over (fst r2) = true /\ active (fst (fst r2)) = false /\ last (snd r2) Killed = Core Fin.
Proof. vm_compute. repeat split; reflexivity. Qed.
Print Assumptions modes_example.

(* "... and a new one can start", after an external stop: the state the stop leaves behind is, after the re-initialisation
   at the top of Game._run, the initial state (on the playfield as it is) — in particular the ball_drain handler of the
   stopped game is gone — so the next game behaves like a first game.  Hypotheses: no player_adding handler that holds
   queues ([hold_adds] false; as for [new_game_starts_clean]) and [Rest] (no player-add chain in flight at the beginning of
   the step, which [rest_at_end] shows for every state at the end of a step of a game) *)
Theorem new_game_after_stop : forall c s x i, hold_adds c = false -> Rest c s -> stops_here c s x i = true ->
  let s' := fst (fst (live_step c s x i)) in
  start_game s' = set_pf (pf s') init /\
  forall c2 ins2, osteps c2 (start_game s', x0) ins2 = osteps c2 (set_pf (pf s') init, x0) ins2.
Proof. exact new_game_after_stop_l. Qed.
Print Assumptions new_game_after_stop.

Example new_game_after_stop_example :
  (* stopped while the ball is live (drain handler registered, one ball on the playfield); the second game plays *)
  let c := mkcfg 1 1 3 true false in
  let tr := ogames boot [(c, repeat calm 9 ++ [mkin [] [] [Aux StopGame]]); (c, repeat calm 6 ++ repeat (mkin [] [] [Drain 2]) 14)] in
  existsb (fun o => match o with Killed => true | _ => false end) tr = true /\ last tr Killed = Core Fin /\
  Rest c (fst (fst (osteps c (init, x0) (repeat calm 9)))) /\ drainh (fst (fst (osteps c (init, x0) (repeat calm 9)))) = true.
Proof. vm_compute. repeat split; reflexivity. Qed.
Print Assumptions new_game_after_stop_example.

(* the trace of a game up to an external stop is a prefix of a trace of the coroutine model (of the same history with the
   last input cut where the stop completed); hence every statement above that is the acceptance of the trace by a monitor
   (grammar, bounds, turn structure, ball-end causes, game end, extra balls) holds for stopped games up to the stop *)
Theorem stopped_trace_is_trace_prefix : forall c ins x i, stops_here c (final c ins) x i = true ->
  exists o1 i' rest,
    snd (live_step c (final c ins) x i) = map Core o1 ++ [Killed] /\
    trace c (ins ++ [i']) = (trace c ins ++ o1) ++ rest.
Proof. exact stopped_trace_prefix_l. Qed.
Print Assumptions stopped_trace_is_trace_prefix.

Theorem stopped_trace_in_grammar : forall c ins x i, stops_here c (final c ins) x i = true ->
  exists o1, snd (live_step c (final c ins) x i) = map Core o1 ++ [Killed] /\ in_grammar (trace c ins ++ o1).
Proof. exact stopped_trace_in_grammar_l. Qed.
Print Assumptions stopped_trace_in_grammar.

(* ------------------------------------------------------------------------------------------------------------- *)
(* The tilt mode as the source of tilt / slam-tilt requests (Tilt.v; request-level correspondence on real devices) *)

(* "... slam-tilt requests arriving at any point of the lifecycle": a slam-tilt request that reaches a game is never
   dropped — slam_tilted is set whether the ball is already tilted, the game is ending, or no ball is running — *)
Theorem slam_request_registers : forall t, t_active t = true -> t_slam (slam_req t) = true.
Proof. exact slam_req_registers_l. Qed.
Print Assumptions slam_request_registers.

(* and requests the end of the ball unless the ball is already tilted or the game is ending *)
Theorem slam_request_ends_ball : forall t, t_active t = true -> t_tilted t = false -> t_ending t = false ->
  t_endev (slam_req t) = true /\ t_tilted (slam_req t) = true.
Proof. exact slam_req_ends_ball_l. Qed.
Print Assumptions slam_request_ends_ball.

(* no request of the tilt mode clears slam_tilted, tilted or a requested ball end, or touches ending *)
Theorem tilt_requests_monotone : forall t w ok,
  let P := fun t' : tg => (t_slam t = true -> t_slam t' = true) /\ (t_tilted t = true -> t_tilted t' = true) /\
                          (t_endev t = true -> t_endev t' = true) /\ t_ending t' = t_ending t in
  P (tilt_req t) /\ P (slam_req t) /\ P (warn_req w ok t).
Proof. exact reqs_monotone_l. Qed.
Print Assumptions tilt_requests_monotone.

(* the operation SlamTilt of the coroutine model is the slam-tilt request of the tilt mode on a game that is not tilted;
   with [game_ends_after_last_turn] / [extra_balls_played_eq_awarded]: a registered slam tilt ends the game after the turn *)
Theorem slam_request_is_core_op : forall v c s,
  let s' := op_st v c s SlamTilt in
  t_slam (slam_req (tg_of_st s)) = slam s' /\ t_endev (slam_req (tg_of_st s)) = endev s' /\
  t_ending (slam_req (tg_of_st s)) = ending s'.
Proof. exact slam_req_is_core_op_l. Qed.
Print Assumptions slam_request_is_core_op.

Example tilt_example :
  (* a slam tilt on a ball that is already tilted: registered, no second end request needed; the second warning tilts *)
  let t := mktg true true true false false true 0 in
  slam_req t = mktg true true true false true true 0 /\
  warn_req 2 true (mktg true true false false false false 1) = mktg true true true false false true 2 /\
  warn_req 2 false (mktg true true false false false false 1) = mktg true true false false false false 1.
Proof. vm_compute. repeat split; reflexivity. Qed.
Print Assumptions tilt_example.

(* "... slam-tilt requests arriving at any point of the lifecycle" end the game (Slam.v, monitor [sstep]): over every trace,
   after the observation of a slam-tilt request (operation code 3 / 4) no extra ball is started, and once the turn the request
   fell into has ended (player_turn_ended seen after the request, or the request was issued by a handler of
   player_turn_ended) no further turn starts.  (A request before the first turn does not prevent that turn: Game._run enters
   its loop while [ending] is false; the game ends after it.) *)
Theorem slam_tilt_ends_game : forall c ins, slam_ends_game_ok (trace c ins).
Proof. exact slam_ends_game_l. Qed.
Print Assumptions slam_tilt_ends_game.

Example slam_example :
  (* 3 balls per game; an extra ball is awarded and the machine is slam tilted during ball 1: the extra ball is not played,
     no second turn starts, the game ends.  The monitor rejects a turn start after a slam-tilted turn and an extra ball *)
  let c := mkcfg 3 2 3 true false in
  let ins := repeat calm 9 ++ [mkin [] [] [AwardExtra; SlamTilt]] ++ repeat calm 12 in
  (exists m, mrun sstep sm0 (trace c ins) = Some m /\ ssl m = true /\ sfin m = true) /\ pc (final c ins) = Done /\
  mrun sstep sm0 [OpObs 3 0; Ev PTEd 1 1 false 0 1; Ev PTWS 1 1 false 0 1] = None /\
  mrun sstep sm0 [OpObs 4 0; Ev BWS 1 1 true 0 1] = None.
Proof. split; [eexists; vm_compute; repeat split; reflexivity | vm_compute; repeat split; reflexivity]. Qed.
Print Assumptions slam_example.
