(* C06/Restart.v — a new game on the same Game mode object starts clean.
   Game._run re-initialises the object's fields by hand ([start_game]); what it does not touch — the ball_drain handler
   registration and the player-add chains in flight — is shown to be back in its initial state whenever a game has
   ended (the coroutine returned), provided no player_adding queue is still held open by a handler. *)
From Common Require Import Prelude.
From C06 Require Import Model Lemmas.
Open Scope Z_scope.

Definition ustep (m : unit) (o : out) : option unit := Some tt.

Definition drain_live (p : pc_t) : bool := match p with AtEv BSd | WaitBall => true | _ => false end.
(* mid-batch / at batch end *)
Definition Rdm (s : st) (m : unit) : Prop := drainh s = true -> drain_live (pc s) = true.
Definition Rdb (s : st) (m : unit) : Prop := Rdm s m /\ pending s = 0%nat /\ rels s = [].

Lemma drainh_op_st v c s o : drainh (op_st v c s o) = drainh s.
Proof.
  destruct o; cbn [op_st].
  - change (drainh (set_pf ?a ?x)) with (drainh x).
    destruct (drainh s && negb (n =? 0)); [destruct (set_bip_form c (bip s - n) s) as [b [e ->]]|]; reflexivity.
  - reflexivity.
  - destruct (set_bip_form c (bip s + d) s) as [b [e ->]]; reflexivity.
  - reflexivity.
  - reflexivity.
  - destruct (ending s); reflexivity.
  - destruct (gate v c s && allowed); reflexivity.
  - destruct (if newest then rev (heldq s) else heldq s); reflexivity.
  - unfold upd_cur. destruct (cur s); reflexivity.
  - reflexivity.
Qed.

Lemma mrun_ustep : forall outs m, mrun ustep m outs = Some tt \/ (outs = [] /\ mrun ustep m outs = Some m).
Proof. induction outs as [|o outs IH]; intro m; [right; auto | left]. cbn. destruct (IH tt) as [H|[-> H]]; auto. Qed.

Lemma mrun_ustep_ex outs m : exists m', mrun ustep m outs = Some m'.
Proof. destruct (mrun_ustep outs m) as [H|[_ H]]; eauto. Qed.

Lemma flush_rest v c s : drainh (flush v c s) = drainh s /\ rels (flush v c s) = [].
Proof. flush_cases; simpl; auto. Qed.

Lemma Rd_adv c s m : Rdb s m -> enabled fixed s ->
  exists m', mrun ustep m (snd (advance fixed c s)) = Some m' /\ Rdb (fst (advance fixed c s)) m'.
Proof.
  intros (D & P & R) En.
  destruct (mrun_ustep_ex (snd (advance fixed c s)) m) as [m' E]. exists m'. split; [exact E|]. clear E.
  assert (G : forall k x, drainh x = false -> pending x = 0%nat -> rels x = [] -> Rdb (fst (goto k x)) m').
  { intros k x H1 H2 H3. unfold Rdb, Rdm. cbn. rewrite H1. repeat split; auto; discriminate. }
  assert (LH : forall x, drainh x = false -> pending x = 0%nat -> rels x = [] -> Rdb (fst (loop_head x)) m').
  { intros x H1 H2 H3. unfold loop_head. destruct (ending x); [apply G; auto|].
    destruct (cur x =? 0)%nat; apply G; auto. }
  unfold Rdm in D. unfold advance.
  destruct (pc s) as [[]| | | |] eqn:Epc; cbn [drain_live] in D;
    try (assert (Dh : drainh s = false) by (destruct (drainh s); [specialize (D eq_refl); discriminate | reflexivity]));
    try (apply G; assumption).
  - (* GSg *)
    destruct (0 <? np s)%nat; [apply G; assumption|].
    assert (Q : forall x, drainh x = false -> pending x = 0%nat -> rels x = [] ->
             Rdb (fst (if fix_wait fixed && ending x || pev x then goto GSd x else (set_pc WaitPlayer x, []))) m').
    { intros x H1 H2 H3. destruct (fix_wait fixed && ending x || pev x); [apply G; assumption|].
      unfold Rdb, Rdm. cbn. rewrite H1. repeat split; auto; discriminate. }
    destruct (gate fixed c (set_pev false s) && own_ok c).
    + unfold add_first_player. destruct (hold_adds c); apply Q; assumption.
    + apply Q; assumption.
  - (* GSd *) apply LH; assumption.
  - (* GEd *) unfold Rdb, Rdm. cbn. rewrite Dh. repeat split; auto; discriminate.
  - (* PTSg *) apply G; cbn; unfold upd_cur; destruct (cur s); assumption.
  - (* PTEd *) unfold after_turn. destruct (slam (set_tactive false s) || _); apply LH; assumption.
  - (* BWS *) destruct (0 <? pf s); [|apply G; assumption].
    unfold Rdb, Rdm. cbn. rewrite Dh. repeat split; auto; discriminate.
  - (* BSg *) destruct (set_bip_form c 1 (set_drainh true s)) as [b [e ->]].
    unfold Rdb, Rdm. cbn. repeat split; auto.
  - (* BSd *) unfold await_end. change (endev (set_pf ?a ?x)) with (endev x). destruct (endev s).
    + unfold end_ball. apply G; auto.
    + unfold Rdb, Rdm. cbn. repeat split; auto.
  - (* BEd *) destruct ((0 <? pextra s)%nat && negb (slam s)); [|apply G; assumption].
    unfold run_ball. apply G; cbn; unfold upd_cur; destruct (cur s); assumption.
  - (* WaitBall *) unfold await_end, enabled in *. rewrite Epc in En. rewrite En. unfold end_ball. apply G; auto.
  - (* Done *) unfold Rdb, Rdm. cbn [fst]. rewrite Epc. cbn. rewrite Dh. repeat split; auto; discriminate.
Qed.

Lemma rest_at_end c ins : Rdb (final c ins) tt.
Proof.
  assert (HS : exists m', mrun ustep tt (snd (steps c init ins)) = Some m' /\ Rdb (fst (steps c init ins)) m').
  { unfold steps. apply (mon_steps ustep fixed c Rdm Rdb).
    - intros s m H. apply H.
    - intros s m o H. destruct (mrun_ustep_ex (snd (apply_op fixed c s o)) m) as [m' E]. exists m'. split; [exact E|].
      unfold Rdm in *. cbn [apply_op fst]. rewrite drainh_op_st.
      pose proof (pc_apply_op fixed c s o) as Epc. cbn [apply_op fst] in Epc. rewrite Epc. exact H.
    - intros s m H. destruct (flush_rest fixed c s) as [F1 F2]. unfold Rdb, Rdm in *.
      rewrite pc_flush, F1, pending_flush. auto.
    - intros; apply Rd_adv; assumption.
    - intros s m H _. exists tt. split; [reflexivity|]. exact H.
    - unfold Rdb, Rdm, init. cbn. repeat split; auto; discriminate. }
  destruct HS as [[] [_ R]]. exact R.
Qed.

Lemma new_game_starts_clean_l : forall c ins,
  pc (final c ins) = Done -> heldq (final c ins) = [] ->
  start_game (final c ins) = set_pf (pf (final c ins)) init /\
  forall c2 ins2, steps c2 (start_game (final c ins)) ins2 = steps c2 (set_pf (pf (final c ins)) init) ins2.
Proof.
  intros c ins D Hq. destruct (rest_at_end c ins) as (Dr & P & R).
  assert (E : start_game (final c ins) = set_pf (pf (final c ins)) init).
  { unfold Rdm in Dr. rewrite D in Dr. cbn [drain_live] in Dr.
    assert (Dh : drainh (final c ins) = false) by (destruct (drainh (final c ins)); [specialize (Dr eq_refl); discriminate | reflexivity]).
    clear Dr D. revert Dh P R Hq. generalize (final c ins) as s. intros s Dh P R Hq.
    destruct s; cbn in *. subst. reflexivity. }
  split; [exact E|]. intros c2 ins2. rewrite E. reflexivity.
Qed.

Lemma first_game_is_trace : forall c ins, games boot [(c, ins)] = trace c ins.
Proof.
  intros c ins. unfold games, trace. change (start_game boot) with init.
  destruct (steps c init ins) as [s1 o1]. cbn [snd]. destruct (pc s1); rewrite app_nil_r; reflexivity.
Qed.
