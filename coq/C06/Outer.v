(* C06/Outer.v — what surrounds the game coroutine: the stop procedure of the game mode and a further game mode.

   Mode.stop() of the game mode (called by AsyncMode._mode_ended when _run has returned, by the stop events game_ended /
   service_mode_entered, or by machine code) posts the queue event mode_game_stopping; its handler Game._stop_game_modes
   stops every active game mode and keeps the queue until all of them have stopped; then AsyncMode._stopped cancels the task
   of the coroutine, Game.mode_stop clears machine.game and the mode's handlers (ball_drain ...) are removed.  While the
   queue is kept the coroutine goes on running.

   The further game mode gm0 (status [mstat]) starts on its start event when the game has a current player, stops on its own
   stop event — a handler of mode_gm0_stopping may keep that queue ([MHeld]) until it is told to release it or until the
   next ball_ending is posted —, is stopped by the mode controller at every ball_ending and by the game mode's stop.
   Starts and stops complete in callbacks, i.e. at the end of the batch ([settle]).

   The coroutine itself is the unchanged model of Model.v: the [Aux] operations do not touch its state.  [ostep] runs the
   batches of one input one by one ([scan]); when the stop of the game mode completes at the end of a batch the game is
   killed there: no advance, no further lifecycle event.  When the coroutine has returned (after game_ended) but gm0's stop is
   still held, machine.game stays set and the game mode waits ([gstop] with pc = Done) until the release. *)
From Common Require Import Prelude.
From C06 Require Import Model Lemmas Restart.
Open Scope Z_scope.

Inductive mstat := MOff | MStarting | MOn | MHolding | MHeld | MFree.
(* MStarting / MFree: start / stop under way, completes at the end of the batch; MHolding: stop requested, the handler of
   mode_gm0_stopping will keep the queue when it runs (at the end of the batch): a release before that finds nothing to release *)
Record xst := mkx { md : mstat; gstop : bool }.
Definition x0 : xst := mkx MOff false.

Definition stop_md (m : mstat) : mstat := match m with MOn | MHeld => MFree | _ => m end.

Definition has_player (s : st) : bool :=
  tactive s && match pc s with AtEv PTEd => false | _ => true end.

Definition xop (s : st) (x : xst) (o : op) : xst :=
  match o with
  | Aux StopGame =>
      (* Mode.stop of the game mode; _stop_game_modes stops gm0 when it is active (a stop that is already under way only
         gets a further callback: a held one stays held) *)
      mkx (match md x with MOn => MFree | m => m end) true
  | Aux MStart =>
      (* Mode.start: a game mode only starts while it has a player — the mode controller gives it the current player in
         its handler of player_turn_started and takes it away in its handler of player_turn_ended (both run before the
         handlers that issue operations); not when it is active or starting *)
      match md x with
      | MOff => if has_player s then mkx MStarting (gstop x) else x
      | _ => x
      end
  | Aux (MStop h) => match md x with MOn => mkx (if h then MHolding else MFree) (gstop x) | _ => x end
  | Aux MRelease => match md x with MHeld => mkx MFree (gstop x) | _ => x end
  | _ => x
  end.

Definition settle (x : xst) : xst :=
  mkx (match md x with MStarting => MOn | MFree => MOff | MHolding => MHeld | m => m end) (gstop x).

Fixpoint xbatch (c : cfg) (s : st) (x : xst) (ops : list op) : xst :=
  match ops with
  | [] => settle x
  | o :: r => xbatch c (fst (apply_op fixed c s o)) (xop s x o) r
  end.

Definition is_off (m : mstat) : bool := match m with MOff => true | _ => false end.
(* the stop of the game mode completes: it was requested and no game mode is active any more *)
Definition dead (x : xst) : bool := gstop x && is_off (md x).

(* AsyncMode._stopped / Game.mode_stop / Mode._stopped: task cancelled, machine.game cleared, mode handlers removed *)
Definition kill (s : st) : st := set_drainh false (set_active false (set_pc Done s)).

Inductive oout := Core (o : out) | Killed.

Fixpoint scan (c : cfg) (s : st) (x : xst) (bs : list (list op)) : st * xst * list out * bool :=
  match bs with
  | [] => (s, x, [], false)
  | b :: r =>
      let (s1, o1) := batch fixed c s b in
      let x1 := xbatch c s x b in
      if dead x1 then (s1, x1, o1, true)
      else let '(s2, x2, o2, k) := scan c s1 x1 r in (s2, x2, o1 ++ o2, k)
  end.

(* the batches that arrive at one suspension, in order *)
Definition blist (s : st) (i : input) : list (list op) :=
  match pc s with
  | AtEv k => ev_ops i :: (if is_queue k then holds i else [])
  | Done => []
  | _ => [idle_ops i]
  end.

(* ball_ending.  The mode controller's handler of ball_ending stops gm0 when it is active and keeps the queue until gm0 has
   stopped.  The handler that holds gm0's own stop lets go just before: when no handler holds ball_ending itself, at the start
   of the event ([xpre]: a released stop completes before the operations issued by the handlers of ball_ending are processed,
   a stop started by the mode controller after them; a pending stop of the game mode that this completes takes effect after
   those operations); when a handler holds ball_ending, after the last batch of that hold ([bheld], [xpost]). *)
Definition bheld (s : st) (i : input) : bool :=
  match pc s, holds i with AtEv BEg, _ :: _ => true | _, _ => false end.
Definition pre_md (m : mstat) : mstat := match m with MHeld => MOff | MOn => MFree | _ => m end.
Definition xpre (s : st) (i : input) (x : xst) : xst :=
  match pc s with AtEv BEg => if bheld s i then x else mkx (pre_md (md x)) (gstop x) | _ => x end.
Definition xpost (s : st) (i : input) (x : xst) : xst :=
  if bheld s i then settle (mkx (stop_md (md x)) (gstop x)) else x.

(* the coroutine is alive and not at game_ended *)
Definition live_step (c : cfg) (s : st) (x : xst) (i : input) : (st * xst) * list oout :=
  let '(s1, x1, o1, k) := scan c s (xpre s i x) (blist s i) in
  if k then ((kill s1, x0), map Core o1 ++ [Killed])
  else if bheld s i && dead (xpost s i x1) then ((kill s1, x0), map Core o1 ++ [Killed])
  else ((fst (step c s i), xpost s i x1), map Core (snd (step c s i))).

(* at game_ended.  game_ended is a stop event of the game mode, and _run returns: Mode.stop -> mode_game_stopping (a queue
   event: its handler _stop_game_modes runs after the operations issued by the other handlers of game_ended have been processed
   and their starts / stops have completed).  The stop completes unless gm0's own stop is still held: then the game mode waits
   and machine.game stays set *)
Definition ged_step (c : cfg) (s : st) (x : xst) (i : input) : (st * xst) * list oout :=
  let '(s1, x1, o1, k) := scan c s x (blist s i) in
  if k then ((kill s1, x0), map Core (o1 ++ [Fin]))
  else
    let x2 := settle (xop s1 x1 (Aux StopGame)) in
    if dead x2 then ((kill s1, x0), map Core (o1 ++ [Fin]))
    else ((set_drainh false (set_pc Done s1), x2), map Core o1).

(* the coroutine has returned; the game mode waits for gm0; machine.game is still set *)
Definition wait_step (c : cfg) (s : st) (x : xst) (i : input) : (st * xst) * list oout :=
  let (s1, o1) := batch fixed c s (idle_ops i) in
  let x1 := xbatch c s x (idle_ops i) in
  if dead x1 then ((set_active false s1, x0), map Core (o1 ++ [Fin]))
  else ((s1, x1), map Core (o1 ++ [Idle (bip s1) (np s1) (pf s1)])).

Definition ostep (c : cfg) (sx : st * xst) (i : input) : (st * xst) * list oout :=
  match pc (fst sx) with
  | Done => if gstop (snd sx) then wait_step c (fst sx) (snd sx) i else (sx, [])
  | AtEv GEd => ged_step c (fst sx) (snd sx) i
  | _ => live_step c (fst sx) (snd sx) i
  end.

Fixpoint osteps (c : cfg) (sx : st * xst) (ins : list input) : (st * xst) * list oout :=
  match ins with
  | [] => (sx, [])
  | i :: r => let (sx1, o1) := ostep c sx i in let (sx2, o2) := osteps c sx1 r in (sx2, o1 ++ o2)
  end.

(* the game is over for the machine: the coroutine is gone and machine.game is cleared *)
Definition over (sx : st * xst) : bool := is_done (pc (fst sx)) && negb (gstop (snd sx)).

Fixpoint ogames (s : st) (gs : list (cfg * list input)) : list oout :=
  match gs with
  | [] => []
  | (c, ins) :: gs' =>
      let (sx1, o1) := osteps c (start_game s, x0) ins in
      map Core out0 ++ o1 ++ (if over sx1 then ogames (fst sx1) gs' else [])
  end.

Definition oenc (o : oout) : list Z := match o with Core o => enc o | Killed => [6] end.
Definition orun (gs : list (cfg * list input)) : list (list Z) := map oenc (ogames boot gs).

(* ------------------------------------------------------------------------------------------- *)
(* 1. without Aux operations the outer model is the model of Model.v *)
Definition plain_op (o : op) : bool := match o with Aux _ => false | _ => true end.
Definition plain_in (i : input) : bool :=
  forallb plain_op (ev_ops i) && forallb (forallb plain_op) (holds i) && forallb plain_op (idle_ops i).

Lemma xbatch_plain_g c x : settle x = x -> forall ops s, forallb plain_op ops = true -> xbatch c s x ops = x.
Proof.
  intro Hx. induction ops as [|o ops IH]; intros s H; cbn [xbatch]; [exact Hx|].
  cbn [forallb] in H. apply andb_true_iff in H as [Ho H].
  assert (E : xop s x o = x) by (destruct o; try reflexivity; discriminate).
  rewrite E. apply IH. exact H.
Qed.
Lemma xbatch_plain c : forall ops s, forallb plain_op ops = true -> xbatch c s x0 ops = x0.
Proof. apply xbatch_plain_g. reflexivity. Qed.

Lemma scan_plain c : forall bs s, forallb (forallb plain_op) bs = true ->
  scan c s x0 bs = (fst (batches fixed c s bs), x0, snd (batches fixed c s bs), false).
Proof.
  induction bs as [|b bs IH]; intros s H; cbn [scan batches]; [reflexivity|].
  cbn [forallb] in H. apply andb_true_iff in H as [Hb H].
  rewrite (xbatch_plain c b s Hb). cbn [dead x0 gstop andb].
  destruct (batch fixed c s b) as [s1 o1]. rewrite (IH s1 H).
  destruct (batches fixed c s1 bs) as [s2 o2]. reflexivity.
Qed.

Lemma blist_plain s i : plain_in i = true -> forallb (forallb plain_op) (blist s i) = true.
Proof.
  unfold plain_in, blist. intro H. apply andb_true_iff in H as [H H3]. apply andb_true_iff in H as [H1 H2].
  destruct (pc s) as [k| | | |]; cbn [forallb]; rewrite ?H1, ?H3; try reflexivity.
  destruct (is_queue k); [exact H2 | reflexivity].
Qed.

Lemma drainh_batch c : forall ops s, drainh (fst (batch fixed c s ops)) = drainh s.
Proof.
  induction ops as [|o ops IH]; intro s; cbn [batch].
  - cbn [fst]. apply (flush_rest fixed c s).
  - pose proof (drainh_op_st fixed c s o) as D. change (op_st fixed c s o) with (fst (apply_op fixed c s o)) in D.
    destruct (apply_op fixed c s o) as [s1 o1]. cbn [fst] in D. specialize (IH s1).
    destruct (batch fixed c s1 ops) as [s2 o2]. cbn [fst] in *. congruence.
Qed.

Lemma xpre_x0 s i : xpre s i x0 = x0.
Proof. unfold xpre. destruct (pc s) as [[]| | | |]; try reflexivity. destruct (bheld s i); reflexivity. Qed.
Lemma xpost_x0 s i : xpost s i x0 = x0.
Proof. unfold xpost. destruct (bheld s i); reflexivity. Qed.

(* for a core state whose ball_drain handler is not registered at game_ended (Restart.v: it never is), the outer step of a
   plain input is the core step *)
Lemma live_step_plain c s i : plain_in i = true ->
  live_step c s x0 i = ((fst (step c s i), x0), map Core (snd (step c s i))).
Proof.
  intro H. pose proof (blist_plain s i H) as Hb. unfold live_step.
  rewrite xpre_x0, (scan_plain c _ s Hb), xpost_x0. cbn [dead x0 gstop andb].
  rewrite andb_false_r. reflexivity.
Qed.

Lemma ged_step_plain c s i : plain_in i = true -> pc s = AtEv GEd -> drainh s = false ->
  ged_step c s x0 i = ((fst (step c s i), x0), map Core (snd (step c s i))).
Proof.
  intros H Epc Hd. pose proof (blist_plain s i H) as Hb. unfold ged_step.
  rewrite (scan_plain c _ s Hb). cbn [settle xop x0 md gstop dead is_off andb].
  unfold step, step_g, blist. rewrite Epc. cbn [is_queue batches].
  pose proof (pc_batch fixed c (ev_ops i) s) as P.
  assert (D : drainh (fst (batch fixed c s (ev_ops i))) = false) by (rewrite drainh_batch; exact Hd).
  destruct (batch fixed c s (ev_ops i)) as [s1 o1]. cbn [fst snd] in *.
  unfold advance. rewrite P, Epc. cbn [fst snd]. rewrite app_nil_r.
  unfold kill. destruct s1; cbn in *. subst. reflexivity.
Qed.

Lemma ostep_plain c s i : plain_in i = true -> (pc s = AtEv GEd -> drainh s = false) ->
  ostep c (s, x0) i = ((fst (step c s i), x0), map Core (snd (step c s i))).
Proof.
  intros H Hd. unfold ostep. cbn [fst snd].
  destruct (pc s) as [k| | | |] eqn:Epc; try (apply live_step_plain; exact H).
  - destruct k; try (apply live_step_plain; exact H). apply ged_step_plain; auto.
  - cbn [gstop x0]. unfold step, step_g. rewrite Epc. reflexivity.
Qed.

(* ------------------------------------------------------------------------------------------- *)
(* 2. a game that is over posts nothing: whatever arrives, no output and no change *)
Lemma over_ostep c sx i : over sx = true -> ostep c sx i = (sx, []).
Proof.
  destruct sx as [s x]. unfold over. cbn [fst snd]. intro H. apply andb_true_iff in H as [H1 H2].
  unfold ostep. cbn [fst snd]. destruct (pc s); try discriminate. apply negb_true_iff in H2. rewrite H2. reflexivity.
Qed.

Lemma over_osteps c : forall ins sx, over sx = true -> osteps c sx ins = (sx, []).
Proof.
  induction ins as [|i ins IH]; intros sx H; cbn [osteps]; [reflexivity|].
  rewrite (over_ostep c sx i H), (IH sx H). reflexivity.
Qed.

(* outputs of batches are observations of operations only: no lifecycle event, no end marker *)
Definition quiet (o : out) : bool := match o with OpObs _ _ | Award _ => true | _ => false end.

Lemma batch_quiet c : forall ops s, forallb quiet (snd (batch fixed c s ops)) = true.
Proof.
  induction ops as [|o ops IH]; intro s; cbn [batch]; [reflexivity|].
  destruct (apply_op fixed c s o) as [s1 o1] eqn:E.
  assert (Q : forallb quiet o1 = true).
  { replace o1 with (snd (apply_op fixed c s o)) by (rewrite E; reflexivity). destruct o; reflexivity. }
  specialize (IH s1). destruct (batch fixed c s1 ops) as [s2 o2]. cbn [snd] in *.
  rewrite forallb_app, Q, IH. reflexivity.
Qed.

Lemma scan_quiet c : forall bs s x, forallb quiet (snd (fst (scan c s x bs))) = true.
Proof.
  induction bs as [|b bs IH]; intros s x; cbn [scan]; [reflexivity|].
  pose proof (batch_quiet c b s) as Q. destruct (batch fixed c s b) as [s1 o1]. cbn [snd] in Q.
  destruct (dead (xbatch c s x b)); [exact Q|].
  specialize (IH s1 (xbatch c s x b)). destruct (scan c s1 (xbatch c s x b) bs) as [[[s2 x2] o2] k]. cbn [fst snd] in *.
  rewrite forallb_app, Q, IH. reflexivity.
Qed.

Definition oquiet (o : oout) : bool := match o with Core o => quiet o | Killed => true end.

Lemma map_core_quiet o : forallb quiet o = true -> forallb oquiet (map Core o) = true.
Proof.
  induction o as [|a o IH]; [reflexivity|]. cbn. intro Q. apply andb_true_iff in Q as [Q1 Q2]. rewrite Q1, (IH Q2). reflexivity.
Qed.

(* the step in which the stop of the game mode completes before the coroutine has returned: only observations of operations
   and the marker are output — no lifecycle event —, machine.game is cleared, the ball_drain handler is gone, and the game
   is over: by [over_osteps] nothing is ever output again *)
Definition stops_here (c : cfg) (s : st) (x : xst) (i : input) : bool :=
  let '(_, x1, _, k) := scan c s (xpre s i x) (blist s i) in k || (bheld s i && dead (xpost s i x1)).

Definition stopped_result (r : (st * xst) * list oout) : Prop :=
  over (fst r) = true /\ active (fst (fst r)) = false /\ drainh (fst (fst r)) = false /\ snd (fst r) = x0 /\
  forallb oquiet (snd r) = true /\ In Killed (snd r).

Lemma live_step_stops c s x i : stops_here c s x i = true -> stopped_result (live_step c s x i).
Proof.
  unfold stops_here, live_step. intro Hk.
  assert (K : forall s1 o1, forallb quiet o1 = true -> stopped_result (kill s1, x0, map Core o1 ++ [Killed])).
  { intros s1 o1 Q. unfold stopped_result. cbn [fst snd]. repeat split.
    - rewrite forallb_app, (map_core_quiet o1 Q). reflexivity.
    - apply in_or_app. right. left. reflexivity. }
  pose proof (scan_quiet c (blist s i) s (xpre s i x)) as Q.
  destruct (scan c s (xpre s i x) (blist s i)) as [[[s1 x1] o1] k]. cbn [fst snd] in Q.
  destruct k; [apply K; exact Q|]. cbn [orb] in Hk. rewrite Hk. apply K; exact Q.
Qed.

Lemma stopped_game_posts_nothing_l : forall c s x i, stops_here c s x i = true ->
  stopped_result (live_step c s x i) /\
  forall more, osteps c (fst (live_step c s x i)) more = (fst (live_step c s x i), []).
Proof.
  intros c s x i H. pose proof (live_step_stops c s x i H) as R. split; [exact R|].
  intro more. apply over_osteps. apply R.
Qed.

Lemma live_step_goes_on c s x i : stops_here c s x i = false ->
  fst (fst (live_step c s x i)) = fst (step c s i) /\
  snd (live_step c s x i) = map Core (snd (step c s i)).
Proof.
  unfold stops_here, live_step. intro Hk.
  destruct (scan c s (xpre s i x) (blist s i)) as [[[s1 x1] o1] k].
  destruct k; [discriminate|]. cbn [orb] in Hk. rewrite Hk. split; reflexivity.
Qed.

(* ------------------------------------------------------------------------------------------- *)
(* 3. machine.game is cleared only when no game mode is active and no stop of the game mode is pending *)
Lemma active_batch c : forall ops s, active (fst (batch fixed c s ops)) = active s.
Proof.
  induction ops as [|o ops IH]; intro s; cbn [batch].
  - cbn [fst]. destruct (misc_flush fixed c s) as (_ & A & _). exact A.
  - pose proof (Keep_apply_op fixed c s o) as (_ & _ & _ & _ & _ & A & _).
    destruct (apply_op fixed c s o) as [s1 o1]. cbn [fst] in A. specialize (IH s1).
    destruct (batch fixed c s1 ops) as [s2 o2]. cbn [fst] in *. congruence.
Qed.

Lemma active_batches c : forall bs s, active (fst (batches fixed c s bs)) = active s.
Proof.
  induction bs as [|b bs IH]; intro s; cbn [batches]; [reflexivity|].
  pose proof (active_batch c b s) as A. destruct (batch fixed c s b) as [s1 o1]. cbn [fst] in A.
  specialize (IH s1). destruct (batches fixed c s1 bs) as [s2 o2]. cbn [fst] in *. congruence.
Qed.

Lemma active_loop_head s : active (fst (loop_head s)) = active s.
Proof. unfold loop_head. destruct (ending s); [reflexivity|]. destruct (cur s =? 0)%nat; reflexivity. Qed.

Lemma active_set_bip c v s : active (set_bip c v s) = active s.
Proof. destruct (set_bip_form c v s) as [b [e ->]]. reflexivity. Qed.

Lemma active_advance c s : pc s <> AtEv GEd -> active (fst (advance fixed c s)) = active s.
Proof.
  intro H. unfold advance. destruct (pc s) as [[]| | | |]; try reflexivity; try congruence.
  - (* GSg *) destruct (0 <? np s)%nat; [reflexivity|].
    destruct (gate fixed c (set_pev false s) && own_ok c).
    + unfold add_first_player. destruct (hold_adds c); cbn;
        match goal with |- context [if ?b then _ else _] => destruct b end; reflexivity.
    + match goal with |- context [if ?b then _ else _] => destruct b end; reflexivity.
  - apply active_loop_head.
  - cbn. unfold upd_cur. destruct (cur s); reflexivity.
  - unfold after_turn. match goal with |- context [if ?b then _ else _] => destruct b end; rewrite active_loop_head; reflexivity.
  - destruct (0 <? pf s); reflexivity.
  - cbn. rewrite active_set_bip. reflexivity.
  - unfold await_end. cbn. destruct (endev s); reflexivity.
  - destruct ((0 <? pextra s)%nat && negb (slam s)); [|reflexivity]. cbn. unfold upd_cur. destruct (cur s); reflexivity.
  - unfold await_end. destruct (endev s); reflexivity.
Qed.

Lemma active_step c s i : pc s <> AtEv GEd -> active (fst (step c s i)) = active s.
Proof.
  intro H. unfold step, step_g.
  assert (W : forall (ready : st -> bool),
    active (fst (let (s1, o1) := batch fixed c s (idle_ops i) in
                 if ready s1 then let (s3, o3) := advance fixed c s1 in (s3, o1 ++ o3)
                 else (s1, o1 ++ [Idle (bip s1) (np s1) (pf s1)]))) = active s).
  { intro ready. pose proof (active_batch c (idle_ops i) s) as A. pose proof (pc_batch fixed c (idle_ops i) s) as P.
    destruct (batch fixed c s (idle_ops i)) as [s1 o1]. cbn [fst] in *.
    destruct (ready s1); [|exact A].
    assert (H1 : pc s1 <> AtEv GEd) by congruence.
    pose proof (active_advance c s1 H1) as B. destruct (advance fixed c s1) as [s3 o3]. cbn [fst] in *. congruence. }
  destruct (pc s) as [k| | | |] eqn:Epc; try apply W; [|reflexivity].
  pose proof (active_batch c (ev_ops i) s) as A. pose proof (pc_batch fixed c (ev_ops i) s) as P.
  destruct (batch fixed c s (ev_ops i)) as [s1 o1]. cbn [fst] in *.
  pose proof (active_batches c (if is_queue k then holds i else []) s1) as A2.
  pose proof (pc_batches fixed c (if is_queue k then holds i else []) s1) as P2.
  destruct (batches fixed c s1 (if is_queue k then holds i else [])) as [s2 o2]. cbn [fst] in *.
  assert (H2 : pc s2 <> AtEv GEd) by congruence.
  pose proof (active_advance c s2 H2) as B. destruct (advance fixed c s2) as [s3 o3]. cbn [fst] in *. congruence.
Qed.

Lemma scan_keeps c : forall bs s x,
  active (fst (fst (fst (scan c s x bs)))) = active s /\ pc (fst (fst (fst (scan c s x bs)))) = pc s.
Proof.
  induction bs as [|b bs IH]; intros s x; cbn [scan]; [split; reflexivity|].
  pose proof (active_batch c b s) as A. pose proof (pc_batch fixed c b s) as P.
  destruct (batch fixed c s b) as [s1 o1]. cbn [fst] in *.
  destruct (dead (xbatch c s x b)); [cbn [fst]; split; assumption|].
  specialize (IH s1 (xbatch c s x b)).
  destruct (scan c s1 (xbatch c s x b) bs) as [[[s2 x2] o2] k]. cbn [fst] in *. destruct IH; split; congruence.
Qed.

(* reachable outer states: machine.game is set, or the game is over; and whenever machine.game is cleared no game mode is
   active and no stop is pending *)
Definition Jinv (sx : st * xst) : Prop :=
  (active (fst sx) = true \/ over sx = true) /\ (active (fst sx) = false -> snd sx = x0).

Lemma Jinv_kill s (o : list oout) : Jinv (fst (kill s, x0, o)).
Proof. unfold Jinv. cbn [fst snd]. split; [right; reflexivity | intro; reflexivity]. Qed.

Lemma Jinv_ostep c sx i : Jinv sx -> Jinv (fst (ostep c sx i)).
Proof.
  intros [[HA|HO] Hj]; [|rewrite (over_ostep c sx i HO); cbn [fst]; split; [right; exact HO | exact Hj]].
  destruct sx as [s x]. cbn [fst snd] in *. unfold ostep. cbn [fst snd].
  assert (L : pc s <> AtEv GEd -> Jinv (fst (live_step c s x i))).
  { intro Hg. destruct (stops_here c s x i) eqn:Sh.
    - destruct (live_step_stops c s x i Sh) as (O & A & _ & X & _). unfold Jinv. split; [right; exact O | intros _; exact X].
    - destruct (live_step_goes_on c s x i Sh) as [E _]. unfold Jinv.
      rewrite E, (active_step c s i Hg), HA. split; [left; reflexivity | intro; discriminate]. }
  destruct (pc s) as [[]| | | |] eqn:Epc; try (apply L; congruence).
  - (* GEd *) unfold ged_step. pose proof (scan_keeps c (blist s i) s x) as [A P].
    destruct (scan c s x (blist s i)) as [[[s1 x1] o1] k]. cbn [fst] in *.
    destruct k; [apply Jinv_kill|]. destruct (dead (settle (xop s1 x1 (Aux StopGame)))); [apply Jinv_kill|].
    unfold Jinv. cbn [fst snd]. change (active (set_drainh false (set_pc Done s1))) with (active s1). rewrite A, HA.
    split; [left; reflexivity | intro; discriminate].
  - (* Done *) destruct (gstop x) eqn:G.
    + unfold wait_step. pose proof (active_batch c (idle_ops i) s) as A. pose proof (pc_batch fixed c (idle_ops i) s) as P.
      destruct (batch fixed c s (idle_ops i)) as [s1 o1]. cbn [fst] in *.
      destruct (dead (xbatch c s x (idle_ops i))).
      * unfold Jinv, over. cbn [fst snd]. change (pc (set_active false s1)) with (pc s1). rewrite P, Epc.
        split; [right; reflexivity | intro; reflexivity].
      * unfold Jinv. cbn [fst snd]. rewrite A, HA. split; [left; reflexivity | intro; discriminate].
    + cbn [fst]. unfold Jinv. cbn [fst snd]. split; [left; exact HA | exact Hj].
Qed.

Lemma Jinv_osteps c : forall ins sx, Jinv sx -> Jinv (fst (osteps c sx ins)).
Proof.
  induction ins as [|i ins IH]; intros sx H; cbn [osteps]; [exact H|].
  pose proof (Jinv_ostep c sx i H) as H1. destruct (ostep c sx i) as [sx1 o1]. cbn [fst] in H1.
  specialize (IH sx1 H1). destruct (osteps c sx1 ins) as [sx2 o2]. exact IH.
Qed.

Lemma game_cleared_only_when_modes_stopped_l : forall c s ins,
  let sx := fst (osteps c (start_game s, x0) ins) in
  active (fst sx) = false -> md (snd sx) = MOff /\ gstop (snd sx) = false.
Proof.
  intros c s ins sx H. assert (J : Jinv sx).
  { apply Jinv_osteps. unfold Jinv. cbn [fst snd]. split; [left; reflexivity | intro; reflexivity]. }
  destruct J as [_ J]. rewrite (J H). split; reflexivity.
Qed.

(* ------------------------------------------------------------------------------------------- *)
(* 4. after the stop of the game mode a new game starts clean *)
Definition Rest (c : cfg) (s : st) : Prop := pending s = 0%nat /\ rels s = [] /\ heldq s = [].

Lemma heldq_op_st c s o : heldq s = [] -> heldq (op_st fixed c s o) = [].
Proof.
  intro H. destruct o; cbn [op_st]; try exact H.
  - change (heldq (set_pf ?a ?y)) with (heldq y).
    destruct (drainh s && negb (n =? 0)); [destruct (set_bip_form c (bip s - n) s) as [b [e ->]]|]; exact H.
  - destruct (set_bip_form c (bip s + d) s) as [b [e ->]]; exact H.
  - destruct (ending s); exact H.
  - destruct (gate fixed c s && allowed); exact H.
  - rewrite H. destruct newest; exact H.
  - unfold upd_cur. destruct (cur s); exact H.
Qed.

Lemma Rest_batch c : hold_adds c = false -> forall ops s, heldq s = [] -> Rest c (fst (batch fixed c s ops)).
Proof.
  intro Hh. induction ops as [|o ops IH]; intros s H; cbn [batch].
  - cbn [fst]. unfold Rest. rewrite pending_flush. destruct (flush_rest fixed c s) as [_ R]. rewrite R.
    repeat split. unfold flush. rewrite Hh.
    repeat match goal with |- context [match ?x with _ => _ end] => destruct x end; cbn; rewrite H; reflexivity.
  - pose proof (heldq_op_st c s o H) as H1. change (op_st fixed c s o) with (fst (apply_op fixed c s o)) in H1.
    destruct (apply_op fixed c s o) as [s1 o1]. cbn [fst] in H1. specialize (IH s1 H1).
    destruct (batch fixed c s1 ops) as [s2 o2]. exact IH.
Qed.

Lemma Rest_scan c : hold_adds c = false -> forall bs s x, Rest c s -> Rest c (fst (fst (fst (scan c s x bs)))).
Proof.
  intro Hh. induction bs as [|b bs IH]; intros s x R; cbn [scan]; [exact R|].
  pose proof (Rest_batch c Hh b s (proj2 (proj2 R))) as R1. destruct (batch fixed c s b) as [s1 o1]. cbn [fst] in R1.
  destruct (dead (xbatch c s x b)); [exact R1|].
  specialize (IH s1 (xbatch c s x b) R1). destruct (scan c s1 (xbatch c s x b) bs) as [[[s2 x2] o2] k]. exact IH.
Qed.

Lemma kill_restart c s : Rest c s -> start_game (kill s) = set_pf (pf s) init.
Proof. intros (P & R & H). destruct s; cbn in *. subst. reflexivity. Qed.

Lemma new_game_after_stop_l : forall c s x i, hold_adds c = false -> Rest c s -> stops_here c s x i = true ->
  let s' := fst (fst (live_step c s x i)) in
  start_game s' = set_pf (pf s') init /\
  forall c2 ins2, osteps c2 (start_game s', x0) ins2 = osteps c2 (set_pf (pf s') init, x0) ins2.
Proof.
  intros c s x i Hh R Sh s'.
  assert (E : start_game s' = set_pf (pf s') init).
  { unfold s', live_step. unfold stops_here in Sh.
    pose proof (Rest_scan c Hh (blist s i) s (xpre s i x) R) as R1.
    destruct (scan c s (xpre s i x) (blist s i)) as [[[s1 x1] o1] k]. cbn [fst] in R1.
    destruct k; [cbn [fst]; rewrite (kill_restart c s1 R1); reflexivity|]. cbn [orb] in Sh. rewrite Sh.
    cbn [fst]. rewrite (kill_restart c s1 R1). reflexivity. }
  split; [exact E|]. intros. rewrite E. reflexivity.
Qed.

(* ------------------------------------------------------------------------------------------- *)
(* 5. the trace of a game that is stopped from outside is, up to the stop, a prefix of a trace of the coroutine model:
   every theorem about traces that is a statement of a (prefix-closed) monitor carries over to stopped games *)
Lemma scan_prefix c : forall bs s x,
  exists n, batches fixed c s (firstn n bs) = (fst (fst (fst (scan c s x bs))), snd (fst (scan c s x bs))) /\
            (snd (scan c s x bs) = true -> (1 <= n)%nat) /\ (snd (scan c s x bs) = false -> firstn n bs = bs).
Proof.
  induction bs as [|b bs IH]; intros s x; cbn [scan].
  - exists 0%nat. cbn. repeat split; auto; discriminate.
  - destruct (batch fixed c s b) as [s1 o1] eqn:Eb. destruct (dead (xbatch c s x b)).
    + exists 1%nat. cbn [firstn batches fst snd]. rewrite Eb. cbn. rewrite app_nil_r. repeat split; auto; discriminate.
    + destruct (IH s1 (xbatch c s x b)) as [n [E [K1 K2]]].
      destruct (scan c s1 (xbatch c s x b) bs) as [[[s2 x2] o2] k]. cbn [fst snd] in *.
      exists (S n). cbn [firstn batches]. rewrite Eb, E. repeat split; [lia | intro Hk; rewrite (K2 Hk); reflexivity].
Qed.

Lemma step_prefix_batches c s i n : (1 <= n)%nat \/ firstn n (blist s i) = blist s i ->
  exists i' rest, snd (step c s i') = snd (batches fixed c s (firstn n (blist s i))) ++ rest.
Proof.
  unfold blist, step, step_g. destruct (pc s) as [k| | | |] eqn:Epc; intro Hn.
  - (* AtEv k *)
    destruct n as [|m].
    + destruct Hn as [Hn|Hn]; [lia | cbn in Hn; discriminate].
    + cbn [firstn batches]. set (hs := if is_queue k then holds i else []).
      exists (mkin (ev_ops i) (firstn m hs) (idle_ops i)). cbn [ev_ops holds].
      assert (Eh : (if is_queue k then firstn m hs else []) = firstn m hs).
      { unfold hs. destruct (is_queue k); [reflexivity | destruct m; reflexivity]. }
      rewrite Eh. destruct (batch fixed c s (ev_ops i)) as [s1 o1].
      destruct (batches fixed c s1 (firstn m hs)) as [s2 o2]. destruct (advance fixed c s2) as [s3 o3].
      exists o3. cbn [snd]. rewrite app_assoc. reflexivity.
  - (* WaitBall *)
    destruct n as [|m]; [destruct Hn as [Hn|Hn]; [lia | cbn in Hn; discriminate]|].
    exists i. cbn [firstn batches]. replace (firstn m (@nil (list op))) with (@nil (list op)) by (destruct m; reflexivity).
    cbn [batches]. destruct (batch fixed c s (idle_ops i)) as [s1 o1]. rewrite app_nil_r.
    destruct (endev s1); [destruct (advance fixed c s1) as [s3 o3]; exists o3; reflexivity | eexists; reflexivity].
  - (* WaitPlayer *)
    destruct n as [|m]; [destruct Hn as [Hn|Hn]; [lia | cbn in Hn; discriminate]|].
    exists i. cbn [firstn batches]. replace (firstn m (@nil (list op))) with (@nil (list op)) by (destruct m; reflexivity).
    cbn [batches]. destruct (batch fixed c s (idle_ops i)) as [s1 o1]. rewrite app_nil_r.
    destruct (wait_player_ready fixed s1); [destruct (advance fixed c s1) as [s3 o3]; exists o3; reflexivity | eexists; reflexivity].
  - (* WaitEmpty *)
    destruct n as [|m]; [destruct Hn as [Hn|Hn]; [lia | cbn in Hn; discriminate]|].
    exists i. cbn [firstn batches]. replace (firstn m (@nil (list op))) with (@nil (list op)) by (destruct m; reflexivity).
    cbn [batches]. destruct (batch fixed c s (idle_ops i)) as [s1 o1]. rewrite app_nil_r.
    destruct (pf s1 <=? 0); [destruct (advance fixed c s1) as [s3 o3]; exists o3; reflexivity | eexists; reflexivity].
  - (* Done *)
    exists i, []. destruct n; reflexivity.
Qed.

Lemma live_step_prefix c s x i : stops_here c s x i = true ->
  exists o1 i' rest, snd (live_step c s x i) = map Core o1 ++ [Killed] /\ snd (step c s i') = o1 ++ rest.
Proof.
  unfold stops_here, live_step. intro Sh.
  destruct (scan_prefix c (blist s i) s (xpre s i x)) as [n [E [K1 K2]]].
  destruct (scan c s (xpre s i x) (blist s i)) as [[[s1 x1] o1] k]. cbn [fst snd] in *.
  assert (Hn : (1 <= n)%nat \/ firstn n (blist s i) = blist s i) by (destruct k; [left; auto | right; auto]).
  destruct (step_prefix_batches c s i n Hn) as [i' [rest R]]. rewrite E in R. cbn [snd] in R.
  exists o1, i', rest. split; [|exact R].
  destruct k; [reflexivity|]. cbn [orb] in Sh. rewrite Sh. reflexivity.
Qed.

Lemma mrun_prefix {M} (mstep : M -> out -> option M) m a b m' :
  mrun mstep m (a ++ b) = Some m' -> exists m1, mrun mstep m a = Some m1.
Proof. rewrite mrun_app. destruct (mrun mstep m a) as [m1|]; [eauto | discriminate]. Qed.

(* the trace of a game up to an external stop in the next step *)
Lemma stopped_trace_prefix_l : forall c ins x i, stops_here c (final c ins) x i = true ->
  exists o1 i' rest,
    snd (live_step c (final c ins) x i) = map Core o1 ++ [Killed] /\
    trace c (ins ++ [i']) = (trace c ins ++ o1) ++ rest.
Proof.
  intros c ins x i Sh. destruct (live_step_prefix c (final c ins) x i Sh) as [o1 [i' [rest [E R]]]].
  exists o1, i', rest. split; [exact E|].
  unfold trace, final, steps in *. rewrite steps_app. destruct (steps_g fixed c init ins) as [s1 oa]. cbn [fst snd] in *.
  cbn [steps_g]. unfold step in R. destruct (step_g fixed c s1 i') as [s2 ob]. cbn [snd] in *. subst ob.
  rewrite app_nil_r, <- !app_assoc. reflexivity.
Qed.

Lemma stopped_trace_in_grammar_l : forall c ins x i, stops_here c (final c ins) x i = true ->
  exists o1, snd (live_step c (final c ins) x i) = map Core o1 ++ [Killed] /\ in_grammar (trace c ins ++ o1).
Proof.
  intros c ins x i Sh. destruct (stopped_trace_prefix_l c ins x i Sh) as [o1 [i' [rest [E T]]]].
  exists o1. split; [exact E|]. destruct (lifecycle_trace_in_grammar_l c (ins ++ [i'])) as [g G]. rewrite T in G.
  destruct (mrun_prefix gstep G0 _ _ _ G) as [g1 G1]. exists g1. exact G1.
Qed.
