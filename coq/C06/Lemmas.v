(* C06/Lemmas.v — proofs about the lifecycle model. *)
From Common Require Import Prelude.
From C06 Require Import Model.
Open Scope Z_scope.

(* ------------------------------------------------------------------------------------------- *)
(* A generic "monitor" theorem: a monitor automaton over the output trace stays defined, and a relation between
   model state and monitor state is maintained, provided this holds for one operation, for flush, for the coroutine
   advancing to its next suspension, and for an idle observation. *)
Section Monitor.
  Context {M : Type}.
  Variable mstep : M -> out -> option M.

  Fixpoint mrun (m : M) (outs : list out) : option M :=
    match outs with
    | [] => Some m
    | o :: r => match mstep m o with Some m' => mrun m' r | None => None end
    end.

  Lemma mrun_app m a b :
    mrun m (a ++ b) = match mrun m a with Some m' => mrun m' b | None => None end.
  Proof.
    revert m; induction a as [|o a IH]; intro m; cbn; [reflexivity|].
    destruct (mstep m o); [apply IH | reflexivity].
  Qed.

  Variables (v : variant) (c : cfg) (Rm Rb : st -> M -> Prop).
  Hypothesis H_open : forall s m, Rb s m -> Rm s m.
  Hypothesis H_op : forall s m o, Rm s m ->
    exists m', mrun m (snd (apply_op v c s o)) = Some m' /\ Rm (fst (apply_op v c s o)) m'.
  Hypothesis H_flush : forall s m, Rm s m -> Rb (flush s) m.
  Hypothesis H_adv : forall s m, Rb s m ->
    exists m', mrun m (snd (advance v c s)) = Some m' /\ Rb (fst (advance v c s)) m'.
  Hypothesis H_idle : forall s m, Rb s m ->
    exists m', mstep m (Idle (bip s) (np s)) = Some m' /\ Rb s m'.

  Lemma mon_batch : forall ops s m, Rm s m ->
    exists m', mrun m (snd (batch v c s ops)) = Some m' /\ Rb (fst (batch v c s ops)) m'.
  Proof.
    induction ops as [|o ops IH]; intros s m H; cbn [batch].
    - exists m; split; [reflexivity | apply H_flush; exact H].
    - destruct (H_op s m o H) as [m1 [E1 R1]].
      destruct (apply_op v c s o) as [s1 o1]; cbn [fst snd] in *.
      destruct (IH s1 m1 R1) as [m2 [E2 R2]].
      destruct (batch v c s1 ops) as [s2 o2]; cbn [fst snd] in *.
      exists m2; split; [|exact R2]. rewrite mrun_app, E1. exact E2.
  Qed.

  Lemma mon_batches : forall bs s m, Rb s m ->
    exists m', mrun m (snd (batches v c s bs)) = Some m' /\ Rb (fst (batches v c s bs)) m'.
  Proof.
    induction bs as [|b bs IH]; intros s m H; cbn [batches].
    - exists m; split; [reflexivity | exact H].
    - destruct (mon_batch b s m (H_open _ _ H)) as [m1 [E1 R1]].
      destruct (batch v c s b) as [s1 o1]; cbn [fst snd] in *.
      destruct (IH s1 m1 R1) as [m2 [E2 R2]].
      destruct (batches v c s1 bs) as [s2 o2]; cbn [fst snd] in *.
      exists m2; split; [|exact R2]. rewrite mrun_app, E1. exact E2.
  Qed.

  Lemma mon_wait : forall s m ops (ready : st -> bool), Rb s m ->
    exists m',
      mrun m (snd (let (s1, o1) := batch v c s ops in
                   if ready s1 then let (s3, o3) := advance v c s1 in (s3, o1 ++ o3)
                   else (s1, o1 ++ [Idle (bip s1) (np s1)]))) = Some m' /\
      Rb (fst (let (s1, o1) := batch v c s ops in
               if ready s1 then let (s3, o3) := advance v c s1 in (s3, o1 ++ o3)
               else (s1, o1 ++ [Idle (bip s1) (np s1)]))) m'.
  Proof.
    intros s m ops ready H.
    destruct (mon_batch ops s m (H_open _ _ H)) as [m1 [E1 R1]].
    destruct (batch v c s ops) as [s1 o1]; cbn [fst snd] in *.
    destruct (ready s1).
    - destruct (H_adv s1 m1 R1) as [m3 [E3 R3]].
      destruct (advance v c s1) as [s3 o3]; cbn [fst snd] in *.
      exists m3; split; [|exact R3]. rewrite mrun_app, E1. exact E3.
    - destruct (H_idle s1 m1 R1) as [m3 [E3 R3]].
      exists m3; split; [|exact R3]. cbn [fst snd]. rewrite mrun_app, E1. cbn. rewrite E3. reflexivity.
  Qed.

  Lemma mon_step : forall s m i, Rb s m ->
    exists m', mrun m (snd (step_g v c s i)) = Some m' /\ Rb (fst (step_g v c s i)) m'.
  Proof.
    intros s m i H. unfold step_g. destruct (pc s) as [k| | |].
    - destruct (mon_batch (ev_ops i) s m (H_open _ _ H)) as [m1 [E1 R1]].
      destruct (batch v c s (ev_ops i)) as [s1 o1]; cbn [fst snd] in *.
      destruct (mon_batches (if is_queue k then holds i else []) s1 m1 R1) as [m2 [E2 R2]].
      destruct (batches v c s1 (if is_queue k then holds i else [])) as [s2 o2]; cbn [fst snd] in *.
      destruct (H_adv s2 m2 R2) as [m3 [E3 R3]].
      destruct (advance v c s2) as [s3 o3]; cbn [fst snd] in *.
      exists m3; split; [|exact R3]. rewrite mrun_app, E1, mrun_app, E2. exact E3.
    - apply (mon_wait s m (idle_ops i) endev H).
    - apply (mon_wait s m (idle_ops i) (wait_player_ready v) H).
    - exists m; split; [reflexivity | exact H].
  Qed.

  Lemma mon_steps : forall ins s m, Rb s m ->
    exists m', mrun m (snd (steps_g v c s ins)) = Some m' /\ Rb (fst (steps_g v c s ins)) m'.
  Proof.
    induction ins as [|i ins IH]; intros s m H; cbn [steps_g].
    - exists m; split; [reflexivity | exact H].
    - destruct (mon_step s m i H) as [m1 [E1 R1]].
      destruct (step_g v c s i) as [s1 o1]; cbn [fst snd] in *.
      destruct (IH s1 m1 R1) as [m2 [E2 R2]].
      destruct (steps_g v c s1 ins) as [s2 o2]; cbn [fst snd] in *.
      exists m2; split; [|exact R2]. rewrite mrun_app, E1. exact E2.
  Qed.
End Monitor.

(* ------------------------------------------------------------------------------------------- *)
(* small facts *)
Lemma steps_app v c : forall a b s,
  steps_g v c s (a ++ b) =
  let (s1, o1) := steps_g v c s a in let (s2, o2) := steps_g v c s1 b in (s2, o1 ++ o2).
Proof.
  induction a as [|i a IH]; intros b s; cbn [steps_g app].
  - destruct (steps_g v c s b); reflexivity.
  - destruct (step_g v c s i) as [s1 o1]. rewrite IH.
    destruct (steps_g v c s1 a) as [s2 o2]. destruct (steps_g v c s2 b) as [s3 o3].
    rewrite app_assoc. reflexivity.
Qed.

Lemma steps_done v c : forall ins s, pc s = Done -> steps_g v c s ins = (s, []).
Proof.
  induction ins as [|i ins IH]; intros s H; cbn [steps_g]; [reflexivity|].
  unfold step_g. rewrite H. rewrite (IH s H). reflexivity.
Qed.

Lemma clamp_bounds c x : 0 <= nbk c -> 0 <= clamp c x <= nbk c.
Proof.
  intro H. unfold clamp.
  destruct (nbk c <? x) eqn:E1; [lia|]. apply Z.ltb_ge in E1.
  destruct (x <? 0) eqn:E2; [lia|]. apply Z.ltb_ge in E2. lia.
Qed.

Lemma bip_set_bip c x s : bip (set_bip c x s) = clamp c x.
Proof. unfold set_bip. destruct (negb (bip s =? 0) && (clamp c x =? 0)); reflexivity. Qed.

Lemma bip_upd_cur f s : bip (upd_cur f s) = bip s.
Proof. unfold upd_cur. destruct (cur s); reflexivity. Qed.

(* ------------------------------------------------------------------------------------------- *)
(* A. balls in play stays within [0, num_balls_known] — in every state and in every observation of the trace *)
Definition bp_ok (c : cfg) (o : out) : Prop :=
  match o with
  | Ev _ _ _ _ bp _ => 0 <= bp <= nbk c
  | Idle bp _ => 0 <= bp <= nbk c
  | _ => True
  end.
Definition bp_okb (c : cfg) (o : out) : bool :=
  match o with
  | Ev _ _ _ _ bp _ => (0 <=? bp) && (bp <=? nbk c)
  | Idle bp _ => (0 <=? bp) && (bp <=? nbk c)
  | _ => true
  end.
Definition bstep (c : cfg) (m : unit) (o : out) : option unit := if bp_okb c o then Some tt else None.

Lemma bp_okb_ok c o : bp_okb c o = true <-> bp_ok c o.
Proof.
  destruct o; cbn; try (split; auto; fail);
    rewrite andb_true_iff, Z.leb_le, Z.leb_le; tauto.
Qed.

Lemma brun_forall c : forall outs m m', mrun (bstep c) m outs = Some m' -> Forall (bp_ok c) outs.
Proof.
  induction outs as [|o outs IH]; intros m m' H; [constructor|].
  cbn in H. unfold bstep in H at 1. destruct (bp_okb c o) eqn:E; [|discriminate].
  constructor; [apply bp_okb_ok; exact E | eapply IH; exact H].
Qed.

Definition Rbip (c : cfg) (s : st) (m : unit) : Prop := 0 <= bip s <= nbk c.

Lemma bstep_ev c k s m : Rbip c s m -> bstep c m (ev_of k s) = Some tt.
Proof.
  unfold Rbip, bstep, ev_of; cbn. intros [H1 H2].
  apply Z.leb_le in H1. apply Z.leb_le in H2. rewrite H1, H2. reflexivity.
Qed.

Lemma goto_bip c k s m : Rbip c s m ->
  exists m', mrun (bstep c) m (snd (goto k s)) = Some m' /\ Rbip c (fst (goto k s)) m'.
Proof.
  intro H. exists tt. cbn [goto fst snd mrun]. rewrite (bstep_ev c k s m H). split; [reflexivity|exact H].
Qed.

Lemma loop_head_bip c s m : Rbip c s m ->
  exists m', mrun (bstep c) m (snd (loop_head s)) = Some m' /\ Rbip c (fst (loop_head s)) m'.
Proof.
  intro H. unfold loop_head. destruct (ending s); [apply goto_bip; exact H|].
  apply goto_bip. destruct (cur s =? 0)%nat; exact H.
Qed.

Lemma bip_bounds_l : forall c ins, 0 <= nbk c ->
  Forall (bp_ok c) (trace c ins) /\ 0 <= bip (final c ins) <= nbk c.
Proof.
  intros c ins Hn.
  assert (HS : exists m', mrun (bstep c) tt (snd (steps c init ins)) = Some m' /\
                          Rbip c (fst (steps c init ins)) m').
  { unfold steps. apply (mon_steps (bstep c) fixed c (Rbip c) (Rbip c)).
    - auto.
    - intros s m o H. destruct m. exists tt. unfold Rbip in *.
      destruct o; cbn [apply_op fst snd mrun]; (split; [reflexivity|]).
      + destruct (drainh s && negb (n =? 0)); [rewrite bip_set_bip; apply clamp_bounds; exact Hn | exact H].
      + rewrite bip_set_bip; apply clamp_bounds; exact Hn.
      + exact H.
      + exact H.
      + destruct (ending s); exact H.
      + destruct (gate fixed c s && allowed); exact H.
      + rewrite bip_upd_cur. exact H.
    - intros s m H. unfold Rbip, flush in *.
      destruct (cur s); [destruct (players s ++ repeat (0%nat, 0%nat) (pending s))|]; exact H.
    - intros s m H. unfold advance.
      assert (G : forall k s', Rbip c s' m ->
                exists m', mrun (bstep c) m (snd (goto k s')) = Some m' /\ Rbip c (fst (goto k s')) m')
        by (intros; apply goto_bip; assumption).
      assert (Z0 : forall s', Rbip c (set_bipraw 0 s') m) by (intro; unfold Rbip; cbn; lia).
      destruct (pc s) as [[]| | |]; try (apply G; exact H).
      + (* GSg *) destruct (0 <? np s)%nat; [apply G; exact H|].
        destruct (gate fixed c s && own_ok c).
        * cbn [fix_wait fixed]. destruct (true && ending (add_first_player s) || (0 <? np (add_first_player s))%nat);
            [apply G; exact H | exists m; split; [reflexivity|exact H]].
        * destruct (fix_wait fixed && ending s || (0 <? np s)%nat);
            [apply G; exact H | exists m; split; [reflexivity|exact H]].
      + (* GSd *) apply loop_head_bip; exact H.
      + (* GEd *) exists m. cbn. split; [reflexivity | exact H].
      + (* PTSg *) apply G. unfold Rbip in *. cbn. rewrite bip_upd_cur. exact H.
      + (* PTSd *) unfold run_ball. apply G. exact H.
      + (* PTEd *) unfold after_turn.
        destruct (slam (set_tactive false s) || _); apply loop_head_bip; unfold Rbip, rotate in *; cbn; exact H.
      + (* BSg *) apply G. unfold Rbip. rewrite bip_set_bip. apply clamp_bounds; exact Hn.
      + (* BSd *) unfold await_end. destruct (endev s); [unfold end_ball; apply G; apply Z0 | exists m; split; [reflexivity|exact H]].
      + (* BEd *) destruct ((0 <? pextra s)%nat && negb (slam s)); [|apply G; exact H].
        unfold run_ball. apply G. unfold Rbip in *. cbn. rewrite bip_upd_cur. exact H.
      + (* WaitBall *) unfold await_end. destruct (endev s); [unfold end_ball; apply G; apply Z0 | exists m; split; [reflexivity|exact H]].
      + (* Done *) exists m; split; [reflexivity|exact H].
    - intros s m H. exists tt. split; [|exact H]. unfold bstep, bp_okb. unfold Rbip in H. destruct H as [H1 H2].
      apply Z.leb_le in H1. apply Z.leb_le in H2. rewrite H1, H2. reflexivity.
    - unfold Rbip, init; cbn; lia. }
  destruct HS as [m' [E R]]. split.
  - unfold trace. apply Forall_app. split.
    + repeat constructor; cbn; lia.
    + eapply brun_forall; exact E.
  - exact R.
Qed.
