(* C06/Lemmas.v — proofs about the lifecycle model. *)
From Common Require Import Prelude.
From C06 Require Import Model.
Open Scope Z_scope.

(* operations and flush never move the coroutine *)
Lemma pc_upd_cur f s : pc (upd_cur f s) = pc s.
Proof. unfold upd_cur. destruct (cur s); reflexivity. Qed.

Lemma pc_set_bip c x s : pc (set_bip c x s) = pc s.
Proof. unfold set_bip. destruct (negb (bip s =? 0) && (clamp c x =? 0)); reflexivity. Qed.

Lemma pc_apply_op v c s o : pc (fst (apply_op v c s o)) = pc s.
Proof.
  destruct o; cbn [apply_op op_st fst].
  - change (pc (set_pf ?a ?x)) with (pc x). destruct (drainh s && negb (n =? 0)); [apply pc_set_bip | reflexivity].
  - reflexivity.
  - apply pc_set_bip.
  - reflexivity.
  - reflexivity.
  - destruct (ending s); reflexivity.
  - destruct (gate v c s && allowed); reflexivity.
  - destruct (if newest then rev (heldq s) else heldq s); reflexivity.
  - apply pc_upd_cur.
  - reflexivity.
Qed.

Ltac flush_cases :=
  unfold flush;
  repeat match goal with |- context [match ?x with _ => _ end] => destruct x eqn:? end.

Lemma pc_flush v c s : pc (flush v c s) = pc s.
Proof. flush_cases; reflexivity. Qed.

Lemma pc_batch v c : forall ops s, pc (fst (batch v c s ops)) = pc s.
Proof.
  induction ops as [|o ops IH]; intro s; cbn [batch].
  - apply pc_flush.
  - pose proof (pc_apply_op v c s o) as E. destruct (apply_op v c s o) as [s1 o1]; cbn [fst] in E.
    specialize (IH s1). destruct (batch v c s1 ops) as [s2 o2]; cbn [fst] in *. congruence.
Qed.

Lemma pc_batches v c : forall bs s, pc (fst (batches v c s bs)) = pc s.
Proof.
  induction bs as [|b bs IH]; intro s; cbn [batches]; [reflexivity|].
  pose proof (pc_batch v c b s) as E. destruct (batch v c s b) as [s1 o1]; cbn [fst] in E.
  specialize (IH s1). destruct (batches v c s1 bs) as [s2 o2]; cbn [fst] in *. congruence.
Qed.

(* the coroutine is only resumed from a wait when the awaited asyncio.Event is set *)
Definition enabled (v : variant) (s : st) : Prop :=
  match pc s with
  | WaitBall => endev s = true
  | WaitPlayer => wait_player_ready v s = true
  | WaitEmpty => (pf s <=? 0) = true
  | _ => True
  end.

(* the coroutine stays suspended after an idle batch exactly when the awaited condition does not hold *)
Definition waiting (v : variant) (s : st) : Prop :=
  match pc s with
  | WaitBall => endev s = false
  | WaitPlayer => wait_player_ready v s = false
  | WaitEmpty => (pf s <=? 0) = false
  | _ => False
  end.

(* ------------------------------------------------------------------------------------------- *)
(* A generic "monitor" theorem: a monitor automaton over the output trace stays defined, and a relation between
   model state and monitor state is maintained, provided this holds for one operation, for flush, for the coroutine
   advancing to its next suspension, and for an idle observation. *)
Section Monitor.
  Context {M : Type}.
  Variable mstep : M -> out -> option M.

  Fixpoint mrun (m : M) (outs : list out) : option M :=
    match outs with
    | [] => Some m
    | o :: r => match mstep m o with Some m' => mrun m' r | None => None end
    end.

  Lemma mrun_app m a b :
    mrun m (a ++ b) = match mrun m a with Some m' => mrun m' b | None => None end.
  Proof.
    revert m; induction a as [|o a IH]; intro m; cbn; [reflexivity|].
    destruct (mstep m o); [apply IH | reflexivity].
  Qed.

  Variables (v : variant) (c : cfg) (Rm Rb : st -> M -> Prop).
  Hypothesis H_open : forall s m, Rb s m -> Rm s m.
  Hypothesis H_op : forall s m o, Rm s m ->
    exists m', mrun m (snd (apply_op v c s o)) = Some m' /\ Rm (fst (apply_op v c s o)) m'.
  Hypothesis H_flush : forall s m, Rm s m -> Rb (flush v c s) m.
  Hypothesis H_adv : forall s m, Rb s m -> enabled v s ->
    exists m', mrun m (snd (advance v c s)) = Some m' /\ Rb (fst (advance v c s)) m'.
  Hypothesis H_idle : forall s m, Rb s m -> waiting v s ->
    exists m', mstep m (Idle (bip s) (np s) (pf s)) = Some m' /\ Rb s m'.

  Lemma mon_batch : forall ops s m, Rm s m ->
    exists m', mrun m (snd (batch v c s ops)) = Some m' /\ Rb (fst (batch v c s ops)) m'.
  Proof.
    induction ops as [|o ops IH]; intros s m H; cbn [batch].
    - exists m; split; [reflexivity | apply H_flush; exact H].
    - destruct (H_op s m o H) as [m1 [E1 R1]].
      destruct (apply_op v c s o) as [s1 o1]; cbn [fst snd] in *.
      destruct (IH s1 m1 R1) as [m2 [E2 R2]].
      destruct (batch v c s1 ops) as [s2 o2]; cbn [fst snd] in *.
      exists m2; split; [|exact R2]. rewrite mrun_app, E1. exact E2.
  Qed.

  Lemma mon_batches : forall bs s m, Rb s m ->
    exists m', mrun m (snd (batches v c s bs)) = Some m' /\ Rb (fst (batches v c s bs)) m'.
  Proof.
    induction bs as [|b bs IH]; intros s m H; cbn [batches].
    - exists m; split; [reflexivity | exact H].
    - destruct (mon_batch b s m (H_open _ _ H)) as [m1 [E1 R1]].
      destruct (batch v c s b) as [s1 o1]; cbn [fst snd] in *.
      destruct (IH s1 m1 R1) as [m2 [E2 R2]].
      destruct (batches v c s1 bs) as [s2 o2]; cbn [fst snd] in *.
      exists m2; split; [|exact R2]. rewrite mrun_app, E1. exact E2.
  Qed.

  Lemma mon_wait : forall s m ops (ready : st -> bool), Rb s m ->
    (forall s1, pc s1 = pc s -> ready s1 = true -> enabled v s1) ->
    (forall s1, pc s1 = pc s -> ready s1 = false -> waiting v s1) ->
    exists m',
      mrun m (snd (let (s1, o1) := batch v c s ops in
                   if ready s1 then let (s3, o3) := advance v c s1 in (s3, o1 ++ o3)
                   else (s1, o1 ++ [Idle (bip s1) (np s1) (pf s1)]))) = Some m' /\
      Rb (fst (let (s1, o1) := batch v c s ops in
               if ready s1 then let (s3, o3) := advance v c s1 in (s3, o1 ++ o3)
               else (s1, o1 ++ [Idle (bip s1) (np s1) (pf s1)]))) m'.
  Proof.
    intros s m ops ready H Hen Hwt.
    destruct (mon_batch ops s m (H_open _ _ H)) as [m1 [E1 R1]].
    pose proof (pc_batch v c ops s) as Epc.
    destruct (batch v c s ops) as [s1 o1]; cbn [fst snd] in *.
    destruct (ready s1) eqn:Er.
    - destruct (H_adv s1 m1 R1 (Hen s1 Epc Er)) as [m3 [E3 R3]].
      destruct (advance v c s1) as [s3 o3]; cbn [fst snd] in *.
      exists m3; split; [|exact R3]. rewrite mrun_app, E1. exact E3.
    - destruct (H_idle s1 m1 R1 (Hwt s1 Epc Er)) as [m3 [E3 R3]].
      exists m3; split; [|exact R3]. cbn [fst snd]. rewrite mrun_app, E1. cbn. rewrite E3. reflexivity.
  Qed.

  Lemma mon_step : forall s m i, Rb s m ->
    exists m', mrun m (snd (step_g v c s i)) = Some m' /\ Rb (fst (step_g v c s i)) m'.
  Proof.
    intros s m i H. unfold step_g. destruct (pc s) as [k| | | |] eqn:Epc.
    - destruct (mon_batch (ev_ops i) s m (H_open _ _ H)) as [m1 [E1 R1]].
      pose proof (pc_batch v c (ev_ops i) s) as P1.
      destruct (batch v c s (ev_ops i)) as [s1 o1]; cbn [fst snd] in *.
      destruct (mon_batches (if is_queue k then holds i else []) s1 m1 R1) as [m2 [E2 R2]].
      pose proof (pc_batches v c (if is_queue k then holds i else []) s1) as P2.
      destruct (batches v c s1 (if is_queue k then holds i else [])) as [s2 o2]; cbn [fst snd] in *.
      assert (En : enabled v s2) by (unfold enabled; rewrite P2, P1, Epc; exact I).
      destruct (H_adv s2 m2 R2 En) as [m3 [E3 R3]].
      destruct (advance v c s2) as [s3 o3]; cbn [fst snd] in *.
      exists m3; split; [|exact R3]. rewrite mrun_app, E1, mrun_app, E2. exact E3.
    - apply (mon_wait s m (idle_ops i) endev H).
      + intros s1 P1 Er. unfold enabled. rewrite P1, Epc. exact Er.
      + intros s1 P1 Er. unfold waiting. rewrite P1, Epc. exact Er.
    - apply (mon_wait s m (idle_ops i) (wait_player_ready v) H).
      + intros s1 P1 Er. unfold enabled. rewrite P1, Epc. exact Er.
      + intros s1 P1 Er. unfold waiting. rewrite P1, Epc. exact Er.
    - apply (mon_wait s m (idle_ops i) (fun x => pf x <=? 0) H).
      + intros s1 P1 Er. unfold enabled. rewrite P1, Epc. exact Er.
      + intros s1 P1 Er. unfold waiting. rewrite P1, Epc. exact Er.
    - exists m; split; [reflexivity | exact H].
  Qed.

  Lemma mon_steps : forall ins s m, Rb s m ->
    exists m', mrun m (snd (steps_g v c s ins)) = Some m' /\ Rb (fst (steps_g v c s ins)) m'.
  Proof.
    induction ins as [|i ins IH]; intros s m H; cbn [steps_g].
    - exists m; split; [reflexivity | exact H].
    - destruct (mon_step s m i H) as [m1 [E1 R1]].
      destruct (step_g v c s i) as [s1 o1]; cbn [fst snd] in *.
      destruct (IH s1 m1 R1) as [m2 [E2 R2]].
      destruct (steps_g v c s1 ins) as [s2 o2]; cbn [fst snd] in *.
      exists m2; split; [|exact R2]. rewrite mrun_app, E1. exact E2.
  Qed.
End Monitor.

(* ------------------------------------------------------------------------------------------- *)
(* small facts *)
Lemma steps_app v c : forall a b s,
  steps_g v c s (a ++ b) =
  let (s1, o1) := steps_g v c s a in let (s2, o2) := steps_g v c s1 b in (s2, o1 ++ o2).
Proof.
  induction a as [|i a IH]; intros b s; cbn [steps_g app].
  - destruct (steps_g v c s b); reflexivity.
  - destruct (step_g v c s i) as [s1 o1]. rewrite IH.
    destruct (steps_g v c s1 a) as [s2 o2]. destruct (steps_g v c s2 b) as [s3 o3].
    rewrite app_assoc. reflexivity.
Qed.

Lemma steps_done v c : forall ins s, pc s = Done -> steps_g v c s ins = (s, []).
Proof.
  induction ins as [|i ins IH]; intros s H; cbn [steps_g]; [reflexivity|].
  unfold step_g. rewrite H. rewrite (IH s H). reflexivity.
Qed.

Lemma clamp_bounds c x : 0 <= nbk c -> 0 <= clamp c x <= nbk c.
Proof.
  intro H. unfold clamp.
  destruct (nbk c <? x) eqn:E1; [lia|]. apply Z.ltb_ge in E1.
  destruct (x <? 0) eqn:E2; [lia|]. apply Z.ltb_ge in E2. lia.
Qed.

Lemma bip_set_bip c x s : bip (set_bip c x s) = clamp c x.
Proof. unfold set_bip. destruct (negb (bip s =? 0) && (clamp c x =? 0)); reflexivity. Qed.

Lemma bip_upd_cur f s : bip (upd_cur f s) = bip s.
Proof. unfold upd_cur. destruct (cur s); reflexivity. Qed.

(* ------------------------------------------------------------------------------------------- *)
(* A. balls in play stays within [0, num_balls_known] — in every state and in every observation of the trace *)
Definition bp_ok (c : cfg) (o : out) : Prop :=
  match o with
  | Ev _ _ _ _ bp _ => 0 <= bp <= nbk c
  | Idle bp _ _ => 0 <= bp <= nbk c
  | OpObs _ bp => 0 <= bp <= nbk c
  | _ => True
  end.
Definition bp_okb (c : cfg) (o : out) : bool :=
  match o with
  | Ev _ _ _ _ bp _ => (0 <=? bp) && (bp <=? nbk c)
  | Idle bp _ _ => (0 <=? bp) && (bp <=? nbk c)
  | OpObs _ bp => (0 <=? bp) && (bp <=? nbk c)
  | _ => true
  end.
Definition bstep (c : cfg) (m : unit) (o : out) : option unit := if bp_okb c o then Some tt else None.

Lemma bp_okb_ok c o : bp_okb c o = true <-> bp_ok c o.
Proof.
  destruct o; cbn; try (split; auto; fail);
    rewrite andb_true_iff, Z.leb_le, Z.leb_le; tauto.
Qed.

Lemma brun_forall c : forall outs m m', mrun (bstep c) m outs = Some m' -> Forall (bp_ok c) outs.
Proof.
  induction outs as [|o outs IH]; intros m m' H; [constructor|].
  cbn in H. unfold bstep in H at 1. destruct (bp_okb c o) eqn:E; [|discriminate].
  constructor; [apply bp_okb_ok; exact E | eapply IH; exact H].
Qed.

Definition Rbip (c : cfg) (s : st) (m : unit) : Prop := 0 <= bip s <= nbk c.

Lemma bstep_ev c k s m : Rbip c s m -> bstep c m (ev_of k s) = Some tt.
Proof.
  unfold Rbip, bstep, ev_of; cbn. intros [H1 H2].
  apply Z.leb_le in H1. apply Z.leb_le in H2. rewrite H1, H2. reflexivity.
Qed.

Lemma goto_bip c k s m : Rbip c s m ->
  exists m', mrun (bstep c) m (snd (goto k s)) = Some m' /\ Rbip c (fst (goto k s)) m'.
Proof.
  intro H. exists tt. cbn [goto fst snd mrun]. rewrite (bstep_ev c k s m H). split; [reflexivity|exact H].
Qed.

Lemma loop_head_bip c s m : Rbip c s m ->
  exists m', mrun (bstep c) m (snd (loop_head s)) = Some m' /\ Rbip c (fst (loop_head s)) m'.
Proof.
  intro H. unfold loop_head. destruct (ending s); [apply goto_bip; exact H|].
  apply goto_bip. destruct (cur s =? 0)%nat; exact H.
Qed.

Lemma bip_bounds_l : forall c ins, 0 <= nbk c ->
  Forall (bp_ok c) (trace c ins) /\ 0 <= bip (final c ins) <= nbk c.
Proof.
  intros c ins Hn.
  assert (HS : exists m', mrun (bstep c) tt (snd (steps c init ins)) = Some m' /\
                          Rbip c (fst (steps c init ins)) m').
  { unfold steps. apply (mon_steps (bstep c) fixed c (Rbip c) (Rbip c)).
    - auto.
    - intros s m o H. destruct m. exists tt. unfold Rbip in *.
      assert (B : 0 <= bip (op_st fixed c s o) <= nbk c).
      { destruct o; cbn [op_st].
        + change (bip (set_pf ?a ?x)) with (bip x).
          destruct (drainh s && negb (n =? 0)); [rewrite bip_set_bip; apply clamp_bounds; exact Hn | exact H].
        + exact H.
        + rewrite bip_set_bip; apply clamp_bounds; exact Hn.
        + exact H.
        + exact H.
        + destruct (ending s); exact H.
        + destruct (gate fixed c s && allowed); exact H.
        + destruct (if newest then rev (heldq s) else heldq s); exact H.
        + rewrite bip_upd_cur. exact H.
        + exact H. }
      split; [|exact B].
      assert (O : bstep c tt (OpObs (opcode s o) (bip (op_st fixed c s o))) = Some tt).
      { unfold bstep, bp_okb. destruct B as [B1 B2]. apply Z.leb_le in B1. apply Z.leb_le in B2. rewrite B1, B2. reflexivity. }
      unfold apply_op. cbn [fst snd]. destruct o; cbn [app mrun]; rewrite ?O; try reflexivity.
      unfold bstep at 1. cbn [bp_okb]. rewrite O. reflexivity.
    - intros s m H. unfold Rbip in *. flush_cases; exact H.
    - intros s m H _. destruct m. unfold advance.
      assert (G : forall k s', Rbip c s' tt ->
                exists m', mrun (bstep c) tt (snd (goto k s')) = Some m' /\ Rbip c (fst (goto k s')) m')
        by (intros; apply goto_bip; assumption).
      assert (Z0 : forall s', Rbip c (set_bipraw 0 s') tt) by (intro; unfold Rbip; cbn; lia).
      destruct (pc s) as [[]| | | |]; try (apply G; exact H).
      + (* GSg *) destruct (0 <? np s)%nat; [apply G; exact H|].
        assert (A : Rbip c (add_first_player c (set_pev false s)) tt)
          by (unfold add_first_player; destruct (hold_adds c); exact H).
        destruct (gate fixed c (set_pev false s) && own_ok c);
          match goal with |- context [if ?b then goto GSd ?x else _] => destruct b end;
          first [apply G; assumption | exists tt; split; [reflexivity|assumption]].
      + (* GSd *) apply loop_head_bip; exact H.
      + (* GEd *) exists tt. cbn. split; [reflexivity | exact H].
      + (* PTSg *) apply G. unfold Rbip in *. cbn. rewrite bip_upd_cur. exact H.
      + (* PTEd *) unfold after_turn.
        destruct (slam (set_tactive false s) || _); apply loop_head_bip; unfold Rbip, rotate in *; cbn; exact H.
      + (* BWS *) destruct (0 <? pf s); [exists tt; split; [reflexivity|exact H] | apply G; exact H].
      + (* BSg *) apply G. unfold Rbip. rewrite bip_set_bip. apply clamp_bounds; exact Hn.
      + (* BSd *) unfold await_end. change (endev (set_pf ?a ?x)) with (endev x).
        destruct (endev s); [unfold end_ball; apply G; apply Z0 | exists tt; split; [reflexivity|exact H]].
      + (* BEd *) destruct ((0 <? pextra s)%nat && negb (slam s)); [|apply G; exact H].
        unfold run_ball. apply G. unfold Rbip in *. cbn. rewrite bip_upd_cur. exact H.
      + (* WaitBall *) unfold await_end. destruct (endev s); [unfold end_ball; apply G; apply Z0 | exists tt; split; [reflexivity|exact H]].
      + (* Done *) exists tt; split; [reflexivity|exact H].
    - intros s m H _. exists tt. split; [|exact H]. unfold bstep, bp_okb. unfold Rbip in H. destruct H as [H1 H2].
      apply Z.leb_le in H1. apply Z.leb_le in H2. rewrite H1, H2. reflexivity.
    - unfold Rbip, init; cbn; lia. }
  destruct HS as [m' [E R]]. split.
  - unfold trace. apply Forall_app. split.
    + repeat constructor; cbn; lia.
    + eapply brun_forall; exact E.
  - exact R.
Qed.

(* ------------------------------------------------------------------------------------------- *)
(* list facts for the per-player table *)
Lemma upd_length {A} (f : A -> A) : forall l i, length (upd i f l) = length l.
Proof. induction l as [|x l IH]; intros [|i]; cbn; auto. Qed.

Lemma nth_upd_same {A} (f : A -> A) d : forall l i, (i < length l)%nat -> nth i (upd i f l) d = f (nth i l d).
Proof.
  induction l as [|x l IH]; intros [|i] H; cbn in *; try lia; [reflexivity|]. apply IH. lia.
Qed.

Lemma nth_upd_other {A} (f : A -> A) d : forall l i j, i <> j -> nth j (upd i f l) d = nth j l d.
Proof.
  induction l as [|x l IH]; intros [|i] [|j] H; cbn; try reflexivity; try congruence. apply IH. congruence.
Qed.

Lemma nth_app_repeat {A} (d : A) : forall l k i, nth i (l ++ repeat d k) d = nth i l d.
Proof.
  intros l k i. destruct (Nat.lt_ge_cases i (length l)) as [H|H].
  - apply app_nth1; exact H.
  - rewrite app_nth2 by exact H. rewrite (nth_overflow l d H).
    destruct (Nat.lt_ge_cases (i - length l) k) as [H2|H2].
    + apply nth_repeat.
    + apply nth_overflow. rewrite repeat_length. exact H2.
Qed.

Lemma set_bip_form c x s : exists b e, set_bip c x s = set_endev e (set_bipraw b s).
Proof.
  unfold set_bip. destruct (negb (bip s =? 0) && (clamp c x =? 0)); eexists; eexists; reflexivity.
Qed.

(* what an operation may change: only balls in play, flags, extra-ball counts and the pending-add counter *)
Definition Keep (s s' : st) : Prop :=
  pc s' = pc s /\ cur s' = cur s /\ pball s' = pball s /\ xb s' = xb s /\ np s' = np s /\
  active s' = active s /\ tactive s' = tactive s /\ (ending s = true -> ending s' = true) /\
  map fst (players s') = map fst (players s).

Lemma Keep_refl s : Keep s s.
Proof. unfold Keep; intuition. Qed.

Lemma map_fst_upd_snd (f : nat * nat -> nat * nat) (Hf : forall be, fst (f be) = fst be) :
  forall l i, map fst (upd i f l) = map fst l.
Proof. induction l as [|x l IH]; intros [|i]; cbn; auto; [rewrite Hf|rewrite IH]; reflexivity. Qed.

Lemma Keep_upd_snd (f : nat * nat -> nat * nat) (Hf : forall be, fst (f be) = fst be) s :
  Keep s (upd_cur f s).
Proof.
  unfold Keep, upd_cur, pball, pl, np. destruct (cur s) as [|i] eqn:E; [rewrite ?E; repeat split; auto|].
  simpl. rewrite Nat.sub_0_r, upd_length, (map_fst_upd_snd f Hf).
  repeat split; auto. rewrite E. simpl. rewrite Nat.sub_0_r.
  destruct (Nat.lt_ge_cases i (length (players s))) as [H|H].
  - rewrite nth_upd_same by exact H. apply Hf.
  - rewrite !nth_overflow; [reflexivity| exact H | rewrite upd_length; exact H].
Qed.

Lemma Keep_apply_op v c s o : Keep s (fst (apply_op v c s o)).
Proof.
  destruct o; cbn [apply_op op_st fst].
  - destruct (drainh s && negb (n =? 0)); [|unfold Keep; cbn; intuition].
    destruct (set_bip_form c (bip s - n) s) as [b [e ->]]. unfold Keep; cbn; intuition.
  - unfold Keep; cbn; intuition.
  - destruct (set_bip_form c (bip s + d) s) as [b [e ->]]. unfold Keep; cbn; intuition.
  - unfold Keep; cbn; intuition.
  - unfold Keep; cbn; intuition.
  - destruct (ending s); unfold Keep; cbn; intuition.
  - destruct (gate v c s && allowed); [unfold Keep; cbn; intuition | apply Keep_refl].
  - destruct (if newest then rev (heldq s) else heldq s); [apply Keep_refl | unfold Keep; cbn; intuition].
  - apply Keep_upd_snd. reflexivity.
  - apply Keep_refl.
Qed.

(* ------------------------------------------------------------------------------------------- *)
(* C. the lifecycle grammar, as a recogniser of prefixes.
     game  ::= game_will_start game_starting game_started turn* game_will_end game_ending game_ended Fin
     turn  ::= player_turn_will_start(p,b-1) player_turn_starting(p,b-1) player_turn_started(p,b)
               ball(p,b,extra=false) ball(p,b,extra=true)*
               player_turn_will_end(p,b) player_turn_ending(p,b) player_turn_ended(p,b)
     ball  ::= ball_will_start ball_starting ball_started ball_will_end ball_ending ball_ended   (all with p,b)
   Idle observations and Award markers are not lifecycle events and are skipped. *)
Inductive gst :=
| G0 | G1 | G2 | GL
| T1 (p b : nat) | T2 (p b : nat)
| B0 (p b : nat) | B1 (p b : nat) (x : bool) | B2 (p b : nat) (x : bool) | B3 (p b : nat) | B4 (p b : nat) | B5 (p b : nat)
| TA (p b : nat) | T4 (p b : nat) | T5 (p b : nat)
| E1 | E2 | E3 | EF.

Definition same (p b p' b' : nat) : bool := (p =? p')%nat && (b =? b')%nat.

Definition gstep (g : gst) (o : out) : option gst :=
  match o with
  | Idle _ _ _ => Some g
  | Award _ => Some g
  | OpObs _ _ => Some g
  | Fin => match g with E3 => Some EF | _ => None end
  | Ev k p b x _ _ =>
      match g, k with
      | G0, GWS => Some G1
      | G1, GSg => Some G2
      | G2, GSd => Some GL
      | GL, GWE => Some E1
      | GL, PTWS => if (1 <=? p)%nat then Some (T1 p (S b)) else None
      | T1 p' b', PTSg => if same p (S b) p' b' then Some (T2 p' b') else None
      | T2 p' b', PTSd => if same p b p' b' then Some (B0 p' b') else None
      | B0 p' b', BWS => if same p b p' b' && negb x then Some (B1 p' b' false) else None
      | B1 p' b' x', BSg => if same p b p' b' && Bool.eqb x x' then Some (B2 p' b' x') else None
      | B2 p' b' x', BSd => if same p b p' b' && Bool.eqb x x' then Some (B3 p' b') else None
      | B3 p' b', BWE => if same p b p' b' then Some (B4 p' b') else None
      | B4 p' b', BEg => if same p b p' b' then Some (B5 p' b') else None
      | B5 p' b', BEd => if same p b p' b' then Some (TA p' b') else None
      | TA p' b', BWS => if same p b p' b' && x then Some (B1 p' b' true) else None
      | TA p' b', PTWE => if same p b p' b' then Some (T4 p' b') else None
      | T4 p' b', PTEg => if same p b p' b' then Some (T5 p' b') else None
      | T5 p' b', PTEd => if same p b p' b' then Some GL else None
      | E1, GEg => Some E2
      | E2, GEd => Some E3
      | _, _ => None
      end
  end.

Definition in_grammar (tr : list out) : Prop := exists g, mrun gstep G0 tr = Some g.

Definition g_of (s : st) : gst :=
  let p := cur s in let b := pball s in
  match pc s with
  | AtEv GWS => G1 | AtEv GSg => G2 | WaitPlayer => G2 | AtEv GSd => GL
  | AtEv PTWS => T1 p (S b) | AtEv PTSg => T2 p (S b) | AtEv PTSd => B0 p b
  | AtEv BWS => B1 p b (xb s) | WaitEmpty => B1 p b (xb s) | AtEv BSg => B2 p b (xb s) | AtEv BSd => B3 p b | WaitBall => B3 p b
  | AtEv BWE => B4 p b | AtEv BEg => B5 p b | AtEv BEd => TA p b
  | AtEv PTWE => T4 p b | AtEv PTEg => T5 p b | AtEv PTEd => GL
  | AtEv GWE => E1 | AtEv GEg => E2 | AtEv GEd => E3 | Done => EF
  end.

Definition in_turn (p : pc_t) : bool :=
  match p with
  | AtEv (PTWS | PTSg | PTSd | PTWE | PTEg | PTEd | BWS | BSg | BSd | BWE | BEg | BEd) | WaitBall | WaitEmpty => true
  | _ => false
  end.
Definition is_done (p : pc_t) : bool := match p with Done => true | _ => false end.

Definition Inv (s : st) : Prop :=
  (cur s <= np s)%nat /\
  (in_turn (pc s) = true -> (1 <= cur s)%nat) /\
  (pc s = AtEv GSd -> ending s = true \/ (1 <= np s)%nat) /\
  active s = negb (is_done (pc s)) /\
  (pev s = true -> (1 <= np s)%nat).

Definition Rg (s : st) (g : gst) : Prop := g = g_of s /\ Inv s.

Lemma g_of_Keep s s' : Keep s s' -> g_of s' = g_of s.
Proof. intros (H1 & H2 & H3 & H4 & _). unfold g_of. rewrite H1, H2, H3, H4. reflexivity. Qed.

Lemma pev_apply_op v c s o : pev (fst (apply_op v c s o)) = pev s.
Proof.
  destruct o; cbn [apply_op op_st fst].
  - destruct (drainh s && negb (n =? 0)); [|reflexivity].
    destruct (set_bip_form c (bip s - n) s) as [b [e ->]]; reflexivity.
  - reflexivity.
  - destruct (set_bip_form c (bip s + d) s) as [b [e ->]]; reflexivity.
  - reflexivity.
  - reflexivity.
  - destruct (ending s); reflexivity.
  - destruct (gate v c s && allowed); reflexivity.
  - destruct (if newest then rev (heldq s) else heldq s); reflexivity.
  - unfold upd_cur. destruct (cur s); reflexivity.
  - reflexivity.
Qed.

Lemma Inv_Keep s s' : Keep s s' -> pev s' = pev s -> Inv s -> Inv s'.
Proof.
  intros (H1 & H2 & H3 & H4 & H5 & H6 & H7 & H8 & _) HP (I1 & I2 & I3 & I4 & I5). unfold Inv.
  rewrite H1, H2, H5, H6, HP. repeat split; auto.
  intro E. destruct (I3 E) as [A|A]; [left; apply H8; exact A | right; exact A].
Qed.

Lemma players_flush v c s : players (flush v c s) = players s ++ repeat (0%nat, 0%nat) (pending s).
Proof. flush_cases; simpl; congruence. Qed.

Lemma np_flush v c s : np (flush v c s) = (np s + pending s)%nat.
Proof. unfold np. rewrite players_flush, app_length, repeat_length. reflexivity. Qed.

Lemma cur_flush_pos v c s : (1 <= cur s)%nat -> cur (flush v c s) = cur s.
Proof. intro H. flush_cases; simpl; try reflexivity; lia. Qed.

Lemma pball_flush v c s : (1 <= cur s)%nat -> pball (flush v c s) = pball s /\ cur (flush v c s) = cur s.
Proof.
  intro H. pose proof (cur_flush_pos v c s H) as C. split; [|exact C].
  unfold pball, pl. rewrite C, players_flush. destruct (cur s); [reflexivity|].
  rewrite nth_app_repeat. reflexivity.
Qed.

Lemma cur_flush0 c s : cur s = 0%nat ->
  (cur (flush fixed c s) <= np (flush fixed c s))%nat /\ (cur (flush fixed c s) <= 1)%nat.
Proof.
  intro H. pose proof (np_flush fixed c s) as N. unfold np in *. rewrite players_flush in N.
  revert N. flush_cases; simpl; intro N; try lia;
    match goal with E : fix_first fixed = false |- _ => discriminate E end.
Qed.

Lemma misc_flush v c s : xb (flush v c s) = xb s /\ active (flush v c s) = active s /\
                         ending (flush v c s) = ending s /\ tactive (flush v c s) = tactive s.
Proof. flush_cases; simpl; auto. Qed.

Lemma pev_flush v c s : pev (flush v c s) = true -> pev s = true \/ (1 <= np (flush v c s))%nat.
Proof.
  pose proof (np_flush v c s) as N. unfold np in *. rewrite players_flush in N. revert N.
  flush_cases; simpl; intros N Hp; try (left; exact Hp); right; simpl; lia.
Qed.

Lemma pending_flush v c s : pending (flush v c s) = 0%nat.
Proof. flush_cases; reflexivity. Qed.

Lemma Rg_flush c s g : Rg s g -> Rg (flush fixed c s) g.
Proof.
  intros [-> (I1 & I2 & I3 & I4 & I5)]. destruct (misc_flush fixed c s) as (X1 & X2 & X3 & X4).
  pose proof (pc_flush fixed c s) as P. pose proof (np_flush fixed c s) as N.
  assert (I5' : pev (flush fixed c s) = true -> (1 <= np (flush fixed c s))%nat).
  { intro Hp. destruct (pev_flush fixed c s Hp) as [A|A]; [specialize (I5 A); lia | exact A]. }
  destruct (Nat.eq_dec (cur s) 0) as [Z|NZ].
  - destruct (cur_flush0 c s Z) as [C1 C2]. split.
    + unfold g_of. rewrite P, X1. destruct (pc s) as [[]| | | |]; try reflexivity;
        (exfalso; cbn in I2; specialize (I2 eq_refl); lia).
    + unfold Inv. rewrite P, X2, X3.
      repeat split; auto; try lia; try (intro T; specialize (I2 T); lia);
        try (intro E; destruct (I3 E); [left; assumption | right; lia]).
  - destruct (pball_flush fixed c s ltac:(lia)) as [B C]. split.
    + unfold g_of. rewrite P, X1, B, C. reflexivity.
    + unfold Inv. rewrite P, X2, X3, C.
      repeat split; auto; try lia; try (intro E; destruct (I3 E); [left; assumption | right; lia]).
Qed.

Lemma same_refl p b : same p b p b = true.
Proof. unfold same. rewrite !Nat.eqb_refl. reflexivity. Qed.

Lemma goto_g k s g g' :
  gstep g (ev_of k s) = Some g' -> g' = g_of (set_pc (AtEv k) s) -> Inv (set_pc (AtEv k) s) ->
  exists g'', mrun gstep g (snd (goto k s)) = Some g'' /\ Rg (fst (goto k s)) g''.
Proof.
  intros H1 H2 H3. exists g'. cbn [goto fst snd mrun]. rewrite H1. split; [reflexivity | split; assumption].
Qed.

(* the current player's ball counter after "self.player.ball += 1" *)
Lemma inc_facts s : (1 <= cur s <= np s)%nat ->
  let s' := upd_cur (fun be => (S (fst be), snd be)) s in
  cur s' = cur s /\ pball s' = S (pball s) /\ np s' = np s /\ pc s' = pc s /\ xb s' = xb s /\
  active s' = active s /\ ending s' = ending s /\ slam s' = slam s.
Proof.
  intros [H1 H2]. unfold upd_cur, pball, pl, np in *. destruct (cur s) as [|i] eqn:E; [lia|].
  simpl. rewrite E. simpl. rewrite Nat.sub_0_r, upd_length. repeat split; auto.
  rewrite nth_upd_same by lia. reflexivity.
Qed.

Lemma dec_facts s :
  let s' := upd_cur (fun be => (fst be, pred (snd be))) s in
  cur s' = cur s /\ pball s' = pball s /\ np s' = np s /\ pc s' = pc s /\
  active s' = active s /\ ending s' = ending s.
Proof.
  destruct (Keep_upd_snd (fun be => (fst be, pred (snd be))) (fun _ => eq_refl) s)
    as (K1 & K2 & K3 & K4 & K5 & K6 & K7 & K8 & K9).
  cbv zeta. repeat split; auto. unfold upd_cur. destruct (cur s); reflexivity.
Qed.

Lemma rotate_facts s : (1 <= np s)%nat ->
  (1 <= cur (rotate s) <= np (rotate s))%nat /\ np (rotate s) = np s /\ pc (rotate s) = pc s /\
  active (rotate s) = active s /\ ending (rotate s) = ending s.
Proof.
  intro H. unfold rotate, np in *. simpl.
  destruct (negb (cur s =? 0)%nat && (cur s <? length (players s))%nat) eqn:E.
  - apply andb_true_iff in E as [_ E]. apply Nat.ltb_lt in E. repeat split; auto; lia.
  - repeat split; auto; lia.
Qed.

Lemma pev_upd_cur f s : pev (upd_cur f s) = pev s.
Proof. unfold upd_cur. destruct (cur s); reflexivity. Qed.

Lemma Inv_set_pc k s :
  (cur s <= np s)%nat -> (in_turn (AtEv k) = true -> (1 <= cur s)%nat) ->
  (k = GSd -> ending s = true \/ (1 <= np s)%nat) -> active s = true ->
  (pev s = true -> (1 <= np s)%nat) -> Inv (set_pc (AtEv k) s).
Proof.
  intros H1 H2 H3 H4 H5. unfold Inv. simpl. repeat split; auto. intro E. apply H3. congruence.
Qed.

Ltac inv_simple := apply Inv_set_pc; simpl; auto; try discriminate; try lia.

Lemma loop_head_g s : (cur s <= np s)%nat -> active s = true -> (ending s = true \/ (1 <= np s)%nat) ->
  (pev s = true -> (1 <= np s)%nat) ->
  exists g', mrun gstep GL (snd (loop_head s)) = Some g' /\ Rg (fst (loop_head s)) g'.
Proof.
  intros I1 I4 HE I5. unfold loop_head. destruct (ending s) eqn:En.
  - eapply goto_g; [reflexivity | reflexivity | inv_simple].
  - destruct HE as [HE|HE]; [discriminate|].
    destruct (cur s =? 0)%nat eqn:C0.
    + destruct (rotate_facts s HE) as ([R1 R2] & R3 & R4 & R5 & R6).
      eapply goto_g.
      * unfold ev_of. cbn [gstep is_game_kind]. apply Nat.leb_le in R1. rewrite R1. reflexivity.
      * reflexivity.
      * apply Inv_set_pc; try discriminate; try lia; first [congruence | exact I5 | rewrite R3; exact I5 | idtac].
        all: try (rewrite R3; exact I5). all: try congruence.
    + apply Nat.eqb_neq in C0. eapply goto_g.
      * unfold ev_of. cbn [gstep is_game_kind]. assert (L : (1 <=? cur s)%nat = true) by (apply Nat.leb_le; lia).
        rewrite L. reflexivity.
      * reflexivity.
      * apply Inv_set_pc; try discriminate; try lia; assumption.
Qed.

Ltac norm_pball :=
  repeat (first
    [ progress change (pball (set_pc ?a ?x)) with (pball x)
    | progress change (pball (set_tactive ?a ?x)) with (pball x)
    | progress change (pball (set_xb ?a ?x)) with (pball x)
    | progress change (pball (set_endev ?a ?x)) with (pball x)
    | progress change (cur (set_pc ?a ?x)) with (cur x)
    | progress change (cur (set_tactive ?a ?x)) with (cur x)
    | progress change (cur (set_xb ?a ?x)) with (cur x)
    | progress change (cur (set_endev ?a ?x)) with (cur x) ]).

Lemma Rg_adv c s g : Rg s g -> enabled fixed s ->
  exists g', mrun gstep g (snd (advance fixed c s)) = Some g' /\ Rg (fst (advance fixed c s)) g'.
Proof.
  intros [-> HI] En. pose proof HI as (I1 & I2 & I3 & I4 & I5).
  unfold advance, g_of. unfold enabled in En.
  destruct (pc s) as [[]| | | |] eqn:Epc; cbn [in_turn is_done negb] in *;
    try specialize (I2 eq_refl).
  - (* GWS *) eapply goto_g; [reflexivity|reflexivity|inv_simple].
  - (* GSg *)
    destruct (0 <? np s)%nat eqn:N0.
    + apply Nat.ltb_lt in N0. eapply goto_g; [reflexivity|reflexivity|].
      apply Inv_set_pc; simpl; auto; try discriminate.
    + apply Nat.ltb_ge in N0. assert (Z : np s = 0%nat) by lia. assert (Zc : cur s = 0%nat) by lia.
      assert (WP : forall x, x = set_pev false s \/ x = set_heldq (heldq s ++ [1%nat]) (set_players [(0%nat, 0%nat)] (set_pev false s)) ->
                 exists g', mrun gstep G2 (snd (if fix_wait fixed && ending x || pev x then goto GSd x else (set_pc WaitPlayer x, []))) = Some g' /\
                            Rg (fst (if fix_wait fixed && ending x || pev x then goto GSd x else (set_pc WaitPlayer x, []))) g').
      { intros x Hx.
        assert (Ex : ending x = ending s /\ pev x = false /\ cur x = 0%nat /\ active x = true /\ pc x = pc s).
        { destruct Hx as [-> | ->]; simpl; auto. }
        destruct Ex as (E1 & E2 & E3 & E4 & E5). rewrite E1, E2. cbn [fix_wait fixed andb]. rewrite orb_false_r.
        destruct (ending s) eqn:En0.
        - eapply goto_g; [reflexivity|reflexivity|].
          apply Inv_set_pc; try discriminate; try lia; [left; congruence | exact E4 | rewrite E2; discriminate].
        - exists G2. split; [reflexivity|]. split; [reflexivity|].
          unfold Inv. simpl. rewrite E3, E4, E2. repeat split; auto; try lia; discriminate. }
      destruct (gate fixed c (set_pev false s) && own_ok c).
      * unfold add_first_player. destruct (hold_adds c).
        -- apply WP. right. reflexivity.
        -- replace (fix_wait fixed && _ || _) with true by (simpl; rewrite orb_true_r; reflexivity).
           eapply goto_g; [reflexivity|reflexivity|].
           apply Inv_set_pc; simpl; auto; try discriminate.
      * apply WP. left. reflexivity.
  - (* GSd *) apply loop_head_g; auto.
  - (* GWE *) eapply goto_g; [reflexivity|reflexivity|inv_simple].
  - (* GEg *) eapply goto_g; [reflexivity|reflexivity|inv_simple].
  - (* GEd *) exists EF. split; [reflexivity|]. split; [reflexivity|].
    unfold Inv; simpl. repeat split; auto; discriminate.
  - (* PTWS *) eapply goto_g; [unfold ev_of; cbn [gstep is_game_kind]; rewrite same_refl; reflexivity | reflexivity | inv_simple].
  - (* PTSg *)
    destruct (inc_facts s (conj I2 I1)) as (F1 & F2 & F3 & F4 & F5 & F6 & F7 & F8).
    eapply goto_g.
    + unfold ev_of. cbn -[pball upd_cur np]. norm_pball. rewrite ?F1, ?F2, same_refl. reflexivity.
    + unfold g_of. cbn -[pball upd_cur np]. norm_pball. rewrite ?F1, ?F2. reflexivity.
    + apply Inv_set_pc; try discriminate.
      * change (cur (set_tactive true ?x)) with (cur x). change (np (set_tactive true ?x)) with (np x). lia.
      * intros _. change (cur (set_tactive true ?x)) with (cur x). lia.
      * change (active (set_tactive true ?x)) with (active x). congruence.
      * change (pev (set_tactive true ?x)) with (pev x). change (np (set_tactive true ?x)) with (np x).
        rewrite pev_upd_cur, F3. exact I5.
  - (* PTSd *) unfold run_ball. eapply goto_g.
    + unfold ev_of. simpl. rewrite same_refl. reflexivity.
    + reflexivity.
    + inv_simple.
  - (* PTWE *) eapply goto_g; [unfold ev_of; cbn [gstep is_game_kind]; rewrite same_refl; reflexivity | reflexivity | inv_simple].
  - (* PTEg *) eapply goto_g; [unfold ev_of; cbn [gstep is_game_kind]; rewrite same_refl; reflexivity | reflexivity | inv_simple].
  - (* PTEd *) unfold after_turn.
    assert (NP : (1 <= np s)%nat) by lia.
    destruct (slam (set_tactive false s) || _).
    + apply loop_head_g; simpl; auto.
    + destruct (rotate_facts (set_tactive false s) NP) as ([R1 R2] & R3 & R4 & R5 & R6).
      apply loop_head_g; [lia | rewrite R5; exact I4 | right; rewrite R3; exact NP | intros _; rewrite R3; exact NP].
  - (* BWS *) destruct (0 <? pf s).
    + exists (B1 (cur s) (pball s) (xb s)). split; [reflexivity|]. split; [reflexivity|].
      unfold Inv; simpl. repeat split; auto; discriminate.
    + eapply goto_g; [unfold ev_of; cbn [gstep is_game_kind]; rewrite same_refl, eqb_reflx; reflexivity | reflexivity | inv_simple].
  - (* BSg *)
    destruct (set_bip_form c 1 (set_drainh true s)) as [b [e ->]].
    eapply goto_g; [unfold ev_of; simpl; rewrite same_refl, eqb_reflx; reflexivity | reflexivity | inv_simple].
  - (* BSd *) unfold await_end. change (endev (set_pf ?a ?x)) with (endev x). destruct (endev s).
    + unfold end_ball. eapply goto_g; [unfold ev_of; simpl; rewrite same_refl; reflexivity | reflexivity | inv_simple].
    + exists (B3 (cur s) (pball s)). split; [reflexivity|]. split; [reflexivity|].
      unfold Inv; simpl. repeat split; auto; discriminate.
  - (* BWE *) eapply goto_g; [unfold ev_of; cbn [gstep is_game_kind]; rewrite same_refl; reflexivity | reflexivity | inv_simple].
  - (* BEg *) eapply goto_g; [unfold ev_of; cbn [gstep is_game_kind]; rewrite same_refl; reflexivity | reflexivity | inv_simple].
  - (* BEd *) destruct ((0 <? pextra s)%nat && negb (slam s)).
    + destruct (dec_facts s) as (F1 & F2 & F3 & F4 & F5 & F6). unfold run_ball.
      eapply goto_g.
      * unfold ev_of. cbn -[pball upd_cur np].
        norm_pball. rewrite ?F1, ?F2, same_refl. reflexivity.
      * unfold g_of. cbn -[pball upd_cur np].
        norm_pball. rewrite ?F1, ?F2. reflexivity.
      * apply Inv_set_pc; try discriminate.
        -- change (cur (set_xb true (set_endev false ?x))) with (cur x).
           change (np (set_xb true (set_endev false ?x))) with (np x). lia.
        -- intros _. change (cur (set_xb true (set_endev false ?x))) with (cur x). lia.
        -- change (active (set_xb true (set_endev false ?x))) with (active x). congruence.
        -- change (pev (set_xb true (set_endev false ?x))) with (pev x).
           change (np (set_xb true (set_endev false ?x))) with (np x). rewrite pev_upd_cur, F3. exact I5.
    + eapply goto_g; [unfold ev_of; cbn [gstep is_game_kind]; rewrite same_refl; reflexivity | reflexivity | inv_simple].
  - (* WaitBall *) unfold await_end. rewrite En.
    unfold end_ball. eapply goto_g; [unfold ev_of; simpl; rewrite same_refl; reflexivity | reflexivity | inv_simple].
  - (* WaitPlayer *) eapply goto_g; [reflexivity|reflexivity|].
    apply Inv_set_pc; auto; try discriminate.
    intros _. unfold wait_player_ready in En. simpl in En.
    apply orb_true_iff in En as [En|En]; [left; exact En | right; apply I5; exact En].
  - (* WaitEmpty *) eapply goto_g; [unfold ev_of; cbn [gstep is_game_kind]; rewrite same_refl, eqb_reflx; reflexivity | reflexivity | inv_simple].
  - (* Done *) exists EF. split; [reflexivity|]. unfold Rg, g_of. cbn [fst]. rewrite Epc. split; [reflexivity | exact HI].
Qed.

Lemma Rg_init : Rg init G1.
Proof. split; [reflexivity|]. unfold Inv, init, np; simpl. repeat split; auto; discriminate. Qed.

Lemma grammar_steps c ins :
  exists g, mrun gstep G1 (snd (steps c init ins)) = Some g /\ Rg (fst (steps c init ins)) g.
Proof.
  unfold steps. apply (mon_steps gstep fixed c Rg Rg).
  - auto.
  - intros s g o [-> HI]. pose proof (Keep_apply_op fixed c s o) as K.
    exists (g_of s). split.
    + destruct o; reflexivity.
    + split; [symmetry; apply g_of_Keep; exact K | eapply Inv_Keep; [exact K | apply pev_apply_op | exact HI]].
  - intros; apply Rg_flush; assumption.
  - intros; apply Rg_adv; assumption.
  - intros s g H _. exists g. split; [reflexivity | exact H].
  - apply Rg_init.
Qed.

Lemma lifecycle_trace_in_grammar_l : forall c ins, in_grammar (trace c ins).
Proof.
  intros c ins. destruct (grammar_steps c ins) as [g [E _]].
  exists g. unfold trace, out0. rewrite mrun_app. cbn. exact E.
Qed.

(* B. the end of the coroutine, machine.game, and the Fin marker coincide; nothing happens afterwards *)
Lemma mrun_EF : forall outs g', mrun gstep EF outs = Some g' -> g' = EF.
Proof.
  induction outs as [|o outs IH]; intros g' H; cbn in H; [congruence|].
  destruct o; cbn in H; try discriminate; apply IH; exact H.
Qed.

Lemma gstep_ev_notEF g k p b x bp n g1 : gstep g (Ev k p b x bp n) = Some g1 -> g <> EF /\ g1 <> EF.
Proof.
  intro H. destruct g; destruct k; cbn in H; try discriminate;
    repeat match type of H with context [if ?c then _ else _] => destruct c end;
    try discriminate; inversion H; split; discriminate.
Qed.

Lemma fin_EF : forall outs g g', mrun gstep g outs = Some g' -> (g' = EF <-> g = EF \/ In Fin outs).
Proof.
  induction outs as [|o outs IH]; intros g g' H; cbn in H.
  - inversion H; subst. cbn. tauto.
  - destruct (gstep g o) as [g1|] eqn:E; [|discriminate].
    specialize (IH g1 g' H). destruct o.
    + apply gstep_ev_notEF in E as [E1 E2]. rewrite IH. cbn. split.
      * intros [A|A]; [contradiction | right; right; exact A].
      * intros [A|[A|A]]; [contradiction | discriminate | right; exact A].
    + cbn in E. inversion E; subst. rewrite IH. cbn. split.
      * intros [A|A]; [left; exact A | right; right; exact A].
      * intros [A|[A|A]]; [left; exact A | discriminate | right; exact A].
    + cbn in E. inversion E; subst. rewrite IH. cbn. split.
      * intros [A|A]; [left; exact A | right; right; exact A].
      * intros [A|[A|A]]; [left; exact A | discriminate | right; exact A].
    + cbn in E. inversion E; subst. rewrite IH. cbn. split.
      * intros [A|A]; [left; exact A | right; right; exact A].
      * intros [A|[A|A]]; [left; exact A | discriminate | right; exact A].
    + destruct g; cbn in E; try discriminate. inversion E; subst.
      rewrite (mrun_EF _ _ H). cbn. split; [intros _; right; left; reflexivity | reflexivity].
Qed.

Lemma ended_implies_no_game_l : forall c ins,
  (pc (final c ins) = Done <-> active (final c ins) = false) /\
  (In Fin (trace c ins) <-> pc (final c ins) = Done) /\
  (pc (final c ins) = Done ->
   forall more, trace c (ins ++ more) = trace c ins /\ final c (ins ++ more) = final c ins).
Proof.
  intros c ins. destruct (grammar_steps c ins) as [g [E [Hg (I1 & I2 & I3 & I4 & I5)]]].
  fold (final c ins) in *. split; [|split].
  - rewrite I4. destruct (pc (final c ins)); cbn; split; intro; congruence.
  - pose proof (fin_EF _ _ _ E) as F. unfold trace, out0. cbn [app In]. split.
    + intros [A|A]; [discriminate|]. assert (X : g = EF) by (apply F; right; exact A).
      rewrite Hg in X. unfold g_of in X. destruct (pc (final c ins)) as [[]| | | |]; try discriminate; reflexivity.
    + intro D. right. assert (X : g = EF) by (rewrite Hg; unfold g_of; rewrite D; reflexivity).
      apply F in X as [X|X]; [discriminate | exact X].
  - intros D more. unfold trace, final, steps in *. rewrite steps_app.
    destruct (steps_g fixed c init ins) as [s1 o1] eqn:E1. cbn [fst] in D.
    rewrite (steps_done fixed c more s1 D). cbn [fst snd]. rewrite app_nil_r. split; reflexivity.
Qed.

(* ------------------------------------------------------------------------------------------- *)
(* The code before the fixes violates the property: witnesses computed by vm_compute (replayed on the
   implementation by corpus/C06/game.1.json and game.2.json). *)
Definition calm : input := mkin [] [] [Drain 1].
Definition add_in_handler : input := mkin [AddPlayerReq true] [] [Drain 1].

(* one player, two balls per game; a start-button press while player_turn_will_start of player 1's second turn is
   being handled (input #16) is accepted because player.ball is still 1: player 2 joins in round 2 and player 1
   goes on to play ball 3 of a 2-ball game *)
Definition late_add_cfg : cfg := mkcfg 2 2 1 true false.
Definition late_add_ins : list input := repeat calm 16 ++ [add_in_handler] ++ repeat calm 60.

Definition turn_ball_exceeds (c : cfg) (o : out) : bool :=
  match o with Ev PTSd _ b _ _ _ => (bpg c <? b)%nat | _ => false end.

Lemma turn_structure_refuted_unfixed_l :
  exists c ins, (1 <= bpg c)%nat /\ existsb (turn_ball_exceeds c) (trace_unfixed c ins) = true.
Proof. exists late_add_cfg, late_add_ins. split; [cbn; lia | vm_compute; reflexivity]. Qed.

Lemma late_add_fixed_ok : existsb (turn_ball_exceeds late_add_cfg) (trace late_add_cfg late_add_ins) = false.
Proof. vm_compute. reflexivity. Qed.

(* end_game while game_starting is handled, before the first player exists: the unfixed coroutine waits for a
   player that can never be added (request_player_add refuses because the game is ending) *)
Definition hang_cfg : cfg := mkcfg 3 4 3 true false.
Definition hang_ins : list input := [calm; mkin [EndGame] [] []].
Definition retry : input := mkin [] [] [AddPlayerReq true; EndGame; EndBall; Drain 1].

Definition hung (p : Z) : st :=
  mkst WaitPlayer [] 0%nat 0 true true false false false 0%nat [] [] false false true p.

Lemma hung_step p : step_g unfixed hang_cfg (hung p) retry =
  (hung (p - 1), [OpObs 0 0; OpObs 2 0; OpObs 1 0; OpObs 0 0; Idle 0 0%nat (p - 1)]).
Proof. reflexivity. Qed.

Lemma hung_forever : forall n p,
  let s := fst (steps_g unfixed hang_cfg (hung p) (repeat retry n)) in pc s = WaitPlayer /\ active s = true.
Proof.
  induction n as [|n IH]; intro p; cbv zeta.
  - cbn. split; reflexivity.
  - cbn [repeat steps_g]. rewrite hung_step. specialize (IH (p - 1)). cbv zeta in IH.
    destruct (steps_g unfixed hang_cfg (hung (p - 1)) (repeat retry n)) as [s2 o2]. cbn [fst snd] in *. exact IH.
Qed.

Lemma game_hangs_refuted_unfixed_l :
  exists c ins, forall n,
    let s := fst (steps_g unfixed c init (ins ++ repeat retry n)) in
    pc s = WaitPlayer /\ active s = true.
Proof.
  exists hang_cfg, hang_ins. intro n. cbv zeta. rewrite steps_app.
  destruct (steps_g unfixed hang_cfg init hang_ins) as [s1 o1] eqn:E1.
  assert (H : s1 = hung 0) by (vm_compute in E1; unfold hung; congruence).
  subst s1. clear E1. pose proof (hung_forever n 0) as F. cbv zeta in F.
  destruct (steps_g unfixed hang_cfg (hung 0) (repeat retry n)) as [s2 o2]. cbn [fst snd] in *. exact F.
Qed.

Lemma hang_fixed_ends : pc (final hang_cfg hang_ins) = AtEv GSd /\
                        pc (final hang_cfg (hang_ins ++ repeat calm 4)) = Done.
Proof. vm_compute. split; reflexivity. Qed.
