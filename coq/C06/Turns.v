(* C06/Turns.v — turn structure of the fixed model: players rotate 1..n, ball numbers 1..balls_per_game,
   nobody joins after the first round. *)
From Common Require Import Prelude.
From C06 Require Import Model Lemmas.
Open Scope nat_scope.

(* a turn as it appears in the trace: player_turn_started(player, ball) and the number of players at that moment *)
Definition tev := (nat * nat * nat)%type.

(* is turn t = (player, ball, players) a legal successor of the previous turn?
     1 <= p <= n, 1 <= b <= balls_per_game, and
     no previous turn:  p = 1, b = 1
     previous (p0,b0,n0): n0 <= n, (b0 >= 2 -> n = n0)   players only join, and only during round 1
                          (p = p0+1 and b = b0)  or  (p0 = n and p = 1 and b = b0+1) *)
Definition tsuccb (bp : nat) (prev : option tev) (t : tev) : bool :=
  let '(p, b, n) := t in
  (1 <=? p) && (p <=? n) && (1 <=? b) && (b <=? bp) &&
  match prev with
  | None => (p =? 1) && (b =? 1)
  | Some (p0, b0, n0) =>
      (n0 <=? n) && ((b0 <? 2) || (n =? n0)) &&
      (((p =? S p0) && (b =? b0)) || ((p0 =? n) && (p =? 1) && (b =? S b0)))
  end.

(* the monitor: every player_turn_started event of the trace must be a legal successor of the previous one *)
Definition tstep (c : cfg) (m : option tev) (o : out) : option (option tev) :=
  match o with
  | Ev PTSd p b _ _ n => if tsuccb (bpg c) m (p, b, n) then Some (Some (p, b, n)) else None
  | _ => Some m
  end.

Definition turns_ok (c : cfg) (tr : list out) : Prop := exists m, mrun (tstep c) None tr = Some m.

(* ------------------------------------------------------------------------------------------- *)
Definition ball_i (s : st) (i : nat) : nat := fst (nth i (players s) (0, 0)).
Definition rnd (s : st) : nat := pball s + (if tactive s then 0 else 1).
Definition Shape (s : st) : Prop :=
  forall i, (i < cur s - 1 -> ball_i s i = rnd s) /\ (cur s <= i < np s -> S (ball_i s i) = rnd s).
Definition Core (c : cfg) (s : st) : Prop := 1 <= cur s <= np s /\ Shape s /\ 1 <= rnd s <= bpg c.

Inductive pclass := CBefore | CPre | CIn | CEnd.
Definition class_of (p : pc_t) : pclass :=
  match p with
  | AtEv (GWS | GSg | GSd) | WaitPlayer => CBefore
  | AtEv (PTWS | PTSg) => CPre
  | AtEv (GWE | GEg | GEd) | Done => CEnd
  | _ => CIn
  end.

Definition LtPre (s : st) (m : option tev) : Prop :=
  match m with
  | None => cur s = 1 /\ rnd s = 1
  | Some (p0, b0, n0) =>
      1 <= b0 /\ n0 <= np s /\ (2 <= b0 -> np s = n0) /\
      ((cur s = S p0 /\ rnd s = b0) \/ (p0 = np s /\ cur s = 1 /\ rnd s = S b0))
  end.

Definition Rt (c : cfg) (s : st) (m : option tev) : Prop :=
  match class_of (pc s) with
  | CBefore => m = None /\ tactive s = false /\ (cur s = 0 \/ (cur s = 1 /\ 1 <= np s)) /\
               (forall i, ball_i s i = 0) /\ (pc s = AtEv GSd -> ending s = true \/ 1 <= np s)
  | CPre => tactive s = false /\ Core c s /\ LtPre s m
  | CIn => tactive s = true /\ Core c s /\
           exists n0, m = Some (cur s, pball s, n0) /\ n0 <= np s /\ (2 <= pball s -> np s = n0)
  | CEnd => True
  end.

Definition Pend (s : st) : Prop := pending s = 0 \/ cur s = 0 \/ rnd s <= 1.

Lemma pball_ball_i s : pball s = match cur s with 0 => 0 | S i => ball_i s i end.
Proof. unfold pball, pl, ball_i. destruct (cur s); [reflexivity|]. cbn. rewrite Nat.sub_0_r. reflexivity. Qed.

Lemma ball_i_map s i : ball_i s i = nth i (map fst (players s)) 0.
Proof. unfold ball_i. exact (eq_sym (map_nth fst (players s) (0, 0) i)). Qed.

(* transfer of the relation to a state that agrees on what it reads *)
Lemma Rt_transfer c s s' m :
  class_of (pc s') = class_of (pc s) ->
  (pc s' = AtEv GSd -> pc s = AtEv GSd \/ ending s' = true \/ 1 <= np s') ->
  cur s' = cur s -> map fst (players s') = map fst (players s) -> tactive s' = tactive s ->
  (ending s = true -> ending s' = true) ->
  Rt c s m -> Rt c s' m.
Proof.
  intros Hc Hg Hcur Hpl Hta Hen H.
  assert (Hb : forall i, ball_i s' i = ball_i s i) by (intro i; rewrite !ball_i_map, Hpl; reflexivity).
  assert (Hn : np s' = np s) by (unfold np; rewrite <- (map_length fst (players s')), Hpl, map_length; reflexivity).
  assert (Hp : pball s' = pball s) by (rewrite !pball_ball_i, Hcur; destruct (cur s); [reflexivity | apply Hb]).
  assert (Hr : rnd s' = rnd s) by (unfold rnd; rewrite Hp, Hta; reflexivity).
  assert (HS : Shape s -> Shape s') by (unfold Shape; intros S0 i; rewrite Hcur, Hn, Hb, Hr; apply S0).
  assert (HC : Core c s -> Core c s') by (unfold Core; rewrite Hcur, Hn, Hr; intuition).
  unfold Rt in *. rewrite Hc. destruct (class_of (pc s)).
  - destruct H as (A & B & C & D & E). rewrite Hta, Hcur, Hn. repeat split; auto.
    + intro i. rewrite Hb. apply D.
    + intro G. destruct (Hg G) as [G1|[G1|G1]]; [destruct (E G1); [left; auto | right; assumption] | left; exact G1 | right; rewrite <- Hn; exact G1].
  - destruct H as (A & B & C). rewrite Hta. split; [exact A|]. split; [apply HC; exact B|].
    unfold LtPre in *. destruct m as [[[p0 b0] n0]|]; rewrite Hcur, Hr, ?Hn; exact C.
  - destruct H as (A & B & n0 & C & D & E). rewrite Hta. split; [exact A|]. split; [apply HC; exact B|].
    exists n0. rewrite Hcur, Hp, Hn. auto.
  - exact I.
Qed.

Lemma Rt_Keep c s s' m : Keep s s' -> Rt c s m -> Rt c s' m.
Proof.
  intros (K1 & K2 & K3 & K4 & K5 & K6 & K7 & K8 & K9). apply Rt_transfer; auto.
  - rewrite K1; reflexivity.
  - intro G. left. congruence.
Qed.

Lemma Pend_op c s o : Pend s -> Pend (fst (apply_op fixed c s o)).
Proof.
  intro P. pose proof (Keep_apply_op fixed c s o) as (K1 & K2 & K3 & K4 & K5 & K6 & K7 & K8 & K9).
  assert (Hr : rnd (fst (apply_op fixed c s o)) = rnd s) by (unfold rnd; rewrite K3, K7; reflexivity).
  unfold Pend. rewrite K2, Hr. clear K1 K2 K3 K4 K5 K6 K7 K8 K9 Hr.
  assert (Q : pending (fst (apply_op fixed c s o)) = pending s \/ (cur s = 0 \/ rnd s <= 1)).
  { destruct o; cbn [apply_op op_st fst].
    - left. destruct (drainh s && negb (n =? 0)%Z); [|reflexivity].
      destruct (set_bip_form c (bip s - n)%Z s) as [b0 [e0 ->]]; reflexivity.
    - left; reflexivity.
    - left. destruct (set_bip_form c (bip s + d)%Z s) as [b0 [e0 ->]]; reflexivity.
    - left; reflexivity.
    - left; reflexivity.
    - left. destruct (ending s); reflexivity.
    - destruct (gate fixed c s && allowed) eqn:G; [right | left; reflexivity].
      apply andb_true_iff in G as [G _]. unfold gate in G.
      apply andb_true_iff in G as [_ G].
      destruct (cur s) eqn:C; [left; reflexivity | right].
      apply negb_true_iff in G. apply Nat.ltb_ge in G. unfold rnd. cbn [fix_gate fixed andb] in G.
      destruct (tactive s); cbn [negb] in G; exact G.
    - left. destruct (if newest then rev (heldq s) else heldq s); reflexivity.
    - left. unfold upd_cur. destruct (cur s); reflexivity.
    - left; reflexivity. }
  destruct Q as [Q|Q]; [rewrite Q; exact P | right; exact Q].
Qed.

(* flush *)
Lemma ball_i_flush v c s i : ball_i (flush v c s) i = ball_i s i.
Proof. unfold ball_i. rewrite players_flush, nth_app_repeat. reflexivity. Qed.

Lemma Rt_flush c s m : Rt c s m -> Pend s -> Rt c (flush fixed c s) m /\ pending (flush fixed c s) = 0.
Proof.
  intros H P. split; [|apply pending_flush].
  destruct (misc_flush fixed c s) as (X1 & X2 & X3 & X4).
  pose proof (pc_flush fixed c s) as Ppc. pose proof (np_flush fixed c s) as N.
  assert (Hb : forall i, ball_i (flush fixed c s) i = ball_i s i) by apply ball_i_flush.
  unfold Rt in *. rewrite Ppc. destruct (class_of (pc s)) eqn:Cl.
  - destruct H as (A & B & D & E & F). rewrite X4, X3. repeat split; auto.
    + destruct D as [D1|[D1 D2]].
      * destruct (cur_flush0 c s D1) as [C1 C2].
        destruct (Nat.eq_dec (cur (flush fixed c s)) 0) as [Z|NZ]; [left; exact Z | right; split; lia].
      * right. rewrite (cur_flush_pos fixed c s) by lia. split; lia.
    + intro i. rewrite Hb. apply E.
    + intro G. destruct (F G) as [F1|F1]; [left; exact F1 | right; lia].
  - destruct H as (A & (B1 & B2 & B3) & D).
    assert (C' : cur (flush fixed c s) = cur s) by (apply cur_flush_pos; lia).
    assert (Hp : pball (flush fixed c s) = pball s) by (rewrite !pball_ball_i, C'; destruct (cur s); [reflexivity | apply Hb]).
    assert (Hr : rnd (flush fixed c s) = rnd s) by (unfold rnd; rewrite Hp, X4; reflexivity).
    assert (R1 : 0 < pending s -> rnd s = 1) by (intro Q; destruct P as [P|[P|P]]; lia).
    rewrite X4. split; [exact A|]. split.
    + unfold Core. rewrite C', N, Hr. split; [lia|]. split; [|exact B3].
      intro i. rewrite C', N, Hb, Hr. destruct (B2 i) as [S1 S2]. split; [exact S1|].
      intro Q. destruct (Nat.lt_ge_cases i (np s)) as [L|L]; [apply S2; lia|].
      unfold ball_i. rewrite nth_overflow by exact L. cbn. symmetry. apply R1. lia.
    + unfold LtPre in *. destruct m as [[[p0 b0] n0]|]; rewrite C', Hr, ?N; [|exact D].
      destruct D as (D1 & D2 & D3 & D4). destruct (Nat.eq_dec (pending s) 0) as [Z|NZ].
      * rewrite Z, Nat.add_0_r. auto.
      * assert (rnd s = 1) by (apply R1; lia). repeat split; try lia.
  - destruct H as (A & (B1 & B2 & B3) & n0 & D1 & D2 & D3).
    assert (C' : cur (flush fixed c s) = cur s) by (apply cur_flush_pos; lia).
    assert (Hp : pball (flush fixed c s) = pball s) by (rewrite !pball_ball_i, C'; destruct (cur s); [reflexivity | apply Hb]).
    assert (Hr : rnd (flush fixed c s) = rnd s) by (unfold rnd; rewrite Hp, X4; reflexivity).
    assert (R1 : 0 < pending s -> rnd s = 1) by (intro Q; destruct P as [P|[P|P]]; lia).
    assert (Rp : rnd s = pball s) by (unfold rnd; rewrite A; lia).
    rewrite X4. split; [exact A|]. split.
    + unfold Core. rewrite C', N, Hr. split; [lia|]. split; [|exact B3].
      intro i. rewrite C', N, Hb, Hr. destruct (B2 i) as [S1 S2]. split; [exact S1|].
      intro Q. destruct (Nat.lt_ge_cases i (np s)) as [L|L]; [apply S2; lia|].
      unfold ball_i. rewrite nth_overflow by exact L. cbn. symmetry. apply R1. lia.
    + exists n0. rewrite C', Hp, N. split; [exact D1|]. split; [lia|].
      intro Q. destruct (Nat.eq_dec (pending s) 0) as [Z|NZ]; [rewrite Z, Nat.add_0_r; auto|].
      assert (rnd s = 1) by (apply R1; lia). lia.
  - exact I.
Qed.

(* ------------------------------------------------------------------------------------------- *)
(* the coroutine *)
Lemma tsuccb_intro bp m p b n :
  1 <= p <= n -> 1 <= b <= bp ->
  match m with
  | None => p = 1 /\ b = 1
  | Some (p0, b0, n0) => n0 <= n /\ (2 <= b0 -> n = n0) /\ ((p = S p0 /\ b = b0) \/ (p0 = n /\ p = 1 /\ b = S b0))
  end -> tsuccb bp m (p, b, n) = true.
Proof.
  intros H1 H2 H3. unfold tsuccb.
  assert (E : (1 <=? p) && (p <=? n) && (1 <=? b) && (b <=? bp) = true).
  { repeat (apply andb_true_iff; split); apply Nat.leb_le; lia. }
  rewrite E. cbn [andb]. destruct m as [[[p0 b0] n0]|].
  - destruct H3 as (A & B & C).
    assert (E1 : (n0 <=? n) = true) by (apply Nat.leb_le; lia). rewrite E1. cbn [andb].
    assert (E2 : (b0 <? 2) || (n =? n0) = true).
    { destruct (Nat.lt_ge_cases b0 2) as [L|L].
      - apply orb_true_iff; left; apply Nat.ltb_lt; exact L.
      - apply orb_true_iff; right; apply Nat.eqb_eq; apply B; exact L. }
    rewrite E2. cbn [andb]. apply orb_true_iff. destruct C as [[C1 C2]|[C1 [C2 C3]]].
    + left. apply andb_true_iff; split; apply Nat.eqb_eq; assumption.
    + right. repeat (apply andb_true_iff; split); apply Nat.eqb_eq; assumption.
  - destruct H3 as [A B]. apply andb_true_iff; split; apply Nat.eqb_eq; assumption.
Qed.

Definition Rb (c : cfg) (s : st) (m : option tev) : Prop := Rt c s m /\ pending s = 0.
Definition Rm (c : cfg) (s : st) (m : option tev) : Prop := Rt c s m /\ Pend s.

Lemma goto_t c k s m :
  k <> PTSd -> Rt c (set_pc (AtEv k) s) m -> pending s = 0 ->
  exists m', mrun (tstep c) m (snd (goto k s)) = Some m' /\ Rb c (fst (goto k s)) m'.
Proof.
  intros Hk H P. exists m. cbn [goto fst snd mrun]. split; [|split; assumption].
  unfold ev_of. destruct k; try reflexivity. congruence.
Qed.

Lemma Rt_end c s m k : class_of (AtEv k) = CEnd -> Rt c (set_pc (AtEv k) s) m.
Proof. intro H. unfold Rt. simpl pc. rewrite H. exact I. Qed.

Lemma loop_head_t c s m :
  (ending s = false -> Rt c (set_pc (AtEv PTWS) (if (cur s =? 0) then rotate s else s)) m) ->
  pending s = 0 ->
  exists m', mrun (tstep c) m (snd (loop_head s)) = Some m' /\ Rb c (fst (loop_head s)) m'.
Proof.
  intros H P. unfold loop_head. destruct (ending s).
  - apply goto_t; [discriminate | apply Rt_end; reflexivity | exact P].
  - apply goto_t; [discriminate | apply H; reflexivity | destruct (cur s =? 0); exact P].
Qed.

Lemma ball_i_inc s i : i <> cur s - 1 ->
  ball_i (upd_cur (fun be => (S (fst be), snd be)) s) i = ball_i s i.
Proof.
  intro H. unfold ball_i, upd_cur. destruct (cur s) as [|j] eqn:C; [reflexivity|].
  simpl. rewrite nth_upd_other; [reflexivity | lia].
Qed.

Ltac same_class Epc H P :=
  apply goto_t;
  [ discriminate
  | eapply Rt_transfer;
    [ simpl pc; rewrite Epc; reflexivity
    | simpl pc; intro; discriminate
    | reflexivity | reflexivity | reflexivity | auto | exact H ]
  | exact P ].

Lemma Rt_adv c s m : 1 <= bpg c -> Rb c s m -> Inv s -> enabled fixed s ->
  exists m', mrun (tstep c) m (snd (advance fixed c s)) = Some m' /\ Rb c (fst (advance fixed c s)) m'.
Proof.
  intros Hb [H P] (_ & _ & _ & _ & I5) En. unfold advance. unfold enabled in En.
  destruct (pc s) as [[]| | | |] eqn:Epc.
  - (* GWS *) same_class Epc H P.
  - (* GSg *)
    pose proof H as H0. unfold Rt in H0. rewrite Epc in H0. cbn [class_of] in H0.
    destruct H0 as (A & B & D & E & F).
    destruct (0 <? np s) eqn:N0.
    + apply Nat.ltb_lt in N0. apply goto_t; [discriminate | | exact P].
      eapply Rt_transfer; [simpl pc; rewrite Epc; reflexivity | intros _; right; right; exact N0
                          | reflexivity | reflexivity | reflexivity | auto | exact H].
    + apply Nat.ltb_ge in N0. assert (Zn : np s = 0) by lia.
      assert (Zc : cur s = 0) by (destruct D as [D|[D1 D2]]; [exact D | lia]).
      (* the state after the game's own request, when the first player is not (yet) added *)
      assert (WP : forall x, pc x = pc s -> pending x = 0 -> tactive x = false -> cur x = 0 -> ending x = ending s ->
                   pev x = false -> (forall i, ball_i x i = 0) ->
                 exists m', mrun (tstep c) m (snd (if fix_wait fixed && ending x || pev x then goto GSd x else (set_pc WaitPlayer x, []))) = Some m' /\
                            Rb c (fst (if fix_wait fixed && ending x || pev x then goto GSd x else (set_pc WaitPlayer x, []))) m').
      { intros x X1 X2 X3 X4 X5 X6 X7. rewrite X5, X6. cbn [fix_wait fixed andb]. rewrite orb_false_r.
        destruct (ending s) eqn:En0.
        - apply goto_t; [discriminate | | exact X2].
          unfold Rt. simpl pc. cbn [class_of]. split; [exact A|]. split; [exact X3|]. split; [left; exact X4|].
          split; [exact X7|]. intros _. left. change (ending x = true). congruence.
        - exists m. split; [reflexivity|]. split; [|exact X2].
          unfold Rt. simpl pc. cbn [class_of]. split; [exact A|]. split; [exact X3|]. split; [left; exact X4|].
          split; [exact X7|]. intro G; discriminate G. }
      destruct (gate fixed c (set_pev false s) && own_ok c).
      * unfold add_first_player. destruct (hold_adds c).
        -- apply WP; try reflexivity; auto.
           intro i. unfold ball_i. simpl. destruct i as [|[|i]]; reflexivity.
        -- replace (fix_wait fixed && _ || _) with true by (simpl; rewrite orb_true_r; reflexivity).
           apply goto_t; [discriminate | | exact P].
           unfold Rt. simpl pc. cbn [class_of]. split; [exact A|]. split; [exact B|].
           split; [right; split; [reflexivity | unfold np; simpl; lia]|].
           split; [intro i; unfold ball_i; simpl; destruct i as [|[|i]]; reflexivity|].
           intros _. right. unfold np. simpl. lia.
      * apply WP; try reflexivity; auto.
  - (* GSd *)
    pose proof H as H0. unfold Rt in H0. rewrite Epc in H0. cbn [class_of] in H0.
    destruct H0 as (A & B & D & E & F).
    apply loop_head_t; [|exact P]. intro En0.
    destruct (F eq_refl) as [F1|F1]; [congruence|].
    assert (Hs : exists s2, (if cur s =? 0 then rotate s else s) = s2 /\ cur s2 = 1 /\ np s2 = np s /\
                            tactive s2 = false /\ (forall i, ball_i s2 i = ball_i s i)).
    { destruct D as [D1|[D1 D2]]; rewrite D1; cbn [Nat.eqb].
      - exists (rotate s). unfold rotate. rewrite D1. simpl. auto.
      - exists s. auto. }
    destruct Hs as (s2 & -> & C2 & N2 & T2 & Bi).
    assert (Pb : pball s2 = 0) by (rewrite pball_ball_i, C2, Bi; apply E).
    assert (Rn : rnd s2 = 1) by (unfold rnd; rewrite Pb, T2; reflexivity).
    unfold Rt. simpl pc. cbn [class_of]. split; [exact T2|]. split.
    + change (Core c s2). unfold Core. rewrite C2, N2, Rn. split; [lia|]. split; [|lia].
      intro i. rewrite C2, N2, Rn, Bi. split; [lia|]. intros _. rewrite E. reflexivity.
    + change (LtPre s2 m). rewrite A. cbn. auto.
  - (* GWE *) apply goto_t; [discriminate | apply Rt_end; reflexivity | exact P].
  - (* GEg *) apply goto_t; [discriminate | apply Rt_end; reflexivity | exact P].
  - (* GEd *) exists m. split; [reflexivity|]. split; [unfold Rt; simpl; exact I | exact P].
  - (* PTWS *) same_class Epc H P.
  - (* PTSg: player_turn_started is posted *)
    pose proof H as H0. unfold Rt in H0. rewrite Epc in H0. cbn [class_of] in H0.
    destruct H0 as (A & (B1 & B2 & B3) & D).
    destruct (inc_facts s B1) as (F1 & F2 & F3 & F4 & F5 & F6 & F7 & F8).
    set (s1 := upd_cur (fun be => (S (fst be), snd be)) s) in *.
    assert (Rn : rnd s = S (pball s)) by (unfold rnd; rewrite A; lia).
    assert (Pp : pending s1 = 0) by (unfold s1, upd_cur; destruct (cur s); exact P).
    exists (Some (cur s, S (pball s), np s)).
    cbn [goto fst snd mrun]. unfold ev_of.
    change (cur (set_tactive true s1)) with (cur s1). change (pball (set_tactive true s1)) with (pball s1).
    change (np (set_tactive true s1)) with (np s1). rewrite F1, F2, F3. cbn [tstep].
    rewrite tsuccb_intro; [| exact B1 | rewrite <- Rn; exact B3 |].
    + split; [reflexivity|]. split; [|exact Pp].
      unfold Rt. simpl pc. cbn [class_of]. split; [reflexivity|]. split.
      * change (Core c (set_tactive true s1)). unfold Core.
        assert (R1 : rnd (set_tactive true s1) = rnd s)
          by (rewrite Rn; unfold rnd; change (pball (set_tactive true s1)) with (pball s1);
              change (tactive (set_tactive true s1)) with true; rewrite F2; lia).
        change (cur (set_tactive true s1)) with (cur s1). change (np (set_tactive true s1)) with (np s1).
        rewrite F1, F3, R1. split; [exact B1|]. split; [|exact B3].
        intro i. change (cur (set_tactive true s1)) with (cur s1). change (np (set_tactive true s1)) with (np s1).
        change (ball_i (set_tactive true s1) i) with (ball_i s1 i). rewrite F1, F3, R1.
        destruct (B2 i) as [S1 S2]. split; intro Q; (unfold s1; rewrite ball_i_inc by lia); [apply S1 | apply S2]; exact Q.
      * exists (np s). change (cur (set_pc (AtEv PTSd) (set_tactive true s1))) with (cur s1).
        change (pball (set_pc (AtEv PTSd) (set_tactive true s1))) with (pball s1).
        change (np (set_pc (AtEv PTSd) (set_tactive true s1))) with (np s1).
        rewrite F1, F2, F3. auto.
    + unfold LtPre in D. rewrite Rn in D. destruct m as [[[p0 b0] n0]|]; [|exact D].
      destruct D as (D1 & D2 & D3 & D4). auto.
  - (* PTSd *) unfold run_ball. same_class Epc H P.
  - (* PTWE *) same_class Epc H P.
  - (* PTEg *) same_class Epc H P.
  - (* PTEd: the turn is over *)
    pose proof H as H0. unfold Rt in H0. rewrite Epc in H0. cbn [class_of] in H0.
    destruct H0 as (A & (B1 & B2 & B3) & n0 & D1 & D2 & D3).
    assert (Rn : rnd s = pball s) by (unfold rnd; rewrite A; lia).
    unfold after_turn. set (s1 := set_tactive false s).
    destruct (slam s1 || (bpg c <=? pball s1) && (cur s1 =? np s1)) eqn:Cond.
    + apply loop_head_t; [intro Q; discriminate Q | exact P].
    + apply orb_false_iff in Cond as [_ Cond].
      change (pball s1) with (pball s) in Cond. change (cur s1) with (cur s) in Cond. change (np s1) with (np s) in Cond.
      apply loop_head_t; [|exact P]. intros _.
      unfold rotate. change (cur s1) with (cur s). change (np s1) with (np s).
      assert (C0 : (cur s =? 0) = false) by (apply Nat.eqb_neq; lia). rewrite C0. cbn [negb andb].
      destruct (cur s <? np s) eqn:Lt.
      * (* next player *)
        apply Nat.ltb_lt in Lt. cbn [Nat.eqb].
        set (s2 := set_cur (S (cur s)) s1).
        assert (Bi : forall i, ball_i s2 i = ball_i s i) by reflexivity.
        assert (P2 : S (pball s2) = pball s).
        { rewrite pball_ball_i. change (cur s2) with (S (cur s)). cbv beta iota. rewrite Bi.
          destruct (B2 (cur s)) as [_ S2]. rewrite <- Rn. apply S2. lia. }
        assert (R2 : rnd s2 = pball s) by (unfold rnd; change (tactive s2) with false; cbv iota; lia).
        unfold Rt. simpl pc. cbn [class_of]. split; [reflexivity|]. split.
        -- change (Core c s2). unfold Core. change (cur s2) with (S (cur s)). change (np s2) with (np s).
           rewrite R2. split; [lia|]. split; [|lia].
           intro i. change (cur s2) with (S (cur s)). change (np s2) with (np s). rewrite Bi, R2.
           destruct (B2 i) as [S1 S2]. rewrite Rn in S1, S2. split; intro Q.
           ++ destruct (Nat.eq_dec i (cur s - 1)) as [->|Ne]; [|apply S1; lia].
              rewrite pball_ball_i. destruct (cur s) eqn:Cc; [lia|]. simpl. rewrite Nat.sub_0_r. reflexivity.
           ++ apply S2. lia.
        -- change (LtPre s2 m). rewrite D1. unfold LtPre. change (cur s2) with (S (cur s)). change (np s2) with (np s).
           rewrite R2. repeat split; auto; lia.
      * (* the last player is followed by player 1 *)
        apply Nat.ltb_ge in Lt. assert (Eq : cur s = np s) by lia.
        assert (E1 : (cur s =? np s) = true) by (apply Nat.eqb_eq; exact Eq).
        rewrite E1, andb_true_r in Cond. apply Nat.leb_gt in Cond. cbn [Nat.eqb].
        set (s2 := set_cur 1 s1).
        assert (Bi : forall i, ball_i s2 i = ball_i s i) by reflexivity.
        assert (All : forall i, i < np s -> ball_i s i = pball s).
        { intros i Q. destruct (Nat.eq_dec i (cur s - 1)) as [->|Ne].
          - rewrite pball_ball_i. destruct (cur s) eqn:Cc; [lia|]. simpl. rewrite Nat.sub_0_r. reflexivity.
          - destruct (B2 i) as [S1 _]. rewrite <- Rn. apply S1. lia. }
        assert (P2 : pball s2 = pball s).
        { rewrite pball_ball_i. change (cur s2) with 1. cbv beta iota. rewrite Bi. apply All. lia. }
        assert (R2 : rnd s2 = S (pball s)) by (unfold rnd; change (tactive s2) with false; cbv iota; lia).
        unfold Rt. simpl pc. cbn [class_of]. split; [reflexivity|]. split.
        -- change (Core c s2). unfold Core. change (cur s2) with 1. change (np s2) with (np s).
           rewrite R2. split; [lia|]. split; [|lia].
           intro i. change (cur s2) with 1. change (np s2) with (np s). rewrite Bi, R2.
           split; [lia|]. intro Q. rewrite All by lia. reflexivity.
        -- change (LtPre s2 m). rewrite D1. unfold LtPre. change (cur s2) with 1. change (np s2) with (np s).
           rewrite R2. repeat split; auto; try lia.
  - (* BWS *) destruct (0 <? pf s)%Z; [|same_class Epc H P].
    exists m. split; [reflexivity|]. split; [|exact P].
    eapply Rt_transfer; [simpl pc; rewrite Epc; reflexivity | simpl pc; intro; discriminate
                        | reflexivity | reflexivity | reflexivity | auto | exact H].
  - (* BSg *)
    destruct (set_bip_form c 1%Z (set_drainh true s)) as [b [e ->]]. same_class Epc H P.
  - (* BSd *) unfold await_end. change (endev (set_pf ?a ?x)) with (endev x). destruct (endev s).
    + unfold end_ball. same_class Epc H P.
    + exists m. split; [reflexivity|]. split; [|exact P].
      eapply Rt_transfer; [simpl pc; rewrite Epc; reflexivity | simpl pc; intro; discriminate
                          | reflexivity | reflexivity | reflexivity | auto | exact H].
  - (* BWE *) same_class Epc H P.
  - (* BEg *) same_class Epc H P.
  - (* BEd *) destruct ((0 <? pextra s) && negb (slam s)).
    + unfold run_ball.
      destruct (Keep_upd_snd (fun be => (fst be, pred (snd be))) (fun _ => eq_refl) s)
        as (K1 & K2 & K3 & K4 & K5 & K6 & K7 & K8 & K9).
      set (s1 := upd_cur (fun be => (fst be, pred (snd be))) s) in *.
      assert (Pp : pending s1 = 0) by (unfold s1, upd_cur; destruct (cur s); exact P).
      apply goto_t; [discriminate | | exact Pp].
      eapply Rt_transfer; [simpl pc; rewrite Epc; reflexivity | simpl pc; intro; discriminate
                          | exact K2 | exact K9 | exact K7 | | exact H].
      intro Q. change (ending s1 = true). unfold s1, upd_cur. destruct (cur s); exact Q.
    + same_class Epc H P.
  - (* WaitBall *) unfold await_end. cbv beta iota in En. rewrite En. unfold end_ball. same_class Epc H P.
  - (* WaitPlayer *)
    cbv beta iota in En. unfold wait_player_ready in En. cbn [fix_wait fixed andb] in En.
    apply goto_t; [discriminate | | exact P].
    eapply Rt_transfer; [simpl pc; rewrite Epc; reflexivity | | reflexivity | reflexivity | reflexivity | auto | exact H].
    intros _. right. apply orb_true_iff in En as [En|En]; [left; exact En | right; apply I5; exact En].
  - (* WaitEmpty *) same_class Epc H P.
  - (* Done *) exists m. split; [reflexivity|]. split; assumption.
Qed.

Lemma Rb_init c : Rb c init None.
Proof.
  split; [|reflexivity]. unfold Rt, init. simpl. repeat split; auto.
  - intro i. unfold ball_i. simpl. destruct i; reflexivity.
  - intro G; discriminate G.
Qed.

Lemma turn_structure_l : forall c ins, 1 <= bpg c -> turns_ok c (trace c ins).
Proof.
  intros c ins Hb.
  assert (HS : exists m', mrun (tstep c) None (snd (steps c init ins)) = Some m' /\
                          (Rb c (fst (steps c init ins)) m' /\ Inv (fst (steps c init ins)))).
  { unfold steps. apply (mon_steps (tstep c) fixed c (fun s m => Rm c s m /\ Inv s) (fun s m => Rb c s m /\ Inv s)).
    - intros s m [[H P] HI]. split; [split; [exact H | left; exact P] | exact HI].
    - intros s m o [[H P] HI]. exists m. split.
      + destruct o; reflexivity.
      + split; [split; [eapply Rt_Keep; [apply Keep_apply_op | exact H] | apply Pend_op; exact P]|].
        eapply Inv_Keep; [apply Keep_apply_op | apply pev_apply_op | exact HI].
    - intros s m [[H P] HI]. split; [apply Rt_flush; assumption|].
      apply (Rg_flush c s (g_of s)). split; [reflexivity | exact HI].
    - intros s m [H HI] En. destruct (Rt_adv c s m Hb H HI En) as [m' [E R]].
      exists m'. split; [exact E|]. split; [exact R|].
      destruct (Rg_adv c s (g_of s) (conj eq_refl HI) En) as [g' [_ [_ HI']]]. exact HI'.
    - intros s m H _. exists m. split; [reflexivity | exact H].
    - split; [apply Rb_init | apply Rg_init]. }
  destruct HS as [m' [E _]]. exists m'. unfold trace, out0. rewrite mrun_app. cbn. exact E.
Qed.

(* The code before fixes/C06-first-player-after-held-add.patch (the other fixes applied): a handler of player_adding
   holds the queues of players 1 and 2 (requested while game_will_start is handled); while game_starting is held,
   the queue of player 2 is released first.  _player_adding_complete makes player 2 the current player and the
   game starts with him: the turn monitor rejects the trace.  (Replayed on the implementation:
   corpus/C06/game.4.json.) *)
Definition no_first_fix : variant := mkv true true false.
Definition first_cfg : cfg := mkcfg 2 4 3 true true.
Definition first_ins : list input :=
  [mkin [AddPlayerReq true; AddPlayerReq true] [] []; mkin [] [[ReleaseAdd true]] []] ++ repeat calm 30.

Lemma first_player_refuted_unfixed_l :
  exists c ins, 1 <= bpg c /\
    mrun (tstep c) None (out0 ++ snd (steps_g no_first_fix c init ins)) = None /\
    exists m, mrun (tstep c) None (trace c ins) = Some (Some m).
Proof.
  exists first_cfg, first_ins. split; [cbn; lia|]. split; [vm_compute; reflexivity|].
  eexists. vm_compute. reflexivity.
Qed.
