(* C06/Model.v — executable model of the game lifecycle coroutine of
   mpf/modes/game/code/game.py (Game._run and its callees), WITH the proposed fixes
   fixes/C06-late-player-add.patch, fixes/C06-end-game-before-first-player.patch and
   fixes/C06-first-player-after-held-add.patch applied (the model is parametrised by a [variant]; the unfixed
   variants are refuted in Lemmas.v / Turns.v).  fixes/C06-ball-start-before-player-added.patch repairs a crash in
   mode_controller._ball_starting that the model does not contain (the model has no exceptions).

   The coroutine is a program-counter machine.  Its suspension points are the awaits:
     AtEv k      suspended in post_async / post_queue_async of lifecycle event k
     WaitBall    suspended in  await self._end_ball_event.wait()
     WaitPlayer  suspended in  await self._at_least_one_player_event.wait()
     Done        _run returned; the mode stops and machine.game becomes None
     WaitEmpty   suspended in  await ball_controller.wait_until_playfields_are_empty()  (between ball_will_start
                 and ball_starting; polls playfield.available_balls > 0 once per second)
   The other awaits of _start_ball (single/multi_player_ball_started, player_N_ball_started, ball_start_target)
   receive no environment operation in the rig and are therefore not suspension points of the model.
   [pf] is playfield.available_balls: owned by the environment (drains, stray balls, lost balls: Drain / PfAdd),
   incremented by the game's playfield.add_ball() at the end of _start_ball, read by WaitEmpty.

   The environment acts only at suspension points, in BATCHES.  A batch is a list of operations that the event
   manager processes in one run of process_event_queue: the operations take effect in order, and the player-add
   chains (player_add_request -> callback -> player_adding -> callback -> player_added) that they started complete
   after the last operation of the batch (callback_queue is only popped when the event queue is empty); this is
   [pending] / [flush]. *)
From Common Require Import Prelude.
Open Scope Z_scope.

Inductive kind :=
| GWS | GSg | GSd | GWE | GEg | GEd            (* game_will_start .. game_ended *)
| PTWS | PTSg | PTSd | PTWE | PTEg | PTEd      (* player_turn_will_start .. player_turn_ended *)
| BWS | BSg | BSd | BWE | BEg | BEd.           (* ball_will_start .. ball_ended *)

Inductive pc_t := AtEv (k : kind) | WaitBall | WaitPlayer | WaitEmpty | Done.

(* operations on what surrounds the coroutine: the stop procedure of the game mode (Mode.stop -> mode_game_stopping ->
   Game._stop_game_modes -> AsyncMode._stopped) and a further game mode with stop_on_ball_end: false.  They do not touch
   the state of the coroutine; Outer.v gives them their meaning. *)
Inductive aux :=
| StopGame                 (* modes.game.stop() from outside (service mode entered, machine code) *)
| MStart                   (* the further game mode gets its start event *)
| MStop (hold : bool)      (* it gets its own stop event; hold: a handler of mode_<name>_stopping keeps the queue *)
| MRelease                 (* that handler clears the queue *)
| Noise.                   (* start/stop of a game mode with stop_on_ball_end: true whose stop is never held *)

Inductive op :=
| Drain (n : Z)            (* relay event ball_drain, balls=n (n=0: the ball was saved); the n balls leave the playfield *)
| PfAdd (d : Z)            (* playfield.available_balls += d: stray ball rolls into the drain (d<0), ball found / lost (d>0) *)
| AddBip (d : Z)           (* game.balls_in_play += d  (multiball, lost locked balls, ...) *)
| EndBall                  (* game.end_ball() / event end_ball *)
| EndGame                  (* game.end_game() / event end_game *)
| SlamTilt                 (* Tilt.slam_tilt: slam_tilted = True; tilt() -> end_ball() unless the game is ending *)
| AddPlayerReq (allowed : bool)   (* game.request_player_add(); [allowed] = answer of the player_add_request handlers *)
| ReleaseAdd (newest : bool)      (* a handler that held a player_adding queue open clears it (oldest / newest one) *)
| AwardExtra               (* game.player.extra_balls += 1 (when there is a current player) *)
| Aux (a : aux).           (* acts on the game's surroundings only (Outer.v): no effect on the coroutine's own state *)

Record cfg := mkcfg { bpg : nat; maxp : nat; nbk : Z; own_ok : bool; hold_adds : bool }.
(* balls_per_game, max_players, ball_controller.num_balls_known, answer to the game's own first player_add_request,
   and whether a handler of the player_adding queue event holds every new player's queue open until a ReleaseAdd *)

Record st := mkst {
  pc : pc_t;
  players : list (nat * nat);   (* per player: (ball, extra_balls); player number = index + 1 *)
  cur : nat;                    (* number of self.player, 0 = None *)
  bip : Z;                      (* _balls_in_play *)
  endev : bool;                 (* _end_ball_event.is_set() *)
  ending : bool;
  slam : bool;                  (* slam_tilted *)
  tactive : bool;               (* _player_turn_active (added by the fix) *)
  drainh : bool;                (* the ball_drain handler is registered *)
  pending : nat;                (* accepted player-add requests whose callback chain has not run yet *)
  heldq : list nat;             (* players (numbers) created whose player_adding queue is still open, oldest first *)
  rels : list nat;              (* player_adding queues cleared in this batch; their callbacks run after the batch *)
  pev : bool;                   (* _at_least_one_player_event.is_set() *)
  xb : bool;                    (* is_extra_ball of the ball being run *)
  active : bool;                (* machine.game is not None *)
  pf : Z                        (* playfield.available_balls (environment-owned; +1 by add_ball at every ball start) *)
}.

Inductive out :=
| Ev (k : kind) (p b : nat) (x : bool) (bp : Z) (np : nat)
    (* event k posted; p = player number (0 none), b = that player's ball variable, x = is_extra_ball (ball start
       events), bp = balls_in_play and np = len(player_list) when the event's handlers run *)
| Idle (bp : Z) (np : nat) (pfb : Z)   (* the game is still waiting after an idle batch; pfb = playfield.available_balls *)
| Award (p : nat)             (* an AwardExtra operation credited player p (0: nobody) *)
| OpObs (code : Z) (bp : Z)   (* one per environment operation: code 1 = end_ball request, 2 = end_game request,
                                 3 = slam tilt while the game is not ending (requests the ball end), 4 = slam tilt while
                                 ending, 0 = any other operation; bp = balls_in_play after the operation *)
| Fin.                        (* the coroutine returned *)

(* ------------------------------------------------------------------------------------------- *)
(* setters *)
Definition set_pc v s := mkst v (players s) (cur s) (bip s) (endev s) (ending s) (slam s) (tactive s) (drainh s) (pending s) (heldq s) (rels s) (pev s) (xb s) (active s) (pf s).
Definition set_players v s := mkst (pc s) v (cur s) (bip s) (endev s) (ending s) (slam s) (tactive s) (drainh s) (pending s) (heldq s) (rels s) (pev s) (xb s) (active s) (pf s).
Definition set_cur v s := mkst (pc s) (players s) v (bip s) (endev s) (ending s) (slam s) (tactive s) (drainh s) (pending s) (heldq s) (rels s) (pev s) (xb s) (active s) (pf s).
Definition set_bipraw v s := mkst (pc s) (players s) (cur s) v (endev s) (ending s) (slam s) (tactive s) (drainh s) (pending s) (heldq s) (rels s) (pev s) (xb s) (active s) (pf s).
Definition set_endev v s := mkst (pc s) (players s) (cur s) (bip s) v (ending s) (slam s) (tactive s) (drainh s) (pending s) (heldq s) (rels s) (pev s) (xb s) (active s) (pf s).
Definition set_ending v s := mkst (pc s) (players s) (cur s) (bip s) (endev s) v (slam s) (tactive s) (drainh s) (pending s) (heldq s) (rels s) (pev s) (xb s) (active s) (pf s).
Definition set_slam v s := mkst (pc s) (players s) (cur s) (bip s) (endev s) (ending s) v (tactive s) (drainh s) (pending s) (heldq s) (rels s) (pev s) (xb s) (active s) (pf s).
Definition set_tactive v s := mkst (pc s) (players s) (cur s) (bip s) (endev s) (ending s) (slam s) v (drainh s) (pending s) (heldq s) (rels s) (pev s) (xb s) (active s) (pf s).
Definition set_drainh v s := mkst (pc s) (players s) (cur s) (bip s) (endev s) (ending s) (slam s) (tactive s) v (pending s) (heldq s) (rels s) (pev s) (xb s) (active s) (pf s).
Definition set_pending v s := mkst (pc s) (players s) (cur s) (bip s) (endev s) (ending s) (slam s) (tactive s) (drainh s) v (heldq s) (rels s) (pev s) (xb s) (active s) (pf s).
Definition set_heldq v s := mkst (pc s) (players s) (cur s) (bip s) (endev s) (ending s) (slam s) (tactive s) (drainh s) (pending s) v (rels s) (pev s) (xb s) (active s) (pf s).
Definition set_rels v s := mkst (pc s) (players s) (cur s) (bip s) (endev s) (ending s) (slam s) (tactive s) (drainh s) (pending s) (heldq s) v (pev s) (xb s) (active s) (pf s).
Definition set_pev v s := mkst (pc s) (players s) (cur s) (bip s) (endev s) (ending s) (slam s) (tactive s) (drainh s) (pending s) (heldq s) (rels s) v (xb s) (active s) (pf s).
Definition set_xb v s := mkst (pc s) (players s) (cur s) (bip s) (endev s) (ending s) (slam s) (tactive s) (drainh s) (pending s) (heldq s) (rels s) (pev s) v (active s) (pf s).
Definition set_active v s := mkst (pc s) (players s) (cur s) (bip s) (endev s) (ending s) (slam s) (tactive s) (drainh s) (pending s) (heldq s) (rels s) (pev s) (xb s) v (pf s).
Definition set_pf v s := mkst (pc s) (players s) (cur s) (bip s) (endev s) (ending s) (slam s) (tactive s) (drainh s) (pending s) (heldq s) (rels s) (pev s) (xb s) (active s) v.

Definition np (s : st) : nat := length (players s).
Definition pl (s : st) : nat * nat := nth (cur s - 1) (players s) (0%nat, 0%nat).
Definition pball (s : st) : nat := match cur s with O => O | _ => fst (pl s) end.
Definition pextra (s : st) : nat := match cur s with O => O | _ => snd (pl s) end.

Fixpoint upd {A} (i : nat) (f : A -> A) (l : list A) : list A :=
  match l, i with
  | [], _ => []
  | x :: l', O => f x :: l'
  | x :: l', S i' => x :: upd i' f l'
  end.

Definition upd_cur (f : nat * nat -> nat * nat) (s : st) : st :=
  match cur s with O => s | S i => set_players (upd i f (players s)) s end.

(* balls_in_play setter: cap at num_balls_known, floor at 0, set the end-of-ball event on a transition to 0 *)
Definition clamp (c : cfg) (v : Z) : Z := if nbk c <? v then nbk c else if v <? 0 then 0 else v.
Definition set_bip (c : cfg) (v : Z) (s : st) : st :=
  let nv := clamp c v in
  let s1 := set_bipraw nv s in
  if negb (bip s =? 0) && (nv =? 0) then set_endev true s1 else s1.

(* which of the two proposed fixes are applied; the theorems are about [fixed] *)
Record variant := mkv { fix_gate : bool; fix_wait : bool; fix_first : bool }.
Definition fixed : variant := mkv true true true.
Definition unfixed : variant := mkv false false false.

(* request_player_add's own checks: not ending, below max_players, and the current player is not on a ball after
   ball 1 (unfixed: "self.player.ball > 1"; fixed: a player whose turn has not started is about to play ball+1) *)
Definition gate (v : variant) (c : cfg) (s : st) : bool :=
  negb (ending s) && (np s <? maxp c)%nat &&
  match cur s with
  | O => true
  | _ => negb (1 <? pball s + (if fix_gate v && negb (tactive s) then 1 else 0))%nat
  end.

Definition op_st (v : variant) (c : cfg) (s : st) (o : op) : st :=
  match o with
  | Drain n => set_pf (pf s - n) (if drainh s && negb (n =? 0) then set_bip c (bip s - n) s else s)
  | PfAdd d => set_pf (pf s + d) s
  | AddBip d => set_bip c (bip s + d) s
  | EndBall => set_endev true s
  | EndGame => set_endev true (set_ending true s)
  | SlamTilt => let s1 := set_slam true s in if ending s then s1 else set_endev true s1
  | AddPlayerReq a => if gate v c s && a then set_pending (S (pending s)) s else s
  | ReleaseAdd newest =>
      match (if newest then rev (heldq s) else heldq s) with
      | [] => s
      | k :: q => set_rels (rels s ++ [k]) (set_heldq (if newest then rev q else q) s)
      end
  | AwardExtra => upd_cur (fun be => (fst be, S (snd be))) s
  | Aux _ => s
  end.

Definition opcode (s : st) (o : op) : Z :=
  match o with EndBall => 1 | EndGame => 2 | SlamTilt => if ending s then 4 else 3 | _ => 0 end.

(* every operation is followed by an observation of balls_in_play *)
Definition apply_op (v : variant) (c : cfg) (s : st) (o : op) : st * list out :=
  (op_st v c s o,
   match o with AwardExtra => [Award (cur s)] | _ => [] end ++ [OpObs (opcode s o) (bip (op_st v c s o))]).

(* the callback chains of the accepted requests run: the players are created (numbered in order).  Without a
   player_adding handler they are added at once; otherwise their queues stay open ([heldq]).  Then the callbacks of
   the queues cleared in this batch run.  Every completed add sets _at_least_one_player_event, and if there is no
   current player yet it sets one: the player that completed (unfixed) / the first player of the list (fixed). *)
Definition flush (v : variant) (c : cfg) (s : st) : st :=
  let created := seq (S (length (players s))) (pending s) in
  let ps := players s ++ repeat (0%nat, 0%nat) (pending s) in
  let done := (if hold_adds c then [] else created) ++ rels s in
  let s1 := set_rels [] (set_heldq (heldq s ++ (if hold_adds c then created else [])) (set_pending 0%nat (set_players ps s))) in
  match done, ps with
  | k :: _, _ :: _ =>
      let s2 := set_pev true s1 in
      match cur s with O => set_cur (if fix_first v then 1%nat else k) s2 | _ => s2 end
  | _, _ => s1
  end.

Fixpoint batch (v : variant) (c : cfg) (s : st) (ops : list op) : st * list out :=
  match ops with
  | [] => (flush v c s, [])
  | o :: ops' => let (s1, o1) := apply_op v c s o in
                 let (s2, o2) := batch v c s1 ops' in (s2, o1 ++ o2)
  end.

Fixpoint batches (v : variant) (c : cfg) (s : st) (bs : list (list op)) : st * list out :=
  match bs with
  | [] => (s, [])
  | b :: bs' => let (s1, o1) := batch v c s b in
                let (s2, o2) := batches v c s1 bs' in (s2, o1 ++ o2)
  end.

(* ------------------------------------------------------------------------------------------- *)
(* the coroutine between two suspension points *)
Definition is_ball_start (k : kind) : bool := match k with BWS | BSg | BSd => true | _ => false end.
Definition is_game_kind (k : kind) : bool :=
  match k with GWS | GSg | GSd | GWE | GEg | GEd => true | _ => false end.
(* game_* events carry no player: player and ball are reported as 0 for them *)
Definition ev_of (k : kind) (s : st) : out :=
  Ev k (if is_game_kind k then 0%nat else cur s) (if is_game_kind k then 0%nat else pball s)
     (is_ball_start k && xb s) (bip s) (np s).
Definition goto (k : kind) (s : st) : st * list out := (set_pc (AtEv k) s, [ev_of k s]).

Definition rotate (s : st) : st :=
  set_cur (if negb (cur s =? 0)%nat && (cur s <? np s)%nat then S (cur s) else 1%nat) s.

(* while not self.ending: ... else _end_game *)
Definition loop_head (s : st) : st * list out :=
  if ending s then goto GWE s
  else goto PTWS (if (cur s =? 0)%nat then rotate s else s).

Definition run_ball (x : bool) (s : st) : st * list out := goto BWS (set_xb x (set_endev false s)).

(* _end_ball: remove the drain handler, _balls_in_play = 0 (not through the setter), ball_will_end *)
Definition end_ball (s : st) : st * list out := goto BWE (set_bipraw 0 (set_drainh false s)).

Definition await_end (s : st) : st * list out :=
  if endev s then end_ball s else (set_pc WaitBall s, []).

Definition after_turn (c : cfg) (s : st) : st * list out :=
  if slam s || ((bpg c <=? pball s)%nat && (cur s =? np s)%nat)
  then loop_head (set_ending true s)
  else loop_head (rotate s).

(* the game's own request for the first player (player_list is empty): created at once; added at once unless held *)
Definition add_first_player (c : cfg) (s : st) : st :=
  let s1 := set_players [(0%nat, 0%nat)] s in
  if hold_adds c then set_heldq (heldq s ++ [1%nat]) s1 else set_pev true (set_cur 1%nat s1).

Definition advance (v : variant) (c : cfg) (s : st) : st * list out :=
  match pc s with
  | AtEv GWS => goto GSg s
  | AtEv GSg =>
      if (0 <? np s)%nat then goto GSd (set_pev true s)
      else
        let s0 := set_pev false s in
        let s1 := if gate v c s0 && own_ok c then add_first_player c s0 else s0 in
        if (fix_wait v && ending s1) || pev s1 then goto GSd s1 else (set_pc WaitPlayer s1, [])
  | WaitPlayer => goto GSd s
  | AtEv GSd => loop_head s
  | AtEv PTWS => goto PTSg s
  | AtEv PTSg => goto PTSd (set_tactive true (upd_cur (fun be => (S (fst be), snd be)) s))
  | AtEv PTSd => run_ball false s
  | AtEv BWS => if 0 <? pf s then (set_pc WaitEmpty s, []) else goto BSg s
  | WaitEmpty => goto BSg s
  | AtEv BSg => goto BSd (set_bip c 1 (set_drainh true s))
  | AtEv BSd => await_end (set_pf (pf s + 1) s)     (* playfield.add_ball() at the end of _start_ball *)
  | WaitBall => await_end s
  | AtEv BWE => goto BEg s
  | AtEv BEg => goto BEd s
  | AtEv BEd =>
      if (0 <? pextra s)%nat && negb (slam s)
      then run_ball true (upd_cur (fun be => (fst be, pred (snd be))) s)
      else goto PTWE s
  | AtEv PTWE => goto PTEg s
  | AtEv PTEg => goto PTEd s
  | AtEv PTEd => after_turn c (set_tactive false s)
  | AtEv GWE => goto GEg s
  | AtEv GEg => goto GEd s
  | AtEv GEd => (set_active false (set_pc Done s), [Fin])
  | Done => (s, [])
  end.

(* ------------------------------------------------------------------------------------------- *)
(* one suspension: what the environment does there, then the coroutine runs to its next suspension *)
Record input := mkin { ev_ops : list op; holds : list (list op); idle_ops : list op }.
(* ev_ops: operations issued by a handler of the lifecycle event; holds: when the event is a queue event, a handler
   keeps a wait and these batches arrive one by one before it releases the wait; idle_ops: the batch used when the
   coroutine is suspended in WaitBall / WaitPlayer *)

Definition is_queue (k : kind) : bool :=
  match k with GSg | PTSg | PTEg | BSg | BEg | GEg => true | _ => false end.

(* fixed: end_game() also sets _at_least_one_player_event *)
Definition wait_player_ready (v : variant) (s : st) : bool := (fix_wait v && ending s) || pev s.

Definition step_g (v : variant) (c : cfg) (s : st) (i : input) : st * list out :=
  match pc s with
  | Done => (s, [])
  | AtEv k =>
      let (s1, o1) := batch v c s (ev_ops i) in
      let (s2, o2) := batches v c s1 (if is_queue k then holds i else []) in
      let (s3, o3) := advance v c s2 in (s3, o1 ++ o2 ++ o3)
  | WaitBall =>
      let (s1, o1) := batch v c s (idle_ops i) in
      if endev s1 then let (s3, o3) := advance v c s1 in (s3, o1 ++ o3)
      else (s1, o1 ++ [Idle (bip s1) (np s1) (pf s1)])
  | WaitPlayer =>
      let (s1, o1) := batch v c s (idle_ops i) in
      if wait_player_ready v s1 then let (s3, o3) := advance v c s1 in (s3, o1 ++ o3)
      else (s1, o1 ++ [Idle (bip s1) (np s1) (pf s1)])
  | WaitEmpty =>
      (* wait_until_playfields_are_empty: "if playfield.available_balls > 0: found_balls = True" *)
      let (s1, o1) := batch v c s (idle_ops i) in
      if pf s1 <=? 0 then let (s3, o3) := advance v c s1 in (s3, o1 ++ o3)
      else (s1, o1 ++ [Idle (bip s1) (np s1) (pf s1)])
  end.

Definition step := step_g fixed.

Definition init : st :=
  mkst (AtEv GWS) [] 0%nat 0 false false false false false 0%nat [] [] false false true 0.
Definition out0 : list out := [Ev GWS 0%nat 0%nat false 0 0%nat].
(* (out0 is the game_will_start event posted by the prologue of _run; balls_in_play = 0 and no players then) *)

Fixpoint steps_g (v : variant) (c : cfg) (s : st) (ins : list input) : st * list out :=
  match ins with
  | [] => (s, [])
  | i :: ins' => let (s1, o1) := step_g v c s i in
                 let (s2, o2) := steps_g v c s1 ins' in (s2, o1 ++ o2)
  end.
Definition steps := steps_g fixed.

Definition final (c : cfg) (ins : list input) : st := fst (steps c init ins).
Definition trace (c : cfg) (ins : list input) : list out := out0 ++ snd (steps c init ins).
Definition trace_unfixed (c : cfg) (ins : list input) : list out := out0 ++ snd (steps_g unfixed c init ins).

(* ------------------------------------------------------------------------------------------- *)
(* several games on the same Game mode object.  Game._run starts with an explicit re-initialisation of the object's
   fields (player, player_list, machine.game, slam_tilted, tilted, ending, num_players, _balls_in_play,
   _player_turn_active, two fresh asyncio.Events); it does NOT touch the ball_drain handler registration, the
   player-add chains in flight (pending / heldq / rels) or the playfield.  [start_game] is that prologue. *)
Definition start_game (s : st) : st :=
  set_pc (AtEv GWS) (set_active true (set_xb false (set_pev false (set_endev false (set_tactive false
    (set_bipraw 0 (set_ending false (set_slam false (set_players [] (set_cur 0%nat s)))))))))).

(* the mode object before its first game *)
Definition boot : st := set_active false (set_pc Done init).

Fixpoint games (s : st) (gs : list (cfg * list input)) : list out :=
  match gs with
  | [] => []
  | (c, ins) :: gs' =>
      let (s1, o1) := steps c (start_game s) ins in
      out0 ++ o1 ++ match pc s1 with Done => games s1 gs' | _ => [] end
  end.

(* ------------------------------------------------------------------------------------------- *)
(* canonical encoding for the correspondence run *)
Definition kcode (k : kind) : Z :=
  match k with
  | GWS => 0 | GSg => 1 | GSd => 2 | GWE => 3 | GEg => 4 | GEd => 5
  | PTWS => 6 | PTSg => 7 | PTSd => 8 | PTWE => 9 | PTEg => 10 | PTEd => 11
  | BWS => 12 | BSg => 13 | BSd => 14 | BWE => 15 | BEg => 16 | BEd => 17
  end.
Definition b2z (b : bool) : Z := if b then 1 else 0.
Definition enc (o : out) : list Z :=
  match o with
  | Ev k p b x bp n => [1; kcode k; Z.of_nat p; Z.of_nat b; b2z x; bp; Z.of_nat n]
  | Idle bp n f => [2; bp; Z.of_nat n; f]
  | OpObs k bp => [5; k; bp]
  | Award p => [3; Z.of_nat p]
  | Fin => [4]
  end.

Definition cfgz (b m k : Z) (own ownheld : bool) : cfg := mkcfg (Z.to_nat b) (Z.to_nat m) k own ownheld.
Definition run (gs : list (cfg * list input)) : list (list Z) := map enc (games boot gs).
Definition out_eqb : list (list Z) -> list (list Z) -> bool := zss_eqb.
