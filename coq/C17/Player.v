(* C17/Player.v — executable model of mpf/config_players/show_player.py on top of the world of Model.v:
   the instance dictionary (context, key) -> running show, the actions play (through
   show_controller.replace_or_advance_show), stop, pause, resume, advance, step_back, update, and
   clear_context (what a mode does to its shows when it stops).  Definitions only.

   Domain: a play whose entry configures events_when_played / events_when_stopped (the first branch of
   replace_or_advance_show: the previous show of the key is always replaced) and, when the key holds a show
   that has not stopped, sync_ms 0 (the previous show is stopped at once; with sync_ms its stop is handed to
   the new show as start_callback: not modelled).  The keep / advance branches for an identical config without
   events are checked by the direct oracle of the prio suite only. *)
From Common Require Import Prelude.
From C17 Require Import Model.
Open Scope Z_scope.

Definition ckey := (Z * Z)%type.                 (* (context, key) *)
Definition ckey_eqb (a b : ckey) : bool := (fst a =? fst b) && (snd a =? snd b).

Record pstate := mkP {
  p_w : world;
  p_inst : list (ckey * Z);                      (* ShowPlayer.instances[context]['show_player'][key] = show *)
  p_hist : list (Z * ckey)                       (* every show ever started through the player, and where *)
}.

Fixpoint lookup (k : ckey) (inst : list (ckey * Z)) : option Z :=
  match inst with
  | [] => None
  | (k', v) :: inst' => if ckey_eqb k k' then Some v else lookup k inst'
  end.
Definition unbind (k : ckey) (inst : list (ckey * Z)) : list (ckey * Z) :=
  filter (fun e => negb (ckey_eqb k (fst e))) inst.
Definition bind (k : ckey) (v : Z) (inst : list (ckey * Z)) : list (ckey * Z) := (k, v) :: unbind k inst.

Inductive pact :=
| APlay (slot : Z) (c : cfg)        (* action play; [slot] = the id the new RunningShow gets *)
| AStop | APause | AResume | AAdvance | AStepBack
| AUpdate (sp man : Z).

(* an action that is delivered to the show bound to the key, if there is one *)
Definition deliver (now : Z) (k : ckey) (o : op) (p : pstate) : pstate :=
  match lookup k (p_inst p) with
  | Some sid => mkP (world_op now sid o (p_w p)) (p_inst p) (p_hist p)
  | None => p
  end.

(* ShowPlayer._update_show -> self._actions[action] at time [now] for (context, key) k *)
Definition p_act (now : Z) (k : ckey) (a : pact) (p : pstate) : pstate :=
  match a with
  | APlay slot c =>
      (* replace_or_advance_show: the previous show of the key (if it has not stopped) is stopped, the new
         one played and bound to the key *)
      let w1 := match lookup k (p_inst p) with
                | Some old => world_op now old Stop (p_w p)
                | None => p_w p
                end in
      mkP (world_play now slot c w1) (bind k slot (p_inst p)) ((slot, k) :: p_hist p)
  | AStop =>
      match lookup k (p_inst p) with
      | Some sid => mkP (world_op now sid Stop (p_w p)) (unbind k (p_inst p)) (p_hist p)
      | None => p
      end
  | APause => deliver now k Pause p
  | AResume => deliver now k Resume p
  | AAdvance => deliver now k (Advance 1) p
  | AStepBack => deliver now k (StepBack 1) p
  | AUpdate sp man => deliver now k (Update sp man) p
  end.

(* ShowPlayer.clear_context(context): every show of the context is stopped, its dictionary reset *)
Fixpoint stop_all (now ctx : Z) (inst : list (ckey * Z)) (w : world) : world :=
  match inst with
  | [] => w
  | (k, sid) :: inst' =>
      stop_all now ctx inst' (if fst k =? ctx then world_op now sid Stop w else w)
  end.
Definition p_clear (now ctx : Z) (p : pstate) : pstate :=
  mkP (stop_all now ctx (p_inst p) (p_w p)) (filter (fun e => negb (fst (fst e) =? ctx)) (p_inst p)) (p_hist p).

(* the clock under the player: a show's timer / a light's removal delay expires *)
Definition p_tick (d sid : Z) (p : pstate) : pstate := mkP (world_op d sid Fire (p_w p)) (p_inst p) (p_hist p).
Definition p_fade (d k key : Z) (p : pstate) : pstate := mkP (world_fire d k key (p_w p)) (p_inst p) (p_hist p).

(* ---- correspondence run: the request sequences of the sched suite through the player; show [sid] is played
   under key (0, sid) into slot sid ---------------------------------------------------------------------- *)
Definition uop_act (cfgs : list cfg) (sid : Z) (u : uop) : option pact :=
  match u with
  | UPlay => match nth_error cfgs (Z.to_nat sid) with Some c => Some (APlay sid c) | None => None end
  | UOp Stop => Some AStop
  | UOp Pause => Some APause
  | UOp Resume => Some AResume
  | UOp (Advance _) => Some AAdvance
  | UOp (StepBack _) => Some AStepBack
  | UOp (Update sp man) => Some (AUpdate sp man)
  | UOp Fire => None
  | UProbe => None
  end.

Fixpoint prun_ops (fuel : nat) (cfgs : list cfg) (ops : list (Z * Z * uop)) (p : pstate)
         (snaps : list (list (list Z))) : pstate * list (list (list Z)) :=
  match ops with
  | [] => (p, snaps)
  | (t, sid, u) :: ops' =>
      let p1 := mkP (advance_to fuel t (p_w p)) (p_inst p) (p_hist p) in
      let p2 := match uop_act cfgs sid u with
                | Some a => p_act t (0, sid) a p1
                | None => p1
                end in
      prun_ops fuel cfgs ops' p2 (snaps ++ [snapshot (p_w p2)])
  end.

Definition prun (i : case_in) : case_out :=
  let '(cfgs, fades, ops, horizon, fuel) := i in
  let w0 := mkW (map (fun _ => None) cfgs) (map (fun f => mkLight f [] []) fades) [] in
  let '(p1, snaps) := prun_ops (Z.to_nat fuel) cfgs ops (mkP w0 [] []) [] in
  let w2 := advance_to (Z.to_nat fuel) horizon (p_w p1) in
  let sids := zrange 0 (length cfgs) in
  (map (fun sid => filter (fun r => row_of sid r && (row_kind r <? 10)) (w_trace w2)) sids,
   map (fun sid => filter (fun r => row_of sid r && is_light_row r) (w_trace w2)) sids,
   map (fun sid => quiet_fade_rows (filter (fun r => row_of sid r && is_light_row r) (w_trace w2))
                                   (filter (fun r => row_of sid r && is_fade_row r) (w_trace w2))) sids,
   snaps ++ [snapshot w2],
   map show_final (w_shows w2)).
